// SPDX-FileCopyrightText: 2026 The Pion community <https://pion.ly>
// SPDX-License-Identifier: MIT

//go:build !js

package ice

import (
	"context"
	"fmt"
	"net"
	"sync"
	"testing"
	"time"

	"github.com/pion/stun/v3"
	"github.com/pion/transport/v4"
	"github.com/pion/transport/v4/stdnet"
	"github.com/stretchr/testify/require"
)

// f1TrackingNet wraps a transport.Net and records every socket handed out by
// ListenUDP together with whether Close was called on it.
type f1TrackingNet struct {
	transport.Net

	mu    sync.Mutex
	socks []*f1TrackedUDPConn
}

type f1TrackedUDPConn struct {
	transport.UDPConn

	local  string
	mu     sync.Mutex
	closed bool
}

func (c *f1TrackedUDPConn) Close() error {
	c.mu.Lock()
	c.closed = true
	c.mu.Unlock()

	return c.UDPConn.Close()
}

func (c *f1TrackedUDPConn) isClosed() bool {
	c.mu.Lock()
	defer c.mu.Unlock()

	return c.closed
}

func (n *f1TrackingNet) ListenUDP(network string, laddr *net.UDPAddr) (transport.UDPConn, error) {
	conn, err := n.Net.ListenUDP(network, laddr)
	if err != nil {
		return nil, err
	}

	tracked := &f1TrackedUDPConn{UDPConn: conn, local: conn.LocalAddr().String()}
	n.mu.Lock()
	n.socks = append(n.socks, tracked)
	n.mu.Unlock()

	return tracked, nil
}

func (n *f1TrackingNet) snapshot() (opened int, stillOpen []string) {
	n.mu.Lock()
	defer n.mu.Unlock()

	for _, s := range n.socks {
		if !s.isClosed() {
			stillOpen = append(stillOpen, s.local)
		}
	}

	return len(n.socks), stillOpen
}

// forceCloseAll closes whatever the code under test left open, so that the
// test itself never leaks a descriptor into the rest of the test binary.
func (n *f1TrackingNet) forceCloseAll() {
	n.mu.Lock()
	defer n.mu.Unlock()

	for _, s := range n.socks {
		if !s.isClosed() {
			_ = s.UDPConn.Close()
		}
	}
}

// TestFindingF1SrflxSocketClosedWhenGatherCancelled: a gathering cycle is
// cancelled by Restart while the server-reflexive STUN request is outstanding.
// The STUN reply then arrives, addCandidate refuses the candidate because the
// cycle's context is cancelled, and the UDP socket that gatherCandidatesSrflx
// opened for that STUN URL must be closed on that error path.
func TestFindingF1SrflxSocketClosedWhenGatherCancelled(t *testing.T) {
	const wait = 5 * time.Second

	// Fake STUN server on loopback: reports each Binding request, then
	// withholds the Binding success response until `release` is closed.
	server, err := net.ListenUDP("udp4", &net.UDPAddr{IP: net.IPv4(127, 0, 0, 1)}) //nolint:noctx
	require.NoError(t, err)
	serverAddr, ok := server.LocalAddr().(*net.UDPAddr)
	require.True(t, ok)

	gotRequest := make(chan net.Addr, 8)
	release := make(chan struct{})
	replied := make(chan error, 8)
	serverDone := make(chan struct{})
	go func() {
		defer close(serverDone)
		buf := make([]byte, 1500)
		for {
			n, from, readErr := server.ReadFrom(buf)
			if readErr != nil {
				return
			}
			req := &stun.Message{Raw: append([]byte(nil), buf[:n]...)}
			if req.Decode() != nil || req.Type != stun.BindingRequest {
				continue
			}
			gotRequest <- from
			<-release

			udpFrom, _ := from.(*net.UDPAddr) //nolint:forcetypeassert
			res, buildErr := stun.Build(
				stun.NewTransactionIDSetter(req.TransactionID),
				stun.BindingSuccess,
				&stun.XORMappedAddress{IP: udpFrom.IP, Port: udpFrom.Port},
				stun.Fingerprint,
			)
			if buildErr != nil {
				replied <- buildErr

				continue
			}
			_, writeErr := server.WriteTo(res.Raw, from)
			replied <- writeErr
		}
	}()
	defer func() {
		_ = server.Close()
		<-serverDone
	}()

	base, err := stdnet.NewNet()
	require.NoError(t, err)
	tracking := &f1TrackingNet{Net: base}
	defer tracking.forceCloseAll()

	agent, err := NewAgentWithOptions(
		WithNet(tracking),
		WithNetworkTypes([]NetworkType{NetworkTypeUDP4}),
		WithCandidateTypes([]CandidateType{CandidateTypeServerReflexive}),
		WithMulticastDNSMode(MulticastDNSModeDisabled),
		WithUrls([]*stun.URI{{
			Scheme: stun.SchemeTypeSTUN,
			Host:   serverAddr.IP.String(),
			Port:   serverAddr.Port,
			Proto:  stun.ProtoTypeUDP,
		}}),
		// Much longer than anything in this test: the STUN transaction must
		// end because the reply arrives, not because of a timeout.
		WithSTUNGatherTimeout(30*time.Second),
	)
	require.NoError(t, err)
	agentClosed := false
	defer func() {
		if !agentClosed {
			_ = agent.Close()
		}
	}()

	var candMu sync.Mutex
	var candidates []string
	require.NoError(t, agent.OnCandidate(func(c Candidate) {
		if c != nil {
			candMu.Lock()
			candidates = append(candidates, c.String())
			candMu.Unlock()
		}
	}))

	opened, _ := tracking.snapshot()
	require.Zero(t, opened, "no socket is opened through ListenUDP before gathering")

	require.NoError(t, agent.GatherCandidates())

	// 1. The srflx gatherer has opened its socket and its STUN request is outstanding.
	var clientAddr net.Addr
	select {
	case clientAddr = <-gotRequest:
	case <-time.After(wait):
		require.FailNow(t, "STUN server never received the Binding request")
	}
	opened, stillOpen := tracking.snapshot()
	require.Equal(t, 1, opened, "exactly one srflx socket was opened")
	require.Len(t, stillOpen, 1)
	t.Logf("srflx socket %s has a STUN request outstanding (seen by server from %s)", stillOpen[0], clientAddr)

	// 2. Cancel the gathering cycle while the request is outstanding.
	var oldGatherDone <-chan struct{}
	require.NoError(t, agent.loop.Run(agent.loop, func(context.Context) {
		oldGatherDone = agent.gatherCandidateDone
	}))
	require.NotNil(t, oldGatherDone)
	require.NoError(t, agent.Restart("", ""))

	select {
	case <-oldGatherDone:
		require.FailNow(t, "old gather goroutine finished before the STUN reply was released")
	default:
	}

	// 3. Now let the STUN reply through and wait for the old gather goroutine to end.
	close(release)
	select {
	case writeErr := <-replied:
		require.NoError(t, writeErr)
	case <-time.After(wait):
		require.FailNow(t, "STUN server did not send its reply")
	}
	select {
	case <-oldGatherDone:
	case <-time.After(wait):
		require.FailNow(t, "old gather goroutine did not finish after the STUN reply")
	}

	candMu.Lock()
	require.Empty(t, candidates, "the cancelled cycle must not surface a candidate")
	candMu.Unlock()
	locals, err := agent.GetLocalCandidates()
	require.NoError(t, err)
	require.Empty(t, locals, "the cancelled cycle must not add a local candidate")

	// 4. Nothing owns the socket any more (no candidate was created for it), so it must be closed.
	opened, stillOpen = tracking.snapshot()
	t.Logf("after cancelled gather cycle: opened=%d stillOpen=%v", opened, stillOpen)

	// For the record: closing the agent does not reclaim it either.
	require.NoError(t, agent.Close())
	agentClosed = true
	_, stillOpenAfterClose := tracking.snapshot()
	t.Logf("after agent.Close(): stillOpen=%v", stillOpenAfterClose)

	require.Empty(t, stillOpen, fmt.Sprintf(
		"%d of %d sockets opened through ListenUDP were never closed after the gather cycle was cancelled "+
			"(still open after agent.Close(): %v)", len(stillOpen), opened, stillOpenAfterClose))
}
