// SPDX-FileCopyrightText: 2026 The Pion community <https://pion.ly>
// SPDX-License-Identifier: MIT

//go:build !js

package ice

// Finding F14: Agent fields that are written inside the agent task loop but read
// (or written) by gathering goroutines outside of it.
//
// Each test only "fails" under the race detector:
//
//	go test -race -run '^TestFindingF14Urls$' .
//	go test -race -run '^TestFindingF14LocalUfrag$' .
//	go test -race -run '^TestFindingF14LastKnownInterfaces$' .

import (
	"errors"
	"net"
	"sync"
	"testing"
	"time"

	"github.com/pion/stun/v3"
	"github.com/pion/transport/v4"
	"github.com/pion/transport/v4/stdnet"
	"github.com/stretchr/testify/require"
)

// TestFindingF14Urls: UpdateOptions(WithUrls(...)) replaces Agent.urls on the loop
// goroutine while the srflx gather goroutine of a running GatherCandidates cycle
// reads Agent.urls (gather.go, gatherServerReflexiveCandidates closure) without
// any synchronisation.
func TestFindingF14Urls(t *testing.T) {
	// A "STUN server" that never answers, so that the gather cycle stays in flight
	// (blocked in the STUN transaction until stunGatherTimeout) while the
	// application updates the URL list.
	silent, err := net.ListenUDP("udp4", &net.UDPAddr{IP: net.IPv4(127, 0, 0, 1)})
	require.NoError(t, err)
	defer silent.Close() //nolint:errcheck
	port := silent.LocalAddr().(*net.UDPAddr).Port //nolint:forcetypeassert

	urlA := &stun.URI{Scheme: stun.SchemeTypeSTUN, Host: "127.0.0.1", Port: port, Proto: stun.ProtoTypeUDP}
	urlB := &stun.URI{Scheme: stun.SchemeTypeSTUN, Host: "127.0.0.1", Port: port + 1, Proto: stun.ProtoTypeUDP}

	agent, err := NewAgentWithOptions(
		WithNetworkTypes([]NetworkType{NetworkTypeUDP4}),
		WithCandidateTypes([]CandidateType{CandidateTypeServerReflexive}),
		WithUrls([]*stun.URI{urlA}),
		WithSTUNGatherTimeout(200*time.Millisecond),
	)
	require.NoError(t, err)
	defer func() { require.NoError(t, agent.Close()) }()

	gatherDone := make(chan struct{}, 1)
	require.NoError(t, agent.OnCandidate(func(c Candidate) {
		if c == nil {
			select {
			case gatherDone <- struct{}{}:
			default:
			}
		}
	}))

	// Two orderings are exercised, both public-API only:
	//  - update shortly after GatherCandidates (gather goroutine already read a.urls,
	//    but nothing orders that read before the loop-side write);
	//  - update racing with the start of the gather goroutine.
	for i := 0; i < 10; i++ {
		require.NoError(t, agent.GatherCandidates())
		if i%2 == 0 {
			time.Sleep(20 * time.Millisecond)
		}
		next := []*stun.URI{urlB}
		if i%2 == 1 {
			next = []*stun.URI{urlA}
		}
		require.NoError(t, agent.UpdateOptions(WithUrls(next)))

		select {
		case <-gatherDone:
		case <-time.After(3 * time.Second):
			require.Fail(t, "gathering did not complete")
		}
		require.NoError(t, agent.Restart("", ""))
	}
}

// f14SlowTCPMux is a TCPMux test fake whose GetConnByUfrag takes a while and then
// fails; the host gatherer then evaluates a.localUfrag again for its Warnf call.
type f14SlowTCPMux struct {
	delay   time.Duration
	entered chan struct{}
	once    sync.Once
}

var errF14NoConn = errors.New("f14: no conn")

func (m *f14SlowTCPMux) Close() error { return nil }

func (m *f14SlowTCPMux) GetConnByUfrag(string, bool, net.IP) (net.PacketConn, error) {
	m.once.Do(func() { close(m.entered) })
	time.Sleep(m.delay) // no happens-before edge

	return nil, errF14NoConn
}

func (m *f14SlowTCPMux) RemoveConnByUfrag(string) {}

// TestFindingF14LocalUfrag: Restart() rewrites Agent.localUfrag on the loop goroutine
// while the host gather goroutine of the (cancelled, but still running) previous
// cycle reads Agent.localUfrag around its TCPMux calls (gather.go,
// gatherCandidatesLocal).
func TestFindingF14LocalUfrag(t *testing.T) {
	for i := 0; i < 5; i++ {
		mux := &f14SlowTCPMux{delay: 100 * time.Millisecond, entered: make(chan struct{})}

		agent, err := NewAgentWithOptions(
			WithNetworkTypes([]NetworkType{NetworkTypeTCP4}),
			WithCandidateTypes([]CandidateType{CandidateTypeHost}),
			WithTCPMux(mux),
			WithIncludeLoopback(),
		)
		require.NoError(t, err)
		require.NoError(t, agent.OnCandidate(func(Candidate) {}))

		require.NoError(t, agent.GatherCandidates())

		// The host gatherer is now inside tcpMux.GetConnByUfrag(a.localUfrag, ...).
		select {
		case <-mux.entered:
		case <-time.After(3 * time.Second):
			require.Fail(t, "host gatherer never reached the TCPMux")
		}

		// ICE restart: writes a.localUfrag in the loop. The gatherer wakes up later and
		// reads a.localUfrag again (Warnf arguments, next GetConnByUfrag call).
		require.NoError(t, agent.Restart("", ""))

		time.Sleep(250 * time.Millisecond) // let the stale gatherer finish its iteration(s)
		require.NoError(t, agent.Close())
	}
}

// f14SlowNet is a transport.Net whose Interfaces() is slow, as on hosts with many
// interfaces / a slow netlink dump, so the network monitor spends measurable time
// in detectNetworkChanges.
type f14SlowNet struct {
	transport.Net
	delay time.Duration
}

func (n *f14SlowNet) Interfaces() ([]*transport.Interface, error) {
	time.Sleep(n.delay)

	return n.Net.Interfaces() //nolint:wrapcheck
}

// TestFindingF14LastKnownInterfaces: with GatherContinually, gatherCandidates()
// (gather goroutine of the new cycle) writes into the Agent.lastKnownInterfaces map
// while the monitoring goroutine of the previous cycle is reading the map and
// replacing the field in detectNetworkChanges().
func TestFindingF14LastKnownInterfaces(t *testing.T) {
	base, err := stdnet.NewNet()
	require.NoError(t, err)

	agent, err := NewAgentWithOptions(
		WithNet(&f14SlowNet{Net: base, delay: 2 * time.Millisecond}),
		WithNetworkTypes([]NetworkType{NetworkTypeUDP4}),
		WithCandidateTypes([]CandidateType{CandidateTypeHost}),
		WithContinualGatheringPolicy(GatherContinually),
		WithNetworkMonitorInterval(time.Millisecond),
	)
	require.NoError(t, err)
	defer func() { require.NoError(t, agent.Close()) }()
	require.NoError(t, agent.OnCandidate(func(Candidate) {}))

	for i := 0; i < 100; i++ {
		require.NoError(t, agent.GatherCandidates())
		// Let the cycle finish its initial gather and start monitoring.
		time.Sleep(15 * time.Millisecond)
		// ICE restart cancels the cycle; its monitor may be inside detectNetworkChanges.
		require.NoError(t, agent.Restart("", ""))
	}
}
