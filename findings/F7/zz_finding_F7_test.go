// SPDX-FileCopyrightText: 2026 The Pion community <https://pion.ly>
// SPDX-License-Identifier: MIT

//go:build !js

package ice

import (
	"context"
	"net"
	"net/netip"
	"testing"
	"time"

	"github.com/pion/stun/v3"
	"github.com/stretchr/testify/require"
)

// f7Wire is a net.PacketConn that records every datagram written to it.
// Nothing is ever sent on a real network: the test moves the recorded
// datagrams between the two agents by hand, which makes the ordering (and the
// one datagram that is lost) fully deterministic.
type f7Wire struct {
	sent []f7Datagram
}

type f7Datagram struct {
	raw []byte
	dst net.Addr
}

func (w *f7Wire) ReadFrom([]byte) (int, net.Addr, error) { return 0, nil, nil }
func (w *f7Wire) WriteTo(b []byte, addr net.Addr) (int, error) {
	w.sent = append(w.sent, f7Datagram{raw: append([]byte(nil), b...), dst: addr})

	return len(b), nil
}
func (w *f7Wire) Close() error                     { return nil }
func (w *f7Wire) LocalAddr() net.Addr              { return nil }
func (w *f7Wire) SetDeadline(time.Time) error      { return nil }
func (w *f7Wire) SetReadDeadline(time.Time) error  { return nil }
func (w *f7Wire) SetWriteDeadline(time.Time) error { return nil }

// drain returns everything written since the last drain, decoded as STUN.
func (w *f7Wire) drain(t *testing.T) []*stun.Message {
	t.Helper()

	out := make([]*stun.Message, 0, len(w.sent))
	for _, d := range w.sent {
		m := &stun.Message{Raw: d.raw}
		require.NoError(t, m.Decode())
		out = append(out, m)
	}
	w.sent = nil

	return out
}

func f7Split(t *testing.T, msgs []*stun.Message) (requests, successes []*stun.Message) {
	t.Helper()

	for _, m := range msgs {
		switch m.Type.Class {
		case stun.ClassRequest:
			requests = append(requests, m)
		case stun.ClassSuccessResponse:
			successes = append(successes, m)
		default:
			require.FailNowf(t, "unexpected STUN class", "%s", m.Type)
		}
	}

	return requests, successes
}

// TestFindingF7DeferredRenominationIgnoredByPriority drives two real Agents
// (one controlling, one controlled, renomination enabled on both) through:
//
//  1. pair A (host/host, higher pair priority) is checked in both directions
//     and nominated with nomination value 1: both agents select A;
//  2. the controlling agent checks pair B (relay/host, lower pair priority);
//     the controlled agent answers, but its own triggered check on B is lost,
//     so B is not yet valid on the controlled side;
//  3. the controlling agent renominates B with nomination value 2. The
//     controlled agent accepts the value (lastNomination becomes 2), answers
//     with a success response and defers the nomination
//     (nominateOnBindingSuccess) because B has no successful check of its own.
//     The controlling agent receives the success and switches to B;
//  4. the controlled agent's triggered check on B now succeeds.
//
// With "latest nomination wins regardless of priority" the controlled agent
// must now also be on B.
func TestFindingF7DeferredRenominationIgnoredByPriority(t *testing.T) { //nolint:maintidx
	var nextNomination uint32
	// The controlling agent never nominates on its own here (acceptance wait of
	// an hour): every nomination in this test is an explicit, valued one issued
	// through renominateCandidate, so the values on the wire are exactly 1 and 2.
	controlling, err := NewAgentWithOptions(
		WithRenomination(func() uint32 {
			nextNomination++

			return nextNomination
		}),
		WithHostAcceptanceMinWait(time.Hour),
		WithRelayAcceptanceMinWait(time.Hour),
	)
	require.NoError(t, err)
	defer func() { require.NoError(t, controlling.Close()) }()

	controlled, err := NewAgentWithOptions(WithRenomination(DefaultNominationValueGenerator()))
	require.NoError(t, err)
	defer func() { require.NoError(t, controlled.Close()) }()

	onControlling := func(f func()) {
		t.Helper()
		require.NoError(t, controlling.loop.Run(controlling.loop, func(context.Context) { f() }))
	}
	onControlled := func(f func()) {
		t.Helper()
		require.NoError(t, controlled.loop.Run(controlled.loop, func(context.Context) { f() }))
	}

	host := func(addr string, port int) *CandidateHost {
		t.Helper()
		c, cerr := NewCandidateHost(&CandidateHostConfig{Network: "udp", Address: addr, Port: port, Component: 1})
		require.NoError(t, cerr)

		return c
	}
	relay := func(addr string, port int) *CandidateRelay {
		t.Helper()
		c, cerr := NewCandidateRelay(&CandidateRelayConfig{
			Network: "udp", Address: addr, Port: port, Component: 1, RelAddr: "10.0.0.1", RelPort: 1000,
		})
		require.NoError(t, cerr)

		return c
	}

	// Controlling agent: a host candidate and a relay candidate.
	// Controlled agent: one host candidate.
	wireCtlHost, wireCtlRelay, wireCtd := &f7Wire{}, &f7Wire{}, &f7Wire{}

	ctlHost, ctlRelay := host("10.0.0.1", 1000), relay("10.0.0.3", 3000)
	ctlHost.conn, ctlRelay.conn = wireCtlHost, wireCtlRelay
	ctlRemote := host("10.0.0.2", 2000) // the controlled agent, as signalled to the controlling agent

	ctdHost := host("10.0.0.2", 2000)
	ctdHost.conn = wireCtd
	ctdRemoteHost, ctdRemoteRelay := host("10.0.0.1", 1000), relay("10.0.0.3", 3000)

	addrCtlHost, addrCtlRelay, addrCtd := ctlHost.addrPort(), ctlRelay.addrPort(), ctdHost.addrPort()

	var ctlPairA, ctlPairB, pairA, pairB *CandidatePair

	onControlling(func() {
		controlling.isControlling.Store(true)
		controlling.setSelector()
		controlling.localCandidates[NetworkTypeUDP4] = []Candidate{ctlHost, ctlRelay}
		require.True(t, controlling.addRemoteCandidate(ctlRemote)) //nolint:contextcheck
		ctlPairA = controlling.findPair(ctlHost, ctlRemote)
		ctlPairB = controlling.findPair(ctlRelay, ctlRemote)
	})
	onControlled(func() {
		controlled.isControlling.Store(false)
		controlled.setSelector()
		controlled.localCandidates[NetworkTypeUDP4] = []Candidate{ctdHost}
		require.True(t, controlled.addRemoteCandidate(ctdRemoteHost))  //nolint:contextcheck
		require.True(t, controlled.addRemoteCandidate(ctdRemoteRelay)) //nolint:contextcheck
		pairA = controlled.findPair(ctdHost, ctdRemoteHost)
		pairB = controlled.findPair(ctdHost, ctdRemoteRelay)
	})
	require.NotNil(t, ctlPairA)
	require.NotNil(t, ctlPairB)
	require.NotNil(t, pairA)
	require.NotNil(t, pairB)
	require.IsType(t, &controllingSelector{}, controlling.getSelector())
	require.IsType(t, &controlledSelector{}, controlled.getSelector())

	// Credentials: each side's remote credentials are the other side's local ones.
	onControlling(func() {
		controlling.remoteUfrag, controlling.remotePwd = controlled.localUfrag, controlled.localPwd
	})
	onControlled(func() {
		controlled.remoteUfrag, controlled.remotePwd = controlling.localUfrag, controlling.localPwd
	})

	require.Greater(t, pairA.priority(), pairB.priority(), "A must be the higher priority pair")

	// Delivery helpers: feed a datagram into the real inbound STUN path
	// (username / MESSAGE-INTEGRITY checks, remote candidate lookup,
	// selector dispatch).
	toControlled := func(m *stun.Message, from netip.AddrPort) {
		t.Helper()
		onControlled(func() { controlled.handleInbound(m, ctdHost, from) }) //nolint:contextcheck
	}
	toControlling := func(m *stun.Message, local Candidate) {
		t.Helper()
		onControlling(func() { controlling.handleInbound(m, local, addrCtd) }) //nolint:contextcheck
	}
	one := func(msgs []*stun.Message) *stun.Message {
		t.Helper()
		require.Len(t, msgs, 1)

		return msgs[0]
	}

	// ---- 1. Pair A: ordinary check both ways, then nomination value 1. ----
	onControlling(func() { controlling.getSelector().PingCandidate(ctlHost, ctlRemote) })
	toControlled(one(wireCtlHost.drain(t)), addrCtlHost)

	reqs, succs := f7Split(t, wireCtd.drain(t)) // success response + triggered check on A
	toControlling(one(succs), ctlHost)
	toControlling(one(reqs), ctlHost)
	toControlled(one(wireCtlHost.drain(t)), addrCtlHost) // success for the controlled agent's own check on A
	require.Equal(t, CandidatePairStateSucceeded, ctlPairA.state)
	require.Equal(t, CandidatePairStateSucceeded, pairA.state)

	onControlling(func() { require.NoError(t, controlling.renominateCandidate(ctlHost, ctlRemote)) })
	nominateA := one(wireCtlHost.drain(t))
	var nomination NominationAttribute
	require.NoError(t, nomination.GetFromWithType(nominateA, controlling.nominationAttribute))
	require.Equal(t, uint32(1), nomination.Value)
	require.True(t, nominateA.Contains(stun.AttrUseCandidate))
	toControlled(nominateA, addrCtlHost)
	toControlling(one(wireCtd.drain(t)), ctlHost) // only a success response: A is valid and selected

	require.Same(t, ctlPairA, controlling.getSelectedPair(), "controlling agent selects A after nomination 1")
	require.Same(t, pairA, controlled.getSelectedPair(), "controlled agent selects A after nomination 1")

	// ---- 2. Pair B: the controlling agent's check succeeds, the controlled
	//         agent's triggered check is lost. ----
	onControlling(func() { controlling.getSelector().PingCandidate(ctlRelay, ctlRemote) })
	toControlled(one(wireCtlRelay.drain(t)), addrCtlRelay)
	reqs, succs = f7Split(t, wireCtd.drain(t))
	toControlling(one(succs), ctlRelay)
	lostCheck := one(reqs) // the controlled agent's triggered check on B: dropped on the floor
	require.Equal(t, CandidatePairStateSucceeded, ctlPairB.state)
	require.NotEqual(t, CandidatePairStateSucceeded, pairB.state)

	// ---- 3. Renomination of B with value 2 while B is not yet valid on the
	//         controlled side. ----
	onControlling(func() { require.NoError(t, controlling.renominateCandidate(ctlRelay, ctlRemote)) })
	nominateB := one(wireCtlRelay.drain(t))
	require.NoError(t, nomination.GetFromWithType(nominateB, controlling.nominationAttribute))
	require.Equal(t, uint32(2), nomination.Value)
	require.True(t, nominateB.Contains(stun.AttrUseCandidate))
	toControlled(nominateB, addrCtlRelay)

	ctdSelector, ok := controlled.getSelector().(*controlledSelector)
	require.True(t, ok)
	require.NotNil(t, ctdSelector.lastNomination)
	require.Equal(t, uint32(2), *ctdSelector.lastNomination, "controlled agent accepted nomination value 2")
	require.True(t, pairB.nominateOnBindingSuccess, "nomination of B is deferred until B's own check succeeds")
	require.Same(t, pairA, controlled.getSelectedPair())

	reqs, succs = f7Split(t, wireCtd.drain(t)) // success for the nomination + a new triggered check on B
	toControlling(one(succs), ctlRelay)
	require.Same(t, ctlPairB, controlling.getSelectedPair(),
		"controlling agent switches to B when its valued nomination succeeds")

	// ---- 4. The controlled agent's own check on B succeeds. ----
	toControlling(one(reqs), ctlRelay)
	toControlled(one(wireCtlRelay.drain(t)), addrCtlRelay)
	require.Equal(t, CandidatePairStateSucceeded, pairB.state, "B's own check succeeded on the controlled side")
	// The success response matched (and consumed) its pending transaction; only the lost check is left.
	require.Len(t, controlled.pendingBindingRequests, 1)
	require.Equal(t, lostCheck.TransactionID, controlled.pendingBindingRequests[0].transactionID)

	name := func(p, a, b *CandidatePair) string {
		switch p {
		case a:
			return "A (host, higher priority)"
		case b:
			return "B (relay, lower priority)"
		case nil:
			return "<none>"
		default:
			return "<unknown pair>"
		}
	}
	t.Logf("pair priorities on the controlled side: A=%d B=%d", pairA.priority(), pairB.priority())
	t.Logf("controlling agent selected pair: %s", name(controlling.getSelectedPair(), ctlPairA, ctlPairB))
	t.Logf("controlled  agent selected pair: %s", name(controlled.getSelectedPair(), pairA, pairB))

	require.Truef(t, controlled.getSelectedPair() == pairB,
		"latest nomination (value 2, pair B) must win on the controlled side; "+
			"controlled agent is on %s, controlling agent is on %s",
		name(controlled.getSelectedPair(), pairA, pairB), name(controlling.getSelectedPair(), ctlPairA, ctlPairB))
}
