package ice

import (
	"net"
	"sync/atomic"
	"testing"
	"time"

	"github.com/pion/logging"
	"github.com/stretchr/testify/require"
)

type f11Conn struct {
	net.Conn
	closed   chan struct{}
	inWrite  chan struct{}
	finished atomic.Bool
}

func (c *f11Conn) Write(b []byte) (int, error) {
	select {
	case c.inWrite <- struct{}{}:
	default:
	}
	<-c.closed
	time.Sleep(200 * time.Millisecond)
	c.finished.Store(true)

	return 0, net.ErrClosed
}

func (c *f11Conn) Close() error {
	select {
	case <-c.closed:
	default:
		close(c.closed)
	}

	return nil
}

// The buffered writer goroutine must have ended when Close returns.
func TestF11BufferedConnCloseWaitsForWriter(t *testing.T) {
	fc := &f11Conn{closed: make(chan struct{}), inWrite: make(chan struct{}, 1)}
	bc := newBufferedConn(fc, 1024, logging.NewDefaultLoggerFactory().NewLogger("test"))
	_, err := bc.Write([]byte{0, 1, 42})
	require.NoError(t, err)
	select {
	case <-fc.inWrite:
	case <-time.After(2 * time.Second):
		t.Fatal("writer did not start writing")
	}
	require.NoError(t, bc.Close())
	require.True(t, fc.finished.Load(), "the writer goroutine was still running when Close returned")
}
