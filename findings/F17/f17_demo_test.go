package ice

import (
	"net"
	"sync/atomic"
	"testing"
	"time"

	"github.com/pion/transport/v4"
	"github.com/pion/transport/v4/stdnet"
	"github.com/stretchr/testify/require"
)

type f17Conn struct {
	transport.UDPConn
	closed *atomic.Int32
}

func (c *f17Conn) LocalAddr() net.Addr { return &net.IPAddr{IP: net.IPv4(127, 0, 0, 1)} }
func (c *f17Conn) Close() error        { c.closed.Add(1); return c.UDPConn.Close() }

type f17Net struct {
	transport.Net
	opened, closed atomic.Int32
}

func (n *f17Net) ListenUDP(network string, laddr *net.UDPAddr) (transport.UDPConn, error) {
	c, err := n.Net.ListenUDP(network, laddr)
	if err != nil {
		return nil, err
	}
	n.opened.Add(1)

	return &f17Conn{UDPConn: c, closed: &n.closed}, nil
}

func TestF17HostUDPSocketClosedWhenLocalAddrIsNotUDPAddr(t *testing.T) {
	base, err := stdnet.NewNet()
	require.NoError(t, err)
	nw := &f17Net{Net: base}

	agent, err := NewAgent(&AgentConfig{
		Net:              nw,
		NetworkTypes:     []NetworkType{NetworkTypeUDP4},
		CandidateTypes:   []CandidateType{CandidateTypeHost},
		IncludeLoopback:  true,
		MulticastDNSMode: MulticastDNSModeDisabled,
	})
	require.NoError(t, err)
	done := make(chan struct{})
	require.NoError(t, agent.OnCandidate(func(c Candidate) {
		if c == nil {
			close(done)
		}
	}))
	require.NoError(t, agent.GatherCandidates())
	select {
	case <-done:
	case <-time.After(5 * time.Second):
		t.Fatal("gathering did not complete")
	}
	require.NoError(t, agent.Close())
	require.Greater(t, nw.opened.Load(), int32(0))
	require.Equal(t, nw.opened.Load(), nw.closed.Load(), "every host socket opened must be closed")
}
