// SPDX-FileCopyrightText: 2026 The Pion community <https://pion.ly>
// SPDX-License-Identifier: MIT

//go:build !js

package ice

import (
	"net"
	"net/netip"
	"sync"
	"testing"
	"time"

	"github.com/pion/transport/v4"
	"github.com/pion/transport/v4/stdnet"
	"github.com/stretchr/testify/assert"
	"github.com/stretchr/testify/require"
)

// f13LinkLocalNet is a real stdnet whose Interfaces() reports exactly one
// interface that carries exactly one IPv6 link-local address.
type f13LinkLocalNet struct {
	transport.Net
	iface *transport.Interface
}

func (n *f13LinkLocalNet) Interfaces() ([]*transport.Interface, error) {
	return []*transport.Interface{n.iface}, nil
}

// newF13LinkLocalNet prefers a link-local address that really exists on the
// machine (so that the active TCP socket can really be bound) and falls back
// to a synthetic interface otherwise. addRemotePassiveTCPCandidate publishes
// the candidate in both cases.
func newF13LinkLocalNet(t *testing.T) *f13LinkLocalNet {
	t.Helper()

	base, err := stdnet.NewNet()
	require.NoError(t, err)

	sysIfaces, err := base.Interfaces()
	require.NoError(t, err)
	for _, sysIface := range sysIfaces {
		if sysIface.Flags&net.FlagUp == 0 || sysIface.Flags&net.FlagLoopback != 0 {
			continue
		}
		addrs, err := sysIface.Addrs()
		if err != nil {
			continue
		}
		for _, addr := range addrs {
			ipNet, ok := addr.(*net.IPNet)
			if !ok || ipNet.IP.To4() != nil || !ipNet.IP.IsLinkLocalUnicast() {
				continue
			}
			iface := transport.NewInterface(sysIface.Interface)
			iface.AddAddress(&net.IPNet{IP: ipNet.IP, Mask: ipNet.Mask})

			return &f13LinkLocalNet{Net: base, iface: iface}
		}
	}

	iface := transport.NewInterface(net.Interface{
		Index: 1,
		MTU:   1500,
		Name:  "f13test0",
		Flags: net.FlagUp,
	})
	iface.AddAddress(&net.IPNet{IP: net.ParseIP("fe80::f13:1"), Mask: net.CIDRMask(64, 128)})

	return &f13LinkLocalNet{Net: base, iface: iface}
}

func f13IsLinkLocal6(t *testing.T, address string) bool {
	t.Helper()

	addr, err := netip.ParseAddr(address)
	if err != nil {
		return false
	}

	return addr.Is6() && !addr.Is4In6() && (addr.IsLinkLocalUnicast() || addr.IsLinkLocalMulticast())
}

// RFC 8445 5.1.1.1: without mDNS, host candidates for IPv6 link-local
// addresses MUST NOT be handed out. gatherCandidatesLocal honours this (the
// UDP host candidate of the very same address is withheld), the active TCP
// candidate built in addRemotePassiveTCPCandidate does not.
func TestF13V1ActiveTCPLinkLocalCandidateIsPublished(t *testing.T) {
	defer func() {
		// the dial goroutine of the active TCP conn may outlive Close by a moment
		time.Sleep(50 * time.Millisecond)
	}()

	agent, err := NewAgent(&AgentConfig{
		Net:              newF13LinkLocalNet(t),
		CandidateTypes:   []CandidateType{CandidateTypeHost},
		NetworkTypes:     []NetworkType{NetworkTypeUDP6, NetworkTypeTCP6},
		MulticastDNSMode: MulticastDNSModeDisabled,
	})
	require.NoError(t, err)
	defer func() {
		require.NoError(t, agent.Close())
	}()

	var (
		mu        sync.Mutex
		published []Candidate
	)
	gatherDone := make(chan struct{})
	require.NoError(t, agent.OnCandidate(func(c Candidate) {
		if c == nil {
			close(gatherDone)

			return
		}
		mu.Lock()
		published = append(published, c)
		mu.Unlock()
	}))

	require.NoError(t, agent.GatherCandidates())
	select {
	case <-gatherDone:
	case <-time.After(10 * time.Second):
		require.FailNow(t, "gathering did not finish")
	}

	// Baseline: ordinary gathering withholds the link-local host candidate.
	mu.Lock()
	for _, c := range published {
		require.Falsef(t, f13IsLinkLocal6(t, c.Address()), "gathering published link-local candidate %s", c)
	}
	mu.Unlock()
	locals, err := agent.GetLocalCandidates()
	require.NoError(t, err)
	for _, c := range locals {
		require.Falsef(t, f13IsLinkLocal6(t, c.Address()), "GetLocalCandidates returned link-local candidate %s", c)
	}

	// The remote side signals a passive TCP candidate (nothing listens there).
	remote, err := NewCandidateHost(&CandidateHostConfig{
		Network:   "tcp",
		Address:   "2001:db8::f13",
		Port:      9,
		Component: ComponentRTP,
		TCPType:   TCPTypePassive,
	})
	require.NoError(t, err)
	require.NoError(t, agent.AddRemoteCandidate(remote))

	// AddRemoteCandidate is asynchronous; wait until it was taken in.
	require.Eventually(t, func() bool {
		remotes, rerr := agent.GetRemoteCandidates()

		return rerr == nil && len(remotes) == 1
	}, 5*time.Second, 10*time.Millisecond)
	// Let the candidate notifier drain.
	time.Sleep(200 * time.Millisecond)

	mu.Lock()
	snapshot := append([]Candidate{}, published...)
	mu.Unlock()
	for _, c := range snapshot {
		assert.Falsef(t, f13IsLinkLocal6(t, c.Address()),
			"OnCandidate received a link-local IPv6 candidate: %s", c.Marshal())
	}

	locals, err = agent.GetLocalCandidates()
	require.NoError(t, err)
	for _, c := range locals {
		assert.Falsef(t, f13IsLinkLocal6(t, c.Address()),
			"GetLocalCandidates returned a link-local IPv6 candidate: %s", c.Marshal())
	}
}
