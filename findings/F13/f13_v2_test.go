// SPDX-FileCopyrightText: 2026 The Pion community <https://pion.ly>
// SPDX-License-Identifier: MIT

//go:build !js

package ice

import (
	"strings"
	"sync"
	"testing"
	"time"

	"github.com/stretchr/testify/assert"
	"github.com/stretchr/testify/require"
)

// In MulticastDNSModeQueryAndGather every host candidate handed to the
// application must carry the agent's mDNS name, never the raw interface IP.
// gatherCandidatesLocal does that; the active TCP host candidate that
// addRemotePassiveTCPCandidate creates when a remote passive TCP candidate is
// added does not.
func TestF13V2ActiveTCPCandidateLeaksIPInMDNSGatherMode(t *testing.T) {
	defer func() {
		// the dial goroutine of the active TCP conn may outlive Close by a moment
		time.Sleep(50 * time.Millisecond)
	}()

	const mDNSName = "f13-v2-demo.local"

	agent, err := NewAgent(&AgentConfig{
		CandidateTypes:       []CandidateType{CandidateTypeHost},
		NetworkTypes:         []NetworkType{NetworkTypeUDP4, NetworkTypeTCP4},
		MulticastDNSMode:     MulticastDNSModeQueryAndGather,
		MulticastDNSHostName: mDNSName,
		IncludeLoopback:      true,
		InterfaceFilter:      func(name string) bool { return name == "lo" || name == "lo0" },
	})
	require.NoError(t, err)
	defer func() {
		require.NoError(t, agent.Close())
	}()

	var (
		mu        sync.Mutex
		published []Candidate
	)
	gatherDone := make(chan struct{})
	require.NoError(t, agent.OnCandidate(func(c Candidate) {
		if c == nil {
			close(gatherDone)

			return
		}
		mu.Lock()
		published = append(published, c)
		mu.Unlock()
	}))

	require.NoError(t, agent.GatherCandidates())
	select {
	case <-gatherDone:
	case <-time.After(10 * time.Second):
		require.FailNow(t, "gathering did not finish")
	}

	// Calibration through the public API only: the agent really is in mDNS
	// gather mode (it silently degrades to "disabled" when the multicast
	// sockets cannot be opened), i.e. ordinary gathering hides the IP.
	mu.Lock()
	gathered := append([]Candidate{}, published...)
	mu.Unlock()
	if len(gathered) == 0 {
		t.Skip("no loopback host candidate gathered on this machine")
	}
	for _, c := range gathered {
		if c.Address() != mDNSName {
			t.Skipf("mDNS gather mode is not effective on this machine (gathered %s)", c.Marshal())
		}
	}

	// The remote side signals a passive TCP candidate (nothing listens there).
	remote, err := NewCandidateHost(&CandidateHostConfig{
		Network:   "tcp",
		Address:   "127.0.0.1",
		Port:      9,
		Component: ComponentRTP,
		TCPType:   TCPTypePassive,
	})
	require.NoError(t, err)
	require.NoError(t, agent.AddRemoteCandidate(remote))

	// AddRemoteCandidate is asynchronous; wait until it was taken in.
	require.Eventually(t, func() bool {
		remotes, rerr := agent.GetRemoteCandidates()

		return rerr == nil && len(remotes) == 1
	}, 5*time.Second, 10*time.Millisecond)
	// Let the candidate notifier drain.
	time.Sleep(200 * time.Millisecond)

	mu.Lock()
	snapshot := append([]Candidate{}, published...)
	mu.Unlock()

	sawActiveTCP := false
	for _, c := range snapshot {
		if c.TCPType() == TCPTypeActive {
			sawActiveTCP = true
		}
		assert.Truef(t, strings.HasSuffix(c.Address(), ".local"),
			"OnCandidate received a host candidate exposing the raw IP in mDNS gather mode: %s", c.Marshal())
		assert.NotContainsf(t, c.Marshal(), "127.0.0.1",
			"marshalled candidate exposes the raw IP in mDNS gather mode: %s", c.Marshal())
	}
	require.True(t, sawActiveTCP, "expected an active TCP host candidate to be published")

	locals, err := agent.GetLocalCandidates()
	require.NoError(t, err)
	for _, c := range locals {
		assert.Truef(t, strings.HasSuffix(c.Address(), ".local"),
			"GetLocalCandidates returned a host candidate exposing the raw IP in mDNS gather mode: %s", c.Marshal())
	}
}
