#!/bin/sh
# usage: check.sh <property> [quick|thorough]
# Runs the static checker for one property against /repo's current working tree.
set -u
export GOFLAGS=-mod=mod GOPROXY=off GOWORK=off
unset GOTOOLCHAIN 2>/dev/null || true
HERE="$(cd "$(dirname "$0")" && pwd)"
PROP="$1"
TIER="${2:-${VERIF_TIER:-quick}}"
BIN="$HERE/bin/icecheck"
# (re)build the checker when the binary is missing or older than its sources
if [ ! -x "$BIN" ] || [ -n "$(find "$HERE/icecheck" -name '*.go' -newer "$BIN" 2>/dev/null | head -1)" ]; then
  (cd "$HERE/icecheck" && go build -o "$BIN" .) || { echo "VIOLATION property=$PROP replay=$HERE/evidence/violations/$PROP.json"; echo "checker build failed"; exit 1; }
fi
exec "$BIN" -property "$PROP" -tier "$TIER" -repo /repo -verif "$HERE"
