package main

// "For every element" loops: clean-up and migration loops that must apply an
// operation to every element of a collection. A conditional skip, a break or
// an early return in such a loop leaves part of the collection untreated —
// a class of change that looks like an optimisation and that no single-element
// test notices. The inventory is frozen (each entry confirmed by reading) and
// shared between the properties that rely on the loop.

import (
	"fmt"
	"go/ast"
	"go/token"
	"strings"
)

type forAllLoop struct {
	Props  []string // properties whose clause the loop supports
	Func   string   // function (or literal) containing the loop
	Over   string   // ranged expression: "Struct.field" or a local's type string
	Callee string   // suffix of the callee that must be applied to each element
	What   string
	// AllowSkip: canonical text fragments of conditions that may skip an element (none for most)
	AllowSkip []string
}

var forAllLoops = []forAllLoop{
	{[]string{"C08", "C09"}, "Agent.abortStartedCandidateIO", "[]*ice.candidateBase", ".abortIO", "every started candidate's blocked I/O is aborted when the agent closes", nil},
	{[]string{"C06"}, "Agent.replaceRemoteInLocalCaches", "[]ice.Candidate", ".replaceRemoteCandidateCacheValues", "every local candidate's validated-source cache is re-pointed to the superseding remote", nil},
	{[]string{"C12", "C13"}, "UDPMuxDefault.Close$1", "UDPMuxDefault.connsIPv4", ".Close", "closing the UDP mux closes every IPv4 connection", nil},
	{[]string{"C12", "C13"}, "UDPMuxDefault.Close$1", "UDPMuxDefault.connsIPv6", ".Close", "closing the UDP mux closes every IPv6 connection", nil},
	{[]string{"C15"}, "TCPMuxDefault.RemoveConnByUfrag", "[]*ice.tcpPacketConn", ".closeAndLogError|.Close", "every packet connection removed for the ufrag is closed", nil},
	{[]string{"C15", "C13"}, "tcpPacketConn.Close", "tcpPacketConn.conns", ".closeAndLogError|.Close", "closing a packet connection closes every attached TCP connection", nil},
	{[]string{"C15"}, "tcpPacketConn.SetWriteDeadline", "tcpPacketConn.conns", ".SetWriteDeadline", "a write deadline reaches every attached TCP connection", nil},
}

// checkForAllLoops emits the obligations of the inventory entries that support prop
// under the rule the caller has just declared.
func checkForAllLoops(p *Prog, r *Report, prop string) {
	for _, e := range forAllLoops {
		use := false
		for _, q := range e.Props {
			if q == prop {
				use = true
			}
		}
		if !use {
			continue
		}
		f := p.Fn(e.Func)
		if !r.Anchor(e.Func, f != nil) {
			continue
		}
		found := 0
		walkBody(f, func(n ast.Node) bool {
			rs, ok := n.(*ast.RangeStmt)
			if !ok {
				return true
			}
			match := false
			if strings.Contains(e.Over, ".") && !strings.HasPrefix(e.Over, "[") {
				match = p.IsField(rs.X, e.Over)
			} else {
				match = typeStr(p.TypeOf(rs.X)) == e.Over
			}
			if !match {
				return true
			}
			found++
			early := false
			ast.Inspect(rs.Body, func(y ast.Node) bool {
				switch z := y.(type) {
				case *ast.ReturnStmt:
					early = true
				case *ast.BranchStmt:
					if z.Tok == token.BREAK || z.Tok == token.GOTO {
						early = true
					}
				case *ast.FuncLit:
					return false
				}
				return true
			})
			skips := p.iterationSkips(f, rs, func(nd ast.Node) bool {
				return p.nodeHasCall(nd, func(c *ast.CallExpr) bool { return calleeHasSuffix(p.CalleeName(c), e.Callee) })
			}, func(ed *Edge) bool {
				if ed.Cond == nil || ed.Cond.X == nil {
					return false
				}
				txt := stripVarLines(p.Canon(ed.Cond.X))
				for _, a := range e.AllowSkip {
					if strings.Contains(txt, a) {
						return true
					}
				}
				return false
			})
			r.Check(!early && !skips, "for-all loop in "+e.Func+" over "+e.Over, p.Pos(rs.Pos()), e.What, fmt.Sprintf("the loop can be left early=%v, an element can be skipped=%v: not %s", early, skips, e.What))
			return true
		})
		if found == 0 {
			r.Fail("for-all loop in "+e.Func+" over "+e.Over, p.Pos(f.Body.Pos()), "the loop was not found: "+e.What+" is no longer guaranteed")
		}
	}
}

// checkRoleFlagConfined: the role flag is an atomic, but every decision taken
// on it must be part of the task that acts on it: it is read and written only
// by functions that run inside the task loop or during construction (shared by
// C05 and C10).
func checkRoleFlagConfined(p *Prog, r *Report) {
	ci := p.Contexts()
	n := 0
	for _, f := range p.AllFuncs {
		if f.Body == nil {
			continue
		}
		walkBody(f, func(x ast.Node) bool {
			c, ok := x.(*ast.CallExpr)
			if !ok {
				return true
			}
			sel, ok := unparen(c.Fun).(*ast.SelectorExpr)
			if !ok || !p.IsField(sel.X, "Agent.isControlling") {
				return true
			}
			n++
			outside := ci.Has(f, CtxAPI) || ci.Has(f, CtxGo)
			r.Check(!outside, "role flag "+sel.Sel.Name+" in "+f.Name, p.Pos(c.Pos()), "inside the task loop / construction: "+strings.Join(ci.List(f), ","), "the role flag is accessed in "+f.Name+", which can run outside the task loop ("+strings.Join(ci.List(f), ",")+"): a role conflict handled between this test and the task that acts on it makes the agent act in the wrong role")
			return true
		})
	}
	if n == 0 {
		r.Fail("role flag accesses", "", "no access to Agent.isControlling found (rule instance lost)")
	}
}
