package main

// Obligations, violations, known findings and evidence files.

import (
	"encoding/json"
	"fmt"
	"os"
	"path/filepath"
	"sort"
	"strings"
	"time"
)

var processStart = time.Now()

type Status string

const (
	Discharged Status = "discharged"
	Violated   Status = "violated"
	Undecided  Status = "undecided"
)

// Obligation is one rule instance checked on the current tree.
type Obligation struct {
	Rule      string `json:"rule"`
	Construct string `json:"construct"` // stable key: function / callee / field — never a line number
	Pos       string `json:"pos,omitempty"`
	Status    Status `json:"status"`
	Detail    string `json:"detail,omitempty"`
	Trivial   bool   `json:"trivial,omitempty"`
	Known     bool   `json:"known_finding,omitempty"`
}

type KnownFinding struct {
	Property  string `json:"property"`
	Rule      string `json:"rule"`
	Construct string `json:"construct"`
	What      string `json:"what"`
}

type KnownFile struct {
	Findings []KnownFinding `json:"known_findings"`
	Fixed    []string       `json:"fixed"`
}

type Report struct {
	Property    string
	Tier        string
	Seed        int64
	Start       time.Time
	Obls        []*Obligation
	RuleTexts   map[string]string
	ruleOrder   []string
	Floors      map[string]int // rule -> minimum number of instances
	Exceptions  []string
	Assumptions []string
	Extra       map[string]any
	known       []KnownFinding
	matched     map[int]bool
	Fatal       []string
	p           *Prog
	curRule     string
}

func NewReport(prop, tier string, seed int64, p *Prog) *Report {
	return &Report{Property: prop, Tier: tier, Seed: seed, Start: processStart, RuleTexts: map[string]string{},
		Floors: map[string]int{}, Extra: map[string]any{}, matched: map[int]bool{}, p: p}
}

// Rule declares a rule: id, text and the minimum number of instances that
// must be found on the tree (a rule that matches nothing must not pass).
func (r *Report) Rule(id, text string, floor int) {
	if _, ok := r.RuleTexts[id]; !ok {
		r.ruleOrder = append(r.ruleOrder, id)
	}
	r.RuleTexts[id] = text
	r.Floors[id] = floor
	r.curRule = id
}

func (r *Report) add(st Status, construct, pos, detail string, trivial bool) *Obligation {
	o := &Obligation{Rule: r.curRule, Construct: construct, Pos: pos, Status: st, Detail: detail, Trivial: trivial}
	r.Obls = append(r.Obls, o)
	return o
}

func (r *Report) OK(construct, pos, detail string) { r.add(Discharged, construct, pos, detail, false) }
func (r *Report) Trivial(construct, pos, detail string) {
	r.add(Discharged, construct, pos, detail, true)
}
func (r *Report) Fail(construct, pos, detail string) { r.add(Violated, construct, pos, detail, false) }
func (r *Report) Unknown(construct, pos, detail string) {
	r.add(Undecided, construct, pos, detail, false)
}

// Check records discharged/violated depending on ok.
func (r *Report) Check(ok bool, construct, pos, okDetail, failDetail string) bool {
	if ok {
		r.OK(construct, pos, okDetail)
	} else {
		r.Fail(construct, pos, failDetail)
	}
	return ok
}

// Anchor fails the check when a semantic anchor cannot be resolved.
func (r *Report) Anchor(name string, found bool) bool {
	if !found {
		r.Fatal = append(r.Fatal, "unresolved anchor: "+name)
		msg := "anchor could not be resolved on the current tree"
		if r.p != nil {
			// a function of the same base name under another receiver / as a plain function: the likely new home
			base := name
			if i := strings.LastIndex(base, "."); i >= 0 {
				base = base[i+1:]
			}
			base = strings.TrimSuffix(base, "$1")
			var cands []string
			for n := range r.p.Funcs {
				b := n
				if i := strings.LastIndex(b, "."); i >= 0 {
					b = b[i+1:]
				}
				if b == base && n != name {
					cands = append(cands, n)
				}
			}
			for _, note := range r.p.InlineNotes {
				// "T.name: inlined at ..." — a function outside the reference inventory that was dissolved into its callers
				if i := strings.Index(note, ":"); i > 0 {
					n := note[:i]
					b := n
					if j := strings.LastIndex(b, "."); j >= 0 {
						b = b[j+1:]
					}
					if b == base && n != name {
						cands = append(cands, n+" (not in the reference inventory, inlined into its callers)")
					}
				}
			}
			sort.Strings(cands)
			if len(cands) > 0 && len(cands) <= 3 {
				msg += " (a function of that name exists as " + strings.Join(cands, ", ") + ": if the anchor was renamed or turned into a method / a plain function without changing what it does, this report is a false alarm of the anchor limit, DESIGN.md §6)"
			}
		}
		r.add(Undecided, "anchor:"+name, "", msg, false)
	}
	return found
}

func (r *Report) Except(s string) { r.Exceptions = append(r.Exceptions, s) }
func (r *Report) Assume(s string) { r.Assumptions = append(r.Assumptions, s) }

func loadKnown(path string) (*KnownFile, error) {
	b, err := os.ReadFile(path)
	if err != nil {
		if os.IsNotExist(err) {
			return &KnownFile{}, nil
		}
		return nil, err
	}
	var k KnownFile
	if err := json.Unmarshal(b, &k); err != nil {
		return nil, fmt.Errorf("%s: %w", path, err)
	}
	return &k, nil
}

// Finish evaluates floors and known findings, writes evidence and violation
// reports, prints the verdict lines and returns the process exit code.
func (r *Report) Finish(verifDir string, known *KnownFile) int {
	// instance floors
	count := map[string]int{}
	for _, o := range r.Obls {
		count[o.Rule]++
	}
	for _, id := range r.ruleOrder {
		if count[id] < r.Floors[id] {
			r.curRule = id
			r.add(Undecided, "floor:"+id, "", fmt.Sprintf("rule matched %d instance(s), fewer than the %d confirmed by hand on the reference tree: the rule would pass vacuously", count[id], r.Floors[id]), false)
		}
	}
	// known findings
	var knownLines []string
	for _, o := range r.Obls {
		if o.Status != Violated {
			continue
		}
		for i, k := range known.Findings {
			if k.Property == r.Property && k.Rule == o.Rule && k.Construct == o.Construct {
				o.Known = true
				r.matched[i] = true
				knownLines = append(knownLines, fmt.Sprintf("KNOWN-FINDING: property=%s %s [%s %s] %s", r.Property, k.What, o.Rule, o.Construct, o.Pos))
			}
		}
	}
	var viol, undec []*Obligation
	discharged, nontrivial := 0, map[string]bool{}
	for _, o := range r.Obls {
		switch {
		case o.Status == Violated && !o.Known:
			viol = append(viol, o)
		case o.Status == Undecided:
			undec = append(undec, o)
		case o.Status == Discharged:
			discharged++
		}
		if !o.Trivial {
			nontrivial[o.Rule+"|"+o.Construct] = true
		}
	}
	// stale known findings (listed but no longer observed) are reported, not fatal
	var stale []string
	for i, k := range known.Findings {
		if k.Property == r.Property && !r.matched[i] {
			stale = append(stale, k.Rule+" "+k.Construct)
		}
	}

	bad := append(append([]*Obligation{}, viol...), undec...)
	exit := 0
	replay := ""
	if len(bad) > 0 || len(r.Fatal) > 0 {
		exit = 1
		vdir := filepath.Join(verifDir, "evidence", "violations")
		_ = os.MkdirAll(vdir, 0o755)
		replay = filepath.Join(vdir, r.Property+".json")
		vb, _ := json.MarshalIndent(map[string]any{
			"property": r.Property, "tier": r.Tier, "fatal": r.Fatal,
			"violations": viol, "undecided": undec, "rules": r.RuleTexts,
		}, "", " ")
		_ = os.WriteFile(replay, vb, 0o644)
	} else if r.Property != "_debug" {
		// a passing run leaves no stale violation report behind
		_ = os.Remove(filepath.Join(verifDir, "evidence", "violations", r.Property+".json"))
	}

	// samples: a spread of real obligations
	var samples []any
	perRule := map[string]int{}
	for _, o := range r.Obls {
		if perRule[o.Rule] < 3 || o.Status != Discharged {
			perRule[o.Rule]++
			samples = append(samples, o)
		}
		if len(samples) >= 60 {
			break
		}
	}
	var rules []string
	for _, id := range r.ruleOrder {
		rules = append(rules, fmt.Sprintf("%s (%d instances, floor %d): %s", id, count[id], r.Floors[id], r.RuleTexts[id]))
	}
	cov := map[string]any{
		"explanation":            "Static analysis of /repo's current working tree (AST + go/types, own CFG with labelled edges, must-fact dataflow, call graph with field-sensitive function values, effect summaries). Each obligation is one rule instance (rule id + construct) decided on this run; a violated or undecided obligation, an unresolved anchor, a type-check error or a rule matching fewer instances than its floor fails the check. Rules: " + strings.Join(rules, " | "),
		"obligations":            len(r.Obls),
		"discharged":             discharged,
		"evaluations":            len(r.Obls),
		"distinct_nontrivial":    len(nontrivial),
		"rule":                   "one case = one (rule, construct) instance found on the tree by resolved objects; trivial = discharged without analysis (e.g. nil-literal argument); distinct = distinct rule|construct keys",
		"samples":                samples,
		"exhaustive":             false,
		"known_findings_matched": len(knownLines),
		"stale_known_findings":   stale,
		"exceptions_applied":     r.Exceptions,
		"violations_unlisted":    len(viol),
		"undecided":              len(undec),
		"checker_cmd":            fmt.Sprintf("/verif/bin/icecheck -property %s -tier %s", r.Property, r.Tier),
	}
	if r.p != nil {
		cov["packages"] = len(r.p.Pkgs)
		cov["packages_in_closure"] = r.p.NumPkgsInClosure
		cov["functions_analysed"] = len(r.p.AllFuncs)
		cov["build_config"] = r.p.Config
	}
	for k, v := range r.Extra {
		cov[k] = v
	}
	ev := map[string]any{
		"property_id": r.Property,
		"tier":        r.Tier,
		"seed":        r.Seed,
		"level":       "other",
		"coverage":    cov,
		"assumptions": append([]string{
			"go/types resolution of the loaded packages is correct; calls into other modules do not write pion/ice's unexported fields",
			"calls through function values that cannot be resolved to a body (user callbacks) are assumed effect-free on agent state",
		}, r.Assumptions...),
		"wall_s":     time.Since(r.Start).Seconds(),
		"violations": len(viol) + len(undec),
	}
	eb, _ := json.MarshalIndent(ev, "", " ")
	_ = os.MkdirAll(filepath.Join(verifDir, "evidence"), 0o755)
	if r.Property == "_debug" {
		return exit
	}
	if err := os.WriteFile(filepath.Join(verifDir, "evidence", r.Property+".json"), eb, 0o644); err != nil {
		fmt.Println("cannot write evidence:", err)
		exit = 1
	}

	sort.Strings(knownLines)
	for _, l := range knownLines {
		fmt.Println(l)
	}
	fmt.Printf("%s [%s]: %d obligations, %d discharged, %d violated (unlisted), %d undecided, %d known; %.1fs\n",
		r.Property, r.Tier, len(r.Obls), discharged, len(viol), len(undec), len(knownLines), time.Since(r.Start).Seconds())
	for _, f := range r.Fatal {
		fmt.Println("  FATAL:", f)
	}
	for _, o := range bad {
		fmt.Printf("  %s %s %s [%s]: %s\n", strings.ToUpper(string(o.Status)), o.Rule, o.Construct, o.Pos, o.Detail)
	}
	if exit != 0 {
		fmt.Printf("VIOLATION property=%s replay=%s\n", r.Property, replay)
	}
	return exit
}
