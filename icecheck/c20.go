package main

import (
	"go/ast"
	"go/token"
	"strings"
)

func init() { register("C20", checkC20) }

func checkC20(p *Prog, r *Report) {
	// ---- R20.1 acceptance table ------------------------------------------------
	r.Rule("R20.1", "controlledSelector.shouldAcceptNomination over {value absent, last absent, order(value,last)}: absent value -> accept, last unchanged; last absent or value > last -> accept and last := value; value <= last -> reject, last unchanged.", 4)
	if f := p.Fn("controlledSelector.shouldAcceptNomination"); r.Anchor("controlledSelector.shouldAcceptNomination", f != nil) {
		param := p.paramObj(f, 0)
		t := p.NewTable(f)
		t.Event = func(n ast.Node, _ *TEnv) []string {
			if as, ok := n.(*ast.AssignStmt); ok && len(as.Lhs) == 1 && p.IsField(as.Lhs[0], "controlledSelector.lastNomination") {
				if id, ok := unparen(as.Rhs[0]).(*ast.Ident); ok && p.ObjOf(id) == param {
					return []string{"last:=value"}
				}
				return []string{"last:=?"}
			}
			return nil
		}
		t.Run()
		res := t.Compare(TableSpec{
			Vars: []SemVar{{"value", []string{"nil", "set"}}, {"last", []string{"nil", "set"}}, {"ord", []string{"LT", "EQ", "GT"}}},
			Classify: func(a *TAtom) (string, bool) {
				switch a.Kind {
				case "enum":
					if id, ok := unparen(a.X).(*ast.Ident); ok && p.ObjOf(id) == param {
						return "value", false
					}
					if p.IsField(a.X, "controlledSelector.lastNomination") {
						return "last", false
					}
				case "ord":
					isVal := func(e ast.Expr) bool {
						s, ok := unparen(e).(*ast.StarExpr)
						if !ok {
							return false
						}
						id, ok := unparen(s.X).(*ast.Ident)
						return ok && p.ObjOf(id) == param
					}
					isLast := func(e ast.Expr) bool {
						s, ok := unparen(e).(*ast.StarExpr)
						return ok && p.IsField(s.X, "controlledSelector.lastNomination")
					}
					if isVal(a.X) && isLast(a.Y) {
						return "ord", false
					}
					if isVal(a.Y) && isLast(a.X) {
						return "ord", true
					}
				}
				return "", false
			},
			Oracle: func(v map[string]string) string {
				switch {
				case v["value"] == "nil":
					return "accept"
				case v["last"] == "nil" || v["ord"] == "GT":
					return "accept+store"
				}
				return "reject"
			},
			Outcome: func(pa *TPath) string {
				o := "reject"
				if len(pa.Results) == 1 && pa.Results[0] == "true" {
					o = "accept"
				}
				if len(pa.Events) > 0 {
					o += "+store"
					if pa.Events[0] != "last:=value" {
						o += "(wrong value)"
					}
				}
				return o
			},
		})
		// enum decisions use ==nil / !=nil: map to the nil/set domain
		_ = res
		sem := t.Semantic(func(a *TAtom) (string, bool) {
			if a.Kind == "enum" {
				if id, ok := unparen(a.X).(*ast.Ident); ok && p.ObjOf(id) == param {
					return "value", false
				}
				if p.IsField(a.X, "controlledSelector.lastNomination") {
					return "last", false
				}
			}
			if a.Kind == "ord" {
				sx, okx := unparen(a.X).(*ast.StarExpr)
				sy, oky := unparen(a.Y).(*ast.StarExpr)
				if okx && oky {
					if p.IsField(sy.X, "controlledSelector.lastNomination") {
						return "ord", false
					}
					if p.IsField(sx.X, "controlledSelector.lastNomination") {
						return "ord", true
					}
				}
			}
			return "", false
		})
		rows := 0
		for _, sp := range sem {
			if len(sp.Unclassified) > 0 {
				r.Fail("shouldAcceptNomination", sp.EndPos, "acceptance depends on an unexpected condition "+strings.Join(sp.Unclassified, ","))
				continue
			}
			accept := len(sp.Results) == 1 && sp.Results[0] == "true"
			stored := sp.Has("last:=value")
			wrongStore := sp.Has("last:=?")
			for _, ord := range []string{"LT", "EQ", "GT"} {
				if m, ok := sp.Vals["ord"]; ok && !strings.Contains(m, ord) {
					continue
				}
				var wantAccept, wantStore bool
				switch {
				case sp.Vals["value"] == "==nil":
					wantAccept, wantStore = true, false
				case sp.Vals["last"] == "==nil":
					wantAccept, wantStore = true, true
				case sp.Vals["ord"] == "":
					continue
				case ord == "GT":
					wantAccept, wantStore = true, true
				default:
					wantAccept, wantStore = false, false
				}
				rows++
				r.Check(accept == wantAccept && stored == wantStore && !wrongStore,
					"shouldAcceptNomination row value"+sp.Vals["value"]+" last"+sp.Vals["last"]+" ord="+ord, sp.EndPos,
					"matches 'latest nomination wins'",
					"for value"+sp.Vals["value"]+" last"+sp.Vals["last"]+" order(value,last)="+ord+" the code returns accept="+boolStr(accept)+" store="+boolStr(stored)+"; the property requires accept="+boolStr(wantAccept)+" store="+boolStr(wantStore))
			}
		}
		r.Extra["R20.1_rows"] = rows
	}

	// ---- R20.2 one switch predicate ---------------------------------------------
	r.Rule("R20.2", "shouldSwitchSelectedPair is the table: nothing selected -> switch; same pair -> no; nomination value present -> switch regardless of priority; otherwise switch iff no priority check is required or the selected pair's priority is strictly lower. Every controlled-side selection for a nomination goes through this predicate with the nomination value.", 6)
	checkSwitchPredicate(p, r)
	// every controlled-side selection is guarded by the predicate
	for _, fname := range []string{"controlledSelector.HandleBindingRequest", "controlledSelector.HandleSuccessResponse"} {
		f := p.Fn(fname)
		if !r.Anchor(fname, f != nil) {
			continue
		}
		for _, c := range p.CallsTo(f, false, "ice.Agent.setSelectedPair") {
			facts, _ := p.FactsAtCall(f, c)
			sw, ok := p.HasCallTruth(facts, f, "ice.controlledSelector.shouldSwitchSelectedPair", 0, true)
			detail := "selection guarded by shouldSwitchSelectedPair(...)"
			if ok {
				// the nomination value handed to the predicate is the request's
				if len(sw.Args) == 3 && p.isNilExpr(sw.Args[2]) {
					ok = false
					detail = "the predicate is called with a nil nomination value"
				}
			}
			r.Check(ok, fname+": selection uses the switch predicate", p.Pos(c.Pos()), detail,
				"controlled-side selection is not guarded by shouldSwitchSelectedPair with the nomination value: for a valued (re)nomination the decision is taken by pair priority instead of 'latest nomination wins'")
		}
	}
	if f := p.Fn("controlledSelector.HandleBindingRequest"); f != nil {
		checkNominationValueProvenance(p, r, f, "ice.controlledSelector.shouldSwitchSelectedPair")
		checkNominationValueProvenance(p, r, f, "ice.controlledSelector.shouldAcceptNomination")
	}
	// a nomination that was not accepted changes nothing: neither the selection
	// nor the deferred-nomination flag
	if _, sps := selPaths(p, r, "controlledSelector.HandleBindingRequest"); sps != nil {
		// a nomination remembered for later is useless without the check whose success applies it
		nDefer, badDefer := 0, 0
		for _, sp := range sps {
			if sp.Has("defer=true") && sp.Vals["lite"] == "false" {
				nDefer++
				if !sp.Has("ping") {
					badDefer++
					if badDefer <= 2 {
						r.Fail("HandleBindingRequest: a remembered nomination is followed by the triggered check", sp.EndPos, "on "+sp.String()+" the nomination is remembered (and its value recorded as accepted) but no triggered check is sent on the pair: nothing will ever validate it, the controlled agent never switches while the controlling side already has")
					}
				}
			}
		}
		if badDefer == 0 {
			r.Check(nDefer > 0, "HandleBindingRequest: a remembered nomination is followed by the triggered check", "selection.go", itoa(nDefer)+" paths", "no path remembers a nomination (rule instance lost)")
		}
		bad := 0
		for _, sp := range sps {
			if (sp.Has("select") || sp.Has("defer=true")) && sp.Vals["accept"] != "true" {
				bad++
				r.Fail("HandleBindingRequest: rejected nomination has an effect", sp.EndPos, "on "+sp.String()+" a nomination that shouldAcceptNomination did not accept still selects or is remembered for later (superseded nominations resurface when the pair becomes valid)")
			}
		}
		if bad == 0 {
			r.OK("HandleBindingRequest: only accepted nominations select or are deferred", "selection.go", "every select / defer path decided accept=true")
		}
	}
	// the immediate path: accept before switch, value decoded from the agent's attribute type
	if f := p.Fn("controlledSelector.HandleBindingRequest"); f != nil {
		for _, c := range p.CallsTo(f, false, "ice.controlledSelector.shouldSwitchSelectedPair") {
			facts, _ := p.FactsAtCall(f, c)
			_, acc := p.HasCallTruth(facts, f, "ice.controlledSelector.shouldAcceptNomination", 0, true)
			r.Check(acc, "HandleBindingRequest: acceptance precedes the switch test", p.Pos(c.Pos()), "dominated by shouldAcceptNomination(value)", "the switch test is reachable without shouldAcceptNomination having accepted the value: stale nominations can move the selection")
		}
	}

	// ---- R20.3 controlling side -----------------------------------------------------
	r.Rule("R20.3", "controllingSelector.HandleSuccessResponse: only a transaction-matched, symmetric response of a USE-CANDIDATE request selects; a valued nomination always selects its pair, an unvalued one only if nothing is selected. The pending request records the value of the attribute type the agent sends.", 4)
	if f := p.Fn("controllingSelector.HandleSuccessResponse"); r.Anchor("controllingSelector.HandleSuccessResponse", f != nil) {
		t := p.NewTable(f)
		t.Event = selectorEvents(p, f)
		t.Run()
		cl := classifySelectorAtom(p, f)
		nSel := 0
		for _, sp := range t.Semantic(cl) {
			if len(sp.Unclassified) > 0 {
				r.Fail("controlling HandleSuccessResponse", sp.EndPos, "outcome depends on an unexpected condition "+strings.Join(sp.Unclassified, ","))
				continue
			}
			reach := sp.Vals["txn"] == "true" && sp.Vals["symmetric"] == "true" && sp.Vals["pair"] == "!=nil"
			wantSel := reach && sp.Vals["useCandTxn"] == "true" && (sp.Vals["valueTxn"] == "!=nil" || sp.Vals["selected"] == "==nil")
			got := sp.Has("select")
			if got {
				nSel++
			}
			r.Check(got == wantSel, "controlling success row "+rowKey(sp, "txn", "symmetric", "pair", "useCandTxn", "valueTxn", "selected"), sp.EndPos,
				"select="+boolStr(wantSel), "the code selects="+boolStr(got)+" on this row, the property requires "+boolStr(wantSel))
		}
		if nSel == 0 {
			r.Fail("controlling HandleSuccessResponse", p.Pos(f.Body.Pos()), "no path selects a pair")
		}
		// a valued nomination's success selects even when another pair is selected
		valued := false
		for _, sp := range t.Semantic(cl) {
			if sp.Vals["valueTxn"] == "!=nil" && sp.Has("select") && sp.Vals["selected"] != "==nil" {
				valued = true
			}
		}
		r.Check(valued, "controlling success: valued nomination always selects", p.Pos(f.Body.Pos()), "a path with nominationValue != nil selects regardless of the current selection",
			"no path selects on the success of a valued (re)nomination when a pair is already selected: the controlling side does not switch to the renominated pair")
	}
	if f := p.Fn("Agent.sendBindingRequest"); r.Anchor("Agent.sendBindingRequest", f != nil) {
		ok := false
		for _, c := range p.CallsTo(f, false, "ice.NominationAttribute.GetFromWithType") {
			if len(c.Args) == 2 && p.IsField(c.Args[1], "Agent.nominationAttribute") {
				ok = true
			}
		}
		r.Check(ok, "sendBindingRequest records the nomination value", p.Pos(f.Body.Pos()), "decoded with Agent.nominationAttribute", "the pending request's nomination value is not decoded with the attribute type the agent sends")
		// the recorded value is stored into the pending request
		stored := false
		walkBody(f, func(n ast.Node) bool {
			if kv, ok := n.(*ast.KeyValueExpr); ok {
				if id, ok := kv.Key.(*ast.Ident); ok && id.Name == "nominationValue" {
					if c, _, ok := p.ResolveCall(f, kv.Value); ok {
						_ = c
					}
					if vid, ok := unparen(kv.Value).(*ast.Ident); ok && vid.Name != "nil" {
						// every assignment of that variable is &nomination.Value under a successful decode
						good, n := true, 0
						for _, d := range p.DefsOf(f, p.ObjOf(vid)) {
							if d.Zero || d.Rhs == nil {
								continue
							}
							n++
							u, ok := unparen(d.Rhs).(*ast.UnaryExpr)
							if !ok || u.Op != token.AND || !p.IsField(u.X, "NominationAttribute.Value") {
								good = false
								continue
							}
							facts, _ := p.FactsAtCall(f, d.Node)
							if _, dec := p.HasCallEqNil(facts, f, "ice.NominationAttribute.GetFromWithType", 0, true); !dec {
								good = false
							}
						}
						stored = good && n > 0
					}
				}
			}
			return true
		})
		r.Check(stored, "pending request carries the nomination value", p.Pos(f.Body.Pos()), "bindingRequest.nominationValue set", "bindingRequest.nominationValue is not filled from the request: a renomination's success is treated as a plain nomination")
	}

	// ---- R20.4 who may renominate --------------------------------------------------------
	r.Rule("R20.4", "Renomination is refused unless the agent is controlling and the feature is enabled; the nomination attribute is attached only when the feature is enabled and the value is positive, with the agent's configured attribute type, on a request that also carries USE-CANDIDATE.", 4)
	if f := p.Fn("Agent.renominateCandidate"); r.Anchor("Agent.renominateCandidate", f != nil) {
		for _, c := range p.CallsTo(f, false, "ice.Agent.sendNominationRequest") {
			facts, _ := p.FactsAtCall(f, c)
			ctrl := facts.Has(func(ft Fact) bool {
				return ft.Op == "truth" && ft.Val && p.isMethodOnField(ft.X, "Agent.isControlling", "Load")
			})
			en := facts.Has(func(ft Fact) bool { return ft.Op == "truth" && ft.Val && p.IsField(ft.X, "Agent.enableRenomination") })
			found := facts.Has(func(ft Fact) bool {
				return ft.Op == "==" && !ft.Val && p.isNilExpr(ft.Y) && p.atomIsCall(f, ft.X, "ice.Agent.findPair")
			})
			r.Check(ctrl, "renominate: role guard", p.Pos(c.Pos()), "dominated by isControlling", "a controlled agent can send a renomination")
			r.Check(en, "renominate: feature guard", p.Pos(c.Pos()), "dominated by enableRenomination", "renomination is sent although the feature is disabled")
			r.Check(found, "renominate: pair exists", p.Pos(c.Pos()), "dominated by findPair != nil", "renomination for an unknown pair")
		}
		if len(p.CallsTo(f, false, "ice.Agent.sendNominationRequest")) == 0 {
			r.Fail("renominate sends", p.Pos(f.Body.Pos()), "renominateCandidate never sends a nomination request")
		}
		// success is reported only by having sent: no path returns nil without the send
		okRet := true
		walkBody(f, func(n ast.Node) bool {
			rs, isR := n.(*ast.ReturnStmt)
			if !isR || len(rs.Results) != 1 {
				return true
			}
			if c, isC := unparen(rs.Results[0]).(*ast.CallExpr); isC && p.CalleeName(c) == "ice.Agent.sendNominationRequest" {
				return true
			}
			if p.isNilExpr(rs.Results[0]) {
				okRet = false
				r.Fail("renominate: success only by sending", p.Pos(rs.Pos()), "renominateCandidate reports success on a path that sends no nomination: the selected pair seen by the controlling side is stale while an earlier renomination is in flight, so 'already selected' silently drops the newer (higher-valued) nomination and the earlier one wins")
			}
			return true
		})
		if okRet {
			r.OK("renominate: success only by sending", p.Pos(f.Body.Pos()), "every nil result is the send's result")
		}
	}
	if f := p.Fn("Agent.sendNominationRequest"); r.Anchor("Agent.sendNominationRequest", f != nil) {
		n := 0
		walkBody(f, func(x ast.Node) bool {
			cl, ok := x.(*ast.CompositeLit)
			if !ok || typeStr(p.TypeOf(cl)) != "ice.NominationSetter" {
				return true
			}
			n++
			facts, _ := p.FactsAtCall(f, cl)
			en := facts.Has(func(ft Fact) bool { return ft.Op == "truth" && ft.Val && p.IsField(ft.X, "Agent.enableRenomination") })
			pos := facts.Has(func(ft Fact) bool {
				// 0 < value
				if ft.Op != "<" || !ft.Val {
					return false
				}
				c, _ := p.ConstVal(ft.X)
				return c == "0"
			})
			attrOK, valOK := false, false
			for _, el := range cl.Elts {
				if kv, ok := el.(*ast.KeyValueExpr); ok {
					if id, ok := kv.Key.(*ast.Ident); ok {
						switch id.Name {
						case "AttrType":
							attrOK = p.IsField(kv.Value, "Agent.nominationAttribute")
						case "Value":
							if vid, ok := unparen(kv.Value).(*ast.Ident); ok && p.ObjOf(vid) == p.paramObj(f, 1) {
								valOK = true
							}
						}
					}
				}
			}
			r.Check(en && pos, "nomination attribute: guards", p.Pos(cl.Pos()), "under enableRenomination && value > 0", "the nomination attribute is attached without the enableRenomination / value > 0 guards")
			r.Check(attrOK && valOK, "nomination attribute: contents", p.Pos(cl.Pos()), "agent's attribute type and the requested value", "the nomination attribute does not carry the requested value with the agent's configured attribute type")
			return true
		})
		if n == 0 {
			r.Fail("nomination attribute", p.Pos(f.Body.Pos()), "sendNominationRequest never attaches the nomination attribute")
		}
		useCand := false
		walkBody(f, func(x ast.Node) bool {
			if c, ok := x.(*ast.CallExpr); ok && p.CalleeName(c) == "ice.UseCandidate" {
				useCand = true
			}
			return true
		})
		r.Check(useCand, "nomination request carries USE-CANDIDATE", p.Pos(f.Body.Pos()), "UseCandidate() present", "a renomination request without USE-CANDIDATE is not a nomination")
	}
	// controlled side reads the same attribute type
	if f := p.Fn("controlledSelector.HandleBindingRequest"); f != nil {
		ok := 0
		for _, c := range p.CallsTo(f, false, "ice.NominationAttribute.GetFromWithType", "stun.Message.Contains") {
			for _, a := range c.Args {
				if p.IsField(a, "Agent.nominationAttribute") {
					ok++
				}
			}
		}
		r.Check(ok >= 1, "controlled side decodes the agent's nomination attribute type", p.Pos(f.Body.Pos()), "GetFromWithType(msg, agent.nominationAttribute)", "the controlled selector does not decode the configured nomination attribute type")
	}

	// ---- R20.5 codec (shared with C16) ----------------------------------------------
	r.Rule("R20.5", "Nomination values below 2^24 survive the attribute encoding: writer and reader use 4 bytes, byte 1..3 with shifts 16/8/0 mirrored.", 1)
	if w, rd := p.Fn("NominationAttribute.AddToWithType"), p.Fn("NominationAttribute.GetFromWithType"); r.Anchor("NominationAttribute codec", w != nil && rd != nil) {
		ws, rs := p.summarizeCodec(w), p.summarizeCodec(rd)
		ok := strings.Join(ws.shifts, ",") == "16,8" && strings.Join(rs.shifts, ",") == "16,8" &&
			strings.Join(ws.indices, ",") == "1,2,3" && strings.Join(rs.indices, ",") == "1,2,3" &&
			len(ws.sizes) == 1 && len(rs.sizes) == 1 && ws.sizes[0] == "4" && rs.sizes[0] == "4" && rs.sizeExact
		r.Check(ok, "nomination codec", p.Pos(rd.Body.Pos()), "4 bytes, indices 1..3, shifts 16/8/0, exact size test",
			"writer sizes "+strings.Join(ws.sizes, ",")+" shifts "+strings.Join(ws.shifts, ",")+" idx "+strings.Join(ws.indices, ",")+"; reader sizes "+strings.Join(rs.sizes, ",")+" shifts "+strings.Join(rs.shifts, ",")+" idx "+strings.Join(rs.indices, ","))
	}
	_ = token.ADD

	// ---- R20.6 deferred acceptance survives supersession ----------------------------------------------------
	r.Rule("R20.6", "A nomination accepted before its pair was valid is remembered on the pair; when a signalled candidate supersedes the peer-reflexive one, the replacement pair keeps that remembered nomination (and the pair's state), so the accepted value still leads to the switch once the check succeeds.", 1)
	if f := p.Fn("replacePairRemote"); r.Anchor("replacePairRemote", f != nil) {
		covered, _ := p.replacePairCoverage(f)
		var missing []string
		for _, n := range []string{"nominateOnBindingSuccess", "nominated", "state"} {
			if !covered[n] {
				missing = append(missing, n)
			}
		}
		r.Check(len(missing) == 0, "replacePairRemote keeps the remembered nomination", p.Pos(f.Body.Pos()), "nominateOnBindingSuccess, nominated, state copied from the same field", "not carried over: "+strings.Join(missing, ", ")+" — the value was already recorded as accepted, so the retransmitted nomination is rejected as 'not greater' and the controlled agent never switches")
	}
	// ---- R20.7 a remembered nomination is applied as it would have been on arrival ---------------------------
	r.Rule("R20.7", "When the triggered check of a pair that was nominated before it was valid succeeds, the controlled agent selects it exactly when nothing is selected, or another pair is selected and (priorities need not be checked or the selected pair's priority is not greater): an accepted renomination of an equal-priority pair is not dropped (table shared with C03 R3.1; that the nomination value is ignored on this path is the known finding F7).", 4)
	checkControlledDeferredTable(p, r)

	// ---- R20.9 values are issued in the order they are sent ---------------------------------------------------------
	r.Rule("R20.9", "A nomination value is drawn from the generator inside the task that sends the request carrying it: getNominationValue is called only from functions that run inside the task loop (never from an API goroutine before the task is submitted), so two overlapping renominations cannot put a lower value on the wire after a higher one.", 1)
	if gnv := p.Fn("Agent.getNominationValue"); r.Anchor("Agent.getNominationValue", gnv != nil) {
		ci := p.Contexts()
		n := 0
		for _, e := range p.Callers(gnv) {
			n++
			f := e.Caller
			outside := ci.Has(f, CtxAPI) || ci.Has(f, CtxGo)
			r.Check(!outside, "nomination value drawn in "+f.Name, p.Pos(e.Site.Pos()), "inside the task loop: "+strings.Join(ci.List(f), ","), "the nomination value is drawn in "+f.Name+", which can run outside the task loop ("+strings.Join(ci.List(f), ",")+"): drawing the value and sending the request are no longer one step, so a renomination that drew its value first can be sent last — the controlled agent keeps the higher value's pair while the controlling agent switches back on the late response")
		}
		if n == 0 {
			r.Fail("callers of getNominationValue", p.Pos(gnv.Body.Pos()), "the generator is never consulted (rule instance lost)")
		}
	}

	// ---- R20.8 an outstanding nomination stays answerable ------------------------------------------------------
	r.Rule("R20.8", "The list of outstanding transactions is changed only by the sender (append), the expiry filter, the matching response (removal of the matched entry) and the wipes (Restart, Failed, construction): nothing else forgets an outstanding request, so the success response to any nomination that was sent and has not expired — an older renomination included — is still matched and acted upon by the controlling agent when the controlled agent accepted it.", 4)
	{
		allowed := map[string]string{
			"Agent.sendBindingRequest":               "records the request sent",
			"Agent.invalidatePendingBindingRequests": "expiry",
			"Agent.handleInboundBindingSuccess":      "removes the matched entry",
			"Agent.Restart$1":                        "wipe on restart",
			"Agent.updateConnectionState":            "wipe on Failed",
			"Agent.updateConnectionState$1":          "wipe on Failed",
			"createAgentBase":                        "construction",
			"newAgentFromConfig":                     "construction",
			"NewAgentWithOptions":                    "construction",
		}
		n := 0
		for f, nodes := range p.WritersOf("Agent.pendingBindingRequests") {
			n++
			_, ok := allowed[f.Name]
			r.Check(ok, "writer of the outstanding-transaction list: "+f.Name, p.Pos(nodes[0].Pos()), "sender, expiry, matched response, wipe", f.Name+" changes the list of outstanding transactions: a request it drops can still be accepted by the peer, whose success response then no longer matches anything — the two agents disagree about the nomination that was accepted last")
		}
		if n < 4 {
			r.Fail("writers of the outstanding-transaction list", "agent.go", "fewer than 4 writers found (rule instance lost)")
		}
	}
}

func rowKey(sp *SemPath, names ...string) string {
	var parts []string
	for _, n := range names {
		if v, ok := sp.Vals[n]; ok {
			parts = append(parts, n+v)
		}
	}
	return strings.Join(parts, " ")
}
