package main

// Ownership (typestate) analysis for closable resources.
//
// A *token* is one resource obtained at an acquisition site. The analysis
// explores the product of the function's CFG and an abstract ownership state
// (who currently holds the token) and classifies how each path ends:
//
//	released  a holder's Close (or a function that closes it) was called
//	handed    the token was stored in a longer-lived object, sent on a
//	          channel or handed to a goroutine that consumes it
//	returned  the token leaves through a result (the caller's obligation)
//	owned     the path leaves the function with the obligation still open
//	absent    the path is one on which the acquisition had failed
//
// Holders are access paths ($var#line, $var#line.field, $var#line[] ...) of
// kind 'v' (the value is the resource) or 'f' (a function value that releases
// the resource when called). Calls into analysed functions are replaced by
// summaries computed by the same exploration started from the parameter
// binding; summaries carry what is known about the callee's error result so
// that "takes ownership only if it returns nil" is expressible.
//
// Everything here is decided from the syntax tree, go/types and the call
// graph; nothing is executed.

import (
	"fmt"
	"go/ast"
	"go/token"
	"go/types"
	"sort"
	"strings"
)

type ownBind struct {
	Key  string
	Kind byte
}

type ownRet struct {
	Idx  int
	Path string
	Kind byte
}

type ownOutcome struct {
	Kind string // released | handed | owned | returned | absent
	Err  string // value of the function's error result on this path: nil | nonnil | ""
	Rets []ownRet
	Why  string
	Pos  string
}

func (o *ownOutcome) key() string {
	s := o.Kind + "|" + o.Err + "|" + o.Why
	for _, r := range o.Rets {
		s += fmt.Sprintf("|%d%s%c", r.Idx, r.Path, r.Kind)
	}
	return s
}

type ownState struct {
	H        map[string]byte
	Pend     map[string]string // $err key -> absent (token absent if non-nil) | nonnil | nil
	It       map[token.Pos]int // range statement -> 1 first iteration, 2 later
	Deferred bool
	Via      string
}

func newOwnState() *ownState {
	return &ownState{H: map[string]byte{}, Pend: map[string]string{}, It: map[token.Pos]int{}}
}

func (s *ownState) clone() *ownState {
	n := newOwnState()
	for k, v := range s.H {
		n.H[k] = v
	}
	for k, v := range s.Pend {
		n.Pend[k] = v
	}
	for k, v := range s.It {
		n.It[k] = v
	}
	n.Deferred, n.Via = s.Deferred, s.Via
	return n
}

func (s *ownState) key() string {
	var parts []string
	for k, v := range s.H {
		parts = append(parts, fmt.Sprintf("H%s:%c", k, v))
	}
	for k, v := range s.Pend {
		parts = append(parts, "P"+k+":"+v)
	}
	for k, v := range s.It {
		if v != 0 {
			parts = append(parts, fmt.Sprintf("I%d:%d", k, v))
		}
	}
	sort.Strings(parts)
	return fmt.Sprintf("%s|%v|%s", strings.Join(parts, ","), s.Deferred, s.Via)
}

func (s *ownState) holders() string {
	var hs []string
	for k := range s.H {
		hs = append(hs, stripVarLines(k))
	}
	sort.Strings(hs)
	return strings.Join(hs, ",")
}

type Own struct {
	p      *Prog
	memo   map[string][]*ownOutcome
	inprog map[string]bool
	States int
	// Wrappers: calls whose result is a resource that closes the argument's
	// resource when closed (confirmed by reading the callee's package).
	Wrappers map[string]bool
	// RunsIffNil: callee -> index of the function argument that has run to
	// completion iff the call returned a nil error (C10 R10.1 decides this for
	// the task loop).
	RunsIffNil map[string]int
	// AlwaysRuns: callee -> index of a function argument that is run
	// synchronously before the call returns.
	Undecided []string
	rangeX    map[*Func]map[ast.Expr]*ast.RangeStmt
	retDesc   map[*ast.ReturnStmt]string
	retErr    map[*Func]map[string]bool
	// Assume: exits assumed infeasible for a live token, "<Func>: <return desc>"
	// (optionally "|<holder substring>") -> reason. Used entries are counted.
	Assume     map[string]string
	AssumeUsed map[string]int
}

func (p *Prog) NewOwn() *Own {
	return &Own{p: p, memo: map[string][]*ownOutcome{}, inprog: map[string]bool{},
		Wrappers: map[string]bool{
			"turn.NewSTUNConn":       true, // STUNConn.Close closes the wrapped net.Conn
			"crypto/tls.Client":      true, // tls.Conn.Close closes the underlying conn
			"dtls.ClientWithOptions": true, // dtls.Conn.Close closes the underlying PacketConn
			"dtls.Client":            true,
		},
		RunsIffNil: map[string]int{"taskloop.Loop.Run": 1},
		rangeX:     map[*Func]map[ast.Expr]*ast.RangeStmt{},
		retDesc:    map[*ast.ReturnStmt]string{},
		retErr:     map[*Func]map[string]bool{},
		Assume:     map[string]string{},
		AssumeUsed: map[string]int{},
	}
}

// ---- keys and carries ---------------------------------------------------------

func (o *Own) keyOf(e ast.Expr) string {
	p := o.p
	switch x := unparen(e).(type) {
	case *ast.Ident:
		if x.Name == "_" {
			return ""
		}
		if v, ok := p.ObjOf(x).(*types.Var); ok {
			return p.varKey(v)
		}
	case *ast.SelectorExpr:
		if p.FieldOf(x) != nil {
			if k := o.keyOf(x.X); k != "" {
				return k + "." + x.Sel.Name
			}
		}
	case *ast.IndexExpr:
		if k := o.keyOf(x.X); k != "" {
			return k + "[]"
		}
	case *ast.StarExpr:
		return o.keyOf(x.X)
	case *ast.UnaryExpr:
		if x.Op == token.AND {
			return o.keyOf(x.X)
		}
	}
	return ""
}

func keyHasPrefix(h, k string) bool {
	if !strings.HasPrefix(h, k) {
		return false
	}
	return len(h) == len(k) || h[len(k)] == '.' || h[len(k)] == '['
}

type ownCarry struct {
	Path string
	Kind byte
}

func (o *Own) hasCloseMethod(t types.Type) bool {
	if t == nil {
		return false
	}
	for _, tt := range []types.Type{t, types.NewPointer(t)} {
		ms := types.NewMethodSet(tt)
		for i := 0; i < ms.Len(); i++ {
			if ms.At(i).Obj().Name() == "Close" {
				if sig, ok := ms.At(i).Type().(*types.Signature); ok && sig.Params().Len() == 0 {
					return true
				}
			}
		}
	}
	return false
}

// carries: which access paths of e's value hold the token.
func (o *Own) carries(f *Func, e ast.Expr, st *ownState) []ownCarry {
	p := o.p
	e = unparen(e)
	var out []ownCarry
	if e == nil {
		return nil
	}
	if k := o.keyOf(e); k != "" {
		for h, kind := range st.H {
			if keyHasPrefix(h, k) {
				out = append(out, ownCarry{h[len(k):], kind})
			}
		}
		sort.Slice(out, func(i, j int) bool { return out[i].Path < out[j].Path })
		return out
	}
	switch x := e.(type) {
	case *ast.UnaryExpr:
		return o.carries(f, x.X, st)
	case *ast.StarExpr:
		return o.carries(f, x.X, st)
	case *ast.TypeAssertExpr:
		return o.carries(f, x.X, st)
	case *ast.SliceExpr:
		return o.carries(f, x.X, st)
	case *ast.CompositeLit:
		t := p.TypeOf(x)
		stt, _ := derefStruct(t)
		for i, el := range x.Elts {
			val := el
			fname := ""
			if kv, ok := el.(*ast.KeyValueExpr); ok {
				val = kv.Value
				if id, ok := kv.Key.(*ast.Ident); ok && stt != nil {
					fname = id.Name
				}
			} else if stt != nil && i < stt.NumFields() {
				fname = stt.Field(i).Name()
			}
			for _, c := range o.carries(f, val, st) {
				switch {
				case stt != nil && o.hasCloseMethod(t):
					// a struct that is itself closable wraps what it embeds
					out = append(out, ownCarry{"", c.Kind})
				case stt != nil:
					out = append(out, ownCarry{"." + fname + c.Path, c.Kind})
				default:
					out = append(out, ownCarry{"[]" + c.Path, c.Kind})
				}
			}
		}
		return out
	case *ast.FuncLit:
		lit := p.ByLit[x]
		if lit == nil {
			return nil
		}
		binds := o.captured(lit, st)
		if len(binds) == 0 {
			return nil
		}
		outs := o.summary(lit, binds)
		if len(outs) > 0 && allConsumed(outs) {
			return []ownCarry{{"", 'f'}}
		}
		return nil
	case *ast.CallExpr:
		if tv, ok := p.Info.Types[x.Fun]; ok && tv.IsType() && len(x.Args) == 1 {
			return o.carries(f, x.Args[0], st)
		}
		name := p.CalleeName(x)
		switch {
		case name == "builtin.append" && len(x.Args) > 0:
			out = append(out, o.carries(f, x.Args[0], st)...)
			for i, a := range x.Args[1:] {
				cs := o.carries(f, a, st)
				if x.Ellipsis.IsValid() && i == len(x.Args)-2 {
					out = append(out, cs...)
					continue
				}
				for _, c := range cs {
					out = append(out, ownCarry{"[]" + c.Path, c.Kind})
				}
			}
			return out
		case o.Wrappers[name]:
			for _, a := range x.Args {
				for _, c := range o.carries(f, a, st) {
					out = append(out, ownCarry{"", c.Kind})
				}
			}
			return out
		}
	}
	return nil
}

// captured: the holders a function literal refers to.
func (o *Own) captured(lit *Func, st *ownState) []ownBind {
	p := o.p
	roots := map[string]bool{}
	ast.Inspect(lit.Body, func(n ast.Node) bool {
		if id, ok := n.(*ast.Ident); ok {
			if v, ok := p.ObjOf(id).(*types.Var); ok && !v.IsField() {
				roots[p.varKey(v)] = true
			}
		}
		return true
	})
	var out []ownBind
	for h, kind := range st.H {
		r := h
		if i := strings.IndexAny(h[1:], ".["); i >= 0 {
			r = h[:i+1]
		}
		if roots[r] {
			out = append(out, ownBind{h, kind})
		}
	}
	sort.Slice(out, func(i, j int) bool { return out[i].Key < out[j].Key })
	return out
}

func allConsumed(outs []*ownOutcome) bool {
	for _, x := range outs {
		if x.Kind == "owned" || x.Kind == "returned" {
			return false
		}
	}
	return true
}

// ---- summaries ---------------------------------------------------------------------

func (o *Own) summary(g *Func, binds []ownBind) []*ownOutcome {
	sort.Slice(binds, func(i, j int) bool { return binds[i].Key < binds[j].Key })
	key := g.Name
	for _, b := range binds {
		key += fmt.Sprintf("|%s:%c", b.Key, b.Kind)
	}
	if r, ok := o.memo[key]; ok {
		return r
	}
	if o.inprog[key] || g.Body == nil {
		if o.inprog[key] {
			o.Undecided = append(o.Undecided, "recursive ownership summary: "+key)
		}
		return []*ownOutcome{{Kind: "owned", Why: g.Name + ": (borrowed)"}}
	}
	o.inprog[key] = true
	st := newOwnState()
	for _, b := range binds {
		st.H[b.Key] = b.Kind
	}
	cfg := o.p.CFG(g)
	outs := o.explore(g, Loc{cfg.Entry, 0}, st)
	delete(o.inprog, key)
	o.memo[key] = outs
	return outs
}

// ---- exploration ------------------------------------------------------------------

type ownRun struct {
	o    *Own
	f    *Func
	g    *CFG
	seen map[string]bool
	outs map[string]*ownOutcome
}

type ownItem struct {
	loc Loc
	st  *ownState
}

func (o *Own) explore(f *Func, start Loc, st *ownState) []*ownOutcome {
	r := &ownRun{o: o, f: f, g: o.p.CFG(f), seen: map[string]bool{}, outs: map[string]*ownOutcome{}}
	work := []ownItem{{start, st}}
	for len(work) > 0 {
		it := work[len(work)-1]
		work = work[:len(work)-1]
		k := fmt.Sprintf("%d#%d|%s", it.loc.B.ID, it.loc.I, it.st.key())
		if r.seen[k] {
			continue
		}
		r.seen[k] = true
		o.States++
		if len(r.seen) > 200000 {
			o.Undecided = append(o.Undecided, "state limit in "+f.Name)
			break
		}
		b := it.loc.B
		if it.loc.I < len(b.Nodes) {
			for _, ns := range r.step(b.Nodes[it.loc.I], it.st) {
				work = append(work, ownItem{Loc{b, it.loc.I + 1}, ns})
			}
			continue
		}
		if b == r.g.Exit {
			if it.st.Deferred {
				r.record(&ownOutcome{Kind: "released", Why: "deferred release", Pos: ""})
			} else {
				r.record(&ownOutcome{Kind: "owned", Why: r.via(it.st, f.Name+": end of function"), Pos: o.p.Pos(f.Body.End())})
			}
			continue
		}
		if b == r.g.Panic {
			continue
		}
		for _, e := range b.Succs {
			ns, ok := r.edge(e, it.st)
			if ok {
				work = append(work, ownItem{Loc{e.To, 0}, ns})
			}
		}
	}
	var outs []*ownOutcome
	for _, x := range r.outs {
		outs = append(outs, x)
	}
	sort.Slice(outs, func(i, j int) bool { return outs[i].key() < outs[j].key() })
	return outs
}

func (r *ownRun) via(st *ownState, s string) string {
	if st.Via != "" {
		return s + " <- " + st.Via
	}
	return s
}

func (r *ownRun) record(x *ownOutcome) {
	if _, ok := r.outs[x.key()]; !ok {
		r.outs[x.key()] = x
	}
}

// edge applies an edge condition; false = infeasible for a live token.
func (r *ownRun) edge(e *Edge, st *ownState) (*ownState, bool) {
	o, p := r.o, r.o.p
	if e.Cond == nil {
		return st, true
	}
	ns := st
	cloned := false
	mut := func() *ownState {
		if !cloned {
			ns = st.clone()
			cloned = true
		}
		return ns
	}
	for _, ft := range p.FactsOfCond(e.Cond, e.Val) {
		switch ft.Op {
		case "range":
			rs, _ := ft.Stmt.(*ast.RangeStmt)
			if rs == nil {
				continue
			}
			if !ft.Val {
				// leaving the loop normally: every element was visited
				for _, c := range o.carries(r.f, rs.X, st) {
					if strings.HasPrefix(c.Path, "[]") {
						return nil, false
					}
				}
				if st.It[rs.Pos()] == 0 && o.rangeNonEmpty(r.f, rs) {
					return nil, false
				}
				if st.It[rs.Pos()] != 0 {
					mut().It[rs.Pos()] = 0
				}
			}
		case "==":
			k := o.keyOf(ft.X)
			if p.isNilExpr(ft.Y) && k != "" {
				isNil := ft.Val
				switch st.Pend[k] {
				case "absent":
					if !isNil {
						r.record(&ownOutcome{Kind: "absent", Why: "acquisition failed"})
						return nil, false
					}
					delete(mut().Pend, k)
				case "nonnil":
					if isNil {
						return nil, false
					}
				case "nil":
					if !isNil {
						return nil, false
					}
				}
				if _, held := st.H[k]; held && isNil {
					return nil, false
				}
				if _, isID := unparen(ft.X).(*ast.Ident); isID && st.Pend[k] == "" && o.retErrVars(r.f)[k] {
					if isNil {
						mut().Pend[k] = "nil"
					} else {
						mut().Pend[k] = "nonnil"
					}
				}
				continue
			}
			// len(container) == 0, idx == 0
			if v, ok := p.ConstVal(ft.Y); ok && v == "0" {
				if c, ok := unparen(ft.X).(*ast.CallExpr); ok && p.CalleeName(c) == "builtin.len" && len(c.Args) == 1 {
					if len(o.carries(r.f, c.Args[0], st)) > 0 && ft.Val {
						return nil, false
					}
				}
				if ph, ok := r.rangePhase(ft.X, st); ok {
					if (ph == 1) != ft.Val {
						return nil, false
					}
				}
			}
		case "truth":
			// reflect.ValueOf(h).IsNil() on a live holder is false
			if c, ok := unparen(ft.X).(*ast.CallExpr); ok && p.CalleeName(c) == "reflect.Value.IsNil" && ft.Val {
				if sel, ok := unparen(c.Fun).(*ast.SelectorExpr); ok {
					if vc, ok := unparen(sel.X).(*ast.CallExpr); ok && p.CalleeName(vc) == "reflect.ValueOf" && len(vc.Args) == 1 {
						if _, held := st.H[o.keyOf(vc.Args[0])]; held {
							return nil, false
						}
					}
				}
			}
		case "<":
			// 0 < idx  (idx > 0), 0 < len(c)
			if v, ok := p.ConstVal(ft.X); ok && v == "0" {
				if ph, ok := r.rangePhase(ft.Y, st); ok {
					if (ph == 2) != ft.Val {
						return nil, false
					}
				}
				if c, ok := unparen(ft.Y).(*ast.CallExpr); ok && p.CalleeName(c) == "builtin.len" && len(c.Args) == 1 {
					if len(o.carries(r.f, c.Args[0], st)) > 0 && !ft.Val {
						return nil, false
					}
				}
			}
			// idx < 1
			if v, ok := p.ConstVal(ft.Y); ok && v == "1" {
				if ph, ok := r.rangePhase(ft.X, st); ok {
					if (ph == 1) != ft.Val {
						return nil, false
					}
				}
			}
		}
	}
	return ns, true
}

// rangePhase: e is the key variable of a range loop whose iteration phase is known.
func (r *ownRun) rangePhase(e ast.Expr, st *ownState) (int, bool) {
	id, ok := unparen(e).(*ast.Ident)
	if !ok {
		return 0, false
	}
	obj := r.o.p.ObjOf(id)
	for pos, ph := range st.It {
		if ph == 0 {
			continue
		}
		rs := r.rangeAt(pos)
		if rs == nil {
			continue
		}
		if kid, ok := rs.Key.(*ast.Ident); ok && r.o.p.ObjOf(kid) == obj {
			// only slices/arrays have 0-based integer keys
			switch r.o.p.TypeOf(rs.X).Underlying().(type) {
			case *types.Slice, *types.Array:
				return ph, true
			}
		}
	}
	return 0, false
}

func (r *ownRun) rangeAt(pos token.Pos) *ast.RangeStmt {
	for _, rs := range r.o.rangesOf(r.f) {
		if rs.Pos() == pos {
			return rs
		}
	}
	return nil
}

func (o *Own) rangesOf(f *Func) map[ast.Expr]*ast.RangeStmt {
	if m, ok := o.rangeX[f]; ok {
		return m
	}
	m := map[ast.Expr]*ast.RangeStmt{}
	walkBody(f, func(n ast.Node) bool {
		if rs, ok := n.(*ast.RangeStmt); ok {
			m[rs.X] = rs
		}
		return true
	})
	o.rangeX[f] = m
	return m
}

// overwrite removes the holders rooted at lhs (its old value is gone).
func (r *ownRun) overwrite(lhs ast.Expr, st *ownState) {
	k := r.o.keyOf(lhs)
	if k == "" {
		return
	}
	for h := range st.H {
		if keyHasPrefix(h, k) {
			delete(st.H, h)
		}
	}
	delete(st.Pend, k)
}

// nonLocal: a store through lhs reaches an object that outlives the explored
// function (a field or element of something reached from a parameter,
// receiver, captured variable or package-level variable).
func (r *ownRun) nonLocal(lhs ast.Expr) (string, bool) {
	p := r.o.p
	steps := 0
	e := unparen(lhs)
	desc := ""
	for {
		switch x := e.(type) {
		case *ast.SelectorExpr:
			if fv := p.FieldOf(x); fv != nil && desc == "" {
				desc = p.FieldName(fv)
			}
			steps++
			e = unparen(x.X)
			continue
		case *ast.IndexExpr:
			steps++
			e = unparen(x.X)
			continue
		case *ast.StarExpr:
			steps++
			e = unparen(x.X)
			continue
		}
		break
	}
	id, ok := e.(*ast.Ident)
	if !ok || steps == 0 {
		return "", false
	}
	v, ok := p.ObjOf(id).(*types.Var)
	if !ok {
		return "", false
	}
	if v.Pkg() != nil && v.Parent() == v.Pkg().Scope() {
		return desc, true
	}
	switch v.Type().Underlying().(type) {
	case *types.Pointer, *types.Map, *types.Slice, *types.Interface, *types.Chan:
	default:
		return "", false
	}
	// parameter / receiver of the explored function or of an enclosing one, or a variable captured from outside
	for fn := r.f; fn != nil; fn = fn.Parent {
		if fn.Type != nil && fn.Type.Params != nil {
			for _, fl := range fn.Type.Params.List {
				for _, n := range fl.Names {
					if p.ObjOf(n) == v {
						return desc, true
					}
				}
			}
		}
		if fn.Decl != nil && fn.Decl.Recv != nil {
			for _, fl := range fn.Decl.Recv.List {
				for _, n := range fl.Names {
					if p.ObjOf(n) == v {
						return desc, true
					}
				}
			}
		}
	}
	if r.f.Body != nil && (v.Pos() < r.f.Body.Pos() || v.Pos() > r.f.Body.End()) {
		return desc, true
	}
	return "", false
}

// assign makes lhs hold what rhs carries. Returns false when the path ended.
func (r *ownRun) assign(lhs ast.Expr, cs []ownCarry, st *ownState, pos token.Pos) bool {
	r.overwrite(lhs, st)
	if len(cs) > 0 {
		if id, ok := unparen(lhs).(*ast.Ident); ok && id.Name == "_" {
			return r.checkLost(st, pos)
		}
		if desc, nl := r.nonLocal(lhs); nl {
			r.record(&ownOutcome{Kind: "handed", Why: "stored in " + desc, Pos: r.o.p.Pos(pos)})
			return false
		}
		k := r.o.keyOf(lhs)
		if k == "" {
			r.o.Undecided = append(r.o.Undecided, "store through unresolved expression at "+r.o.p.Pos(pos))
			return true
		}
		for _, c := range cs {
			st.H[k+c.Path] = c.Kind
		}
		return true
	}
	return r.checkLost(st, pos)
}

func (r *ownRun) checkLost(st *ownState, pos token.Pos) bool {
	if len(st.H) == 0 {
		if st.Deferred {
			r.record(&ownOutcome{Kind: "released", Why: "deferred release"})
		} else {
			r.record(&ownOutcome{Kind: "owned", Why: r.via(st, r.f.Name+": last reference overwritten"), Pos: r.o.p.Pos(pos)})
		}
		return false
	}
	return true
}

// callsPostOrder lists the calls of n, arguments before the call that uses them.
func (o *Own) callsPostOrder(n ast.Node) []*ast.CallExpr {
	var out []*ast.CallExpr
	var walk func(x ast.Node)
	walk = func(x ast.Node) {
		if x == nil {
			return
		}
		ast.Inspect(x, func(y ast.Node) bool {
			if y == x {
				return true
			}
			switch z := y.(type) {
			case *ast.FuncLit:
				return false
			case *ast.CallExpr:
				walk(z)
				out = append(out, z)
				return false
			}
			return true
		})
	}
	if c, ok := n.(*ast.CallExpr); ok {
		walk(c)
		out = append(out, c)
		return out
	}
	walk(n)
	return out
}

func (r *ownRun) step(n ast.Node, st *ownState) []*ownState {
	o, p := r.o, r.o.p
	switch x := n.(type) {
	case *RangeAssign:
		return r.rangeAssign(x.Stmt, st)
	case *ast.DeferStmt:
		outs := r.callOutcomes(x.Call, st, true)
		if outs != nil && allConsumed(outs) {
			ns := st.clone()
			ns.Deferred = true
			return []*ownState{ns}
		}
		return []*ownState{st}
	case *ast.GoStmt:
		outs := r.callOutcomes(x.Call, st, true)
		if outs != nil && allConsumed(outs) {
			r.record(&ownOutcome{Kind: "handed", Why: "goroutine that consumes it", Pos: p.Pos(x.Pos())})
			return nil
		}
		return []*ownState{st}
	case *ast.SendStmt:
		var res []*ownState
		r.procCalls(o.callsPostOrder(x), 0, st, nil, func(s *ownState, _ *ownOutcome) {
			if len(o.carries(r.f, x.Value, s)) > 0 {
				r.record(&ownOutcome{Kind: "handed", Why: "sent on channel " + stripVarLines(p.Canon(x.Chan)), Pos: p.Pos(x.Pos())})
				return
			}
			res = append(res, s)
		})
		return res
	case *ast.ReturnStmt:
		r.procCalls(o.callsPostOrder(x), 0, st, soleCall(x.Results), func(s *ownState, last *ownOutcome) {
			r.doReturn(x, s, last)
		})
		return nil
	case *ast.AssignStmt:
		var res []*ownState
		r.procCalls(o.callsPostOrder(x), 0, st, soleCall(x.Rhs), func(s *ownState, last *ownOutcome) {
			if ns := r.doAssign(x.Lhs, x.Rhs, s, last, x.Pos()); ns != nil {
				res = append(res, ns)
			}
		})
		return res
	case *ast.ValueSpec:
		var lhs []ast.Expr
		for _, nm := range x.Names {
			lhs = append(lhs, nm)
		}
		var res []*ownState
		r.procCalls(o.callsPostOrder(x), 0, st, soleCall(x.Values), func(s *ownState, last *ownOutcome) {
			if len(x.Values) == 0 {
				ns := s.clone()
				for _, l := range lhs {
					r.overwrite(l, ns)
				}
				if r.checkLost(ns, x.Pos()) {
					res = append(res, ns)
				}
				return
			}
			if ns := r.doAssign(lhs, x.Values, s, last, x.Pos()); ns != nil {
				res = append(res, ns)
			}
		})
		return res
	default:
		if rs, ok := n.(ast.Expr); ok {
			if rng := o.rangesOf(r.f)[rs]; rng != nil && st.It[rng.Pos()] != 0 {
				st = st.clone()
				st.It[rng.Pos()] = 0
			}
		}
		var res []*ownState
		r.procCalls(o.callsPostOrder(n), 0, st, nil, func(s *ownState, _ *ownOutcome) { res = append(res, s) })
		return res
	}
}

func soleCall(es []ast.Expr) *ast.CallExpr {
	if len(es) == 1 {
		if c, ok := unparen(es[0]).(*ast.CallExpr); ok {
			return c
		}
	}
	return nil
}

// procCalls threads the state through the calls of a node. k receives the
// state after all calls, together with the outcome of the designated call
// (the sole right-hand side / returned call) when it touched the token.
func (r *ownRun) procCalls(calls []*ast.CallExpr, i int, st *ownState, sole *ast.CallExpr, k func(*ownState, *ownOutcome)) {
	r.procCallsFrom(calls, i, st, sole, nil, k)
}

func (r *ownRun) procCallsFrom(calls []*ast.CallExpr, i int, st *ownState, sole *ast.CallExpr, last *ownOutcome, k func(*ownState, *ownOutcome)) {
	if i >= len(calls) {
		k(st, last)
		return
	}
	c := calls[i]
	outs := r.callOutcomes(c, st, false)
	if outs == nil {
		r.procCallsFrom(calls, i+1, st, sole, last, k)
		return
	}
	for _, x := range outs {
		switch x.Kind {
		case "released", "handed", "absent":
			r.record(x)
		case "owned", "returned":
			ns := st.clone()
			if x.Kind == "owned" && !strings.HasSuffix(x.Why, "(borrowed)") {
				ns.Via = x.Why
			}
			l := last
			if c == sole {
				l = x
			}
			r.procCallsFrom(calls, i+1, ns, sole, l, k)
		}
	}
}

// errIndex: the index of the (last) error-typed result of a signature, or -1.
func errIndex(sig *types.Signature) int {
	if sig == nil {
		return -1
	}
	for i := sig.Results().Len() - 1; i >= 0; i-- {
		if types.Identical(sig.Results().At(i).Type(), types.Universe.Lookup("error").Type()) {
			return i
		}
	}
	return -1
}

func (r *ownRun) callSig(c *ast.CallExpr) *types.Signature {
	if t := r.o.p.TypeOf(c.Fun); t != nil {
		sig, _ := t.Underlying().(*types.Signature)
		return sig
	}
	return nil
}

func (r *ownRun) doAssign(lhs, rhs []ast.Expr, st *ownState, last *ownOutcome, pos token.Pos) *ownState {
	o := r.o
	ns := st.clone()
	if len(lhs) == len(rhs) {
		// evaluate carries on the pre-state, then assign
		var cs [][]ownCarry
		for _, e := range rhs {
			cs = append(cs, o.carries(r.f, e, st))
		}
		for i, l := range lhs {
			c := cs[i]
			if call := soleCall([]ast.Expr{rhs[i]}); call != nil && last != nil && len(rhs) == 1 {
				for _, rt := range last.Rets {
					if rt.Idx == 0 {
						c = append(c, ownCarry{rt.Path, rt.Kind})
					}
				}
			}
			if !r.assign(l, c, ns, pos) {
				return nil
			}
			// nil-ness of error locals through literals and copies
			if lid, isL := unparen(l).(*ast.Ident); isL && lid.Name != "_" {
				if t := o.p.TypeOf(lid); t != nil && isErrType(t) {
					if lk := o.keyOf(lid); lk != "" {
						switch {
						case o.p.isNilExpr(rhs[i]):
							ns.Pend[lk] = "nil"
						default:
							if rid, isR := unparen(rhs[i]).(*ast.Ident); isR {
								if rk := o.keyOf(rid); rk != "" && (st.Pend[rk] == "nil" || st.Pend[rk] == "nonnil") {
									ns.Pend[lk] = st.Pend[rk]
								} else if ns.Pend[lk] == "nil" || ns.Pend[lk] == "nonnil" {
									delete(ns.Pend, lk)
								}
							} else if soleCall([]ast.Expr{rhs[i]}) == nil && (ns.Pend[lk] == "nil" || ns.Pend[lk] == "nonnil") {
								delete(ns.Pend, lk)
							}
						}
					}
				}
			}
		}
		if len(rhs) == 1 && last != nil {
			if call := soleCall(rhs); call != nil {
				if ei := errIndex(r.callSig(call)); ei == 0 && last.Err != "" {
					if k := o.keyOf(lhs[0]); k != "" {
						ns.Pend[k] = last.Err
					}
				}
			}
		}
		return ns
	}
	// tuple assignment from one call
	call := soleCall(rhs)
	var wrap []ownCarry
	if call != nil && o.Wrappers[o.p.CalleeName(call)] {
		wrap = o.carries(r.f, call, st)
	}
	for i, l := range lhs {
		var c []ownCarry
		if i == 0 {
			c = append(c, wrap...)
		}
		if last != nil {
			for _, rt := range last.Rets {
				if rt.Idx == i {
					c = append(c, ownCarry{rt.Path, rt.Kind})
				}
			}
		}
		if !r.assign(l, c, ns, pos) {
			return nil
		}
	}
	if call != nil && last != nil && last.Err != "" {
		if ei := errIndex(r.callSig(call)); ei >= 0 && ei < len(lhs) {
			if k := o.keyOf(lhs[ei]); k != "" {
				ns.Pend[k] = last.Err
			}
		}
	}
	return ns
}

func (r *ownRun) doReturn(x *ast.ReturnStmt, st *ownState, last *ownOutcome) {
	o, p := r.o, r.o.p
	var rets []ownRet
	for i, e := range x.Results {
		for _, c := range o.carries(r.f, e, st) {
			rets = append(rets, ownRet{i, c.Path, c.Kind})
		}
	}
	if last != nil && len(x.Results) == 1 {
		rets = append(rets, last.Rets...)
	}
	// value of the error result
	errv := ""
	var sig *types.Signature
	if r.f.Obj != nil {
		sig, _ = r.f.Obj.Type().(*types.Signature)
	} else if r.f.Lit != nil {
		sig, _ = p.TypeOf(r.f.Lit).(*types.Signature)
	}
	if ei := errIndex(sig); ei >= 0 {
		switch {
		case len(x.Results) == 1 && last != nil && soleCall(x.Results) != nil && sig.Results().Len() > 1:
			errv = last.Err
		case len(x.Results) == 1 && last != nil && soleCall(x.Results) != nil:
			errv = last.Err
		case ei < len(x.Results):
			e := unparen(x.Results[ei])
			switch {
			case p.isNilExpr(e):
				errv = "nil"
			default:
				if k := o.keyOf(e); k != "" {
					switch st.Pend[k] {
					case "nil", "nonnil":
						errv = st.Pend[k]
					}
				}
				if errv == "" {
					if c, ok := e.(*ast.CallExpr); ok {
						n := p.CalleeName(c)
						if n == "fmt.Errorf" || n == "errors.New" {
							errv = "nonnil"
						}
					} else if id, ok := e.(*ast.Ident); ok {
						// package-level error values
						if v, ok := p.ObjOf(id).(*types.Var); ok && v.Pkg() != nil && v.Parent() == v.Pkg().Scope() {
							errv = "nonnil"
						}
					} else if sel, ok := e.(*ast.SelectorExpr); ok {
						if v, ok := p.ObjOf(sel.Sel).(*types.Var); ok && v.Pkg() != nil && v.Parent() == v.Pkg().Scope() {
							errv = "nonnil"
						}
					}
				}
			}
		}
	}
	switch {
	case len(rets) > 0:
		r.record(&ownOutcome{Kind: "returned", Err: errv, Rets: rets, Why: "returned", Pos: p.Pos(x.Pos())})
	case st.Deferred:
		r.record(&ownOutcome{Kind: "released", Why: "deferred release", Pos: p.Pos(x.Pos())})
	default:
		exit := r.f.Name + ": " + o.returnDesc(r.f, x)
		if o.assumed(exit, st) {
			return
		}
		r.record(&ownOutcome{Kind: "owned", Err: errv, Why: r.via(st, exit), Pos: p.Pos(x.Pos())})
	}
}

// returnDesc names a return statement by the innermost condition it sits under.
func (o *Own) returnDesc(f *Func, ret *ast.ReturnStmt) string {
	if d, ok := o.retDesc[ret]; ok {
		return d
	}
	p := o.p
	descs := map[*ast.ReturnStmt]string{}
	var order []*ast.ReturnStmt
	var stack []ast.Node
	ast.Inspect(f.Body, func(n ast.Node) bool {
		if n == nil {
			stack = stack[:len(stack)-1]
			return true
		}
		if _, isLit := n.(*ast.FuncLit); isLit {
			// keep the stack balanced: Inspect does not descend, and sends no nil
			return false
		}
		stack = append(stack, n)
		if rs, ok := n.(*ast.ReturnStmt); ok {
			d := "return"
			for i := len(stack) - 2; i >= 0; i-- {
				if is, ok := stack[i].(*ast.IfStmt); ok {
					// then-branch or else-branch?
					inElse := is.Else != nil && rs.Pos() >= is.Else.Pos()
					c := p.RoleCanon(f, is.Cond)
					if inElse {
						c = negateText(c)
					}
					d = "return under [" + c + "]"
					break
				}
				if cc, ok := stack[i].(*ast.CaseClause); ok {
					var cs []string
					for _, e := range cc.List {
						cs = append(cs, p.RoleCanon(f, e))
					}
					if len(cs) == 0 {
						cs = []string{"default"}
					}
					d = "return under case [" + strings.Join(cs, ", ") + "]"
					break
				}
			}
			descs[rs] = d
			order = append(order, rs)
		}
		return true
	})
	count := map[string]int{}
	for _, rs := range order {
		d := descs[rs]
		count[d]++
		if count[d] > 1 {
			d = fmt.Sprintf("%s #%d", d, count[d])
		}
		o.retDesc[rs] = d
	}
	return o.retDesc[ret]
}

func (r *ownRun) rangeAssign(rs *ast.RangeStmt, st *ownState) []*ownState {
	o := r.o
	base := st.clone()
	if base.It[rs.Pos()] == 0 {
		base.It[rs.Pos()] = 1
	} else {
		base.It[rs.Pos()] = 2
	}
	cs := o.carries(r.f, rs.X, st)
	var elem []ownCarry
	for _, c := range cs {
		if strings.HasPrefix(c.Path, "[]") {
			elem = append(elem, ownCarry{c.Path[2:], c.Kind})
		}
	}
	var res []*ownState
	// (b) the token is not the current element
	b := base.clone()
	okB := true
	if rs.Key != nil {
		r.overwrite(rs.Key, b)
	}
	if rs.Value != nil {
		r.overwrite(rs.Value, b)
	}
	if len(b.H) == 0 {
		okB = r.checkLost(b, rs.Pos())
	}
	if okB {
		res = append(res, b)
	}
	// (a) the token is the current element
	if len(elem) > 0 && rs.Value != nil {
		if vk := o.keyOf(rs.Value); vk != "" {
			a := base.clone()
			xk := o.keyOf(rs.X)
			for h := range a.H {
				if xk != "" && keyHasPrefix(h, xk) && strings.HasPrefix(h[len(xk):], "[]") {
					delete(a.H, h)
				}
			}
			r.overwrite(rs.Value, a)
			if rs.Key != nil {
				r.overwrite(rs.Key, a)
			}
			for _, c := range elem {
				a.H[vk+c.Path] = c.Kind
			}
			res = append(res, a)
		}
	}
	return res
}

// calleesAt resolves the bodies a call may run.
func (o *Own) calleesAt(f *Func, call *ast.CallExpr) []*Func {
	var out []*Func
	seen := map[*Func]bool{}
	for fn := f; fn != nil; fn = fn.Parent {
		for _, e := range o.p.CG().Out[fn] {
			if e.Call == call && e.Kind != "arg" && !seen[e.Callee] {
				seen[e.Callee] = true
				out = append(out, e.Callee)
			}
		}
		if len(out) > 0 {
			break
		}
	}
	sort.Slice(out, func(i, j int) bool { return out[i].Name < out[j].Name })
	return out
}

func (o *Own) paramKey(g *Func, idx int) (string, bool) {
	p := o.p
	if g.Type == nil || g.Type.Params == nil {
		return "", false
	}
	i := 0
	var lastObj types.Object
	variadic := false
	for _, fl := range g.Type.Params.List {
		_, isEll := fl.Type.(*ast.Ellipsis)
		for _, n := range fl.Names {
			obj := p.ObjOf(n)
			if i == idx {
				if v, ok := obj.(*types.Var); ok && n.Name != "_" {
					if isEll {
						return p.varKey(v) + "[]", true
					}
					return p.varKey(v), true
				}
				return "", false
			}
			lastObj, variadic = obj, isEll
			i++
		}
	}
	if variadic && lastObj != nil {
		if v, ok := lastObj.(*types.Var); ok {
			return p.varKey(v) + "[]", true
		}
	}
	return "", false
}

func (o *Own) recvKey(g *Func) (string, *types.Var) {
	if g.Decl == nil || g.Decl.Recv == nil {
		return "", nil
	}
	for _, fl := range g.Decl.Recv.List {
		for _, n := range fl.Names {
			if v, ok := o.p.ObjOf(n).(*types.Var); ok {
				return o.p.varKey(v), v
			}
		}
	}
	return "", nil
}

// fieldPathExists: the first field of path exists on t (including promoted fields).
func fieldPathExists(t types.Type, path string) bool {
	if !strings.HasPrefix(path, ".") {
		return true
	}
	name := path[1:]
	if i := strings.IndexAny(name, ".["); i >= 0 {
		name = name[:i]
	}
	obj, _, _ := types.LookupFieldOrMethod(t, true, nil, name)
	if obj == nil {
		// unexported field: need the package
		if n := namedOf(t); n != nil && n.Obj().Pkg() != nil {
			obj, _, _ = types.LookupFieldOrMethod(t, true, n.Obj().Pkg(), name)
		}
	}
	_, isVar := obj.(*types.Var)
	return isVar
}

// callOutcomes: what executing call does to the token; nil = does not touch it.
func (r *ownRun) callOutcomes(call *ast.CallExpr, st *ownState, async bool) []*ownOutcome {
	o, p := r.o, r.o.p
	fun := unparen(call.Fun)
	pos := p.Pos(call.Pos())
	if tv, ok := p.Info.Types[call.Fun]; ok && tv.IsType() {
		return nil
	}
	name := p.CalleeName(call)
	if name == "builtin.append" || o.Wrappers[name] || strings.HasPrefix(name, "builtin.") {
		return nil
	}
	// closer invoked
	for _, c := range o.carries(r.f, fun, st) {
		if c.Path == "" && c.Kind == 'f' {
			return []*ownOutcome{{Kind: "released", Why: "release function called", Pos: pos}}
		}
	}
	type argBind struct {
		idx int // -1 receiver
		c   ownCarry
	}
	var binds []argBind
	if sel, ok := fun.(*ast.SelectorExpr); ok && p.FieldOf(sel) == nil {
		if s := p.Info.Selections[sel]; s != nil && (s.Kind() == types.MethodVal) {
			for _, c := range o.carries(r.f, sel.X, st) {
				if c.Path == "" && c.Kind == 'v' {
					if sel.Sel.Name == "Close" {
						return []*ownOutcome{{Kind: "released", Why: "Close", Pos: pos}}
					}
					continue // other methods borrow the resource
				}
				binds = append(binds, argBind{-1, c})
			}
		}
	}
	for i, a := range call.Args {
		for _, c := range o.carries(r.f, a, st) {
			binds = append(binds, argBind{i, c})
		}
	}
	// a literal run by the callee under a known protocol (task loop)
	if ai, ok := o.RunsIffNil[name]; ok && ai < len(call.Args) {
		if lit := o.litOf(r.f, call.Args[ai]); lit != nil {
			if cb := o.captured(lit, st); len(cb) > 0 {
				outs := []*ownOutcome{{Kind: "owned", Err: "nonnil", Why: "(borrowed)"}}
				for _, x := range o.summary(lit, cb) {
					y := *x
					y.Err = "nil"
					if y.Kind == "owned" {
						y.Why = x.Why
					}
					outs = append(outs, &y)
				}
				return outs
			}
		}
	}
	// a literal called directly or spawned: its captures are bound by name
	var litBinds []ownBind
	if fl, ok := fun.(*ast.FuncLit); ok {
		if lit := p.ByLit[fl]; lit != nil {
			litBinds = o.captured(lit, st)
		}
	}
	if len(binds) == 0 && len(litBinds) == 0 {
		return nil
	}
	targets := o.calleesAt(r.f, call)
	if fl, ok := fun.(*ast.FuncLit); ok && len(targets) == 0 {
		if lit := p.ByLit[fl]; lit != nil {
			targets = []*Func{lit}
		}
	}
	if len(targets) == 0 {
		return nil // external or unresolved: borrows
	}
	merged := map[string]*ownOutcome{}
	any := false
	for _, t := range targets {
		var cb []ownBind
		cb = append(cb, litBinds...)
		feasible := true
		for _, b := range binds {
			if b.idx == -1 {
				rk, rv := o.recvKey(t)
				if rk == "" {
					feasible = false
					break
				}
				if !fieldPathExists(rv.Type(), b.c.Path) {
					feasible = false
					break
				}
				cb = append(cb, ownBind{rk + b.c.Path, b.c.Kind})
				continue
			}
			pk, ok := o.paramKey(t, b.idx)
			if !ok {
				continue // unnamed parameter: cannot be used by the callee
			}
			cb = append(cb, ownBind{pk + b.c.Path, b.c.Kind})
		}
		if !feasible {
			continue
		}
		if len(cb) == 0 {
			// passed to a parameter the callee cannot name: untouched
			merged["owned||"+t.Name] = &ownOutcome{Kind: "owned", Why: t.Name + ": (borrowed)"}
			any = true
			continue
		}
		any = true
		for _, x := range o.summary(t, cb) {
			y := *x
			if y.Kind == "returned" && async {
				y.Kind = "owned"
			}
			merged[y.key()] = &y
		}
	}
	if !any {
		return nil
	}
	var outs []*ownOutcome
	pure := true
	for _, x := range merged {
		if x.Kind != "owned" {
			pure = false
		}
	}
	if pure {
		// the callee only borrows: which of its exits was taken is irrelevant
		byErr := map[string]bool{}
		for _, x := range merged {
			if !byErr[x.Err] {
				byErr[x.Err] = true
				outs = append(outs, &ownOutcome{Kind: "owned", Err: x.Err, Why: "(borrowed)"})
			}
		}
		sort.Slice(outs, func(i, j int) bool { return outs[i].key() < outs[j].key() })
		return outs
	}
	for _, x := range merged {
		outs = append(outs, x)
	}
	sort.Slice(outs, func(i, j int) bool { return outs[i].key() < outs[j].key() })
	return outs
}

// litOf: e is a function literal or a local variable defined once by one.
func (o *Own) litOf(f *Func, e ast.Expr) *Func {
	p := o.p
	switch x := unparen(e).(type) {
	case *ast.FuncLit:
		return p.ByLit[x]
	case *ast.Ident:
		for fn := f; fn != nil; fn = fn.Parent {
			if d, ok := p.SingleDef(fn, p.ObjOf(x)); ok && d.Rhs != nil {
				if fl, ok := unparen(d.Rhs).(*ast.FuncLit); ok {
					return p.ByLit[fl]
				}
			}
		}
	}
	return nil
}

// ---- roots --------------------------------------------------------------------------

type ownRoot struct {
	F      *Func
	Node   ast.Node
	Call   *ast.CallExpr
	Callee string
	Lhs    string // name of the variable that receives the resource
	Key    string // initial holder
	ErrKey string
	Outs   []*ownOutcome
}

func (rt *ownRoot) Desc() string {
	return fmt.Sprintf("%s := %s in %s", rt.Lhs, rt.Callee, rt.F.Name)
}

// isResType: a closable connection-like type (or a slice of them).
func (o *Own) isResType(t types.Type) (bool, string) {
	if t == nil {
		return false, ""
	}
	if sl, ok := t.Underlying().(*types.Slice); ok {
		if ok2, _ := o.isResType(sl.Elem()); ok2 {
			return true, "[]"
		}
		return false, ""
	}
	if !o.hasCloseMethod(t) {
		return false, ""
	}
	switch typeStr(t) {
	case "*ice.Agent", "*ice.Conn", "*taskloop.Loop", "*mdns.Conn", "*ice.UDPMuxDefault", "*ice.TCPMuxDefault",
		"*ice.UniversalUDPMuxDefault", "*ice.MultiUDPMuxDefault", "*ice.MultiTCPMuxDefault":
		return false, ""
	}
	return true, ""
}

// Roots finds the acquisition sites in the given functions: calls with a
// closable result bound to a variable.
func (o *Own) Roots(funcs []*Func, skipCallee func(name string) bool) []*ownRoot {
	p := o.p
	var roots []*ownRoot
	for _, f := range funcs {
		g := p.CFG(f)
		for _, b := range g.Blocks {
			for _, n := range b.Nodes {
				var lhs []ast.Expr
				var call *ast.CallExpr
				switch x := n.(type) {
				case *ast.AssignStmt:
					lhs, call = x.Lhs, soleCall(x.Rhs)
				case *ast.ValueSpec:
					for _, nm := range x.Names {
						lhs = append(lhs, nm)
					}
					call = soleCall(x.Values)
				}
				if call == nil {
					continue
				}
				if tv, ok := p.Info.Types[call.Fun]; ok && tv.IsType() {
					continue
				}
				name := p.CalleeName(call)
				if name == "" {
					name = stripVarLines(p.Canon(call.Fun))
				}
				if o.Wrappers[name] || strings.HasPrefix(name, "builtin.") || (skipCallee != nil && skipCallee(name)) {
					continue
				}
				sig := (&ownRun{o: o}).callSig(call)
				if sig == nil {
					continue
				}
				for i := 0; i < sig.Results().Len() && i < len(lhs); i++ {
					ok, suffix := o.isResType(sig.Results().At(i).Type())
					if !ok {
						continue
					}
					k := o.keyOf(lhs[i])
					if k == "" {
						continue
					}
					rt := &ownRoot{F: f, Node: n, Call: call, Callee: name, Lhs: stripVarLines(p.Canon(lhs[i])), Key: k + suffix}
					if ei := errIndex(sig); ei >= 0 && ei < len(lhs) && ei != i {
						rt.ErrKey = o.keyOf(lhs[ei])
					}
					roots = append(roots, rt)
				}
			}
		}
	}
	sort.Slice(roots, func(i, j int) bool {
		if roots[i].F.Name != roots[j].F.Name {
			return roots[i].F.Name < roots[j].F.Name
		}
		return roots[i].Node.Pos() < roots[j].Node.Pos()
	})
	return roots
}

// Run explores a root from the statement after its acquisition.
func (o *Own) Run(rt *ownRoot) {
	g := o.p.CFG(rt.F)
	loc, ok := g.Locate(rt.Node)
	if !ok {
		o.Undecided = append(o.Undecided, "acquisition not located: "+rt.Desc())
		return
	}
	st := newOwnState()
	st.H[rt.Key] = 'v'
	if rt.ErrKey != "" {
		st.Pend[rt.ErrKey] = "absent"
	}
	rt.Outs = o.explore(rt.F, Loc{loc.B, loc.I + 1}, st)
}

// rangeNonEmpty: the ranged slice is the first result of a call to an analysed
// function that returns a non-empty slice whenever its boolean result is true,
// and that result is known true at the loop.
func (o *Own) rangeNonEmpty(f *Func, rs *ast.RangeStmt) bool {
	p := o.p
	id, ok := unparen(rs.X).(*ast.Ident)
	if !ok {
		return false
	}
	var def VarDef
	found := false
	for fn := f; fn != nil && !found; fn = fn.Parent {
		if d, ok := p.SingleDef(fn, p.ObjOf(id)); ok {
			def, found = d, true
		}
	}
	if !found || def.Rhs == nil || def.Index != 0 {
		return false
	}
	call, ok := unparen(def.Rhs).(*ast.CallExpr)
	if !ok {
		return false
	}
	callee := p.Callee(call)
	if callee == nil {
		return false
	}
	g := p.ByObj[callee]
	if g == nil || !o.nonEmptyWhenOK(g) {
		return false
	}
	facts, _ := p.FactsAtCall(f, rs.X)
	return facts.Has(func(ft Fact) bool {
		if ft.Op != "truth" || !ft.Val {
			return false
		}
		c, idx, ok := p.ResolveCall(f, ft.X)
		return ok && c == call && idx == 1
	})
}

// nonEmptyWhenOK: g returns (slice, bool) and every return whose second result
// is the constant true returns a slice that is provably non-empty: a literal
// with elements, an append to one, or a value known to have len != 0 there.
func (o *Own) nonEmptyWhenOK(g *Func) bool {
	p := o.p
	okAll, n := true, 0
	var nonEmpty func(e ast.Expr, at ast.Node, depth int) bool
	nonEmpty = func(e ast.Expr, at ast.Node, depth int) bool {
		e = unparen(e)
		if depth > 4 {
			return false
		}
		switch x := e.(type) {
		case *ast.CompositeLit:
			return len(x.Elts) > 0
		case *ast.CallExpr:
			if p.CalleeName(x) == "builtin.append" && len(x.Args) > 0 {
				if nonEmpty(x.Args[0], at, depth+1) {
					return true
				}
				return len(x.Args) > 1 && !x.Ellipsis.IsValid()
			}
		case *ast.Ident:
			facts, _ := p.FactsAtCall(g, at)
			if facts.Has(func(ft Fact) bool {
				if ft.Op != "==" || ft.Val {
					return false
				}
				if v, ok := p.ConstVal(ft.Y); !ok || v != "0" {
					return false
				}
				c, ok := unparen(ft.X).(*ast.CallExpr)
				if !ok || p.CalleeName(c) != "builtin.len" || len(c.Args) != 1 {
					return false
				}
				a, ok := unparen(c.Args[0]).(*ast.Ident)
				return ok && p.ObjOf(a) == p.ObjOf(x)
			}) {
				return true
			}
			if d, ok := p.SingleDef(g, p.ObjOf(x)); ok && d.Rhs != nil && d.Index == 0 {
				return nonEmpty(d.Rhs, at, depth+1)
			}
		}
		return false
	}
	walkBody(g, func(nd ast.Node) bool {
		rs, ok := nd.(*ast.ReturnStmt)
		if !ok || len(rs.Results) != 2 {
			return true
		}
		if v, ok := p.ConstVal(rs.Results[1]); ok && v == "true" {
			n++
			if !nonEmpty(rs.Results[0], rs, 0) {
				okAll = false
			}
		} else if !ok {
			okAll = false // second result not a constant: cannot decide
		}
		return true
	})
	return okAll && n > 0
}

// retErrVars: the local variables f returns as its error result.
func (o *Own) retErrVars(f *Func) map[string]bool {
	if m, ok := o.retErr[f]; ok {
		return m
	}
	m := map[string]bool{}
	var sig *types.Signature
	if f.Obj != nil {
		sig, _ = f.Obj.Type().(*types.Signature)
	} else if f.Lit != nil {
		sig, _ = o.p.TypeOf(f.Lit).(*types.Signature)
	}
	if ei := errIndex(sig); ei >= 0 {
		walkBody(f, func(n ast.Node) bool {
			if rs, ok := n.(*ast.ReturnStmt); ok && ei < len(rs.Results) {
				if k := o.keyOf(rs.Results[ei]); k != "" {
					m[k] = true
				}
			}
			return true
		})
	}
	// error locals that are copied into other error locals (result temporaries of an inlined helper,
	// "outErr = err"): their nil-ness decides later tests of the copy, so it is tracked as well
	walkBody(f, func(n ast.Node) bool {
		as, ok := n.(*ast.AssignStmt)
		if !ok || len(as.Lhs) != len(as.Rhs) {
			return true
		}
		for i, l := range as.Lhs {
			lid, isL := unparen(l).(*ast.Ident)
			rid, isR := unparen(as.Rhs[i]).(*ast.Ident)
			if !isL || !isR || lid.Name == "_" {
				continue
			}
			if t := o.p.TypeOf(lid); t == nil || !isErrType(t) {
				continue
			}
			if v, isVar := o.p.ObjOf(rid).(*types.Var); isVar && !v.IsField() {
				if k := o.keyOf(rid); k != "" {
					m[k] = true
				}
				if k := o.keyOf(lid); k != "" {
					m[k] = true
				}
			}
		}
		return true
	})
	o.retErr[f] = m
	return m
}

// assumed: the exit is covered by a recorded assumption.
func (o *Own) assumed(exit string, st *ownState) bool {
	if _, ok := o.Assume[exit]; ok {
		o.AssumeUsed[exit]++
		return true
	}
	for k := range o.Assume {
		if i := strings.Index(k, "|"); i >= 0 && k[:i] == exit {
			for h := range st.H {
				if strings.Contains(h, k[i+1:]) {
					o.AssumeUsed[k]++
					return true
				}
			}
		}
	}
	return false
}
