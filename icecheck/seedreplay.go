package main

// Replay of the stored seeded changes (/verif/seeded/<prop>-*/patch.diff) in
// the thorough tier: each unified diff is applied to the current files *in
// memory* and handed to the loader as an overlay — no scratch copy of /repo is
// made and nothing is executed. A seeded change is a change that compiles,
// keeps the existing test-suite green and breaks the property (verified when
// it was stored), so the property's check must report it.

import (
	"fmt"
	"os"
	"path/filepath"
	"sort"
	"strings"
)

type seedOutcome struct {
	ID      string
	Stale   string // reason, when the patch no longer applies / type-checks
	Fired   []string
	Details []string
}

// applyUnifiedDiff applies a git-style unified diff to the files under repo and
// returns the patched contents keyed by absolute path.
func applyUnifiedDiff(repo, diff string) (map[string][]byte, error) {
	out := map[string][]byte{}
	lines := strings.Split(diff, "\n")
	i := 0
	for i < len(lines) {
		if !strings.HasPrefix(lines[i], "--- ") {
			i++
			continue
		}
		if i+1 >= len(lines) || !strings.HasPrefix(lines[i+1], "+++ ") {
			return nil, fmt.Errorf("malformed diff header at line %d", i+1)
		}
		name := strings.TrimPrefix(strings.Fields(lines[i+1])[1], "b/")
		if strings.HasPrefix(lines[i], "--- /dev/null") || strings.HasPrefix(lines[i+1], "+++ /dev/null") {
			return nil, fmt.Errorf("diff adds or deletes a file (%s): not supported", name)
		}
		path := filepath.Join(repo, name)
		b, err := os.ReadFile(path)
		if err != nil {
			return nil, err
		}
		src := strings.Split(string(b), "\n")
		var res []string
		pos := 0 // next unread line of src
		i += 2
		for i < len(lines) && strings.HasPrefix(lines[i], "@@") {
			// collect the hunk
			i++
			var oldL, newL []string
			for i < len(lines) && !strings.HasPrefix(lines[i], "@@") && !strings.HasPrefix(lines[i], "diff ") && !strings.HasPrefix(lines[i], "--- ") {
				l := lines[i]
				switch {
				case strings.HasPrefix(l, "+"):
					newL = append(newL, l[1:])
				case strings.HasPrefix(l, "-"):
					oldL = append(oldL, l[1:])
				case strings.HasPrefix(l, " "):
					oldL = append(oldL, l[1:])
					newL = append(newL, l[1:])
				case l == "":
					// a blank context line whose leading space was stripped, or the end of the diff
					if i == len(lines)-1 {
						break
					}
					oldL = append(oldL, "")
					newL = append(newL, "")
				case strings.HasPrefix(l, "\\"):
				}
				i++
			}
			// locate the old block at or after pos (line numbers may have drifted)
			at := -1
			for s := pos; s+len(oldL) <= len(src); s++ {
				match := true
				for k := range oldL {
					if src[s+k] != oldL[k] {
						match = false
						break
					}
				}
				if match {
					at = s
					break
				}
			}
			if at < 0 {
				return nil, fmt.Errorf("hunk does not apply to %s", name)
			}
			res = append(res, src[pos:at]...)
			res = append(res, newL...)
			pos = at + len(oldL)
		}
		res = append(res, src[pos:]...)
		out[path] = []byte(strings.Join(res, "\n"))
	}
	if len(out) == 0 {
		return nil, fmt.Errorf("no file patched")
	}
	return out, nil
}

// runSeed analyses one stored seeded change.
func runSeed(prop, dir, repo string) seedOutcome {
	o := seedOutcome{ID: filepath.Base(dir)}
	b, err := os.ReadFile(filepath.Join(dir, "patch.diff"))
	if err != nil {
		o.Stale = err.Error()
		return o
	}
	ov, err := applyUnifiedDiff(repo, string(b))
	if err != nil {
		o.Stale = err.Error()
		return o
	}
	q, err := loadRepo(repo, ov)
	if err != nil {
		o.Stale = "does not type-check on the current tree: " + short(err.Error(), 160)
		return o
	}
	sub := NewReport(prop, "seed", 0, q)
	func() {
		defer func() {
			if x := recover(); x != nil {
				sub.Fatal = append(sub.Fatal, fmt.Sprint("panic: ", x))
			}
		}()
		registry[prop].Run(q, sub)
	}()
	seen := map[string]bool{}
	for _, ob := range sub.Obls {
		if ob.Status == Discharged || (ob.Status == Violated && knownListed(prop, ob.Rule, ob.Construct)) {
			continue
		}
		if !seen[ob.Rule] {
			seen[ob.Rule] = true
			o.Fired = append(o.Fired, ob.Rule)
		}
		if len(o.Details) < 2 {
			o.Details = append(o.Details, fmt.Sprintf("%s %s [%s]", ob.Rule, short(ob.Construct, 90), ob.Pos))
		}
	}
	sort.Strings(o.Fired)
	return o
}

// replaySeeds adds the seeded-change obligations of a property (rule SEED).
func replaySeeds(id string, r *Report, repo, verif string) {
	dirs, _ := filepath.Glob(filepath.Join(verif, "seeded", id+"-*"))
	sort.Strings(dirs)
	if len(dirs) == 0 {
		return
	}
	r.Rule("SEED", "Every stored seeded change of this property (a change that compiles, keeps the existing suite green and was shown to break the property) is reported by the property's check when its patch is applied in memory to the current tree.", 0)
	caught, stale := 0, 0
	for _, d := range dirs {
		o := runSeed(id, d, repo)
		switch {
		case o.Stale != "":
			stale++
			r.Trivial("seeded change "+o.ID, "", "not applicable to the current tree, skipped: "+o.Stale)
		case len(o.Fired) > 0:
			caught++
			r.OK("seeded change "+o.ID, "", "reported by "+strings.Join(o.Fired, ",")+": "+strings.Join(o.Details, " | "))
		default:
			r.Fail("seeded change "+o.ID, "", "the check is blind to this seeded change (see "+d+"/meta.json)")
		}
	}
	r.Extra["seeded_changes_caught"] = caught
	r.Extra["seeded_changes_total"] = len(dirs) - stale
	r.Extra["seeded_changes_stale"] = stale
}

// replayBenign: the stored behaviour-preserving changes of a property
// (/verif/benign/<prop>-*/patch.diff: refactorings produced by sub-agents that
// saw only the property's text, each verified to keep the suite green) must
// leave the check silent (rule BENIGN).
func replayBenign(id string, r *Report, repo, verif string) {
	dirs, _ := filepath.Glob(filepath.Join(verif, "benign", id+"-*"))
	sort.Strings(dirs)
	if len(dirs) == 0 {
		return
	}
	r.Rule("BENIGN", "Every stored behaviour-preserving change of this property's code (extracted helpers, inverted conditions, switch / if chains, loop forms, renamed locals, named intermediates, function literals turned into methods, ...) leaves every obligation of the check discharged when its patch is applied in memory to the current tree.", 0)
	silent, stale := 0, 0
	for _, d := range dirs {
		o := runSeed(id, d, repo)
		switch {
		case o.Stale != "":
			stale++
			r.Trivial("behaviour-preserving change "+o.ID, "", "not applicable to the current tree, skipped: "+o.Stale)
		case len(o.Fired) == 0:
			silent++
			r.OK("behaviour-preserving change "+o.ID, "", "no obligation violated or undecided")
		default:
			r.Unknown("behaviour-preserving change "+o.ID, "", "the check raises "+strings.Join(o.Fired, ",")+" on a change that does not alter behaviour ("+strings.Join(o.Details, " | ")+"): a false alarm in the machinery")
		}
	}
	r.Extra["benign_changes_silent"] = silent
	r.Extra["benign_changes_total"] = len(dirs) - stale
}
