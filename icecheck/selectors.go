package main

// Shared decision-tree extractions of the selector code, used by C01, C02,
// C03 and C20 (each property checks its own clauses on the same trees).

import (
	"go/ast"
	"strings"
)

// selectorEvents labels the designated effects of selector code.
func selectorEvents(p *Prog, f *Func) func(n ast.Node, env *TEnv) []string {
	return func(n ast.Node, _ *TEnv) []string {
		var out []string
		if as, ok := n.(*ast.AssignStmt); ok {
			for i, l := range as.Lhs {
				switch {
				case p.IsField(l, "CandidatePair.state") && i < len(as.Rhs):
					out = append(out, "state="+strings.TrimPrefix(p.constName(as.Rhs[i]), "CandidatePairState"))
				case p.IsField(l, "CandidatePair.nominateOnBindingSuccess") && i < len(as.Rhs):
					out = append(out, "defer="+p.constName(as.Rhs[i]))
				case p.IsField(l, "CandidatePair.nominated") && i < len(as.Rhs):
					out = append(out, "nominated="+p.constName(as.Rhs[i]))
				case p.IsField(l, "controllingSelector.nominatedPair"):
					out = append(out, "remember-nominated")
				case p.IsField(l, "controlledSelector.lastNomination"):
					out = append(out, "store-last")
				case p.IsField(l, "CandidatePair.bindingRequestCount"):
					out = append(out, "count-write")
				}
			}
		}
		if inc, ok := n.(*ast.IncDecStmt); ok && p.IsField(inc.X, "CandidatePair.bindingRequestCount") {
			out = append(out, "count++")
		}
		for _, c := range p.NodeCalls(n) {
			switch p.CalleeName(c) {
			case "ice.Agent.setSelectedPair":
				if len(c.Args) == 1 && p.isNilExpr(c.Args[0]) {
					out = append(out, "unselect")
				} else {
					out = append(out, "select")
				}
			case "ice.Agent.sendBindingSuccess":
				out = append(out, "reply")
			case "ice.Agent.addPair":
				out = append(out, "addPair")
			case "ice.controlledSelector.PingCandidate", "ice.controllingSelector.PingCandidate", "ice.pairCandidateSelector.PingCandidate":
				out = append(out, "ping")
			case "ice.controllingSelector.nominatePair":
				out = append(out, "nominate")
			case "ice.Agent.handleBindingRequestWithCustomHandler":
				out = append(out, "custom")
			case "ice.Agent.pingAllCandidates":
				out = append(out, "pingAll")
			case "ice.Agent.validateSelectedPair":
				// as an event only when called as a statement (not as condition)
				if es, ok := n.(*ast.ExprStmt); ok && es.X == ast.Expr(c) {
					out = append(out, "validate")
				}
			case "ice.Agent.checkKeepalive":
				out = append(out, "keepalive")
			case "ice.CandidatePair.UpdateRoundTripTime":
				out = append(out, "rtt")
			case "ice.Agent.sendBindingRequest":
				out = append(out, "send-request")
			case "ice.Agent.sendSTUN":
				out = append(out, "send")
			case "ice.Agent.keepAliveCandidatesForRenomination":
				out = append(out, "keepalive-all")
			case "ice.controllingSelector.checkForAutomaticRenomination":
				out = append(out, "auto-renom")
			}
		}
		return out
	}
}

// classifySelectorAtom maps atoms of the selector functions to semantic names.
func classifySelectorAtom(p *Prog, f *Func) func(a *TAtom) (string, bool) {
	return func(a *TAtom) (string, bool) {
		x := a.X
		isCall := func(e ast.Expr, callee string) bool { return p.atomIsCall(f, e, callee) }
		switch a.Kind {
		case "bool":
			switch {
			case isCall(x, "ice.Agent.handleInboundBindingSuccess"):
				return "txn", false
			case isCall(x, "ice.responseSymmetric"):
				return "symmetric", false
			case isCall(x, "ice.controlledSelector.shouldAcceptNomination"):
				return "accept", false
			case isCall(x, "ice.controlledSelector.shouldSwitchSelectedPair"):
				return "switch", false
			case isCall(x, "ice.Agent.needsToCheckPriorityOnNominated"):
				return "needsPrio", false
			case isCall(x, "ice.Agent.validateSelectedPair"):
				return "validated", false
			case isCall(x, "ice.controllingSelector.isNominatable"):
				return "nominatable", false
			case isCall(x, "ice.CandidatePair.equal"):
				return "isBest", false
			case p.IsField(x, "Agent.lite"):
				return "lite", false
			case p.IsField(x, "bindingRequest.isUseCandidate"):
				return "useCandTxn", false
			case p.IsField(x, "CandidatePair.nominateOnBindingSuccess"):
				return "deferred", false
			case p.IsField(x, "Agent.automaticRenomination"), p.IsField(x, "Agent.enableRenomination"):
				return "autoRenom", false
			}
			if c, _, ok := p.ResolveCall(f, x); ok && p.CalleeName(c) == "stun.Message.Contains" && len(c.Args) == 1 {
				switch {
				case p.constName(c.Args[0]) == "AttrUseCandidate":
					return "useCand", false
				case p.IsField(c.Args[0], "Agent.nominationAttribute"):
					return "hasNomAttr", false
				}
			}
		case "enum":
			switch {
			case isCall(x, "ice.Agent.findPair"):
				return "pair", false
			case isCall(x, "ice.Agent.getSelectedPair"):
				return "selected", false
			case isCall(x, "ice.Agent.getBestValidCandidatePair"):
				return "bestValid", false
			case isCall(x, "ice.Agent.getBestAvailableCandidatePair"):
				return "bestAvail", false
			case isCall(x, "ice.NominationAttribute.GetFromWithType"):
				return "nomDecode", false
			case p.IsField(x, "CandidatePair.state"):
				return "state", false
			case p.IsField(x, "bindingRequest.nominationValue"):
				return "valueTxn", false
			case p.IsField(x, "controllingSelector.nominatedPair"):
				return "nominatedPair", false
			case isCall(x, "stun.Build"):
				return "builderr", false
			}
		case "ord":
			isPrio := func(e ast.Expr, of string) bool {
				c, ok := unparen(e).(*ast.CallExpr)
				if !ok || p.CalleeName(c) != "ice.CandidatePair.priority" {
					return false
				}
				sel, _ := unparen(c.Fun).(*ast.SelectorExpr)
				if sel == nil {
					return false
				}
				cc, _, ok := p.ResolveCall(f, sel.X)
				isSel := ok && p.CalleeName(cc) == "ice.Agent.getSelectedPair"
				if id, ok2 := unparen(sel.X).(*ast.Ident); ok2 && strings.HasPrefix(id.Name, "selected") {
					isSel = true
				}
				if of == "selected" {
					return isSel
				}
				return !isSel
			}
			if isPrio(a.X, "selected") && isPrio(a.Y, "pair") {
				return "prio", false // ord(selected, pair)
			}
			if isPrio(a.Y, "selected") && isPrio(a.X, "pair") {
				return "prio", true
			}
			// pointer identity selected ? pair
			sx, sy := "", ""
			for i, e := range []ast.Expr{a.X, a.Y} {
				v := "pair"
				if c, _, ok := p.ResolveCall(f, e); ok && p.CalleeName(c) == "ice.Agent.getSelectedPair" {
					v = "selected"
				} else if id, ok := unparen(e).(*ast.Ident); ok && strings.HasPrefix(id.Name, "selected") {
					v = "selected"
				} else if p.IsField(e, "controllingSelector.nominatedPair") {
					v = "nominatedPair"
				}
				if i == 0 {
					sx = v
				} else {
					sy = v
				}
			}
			if (sx == "selected" && sy == "pair") || (sx == "pair" && sy == "selected") {
				return "samePair", false
			}
		}
		return "", false
	}
}
