package main

// Decision-table extraction (predicate abstraction by enumeration).
// A function's CFG is explored path by path; every condition is an atom
// (boolean, three-valued ordering of an operand pair, or equality of a subject
// with constants) whose value is chosen lazily, forking the path. No arithmetic
// is interpreted and no path condition is ever solved: the result is the
// finite decision tree the code implements over its comparisons, which a rule
// then compares with the table stated by the property.

import (
	"fmt"
	"go/ast"
	"go/token"
	"go/types"
	"sort"
	"strings"
)

const (
	ordLT uint8 = 1
	ordEQ uint8 = 2
	ordGT uint8 = 4
)

type TAtom struct {
	Kind string // bool | ord | enum
	Key  string
	X, Y ast.Expr // ord: X ? Y ; enum: subject X ; bool: X
	deps *Mentions
}

type enumVal struct {
	eq  string          // known equal constant ("" = unknown)
	neq map[string]bool // known different constants
}

type TEnv struct {
	bools map[string]bool
	ords  map[string]uint8
	enums map[string]*enumVal
	atoms map[string]*TAtom
}

func newTEnv() *TEnv {
	return &TEnv{bools: map[string]bool{}, ords: map[string]uint8{}, enums: map[string]*enumVal{}, atoms: map[string]*TAtom{}}
}

func (e *TEnv) clone() *TEnv {
	n := newTEnv()
	for k, v := range e.bools {
		n.bools[k] = v
	}
	for k, v := range e.ords {
		n.ords[k] = v
	}
	for k, v := range e.enums {
		c := &enumVal{eq: v.eq, neq: map[string]bool{}}
		for x := range v.neq {
			c.neq[x] = true
		}
		n.enums[k] = c
	}
	for k, v := range e.atoms {
		n.atoms[k] = v
	}
	return n
}

// Describe renders the decided atoms of the environment.
func (e *TEnv) Describe() []string {
	var out []string
	for k, v := range e.bools {
		out = append(out, fmt.Sprintf("%s=%v", k, v))
	}
	for k, v := range e.ords {
		out = append(out, fmt.Sprintf("ord%s=%s", k, ordStr(v)))
	}
	for k, v := range e.enums {
		if v.eq != "" {
			out = append(out, fmt.Sprintf("%s==%s", k, v.eq))
		} else {
			var ns []string
			for x := range v.neq {
				ns = append(ns, x)
			}
			sort.Strings(ns)
			out = append(out, fmt.Sprintf("%s!={%s}", k, strings.Join(ns, ",")))
		}
	}
	sort.Strings(out)
	return out
}

func ordStr(m uint8) string {
	var s []string
	if m&ordLT != 0 {
		s = append(s, "LT")
	}
	if m&ordEQ != 0 {
		s = append(s, "EQ")
	}
	if m&ordGT != 0 {
		s = append(s, "GT")
	}
	return strings.Join(s, "|")
}

type TPath struct {
	Env     *TEnv
	Events  []string
	Results []string
	End     string // return | fallthrough | panic | loop-limit
	EndPos  string
	Hist    []Decision // every decision taken on the path, in order, even if later invalidated
}

// Decision is one lazily chosen atom value on a path.
type Decision struct {
	Atom *TAtom
	Val  string // bool: true|false; ord: mask such as "EQ|GT"; enum: "==C" | "!=C"; range: iter|done; select: clauseN
}

type TableEngine struct {
	p *Prog
	f *Func
	g *CFG
	// Event labels the designated effects of a node (calls, stores); may be nil.
	Event    func(n ast.Node, env *TEnv) []string
	MaxRange int // iterations explored per range/for loop (default 1)
	MaxPaths int
	Paths    []*TPath
	Problems []string
	fa       *FactAnalysis
}

func (p *Prog) NewTable(f *Func) *TableEngine {
	return &TableEngine{p: p, f: f, g: p.CFG(f), MaxRange: 1, MaxPaths: 50000, fa: &FactAnalysis{p: p, f: f, factFields: map[string]map[*types.Var]bool{}}}
}

type tstate struct {
	env    *TEnv
	events []string
	visits map[*Block]int
	hist   []Decision
	// alias: locals that, on this path, still hold a snapshot of a field chain that has
	// not been written since ("state := a.connectionState"): testing the local is
	// testing the field. Dropped at the first node that may write the field, the
	// local or the chain's root (directly or through a callee).
	alias map[types.Object]ast.Expr
}

func (s *tstate) clone() *tstate {
	n := &tstate{env: s.env.clone(), events: append([]string{}, s.events...), visits: map[*Block]int{}, hist: append([]Decision{}, s.hist...)}
	if len(s.alias) > 0 {
		n.alias = map[types.Object]ast.Expr{}
		for k, v := range s.alias {
			n.alias[k] = v
		}
	}
	for k, v := range s.visits {
		n.visits[k] = v
	}
	return n
}

func (t *TableEngine) Run() {
	st := &tstate{env: newTEnv(), visits: map[*Block]int{}}
	t.walk(t.g.Entry, 0, st)
}

func (t *TableEngine) problem(s string) {
	for _, x := range t.Problems {
		if x == s {
			return
		}
	}
	t.Problems = append(t.Problems, s)
}

func (t *TableEngine) finish(st *tstate, end, pos string, results []string) {
	if len(t.Paths) >= t.MaxPaths {
		t.problem("path limit exceeded")
		return
	}
	t.Paths = append(t.Paths, &TPath{Env: st.env, Events: st.events, Results: results, End: end, EndPos: pos, Hist: st.hist})
}

func (t *TableEngine) walk(b *Block, idx int, st *tstate) {
	if len(t.Paths) >= t.MaxPaths {
		t.problem("path limit exceeded")
		return
	}
	for i := idx; i < len(b.Nodes); i++ {
		n := b.Nodes[i]
		isCondNode := i == len(b.Nodes)-1 && len(b.Succs) == 2 && b.Succs[0].Cond != nil &&
			(b.Succs[0].Cond.Op == "truth" || b.Succs[0].Cond.Op == "==")
		if t.Event != nil {
			st.events = append(st.events, t.Event(n, st.env)...)
		}
		if isCondNode {
			break
		}
		// return statement: evaluate results
		if rs, ok := n.(*ast.ReturnStmt); ok {
			t.evalResults(rs.Results, 0, nil, st, func(st2 *tstate, res []string) {
				t.finish(st2, "return", t.p.Pos(rs.Pos()), res)
			})
			return
		}
		// eager evaluation of boolean definitions; may fork
		if forked := t.bindBool(n, st, func(st2 *tstate) { t.walk(b, i+1, st2) }); forked {
			return
		}
		t.applyKills(n, st)
		t.bindConst(n, st)
		t.bindAlias(n, st)
	}
	if b == t.g.Exit {
		t.finish(st, "fallthrough", "", nil)
		return
	}
	if b == t.g.Panic || len(b.Succs) == 0 {
		t.finish(st, "panic", "", nil)
		return
	}
	first := b.Succs[0]
	if first.Cond == nil {
		t.follow(first, st)
		return
	}
	switch first.Cond.Op {
	case "truth":
		t.evalBool(first.Cond.X, st, func(st2 *tstate, v bool) {
			for _, e := range b.Succs {
				if e.Val == v {
					t.follow(e, st2)
				}
			}
		})
	case "==":
		t.evalCompare(token.EQL, first.Cond.X, first.Cond.Y, st, func(st2 *tstate, v bool) {
			for _, e := range b.Succs {
				if e.Val == v {
					t.follow(e, st2)
				}
			}
		})
	case "type":
		subj := "type:" + t.p.Canon(first.Cond.X)
		c := typeStr(t.p.TypeOf(first.Cond.Y))
		if id, ok := first.Cond.Y.(*ast.Ident); ok && id.Name == "nil" {
			c = "nil"
		}
		t.evalEnum(subj, first.Cond.X, c, st, func(st2 *tstate, v bool) {
			for _, e := range b.Succs {
				if e.Val == v {
					t.follow(e, st2)
				}
			}
		})
	case "range":
		key := "range@" + t.p.Pos(first.Cond.Stmt.Pos())
		for _, e := range b.Succs {
			st2 := st.clone()
			if e.Val {
				if st2.visits[b] >= t.MaxRange {
					continue
				}
				st2.visits[b]++
				st2.hist = append(st2.hist, Decision{&TAtom{Kind: "range", Key: key, X: first.Cond.X}, "iter"})
			} else {
				st2.hist = append(st2.hist, Decision{&TAtom{Kind: "range", Key: key, X: first.Cond.X}, "done"})
			}
			t.follow(e, st2)
		}
	case "comm", "default":
		for i, e := range b.Succs {
			st2 := st.clone()
			st2.hist = append(st2.hist, Decision{&TAtom{Kind: "select", Key: "select@" + t.p.Pos(e.Cond.Stmt.Pos())}, fmt.Sprintf("clause%d", i)})
			t.follow(e, st2)
		}
	default:
		t.problem("unsupported edge condition " + first.Cond.Op)
	}
}

func (t *TableEngine) follow(e *Edge, st *tstate) {
	// bound plain for-loops too
	if e.To.Kind == "for.head" || e.To.Kind == "for.body" {
		if st.visits[e.To] > t.MaxRange {
			t.finish(st, "loop-limit", "", nil)
			return
		}
		st.visits[e.To]++
	}
	t.walk(e.To, 0, st)
}

func (t *TableEngine) applyKills(n ast.Node, st *tstate) {
	vars, fields := t.fa.nodeKills(n)
	if len(vars) == 0 && len(fields) == 0 {
		return
	}
	for v, rhs := range st.alias {
		if vars[v] || t.chainKilled(rhs, vars, fields) {
			delete(st.alias, v)
		}
	}
	for key, a := range st.env.atoms {
		kill := false
		if a.deps != nil {
			for v := range a.deps.Vars {
				if vars[v] {
					kill = true
				}
			}
			if !kill && len(fields) > 0 {
				for fv := range a.deps.Fields {
					if fields[fv] {
						kill = true
					}
				}
				for _, c := range a.deps.Calls {
					for fv := range t.p.CallReads(t.f, c) {
						if fields[fv] {
							kill = true
						}
					}
				}
			}
		}
		if kill {
			delete(st.env.atoms, key)
			delete(st.env.bools, key)
			delete(st.env.ords, key)
			delete(st.env.enums, key)
		}
	}
}

// chainKilled: the field chain mentions a killed field or is rooted in a killed variable.
func (t *TableEngine) chainKilled(rhs ast.Expr, vars map[types.Object]bool, fields map[*types.Var]bool) bool {
	for x := rhs; ; {
		switch y := unparen(x).(type) {
		case *ast.SelectorExpr:
			if fv, ok := t.p.ObjOf(y.Sel).(*types.Var); !ok || fields[fv] {
				return true
			}
			x = y.X
			continue
		case *ast.Ident:
			return vars[t.p.ObjOf(y)]
		}
		return true
	}
}

// bindAlias: "v := x.f.g" (Prog.snapshotAlias) makes v an alias of the chain on this path.
func (t *TableEngine) bindAlias(n ast.Node, st *tstate) {
	if as, ok := n.(*ast.AssignStmt); ok && len(as.Lhs) == 1 {
		if id, ok := unparen(as.Lhs[0]).(*ast.Ident); ok {
			delete(st.alias, t.p.ObjOf(id))
		}
	}
	v, rhs, ok := t.p.snapshotAlias(t.f, n)
	if !ok {
		return
	}
	if st.alias == nil {
		st.alias = map[types.Object]ast.Expr{}
	}
	st.alias[v] = rhs
}

// bindConst: v = true/false/const binds the local's value after kills.
func (t *TableEngine) bindConst(n ast.Node, st *tstate) {
	bind := func(l ast.Expr, r ast.Expr) {
		id, ok := unparen(l).(*ast.Ident)
		if !ok || id.Name == "_" {
			return
		}
		o := t.p.ObjOf(id)
		if o == nil {
			return
		}
		if b, isB := o.Type().Underlying().(*types.Basic); isB && b.Kind() == types.Bool {
			if cv, ok := t.p.ConstVal(r); ok {
				key := t.p.varKey(o)
				st.env.bools[key] = cv == "true"
				st.env.atoms[key] = &TAtom{Kind: "bool", Key: key, X: id, deps: &Mentions{Vars: map[types.Object]bool{}, Fields: map[*types.Var]bool{}}}
			} else if rid, isID := unparen(r).(*ast.Ident); isID {
				// a copy of a boolean local whose value is known on this path (also inside a parallel assignment)
				if ro, isVar := t.p.ObjOf(rid).(*types.Var); isVar && !ro.IsField() {
					if v, known := st.env.bools[t.p.varKey(ro)]; known {
						key := t.p.varKey(o)
						st.env.bools[key] = v
						st.env.atoms[key] = &TAtom{Kind: "bool", Key: key, X: id, deps: &Mentions{Vars: map[types.Object]bool{}, Fields: map[*types.Var]bool{}}}
					}
				}
			}
		}
	}
	// lhs = <named constant>: the subject's enum value is known afterwards
	bindEnum := func(l, r ast.Expr) {
		if _, isNamed := t.p.TypeOf(r).(*types.Named); !isNamed {
			return
		}
		if _, ok := t.p.ConstVal(r); !ok {
			return
		}
		c := t.p.constName(r)
		if c == "" {
			return
		}
		key := t.p.Canon(l)
		st.env.enums[key] = &enumVal{eq: c, neq: map[string]bool{}}
		st.env.atoms[key] = &TAtom{Kind: "enum", Key: key, X: l, deps: t.p.MentionsOf(l)}
	}
	switch x := n.(type) {
	case *ast.AssignStmt:
		if len(x.Lhs) == len(x.Rhs) && (x.Tok == token.ASSIGN || x.Tok == token.DEFINE) {
			for i := range x.Lhs {
				bind(x.Lhs[i], x.Rhs[i])
				bindEnum(x.Lhs[i], x.Rhs[i])
			}
		}
	case *ast.ValueSpec:
		if len(x.Names) == len(x.Values) {
			for i := range x.Names {
				bind(x.Names[i], x.Values[i])
			}
		} else if len(x.Values) == 0 {
			for _, id := range x.Names {
				if o := t.p.ObjOf(id); o != nil {
					if b, isB := o.Type().Underlying().(*types.Basic); isB && b.Kind() == types.Bool {
						key := t.p.varKey(o)
						st.env.bools[key] = false
						st.env.atoms[key] = &TAtom{Kind: "bool", Key: key, X: id, deps: &Mentions{Vars: map[types.Object]bool{}, Fields: map[*types.Var]bool{}}}
					}
				}
			}
		}
	}
}

func isCompoundBool(e ast.Expr) bool {
	switch x := unparen(e).(type) {
	case *ast.BinaryExpr:
		switch x.Op {
		case token.LAND, token.LOR, token.EQL, token.NEQ, token.LSS, token.GTR, token.LEQ, token.GEQ:
			return true
		}
	case *ast.UnaryExpr:
		return x.Op == token.NOT
	}
	return false
}

// bindBool: "v := <compound boolean>" is evaluated where it is defined.
func (t *TableEngine) bindBool(n ast.Node, st *tstate, k func(*tstate)) bool {
	var lhs ast.Expr
	var rhs ast.Expr
	switch x := n.(type) {
	case *ast.AssignStmt:
		if len(x.Lhs) == 1 && len(x.Rhs) == 1 && (x.Tok == token.ASSIGN || x.Tok == token.DEFINE) {
			lhs, rhs = x.Lhs[0], x.Rhs[0]
		}
	case *ast.ValueSpec:
		if len(x.Names) == 1 && len(x.Values) == 1 {
			lhs, rhs = x.Names[0], x.Values[0]
		}
	}
	if lhs == nil {
		return false
	}
	if !isCompoundBool(rhs) {
		// v := w where w is a local boolean whose value is already bound
		rid, ok := unparen(rhs).(*ast.Ident)
		if !ok {
			return false
		}
		ro, ok := t.p.ObjOf(rid).(*types.Var)
		if !ok || ro.IsField() {
			return false
		}
		if _, bound := st.env.bools[t.p.varKey(ro)]; !bound {
			return false
		}
	}
	id, ok := unparen(lhs).(*ast.Ident)
	if !ok {
		return false
	}
	o := t.p.ObjOf(id)
	if o == nil {
		return false
	}
	t.evalBool(rhs, st, func(st2 *tstate, v bool) {
		t.applyKills(n, st2)
		key := t.p.varKey(o)
		st2.env.bools[key] = v
		st2.env.atoms[key] = &TAtom{Kind: "bool", Key: key, X: id, deps: &Mentions{Vars: map[types.Object]bool{}, Fields: map[*types.Var]bool{}}}
		k(st2)
	})
	return true
}

func (t *TableEngine) evalResults(rs []ast.Expr, i int, acc []string, st *tstate, k func(*tstate, []string)) {
	if i == len(rs) {
		k(st, acc)
		return
	}
	r := rs[i]
	tp := t.p.TypeOf(r)
	isBool := false
	if tp != nil {
		if b, ok := tp.Underlying().(*types.Basic); ok && b.Info()&types.IsBoolean != 0 {
			isBool = true
		}
	}
	if cv, ok := t.p.ConstVal(r); ok {
		name := cv
		if _, isNamed := tp.(*types.Named); isNamed {
			if id, ok := unparen(r).(*ast.Ident); ok {
				if c, ok := t.p.ObjOf(id).(*types.Const); ok && c.Pkg() != nil {
					name = c.Name()
				}
			} else if sel, ok := unparen(r).(*ast.SelectorExpr); ok {
				name = sel.Sel.Name
			}
		}
		t.evalResults(rs, i+1, append(append([]string{}, acc...), name), st, k)
		return
	}
	if isBool {
		t.evalBool(r, st, func(st2 *tstate, v bool) {
			t.evalResults(rs, i+1, append(append([]string{}, acc...), fmt.Sprint(v)), st2, k)
		})
		return
	}
	t.evalResults(rs, i+1, append(append([]string{}, acc...), t.p.Canon(r)), st, k)
}

// evalBool evaluates e under st, forking on undecided atoms.
func (t *TableEngine) evalBool(e ast.Expr, st *tstate, k func(*tstate, bool)) {
	e = unparen(e)
	if cv, ok := t.p.ConstVal(e); ok {
		k(st, cv == "true")
		return
	}
	switch x := e.(type) {
	case *ast.UnaryExpr:
		if x.Op == token.NOT {
			t.evalBool(x.X, st, func(s *tstate, v bool) { k(s, !v) })
			return
		}
	case *ast.BinaryExpr:
		switch x.Op {
		case token.LAND:
			t.evalBool(x.X, st, func(s *tstate, v bool) {
				if !v {
					k(s, false)
					return
				}
				t.evalBool(x.Y, s, k)
			})
			return
		case token.LOR:
			t.evalBool(x.X, st, func(s *tstate, v bool) {
				if v {
					k(s, true)
					return
				}
				t.evalBool(x.Y, s, k)
			})
			return
		case token.EQL, token.NEQ, token.LSS, token.GTR, token.LEQ, token.GEQ:
			t.evalCompare(x.Op, x.X, x.Y, st, k)
			return
		}
	case *ast.Ident:
		if o, ok := t.p.ObjOf(x).(*types.Var); ok && !o.IsField() {
			key := t.p.varKey(o)
			if v, ok := st.env.bools[key]; ok {
				k(st, v)
				return
			}
		}
	}
	// opaque boolean atom
	e = t.derefAtomSt(e, st)
	key := t.p.Canon(e)
	if v, ok := st.env.bools[key]; ok {
		k(st, v)
		return
	}
	atom := &TAtom{Kind: "bool", Key: key, X: e, deps: t.p.MentionsOf(e)}
	for _, v := range []bool{true, false} {
		s := st.clone()
		s.env.bools[key] = v
		s.env.atoms[key] = atom
		s.hist = append(s.hist, Decision{atom, fmt.Sprint(v)})
		k(s, v)
	}
}

func (t *TableEngine) evalCompare(op token.Token, x, y ast.Expr, st *tstate, k func(*tstate, bool)) {
	x, y = t.derefAtomSt(unparen(x), st), t.derefAtomSt(unparen(y), st)
	p := t.p
	// both constant
	if cx, ok := p.ConstVal(x); ok {
		if cy, ok2 := p.ConstVal(y); ok2 && (op == token.EQL || op == token.NEQ) {
			k(st, (cx == cy) == (op == token.EQL))
			return
		}
	}
	if op == token.EQL || op == token.NEQ {
		// equality with a constant / nil: enum mechanism on the subject
		if p.isConstLike(x) && !p.isConstLike(y) {
			x, y = y, x
		}
		if p.isConstLike(y) {
			c := "nil"
			if cv, ok := p.ConstVal(y); ok {
				c = cv
				// enum-like constants (named types) are identified by name,
				// plain numbers and strings by value
				if _, isNamed := p.TypeOf(y).(*types.Named); isNamed {
					if id, ok := y.(*ast.Ident); ok {
						c = id.Name
					} else if sel, ok := y.(*ast.SelectorExpr); ok {
						c = sel.Sel.Name
					}
				}
			}
			t.evalEnum(p.Canon(x), x, c, st, func(s *tstate, v bool) { k(s, v == (op == token.EQL)) })
			return
		}
	}
	// ordering of an operand pair
	flip := false
	cx, cy := p.Canon(x), p.Canon(y)
	if p.isConstLike(x) && !p.isConstLike(y) || (!p.isConstLike(y) && cy < cx) {
		x, y, cx, cy = y, x, cy, cx
		flip = true
	}
	key := "(" + cx + " ? " + cy + ")"
	var want uint8
	switch op {
	case token.EQL:
		want = ordEQ
	case token.NEQ:
		want = ordLT | ordGT
	case token.LSS:
		want = ordLT
	case token.LEQ:
		want = ordLT | ordEQ
	case token.GTR:
		want = ordGT
	case token.GEQ:
		want = ordGT | ordEQ
	}
	if flip {
		var w uint8
		if want&ordLT != 0 {
			w |= ordGT
		}
		if want&ordGT != 0 {
			w |= ordLT
		}
		w |= want & ordEQ
		want = w
	}
	cur, ok := st.env.ords[key]
	if !ok {
		cur = ordLT | ordEQ | ordGT
	}
	yes, no := cur&want, cur&^want
	atom := &TAtom{Kind: "ord", Key: key, X: x, Y: y, deps: p.MentionsOf(x, y)}
	for _, part := range []struct {
		m uint8
		v bool
	}{{yes, true}, {no, false}} {
		if part.m == 0 {
			continue
		}
		s := st
		if yes != 0 && no != 0 {
			s = st.clone()
		}
		s.env.ords[key] = part.m
		s.env.atoms[key] = atom
		if !(ok && part.m == cur) {
			// a test whose outcome is already determined by earlier ones refines nothing and is not a decision
			s.hist = append(s.hist, Decision{atom, ordStr(part.m)})
		}
		k(s, part.v)
	}
}

func (t *TableEngine) evalEnum(subj string, x ast.Expr, c string, st *tstate, k func(*tstate, bool)) {
	ev := st.env.enums[subj]
	if ev != nil {
		if ev.eq != "" {
			k(st, ev.eq == c)
			return
		}
		if ev.neq[c] {
			k(st, false)
			return
		}
	}
	atom := &TAtom{Kind: "enum", Key: subj, X: x, deps: t.p.MentionsOf(x)}
	// equal
	s1 := st.clone()
	s1.env.enums[subj] = &enumVal{eq: c, neq: map[string]bool{}}
	s1.env.atoms[subj] = atom
	s1.hist = append(s1.hist, Decision{atom, "==" + c})
	k(s1, true)
	// not equal
	s2 := st.clone()
	nv := &enumVal{neq: map[string]bool{c: true}}
	if ev != nil {
		for x := range ev.neq {
			nv.neq[x] = true
		}
	}
	s2.env.enums[subj] = nv
	s2.env.atoms[subj] = atom
	s2.hist = append(s2.hist, Decision{atom, "!=" + c})
	k(s2, false)
}

// ---- helpers for rules ----

func (pa *TPath) HistKeys() []string {
	var ks []string
	for _, d := range pa.Hist {
		ks = append(ks, d.Atom.Key+"="+d.Val)
	}
	return ks
}

func (pa *TPath) Outcome() string {
	ev := strings.Join(pa.Events, ",")
	return fmt.Sprintf("[%s] -> %s(%s)", ev, pa.End, strings.Join(pa.Results, ","))
}

// SemVar is a semantic variable of an oracle table with its finite domain.
type SemVar struct {
	Name   string
	Domain []string
}

// TableSpec states what the extracted decision tree is compared with.
type TableSpec struct {
	Vars []SemVar
	// Classify maps an atom to a semantic variable. name "" = an unexpected
	// condition (reported); name "-" = irrelevant to the outcome (all its
	// values must yield the expected outcome). flip swaps LT/GT for ord atoms
	// whose operands appear in the opposite orientation.
	Classify func(a *TAtom) (name string, flip bool)
	// Oracle returns the expected outcome for a full valuation ("" = the
	// valuation is infeasible / not specified and is skipped).
	Oracle func(v map[string]string) string
	// Outcome abstracts a path to an outcome label.
	Outcome func(pa *TPath) string
}

type TableResult struct {
	Rows       int
	Paths      int
	Mismatches []string
	Samples    []string
}

func flipMask(m string) string {
	parts := strings.Split(m, "|")
	for i, x := range parts {
		switch x {
		case "LT":
			parts[i] = "GT"
		case "GT":
			parts[i] = "LT"
		}
	}
	return strings.Join(parts, "|")
}

func decisionAgrees(d Decision, flip bool, v string) bool {
	switch d.Atom.Kind {
	case "bool":
		return d.Val == v
	case "ord":
		m := d.Val
		if flip {
			m = flipMask(m)
		}
		for _, x := range strings.Split(m, "|") {
			if x == v {
				return true
			}
		}
		return false
	case "enum":
		if strings.HasPrefix(d.Val, "==") {
			return d.Val[2:] == v
		}
		return d.Val[2:] != v
	}
	return d.Val == v
}

// Compare enumerates every full valuation of the semantic variables and
// checks that every path consistent with it has the outcome the oracle states.
func (t *TableEngine) Compare(spec TableSpec) TableResult {
	res := TableResult{Paths: len(t.Paths)}
	for _, pr := range t.Problems {
		res.Mismatches = append(res.Mismatches, "engine: "+pr)
	}
	type cd struct {
		name string
		flip bool
		d    Decision
	}
	classified := make([][]cd, len(t.Paths))
	for i, pa := range t.Paths {
		for _, d := range pa.Hist {
			n, fl := spec.Classify(d.Atom)
			if n == "" {
				res.Mismatches = append(res.Mismatches, fmt.Sprintf("outcome depends on an unexpected condition %s (%s) on the path ending %s", d.Atom.Key, d.Val, pa.EndPos))
				continue
			}
			if n == "-" {
				continue
			}
			classified[i] = append(classified[i], cd{n, fl, d})
		}
	}
	if len(res.Mismatches) > 0 {
		res.Mismatches = dedupStrings(res.Mismatches)
		return res
	}
	vals := map[string]string{}
	var rec func(i int)
	rec = func(i int) {
		if i == len(spec.Vars) {
			want := spec.Oracle(vals)
			if want == "" {
				return
			}
			res.Rows++
			n := 0
			for pi, pa := range t.Paths {
				ok := true
				for _, c := range classified[pi] {
					v, has := vals[c.name]
					if !has {
						continue
					}
					if !decisionAgrees(c.d, c.flip, v) {
						ok = false
						break
					}
				}
				if !ok {
					continue
				}
				n++
				got := spec.Outcome(pa)
				if got != want {
					res.Mismatches = append(res.Mismatches, fmt.Sprintf("for %s the code does %q, the property requires %q (path ends %s)", fmtVals(spec.Vars, vals), got, want, pa.EndPos))
				} else if len(res.Samples) < 12 {
					res.Samples = append(res.Samples, fmtVals(spec.Vars, vals)+" => "+got)
				}
			}
			if n == 0 {
				res.Mismatches = append(res.Mismatches, "no path of the function is consistent with "+fmtVals(spec.Vars, vals))
			}
			return
		}
		for _, v := range spec.Vars[i].Domain {
			vals[spec.Vars[i].Name] = v
			rec(i + 1)
		}
		delete(vals, spec.Vars[i].Name)
	}
	rec(0)
	res.Mismatches = dedupStrings(res.Mismatches)
	return res
}

func fmtVals(vars []SemVar, v map[string]string) string {
	var s []string
	for _, x := range vars {
		s = append(s, x.Name+"="+v[x.Name])
	}
	return "{" + strings.Join(s, " ") + "}"
}

func dedupStrings(in []string) []string {
	seen := map[string]bool{}
	var out []string
	for _, s := range in {
		if !seen[s] {
			seen[s] = true
			out = append(out, s)
		}
	}
	return out
}

// SemPath is a path with its decisions mapped to semantic names.
type SemPath struct {
	Vals         map[string]string // name -> value (bool: true|false, ord: mask, enum: ==C | !=C); repeated decisions get name#2, name#3
	Events       []string
	Results      []string
	End          string
	EndPos       string
	Unclassified []string
}

func (sp *SemPath) Has(ev string) bool {
	for _, e := range sp.Events {
		if e == ev {
			return true
		}
	}
	return false
}

func (sp *SemPath) String() string {
	var ks []string
	for k, v := range sp.Vals {
		ks = append(ks, k+"="+v)
	}
	sort.Strings(ks)
	return "{" + strings.Join(ks, " ") + "} => [" + strings.Join(sp.Events, ",") + "] " + sp.End + "(" + strings.Join(sp.Results, ",") + ")"
}

// Semantic classifies every decision of every path.
func (t *TableEngine) Semantic(classify func(a *TAtom) (string, bool)) []*SemPath {
	var out []*SemPath
	for _, pa := range t.Paths {
		sp := &SemPath{Vals: map[string]string{}, Events: pa.Events, Results: pa.Results, End: pa.End, EndPos: pa.EndPos}
		for _, d := range pa.Hist {
			n, fl := classify(d.Atom)
			if n == "" {
				sp.Unclassified = append(sp.Unclassified, d.Atom.Key+"="+d.Val)
				continue
			}
			if n == "-" {
				continue
			}
			v := d.Val
			if d.Atom.Kind == "ord" && fl {
				v = flipMask(v)
			}
			k := n
			for i := 2; ; i++ {
				if _, dup := sp.Vals[k]; !dup {
					break
				}
				k = fmt.Sprintf("%s#%d", n, i)
			}
			sp.Vals[k] = v
		}
		out = append(out, sp)
	}
	return out
}

// derefAtom: a local that only names a field chain (ruleIface := rule.rule.Iface), in a
// function that never writes that field, is the field chain: a named intermediate
// is not a different condition.
// derefAtomSt: the path-sensitive form — a local that still holds the snapshot of a
// field chain on this path (tstate.alias) is that chain; otherwise derefAtom.
func (t *TableEngine) derefAtomSt(e ast.Expr, st *tstate) ast.Expr {
	if id, ok := e.(*ast.Ident); ok && st != nil && len(st.alias) > 0 {
		if rhs, ok := st.alias[t.p.ObjOf(id)]; ok {
			return rhs
		}
	}
	return t.derefAtom(e)
}

func (t *TableEngine) derefAtom(e ast.Expr) ast.Expr {
	id, ok := e.(*ast.Ident)
	if !ok {
		// a method call on such a local: ruleCIDR.Contains(ip)
		if c, isC := e.(*ast.CallExpr); isC {
			if sel, isS := unparen(c.Fun).(*ast.SelectorExpr); isS {
				if rid, isI := unparen(sel.X).(*ast.Ident); isI {
					if d := t.derefAtom(rid); d != ast.Expr(rid) {
						nsel := &ast.SelectorExpr{X: d, Sel: sel.Sel}
						if s := t.p.Info.Selections[sel]; s != nil {
							t.p.Info.Selections[nsel] = s
						}
						t.p.Info.Types[nsel] = t.p.Info.Types[sel]
						nc := &ast.CallExpr{Fun: nsel, Lparen: c.Lparen, Args: c.Args, Ellipsis: c.Ellipsis, Rparen: c.Rparen}
						t.p.Info.Types[nc] = t.p.Info.Types[c]
						return nc
					}
				}
			}
		}
		return e
	}
	v, isVar := t.p.ObjOf(id).(*types.Var)
	if !isVar || v.IsField() || v.Pkg() == nil || v.Parent() == v.Pkg().Scope() {
		return e
	}
	root := t.f.Root()
	if root.Body == nil || v.Pos() < root.Body.Pos() {
		return e
	}
	d, okD := t.p.SingleDef(t.f, v)
	if !okD || d.Rhs == nil || d.Index != 0 {
		return e
	}
	rhs := unparen(d.Rhs)
	sel, isSel := rhs.(*ast.SelectorExpr)
	if !isSel {
		return e
	}
	for x := ast.Expr(sel); ; {
		switch y := unparen(x).(type) {
		case *ast.SelectorExpr:
			if fv, ok := t.p.ObjOf(y.Sel).(*types.Var); !ok || !fv.IsField() || t.p.WritesField(root, t.p.FieldName(fv)) {
				return e
			}
			x = y.X
			continue
		case *ast.Ident:
			if _, ok := t.p.ObjOf(y).(*types.Var); !ok {
				return e
			}
			return rhs
		}
		return e
	}
}

// ConstName: the named constant x denotes on this path: a constant expression, or a
// local / field that the path has set to a named constant ("attrType = stun.AttrX";
// selecting the value first and sharing one call does not hide which value it is).
func (e *TEnv) ConstName(p *Prog, x ast.Expr) string {
	if c := p.constName(x); c != "" {
		return c
	}
	if e != nil {
		if ev := e.enums[p.Canon(unparen(x))]; ev != nil && ev.eq != "" {
			return ev.eq
		}
	}
	return ""
}
