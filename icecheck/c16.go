package main

import (
	"fmt"
	"go/ast"
	"go/token"
	"go/types"
	"math/big"
	"sort"
	"strings"
)

func init() { register("C16", checkC16) }

// trivialGetters maps field name -> method name for methods of recvType whose
// body is exactly "return recv.field".
func (p *Prog) trivialGetters(recvType string) map[string]string {
	out := map[string]string{}
	for _, f := range p.AllFuncs {
		if f.Decl == nil || f.Decl.Recv == nil || !strings.HasPrefix(f.Name, recvType+".") || len(f.Body.List) != 1 {
			continue
		}
		rs, ok := f.Body.List[0].(*ast.ReturnStmt)
		if !ok || len(rs.Results) != 1 {
			continue
		}
		sel, ok := unparen(rs.Results[0]).(*ast.SelectorExpr)
		if !ok || p.FieldOf(sel) == nil {
			continue
		}
		if id, ok := unparen(sel.X).(*ast.Ident); ok && len(f.Decl.Recv.List[0].Names) == 1 && p.ObjOf(id) == p.ObjOf(f.Decl.Recv.List[0].Names[0]) {
			out[sel.Sel.Name] = f.Decl.Name.Name
		}
	}
	return out
}

type projector struct {
	p       *Prog
	f       *Func
	sides   map[types.Object]string // object -> "c" | "o"
	bound   map[types.Object]string // parameter bound to a projection of the other side
	getters map[string]string
}

// proj returns which side e derives from and the projection path.
func (pj *projector) proj(e ast.Expr) (side, path string) {
	e = unparen(e)
	switch x := e.(type) {
	case *ast.Ident:
		o := pj.p.ObjOf(x)
		if s, ok := pj.sides[o]; ok {
			return s, ""
		}
		if b, ok := pj.bound[o]; ok {
			return "o", b
		}
		if o != nil {
			if d, ok := pj.p.SingleDef(pj.f, o); ok {
				return pj.proj(d.Rhs)
			}
		}
	case *ast.SelectorExpr:
		s, path := pj.proj(x.X)
		if s == "" {
			return "", ""
		}
		name := x.Sel.Name
		if pj.p.FieldOf(x) != nil {
			if g, ok := pj.getters[name]; ok && path == "" {
				name = g
			} else {
				name = "field:" + name
			}
		}
		if path != "" {
			return s, path + "." + name
		}
		return s, name
	case *ast.CallExpr:
		if sel, ok := unparen(x.Fun).(*ast.SelectorExpr); ok && pj.p.Info.Selections[sel] != nil {
			return pj.proj(sel)
		}
	case *ast.IndexExpr:
		s, path := pj.proj(x.X)
		if s != "" {
			return s, path + "[]"
		}
	case *ast.StarExpr:
		return pj.proj(x.X)
	}
	return "", ""
}

func (p *Prog) checkSymmetric(r *Report, f *Func, recvType string, depth int) {
	if f.Decl == nil || f.Decl.Recv == nil || len(f.Decl.Recv.List[0].Names) != 1 {
		return
	}
	pj := &projector{p: p, f: f, sides: map[types.Object]string{}, bound: map[types.Object]string{}, getters: p.trivialGetters(recvType)}
	recv := p.ObjOf(f.Decl.Recv.List[0].Names[0])
	pj.sides[recv] = "c"
	for _, fl := range f.Decl.Type.Params.List {
		for _, n := range fl.Names {
			// the other candidate: the parameter of the equality method (whatever it is called)
			if n.Name != "_" {
				pj.sides[p.ObjOf(n)] = "o"
			}
		}
	}
	p.checkSymmetricBody(r, f, pj, recvType, depth)
}

func (p *Prog) checkSymmetricBody(r *Report, f *Func, pj *projector, recvType string, depth int) {
	pair := func(what string, at ast.Node, a, b ast.Expr) {
		sa, pa := pj.proj(a)
		sb, pb := pj.proj(b)
		if sa == "" || sb == "" || sa == sb {
			return
		}
		construct := fmt.Sprintf("%s: %s vs %s", f.Name, orDash(pa), orDash(pb))
		r.Check(pa == pb, construct, p.Pos(at.Pos()), what+" pairs the same projection of both candidates",
			fmt.Sprintf("%s compares %s of one candidate with %s of the other: for inputs where the two projections differ the relation is not reflexive/symmetric", what, orDash(pa), orDash(pb)))
	}
	// nil tests: what is asked of one candidate's projection is asked of the other's
	nilTests := map[string]map[string]int{"c": {}, "o": {}}
	var firstNil ast.Node
	defer func() {
		bad := ""
		for _, side := range []string{"c", "o"} {
			other := "o"
			if side == "o" {
				other = "c"
			}
			for proj, n := range nilTests[side] {
				if nilTests[other][proj] != n {
					bad = orDash(proj)
				}
			}
		}
		if firstNil != nil {
			r.Check(bad == "", f.Name+": nil tests are symmetric", p.Pos(firstNil.Pos()), "each projection is tested against nil on both candidates", "the projection "+bad+" is tested against nil on one candidate only: for a pair in which exactly one side lacks it, a.Equal(b) and b.Equal(a) differ")
		}
	}()
	walkBody(f, func(n ast.Node) bool {
		switch x := n.(type) {
		case *ast.BinaryExpr:
			if x.Op == token.EQL || x.Op == token.NEQ {
				pair("comparison", x, x.X, x.Y)
				for _, ab := range [][2]ast.Expr{{x.X, x.Y}, {x.Y, x.X}} {
					if p.isNilExpr(ab[1]) {
						if side, proj := pj.proj(ab[0]); side != "" && proj != "" {
							nilTests[side][proj]++
							if firstNil == nil {
								firstNil = x
							}
						}
					}
				}
			}
		case *ast.CallExpr:
			sel, isSel := unparen(x.Fun).(*ast.SelectorExpr)
			if isSel && p.Info.Selections[sel] != nil && len(x.Args) == 1 {
				// X.M(Y): receiver projection against argument projection
				sx, px := pj.proj(sel.X)
				sy, py := pj.proj(x.Args[0])
				if sx != "" && sy != "" && sx != sy {
					if px == "" && py == "" {
						return true // c.helper(other): whole-value delegation, the helper is checked on its own
					}
					if px == "" {
						// c.helper(other.P()): inline the helper
						callee := p.Callee(x)
						if h := p.ByObj[callee]; h != nil && depth < 2 && h.Decl != nil && h.Decl.Recv != nil {
							p.checkHelper(r, h, py, recvType, pj.getters, f)
						} else if callee != nil {
							r.Unknown(f.Name+": helper "+callee.Name(), p.Pos(x.Pos()), "equality helper without a body to inspect")
						}
						return true
					}
					construct := fmt.Sprintf("%s: %s vs %s", f.Name, orDash(px), orDash(py))
					r.Check(px == py, construct, p.Pos(x.Pos()), "method comparison pairs the same projection of both candidates",
						fmt.Sprintf("%s of one candidate is compared with %s of the other", orDash(px), orDash(py)))
				}
			} else if len(x.Args) == 2 && p.Callee(x) != nil {
				pair("call "+p.Callee(x).Name(), x, x.Args[0], x.Args[1])
			}
		}
		return true
	})
}

// checkHelper: helper method h of the receiver is called with an argument
// that is projection argProj of the other candidate; every projection of the
// receiver read inside h must then be argProj as well.
func (p *Prog) checkHelper(r *Report, h *Func, argProj, recvType string, getters map[string]string, caller *Func) {
	if len(h.Decl.Recv.List[0].Names) != 1 {
		return
	}
	recv := p.ObjOf(h.Decl.Recv.List[0].Names[0])
	used := map[string]bool{}
	walkBody(h, func(n ast.Node) bool {
		sel, ok := n.(*ast.SelectorExpr)
		if !ok {
			return true
		}
		id, ok := unparen(sel.X).(*ast.Ident)
		if !ok || p.ObjOf(id) != recv {
			return true
		}
		name := sel.Sel.Name
		if p.FieldOf(sel) != nil {
			if g, ok := getters[name]; ok {
				name = g
			} else {
				name = "field:" + name
			}
		}
		used[name] = true
		return true
	})
	var us []string
	for k := range used {
		us = append(us, k)
	}
	sort.Strings(us)
	ok := len(us) == 1 && us[0] == argProj
	r.Check(ok, fmt.Sprintf("%s via %s: receiver projection vs argument %s", caller.Name, h.Name, argProj), p.Pos(h.Body.Pos()),
		"helper reads the same projection ("+argProj+") of the receiver as it is given of the other candidate",
		fmt.Sprintf("helper %s is given %s of the other candidate but reads {%s} of the receiver: the two sides are compared through different projections (e.g. raw field vs derived getter), so the relation is not reflexive", h.Name, argProj, strings.Join(us, ", ")))
}

func orDash(s string) string {
	if s == "" {
		return "(whole value)"
	}
	return s
}

// ---- codec summaries ----

type codecSummary struct {
	fn        *Func
	attr      []string // attribute type expressions (canonical, params by position)
	sizes     []string // buffer sizes / size-check constants
	sizeExact bool     // reader: size test is an equality (CheckSize or !=)
	sizeForm  string
	order     []string // binary.X.(Put)UintN
	shifts    []string
	indices   []string
	delegates []string // callee + attr const for wrappers
}

func (p *Prog) paramIndexName(f *Func, e ast.Expr) string {
	e = unparen(e)
	if id, ok := e.(*ast.Ident); ok {
		o := p.ObjOf(id)
		i := 0
		for _, fl := range f.Type.Params.List {
			for _, n := range fl.Names {
				if p.ObjOf(n) == o {
					return fmt.Sprintf("param#%d", i)
				}
				i++
			}
			if len(fl.Names) == 0 {
				i++
			}
		}
	}
	if c := p.constName(e); c != "" {
		return c
	}
	return p.Canon(e)
}

func (p *Prog) summarizeCodec(f *Func) *codecSummary {
	s := &codecSummary{fn: f}
	walkBody(f, func(n ast.Node) bool {
		switch x := n.(type) {
		case *ast.CallExpr:
			name := p.CalleeName(x)
			switch {
			case name == "stun.Message.Add" && len(x.Args) == 2:
				s.attr = append(s.attr, p.paramIndexName(f, x.Args[0]))
			case name == "stun.Message.Get" && len(x.Args) == 1:
				s.attr = append(s.attr, p.paramIndexName(f, x.Args[0]))
			case name == "stun.CheckSize" && len(x.Args) == 3:
				if c, ok := p.ConstVal(x.Args[2]); ok {
					s.sizes = append(s.sizes, c)
					s.sizeExact = true
					s.sizeForm = "CheckSize"
				}
			case name == "builtin.make" && len(x.Args) >= 2:
				if c, ok := p.ConstVal(x.Args[1]); ok {
					s.sizes = append(s.sizes, c)
				} else {
					s.sizes = append(s.sizes, "dyn:"+stripVarLines(p.Canon(x.Args[1])))
				}
			case strings.HasPrefix(name, "encoding/binary."):
				if sel, ok := unparen(x.Fun).(*ast.SelectorExpr); ok {
					s.order = append(s.order, stripVarLines(p.Canon(sel.X))+"."+strings.TrimPrefix(sel.Sel.Name, "Put"))
				}
			case strings.HasSuffix(name, "AddToAs") || strings.HasSuffix(name, "GetFromAs") || strings.HasSuffix(name, "AddToWithType") || strings.HasSuffix(name, "GetFromWithType"):
				if len(x.Args) == 2 {
					s.delegates = append(s.delegates, p.paramIndexName(f, x.Args[1]))
				}
			}
		case *ast.BinaryExpr:
			switch x.Op {
			case token.SHL, token.SHR:
				if c, ok := p.ConstVal(x.Y); ok {
					s.shifts = append(s.shifts, c)
				}
			case token.NEQ, token.LSS, token.GTR, token.EQL, token.LEQ, token.GEQ:
				// len(v) OP const
				if c, ok := unparen(x.X).(*ast.CallExpr); ok && p.CalleeName(c) == "builtin.len" {
					if cv, ok := p.ConstVal(x.Y); ok {
						s.sizes = append(s.sizes, cv)
						s.sizeForm = "len " + x.Op.String() + " " + cv
						s.sizeExact = x.Op == token.NEQ || x.Op == token.EQL
					}
				}
			}
		case *ast.IndexExpr:
			if c, ok := p.ConstVal(x.Index); ok {
				s.indices = append(s.indices, c)
			}
		}
		return true
	})
	sort.Strings(s.shifts)
	sort.Strings(s.indices)
	s.indices = dedupStrings(s.indices)
	return s
}

func stripVarLines(s string) string {
	// remove the "#line" disambiguators of local variable keys
	var b strings.Builder
	for i := 0; i < len(s); i++ {
		if s[i] == '#' {
			j := i + 1
			for j < len(s) && s[j] >= '0' && s[j] <= '9' {
				j++
			}
			i = j - 1
			continue
		}
		b.WriteByte(s[i])
	}
	return b.String()
}

func checkC16(p *Prog, r *Report) {
	// ---- R16.1 symmetric projections -------------------------------------
	r.Rule("R16.1", "In the candidate equality methods every comparison pairs the same projection of both candidates (same method, or a field with its trivial getter); helpers called with a projection of the other candidate read the same projection of the receiver; DeepEqual is Equal && ...; CandidateRelatedAddress.Equal is symmetric in nil-ness.", 8)
	for _, name := range []string{"candidateBase.transportAddressEqual", "candidateBase.Equal", "candidateBase.DeepEqual"} {
		f := p.Fn(name)
		if r.Anchor(name, f != nil) {
			p.checkSymmetric(r, f, "candidateBase", 0)
		}
	}
	if f := p.Fn("CandidateRelatedAddress.Equal"); r.Anchor("CandidateRelatedAddress.Equal", f != nil) {
		p.checkSymmetric(r, f, "CandidateRelatedAddress", 0)
		// nil table
		t := p.NewTable(f)
		t.Run()
		recv := p.ObjOf(f.Decl.Recv.List[0].Names[0])
		var other types.Object
		for _, fl := range f.Decl.Type.Params.List {
			for _, n := range fl.Names {
				other = p.ObjOf(n)
			}
		}
		// the generic Compare cannot express "ord EQ" as true: do it by hand
		bad := 0
		for _, pa := range t.Paths {
			cNil, oNil, eqAll := "", "", true
			for _, d := range pa.Hist {
				switch {
				case d.Atom.Kind == "enum":
					if id, ok := unparen(d.Atom.X).(*ast.Ident); ok {
						v := "set"
						if d.Val == "==nil" {
							v = "nil"
						}
						switch p.ObjOf(id) {
						case recv:
							cNil = v
						case other:
							oNil = v
						}
					}
				case d.Atom.Kind == "ord":
					if d.Val != "EQ" {
						eqAll = false
					}
				}
			}
			got := strings.Join(pa.Results, ",")
			// an undecided side stands for both of its values
			for _, cv := range []string{"nil", "set"} {
				for _, ov := range []string{"nil", "set"} {
					if (cNil != "" && cNil != cv) || (oNil != "" && oNil != ov) {
						continue
					}
					want := "false"
					if (cv == "nil" && ov == "nil") || (cv == "set" && ov == "set" && eqAll) {
						want = "true"
					}
					if cv == "set" && ov == "set" && (cNil == "" || oNil == "") {
						continue // fields cannot be read on this path
					}
					if got != want {
						bad++
						r.Fail("CandidateRelatedAddress.Equal nil table", pa.EndPos, fmt.Sprintf("receiver %s / other %s / fields equal %v returns %s, expected %s", cv, ov, eqAll, got, want))
					}
				}
			}
		}
		if bad == 0 {
			r.OK("CandidateRelatedAddress.Equal nil table", p.Pos(f.Body.Pos()), fmt.Sprintf("%d paths: both nil -> true, one nil -> false, else field equality", len(t.Paths)))
		}
	}
	// DeepEqual implies Equal
	if f := p.Fn("candidateBase.DeepEqual"); f != nil {
		// every result that can be true is either a conjunction containing Equal(other) or is returned where
		// Equal(other) is already known to hold ("if !c.Equal(other) { return false }; return ...")
		ok, n := true, 0
		isEqualCall := func(e ast.Expr) bool {
			ce, isC := unparen(e).(*ast.CallExpr)
			return isC && p.CalleeName(ce) == "ice.candidateBase.Equal"
		}
		walkBody(f, func(x ast.Node) bool {
			rs, ok2 := x.(*ast.ReturnStmt)
			if !ok2 || len(rs.Results) != 1 {
				return true
			}
			if cv, isC := p.ConstVal(rs.Results[0]); isC && cv == "false" {
				return true
			}
			n++
			covered := false
			for _, c := range conjuncts(rs.Results[0]) {
				if isEqualCall(c) {
					covered = true
				}
			}
			if !covered {
				covered = factListHas(p.DominatingFactList(f, rs), func(ft Fact) bool {
					return ft.Op == "truth" && ft.Val && isEqualCall(ft.X)
				})
			}
			if !covered {
				ok = false
			}
			return true
		})
		ok = ok && n > 0
		r.Check(ok, "DeepEqual implies Equal", p.Pos(f.Body.Pos()), "DeepEqual's result is a conjunction containing Equal(other)", "DeepEqual is not of the form Equal(other) && ...: it no longer implies Equal")
	}

	// ---- R16.2 codec pair agreement ----------------------------------------
	r.Rule("R16.2", "For every ICE STUN attribute codec the writer and the reader agree: same attribute type, writer's buffer size equals the reader's size-check constant, the reader's size test is exact (or the documented '<= max and multiple of 4'), same byte order and width, and the 24-bit nomination value is packed and unpacked with mirrored shifts and indices.", 7)
	type pairSpec struct{ typ, w, rd string }
	pairs := []pairSpec{
		{"PriorityAttr", "PriorityAttr.AddTo", "PriorityAttr.GetFrom"},
		{"tiebreaker", "tiebreaker.AddToAs", "tiebreaker.GetFromAs"},
		{"AttrControlled", "AttrControlled.AddTo", "AttrControlled.GetFrom"},
		{"AttrControlling", "AttrControlling.AddTo", "AttrControlling.GetFrom"},
		{"NominationAttribute", "NominationAttribute.AddToWithType", "NominationAttribute.GetFromWithType"},
		{"NominationAttribute(default)", "NominationAttribute.AddTo", "NominationAttribute.GetFrom"},
		{"DtlsInStunAttribute", "DtlsInStunAttribute.AddTo", "DtlsInStunAttribute.GetFrom"},
		{"DtlsInStunAckAttribute", "DtlsInStunAckAttribute.AddTo", "DtlsInStunAckAttribute.GetFrom"},
		{"UseCandidateAttr", "UseCandidateAttr.AddTo", "UseCandidateAttr.IsSet"},
	}
	// discover codec types not in the table (new attributes must be added)
	known := map[string]bool{}
	for _, ps := range pairs {
		known[ps.w] = true
		known[ps.rd] = true
	}
	known["AttrControl.AddTo"], known["AttrControl.GetFrom"], known["NominationSetter.AddTo"] = true, true, true
	for _, f := range p.AllFuncs {
		if f.Decl == nil || f.Decl.Recv == nil || f.Pkg != p.Ice {
			continue
		}
		n := f.Decl.Name.Name
		if (strings.HasPrefix(n, "AddTo") || strings.HasPrefix(n, "GetFrom")) && !known[f.Name] {
			if len(p.CallsTo(f, false, "stun.Message.Add", "stun.Message.Get")) > 0 {
				r.Unknown("codec "+f.Name, p.Pos(f.Body.Pos()), "STUN attribute codec method not in the checker's pair table: add its writer/reader pair")
			}
		}
	}
	for _, ps := range pairs {
		w, rd := p.Fn(ps.w), p.Fn(ps.rd)
		if !r.Anchor(ps.w, w != nil) || !r.Anchor(ps.rd, rd != nil) {
			continue
		}
		ws, rs := p.summarizeCodec(w), p.summarizeCodec(rd)
		pos := p.Pos(rd.Body.Pos())
		var problems []string
		if len(ws.delegates) > 0 || len(rs.delegates) > 0 {
			if strings.Join(ws.delegates, ",") != strings.Join(rs.delegates, ",") {
				problems = append(problems, fmt.Sprintf("writer delegates with attribute %v, reader with %v", ws.delegates, rs.delegates))
			}
		} else {
			if strings.Join(ws.attr, ",") != strings.Join(rs.attr, ",") || len(ws.attr) != 1 {
				problems = append(problems, fmt.Sprintf("writer adds attribute %v, reader gets %v", ws.attr, rs.attr))
			}
		}
		switch ps.typ {
		case "PriorityAttr", "tiebreaker", "NominationAttribute":
			if len(ws.sizes) != 1 || len(rs.sizes) != 1 || ws.sizes[0] != rs.sizes[0] {
				problems = append(problems, fmt.Sprintf("writer buffer size %v, reader size check %v", ws.sizes, rs.sizes))
			}
			if !rs.sizeExact {
				problems = append(problems, "reader's size test ("+rs.sizeForm+") is not an equality: wrong sizes are accepted")
			}
		case "DtlsInStunAckAttribute":
			// writer: len(a) > 4 -> error; buffer len(a)*4. reader: len(v) > 16 || len(v)%4 != 0
			okW, okR := false, false
			for _, s := range ws.sizes {
				if s == "4" {
					okW = true
				}
			}
			has16, hasMod := false, false
			for _, s := range rs.sizes {
				if s == "16" {
					has16 = true
				}
			}
			walkBody(rd, func(n ast.Node) bool {
				if b, ok := n.(*ast.BinaryExpr); ok && b.Op == token.NEQ {
					if m, ok := unparen(b.X).(*ast.BinaryExpr); ok && m.Op == token.REM {
						if c, _ := p.ConstVal(m.Y); c == "4" {
							hasMod = true
						}
					}
				}
				return true
			})
			okR = has16 && hasMod
			if !okW || !okR {
				problems = append(problems, fmt.Sprintf("ACK bounds: writer max-values check present=%v, reader '<=16 and multiple of 4' present=%v", okW, okR))
			}
		}
		if strings.Join(ws.order, ",") != strings.Join(rs.order, ",") {
			problems = append(problems, fmt.Sprintf("writer byte order/width %v, reader %v", ws.order, rs.order))
		}
		if ps.typ == "NominationAttribute" {
			if strings.Join(ws.shifts, ",") != "16,8" || strings.Join(rs.shifts, ",") != "16,8" {
				problems = append(problems, fmt.Sprintf("24-bit packing shifts: writer %v, reader %v, expected {16,8,(0)} on both", ws.shifts, rs.shifts))
			}
			if strings.Join(ws.indices, ",") != "1,2,3" || strings.Join(rs.indices, ",") != "1,2,3" {
				problems = append(problems, fmt.Sprintf("24-bit packing byte indices: writer %v, reader %v, expected 1,2,3", ws.indices, rs.indices))
			}
		}
		r.Check(len(problems) == 0, "codec pair "+ps.typ, pos, fmt.Sprintf("attr %v%v size %v/%v order %v", ws.attr, ws.delegates, ws.sizes, rs.sizes, ws.order), strings.Join(problems, "; "))
	}
	// mirrored packing of the nomination value: byte i <-> shift
	if w, rd := p.Fn("NominationAttribute.AddToWithType"), p.Fn("NominationAttribute.GetFromWithType"); w != nil && rd != nil {
		wm, rm := map[string]string{}, map[string]string{}
		walkBody(w, func(n ast.Node) bool {
			if as, ok := n.(*ast.AssignStmt); ok && len(as.Lhs) == 1 {
				if ix, ok := unparen(as.Lhs[0]).(*ast.IndexExpr); ok {
					idx, _ := p.ConstVal(ix.Index)
					sh := "0"
					p.inspectThroughLocals(w, as.Rhs[0], func(x ast.Node) bool {
						if b, ok := x.(*ast.BinaryExpr); ok && b.Op == token.SHR {
							sh, _ = p.ConstVal(b.Y)
						}
						return true
					})
					wm[idx] = sh
				}
			}
			return true
		})
		walkBody(rd, func(n ast.Node) bool {
			if b, ok := n.(*ast.BinaryExpr); ok && b.Op == token.SHL {
				var idx string
				p.inspectThroughLocals(rd, b.X, func(x ast.Node) bool {
					if ix, ok := x.(*ast.IndexExpr); ok {
						idx, _ = p.ConstVal(ix.Index)
					}
					return true
				})
				sh, _ := p.ConstVal(b.Y)
				rm[idx] = sh
			}
			return true
		})
		// the unshifted byte
		walkBody(rd, func(n ast.Node) bool {
			if ix, ok := n.(*ast.IndexExpr); ok {
				idx, _ := p.ConstVal(ix.Index)
				if _, seen := rm[idx]; !seen && idx != "" {
					rm[idx] = "0"
				}
			}
			return true
		})
		want := map[string]string{"1": "16", "2": "8", "3": "0"}
		ok := fmt.Sprint(wm) == fmt.Sprint(want) && fmt.Sprint(rm) == fmt.Sprint(want)
		r.Check(ok, "nomination 24-bit packing mirrors", p.Pos(rd.Body.Pos()), "byte 1<->16, 2<->8, 3<->0 on both sides", fmt.Sprintf("writer byte->shift %v, reader %v, expected %v", wm, rm, want))
	}
	// AttrControl.AddTo
	if f := p.Fn("AttrControl.AddTo"); r.Anchor("AttrControl.AddTo", f != nil) {
		t := p.NewTable(f)
		t.Event = func(n ast.Node, env *TEnv) []string {
			var out []string
			for _, c := range p.NodeCalls(n) {
				if p.CalleeName(c) == "ice.tiebreaker.AddToAs" && len(c.Args) == 2 {
					out = append(out, env.ConstName(p, c.Args[1]))
				}
			}
			return out
		}
		t.Run()
		for _, pa := range t.Paths {
			role := ""
			for _, d := range pa.Hist {
				if d.Atom.Kind == "enum" && p.IsField(d.Atom.X, "AttrControl.Role") {
					role = d.Val
				}
			}
			want := "AttrICEControlled"
			if role == "==Controlling" {
				want = "AttrICEControlling"
			}
			r.Check(strings.Join(pa.Events, ",") == want, "AttrControl.AddTo role"+role, pa.EndPos, "encodes "+want, "role "+role+" is encoded as "+strings.Join(pa.Events, ","))
		}
	}
	// setter wraps the attribute with its own fields
	if f := p.Fn("NominationSetter.AddTo"); f != nil {
		ok := false
		walkBody(f, func(n ast.Node) bool {
			if c, ok2 := n.(*ast.CallExpr); ok2 && p.CalleeName(c) == "ice.NominationAttribute.AddToWithType" && len(c.Args) == 2 {
				ok = p.IsField(c.Args[1], "NominationSetter.AttrType")
			}
			return true
		})
		val := false
		walkBody(f, func(n ast.Node) bool {
			if kv, ok2 := n.(*ast.KeyValueExpr); ok2 {
				if id, ok3 := kv.Key.(*ast.Ident); ok3 && id.Name == "Value" && p.IsField(kv.Value, "NominationSetter.Value") {
					val = true
				}
			}
			return true
		})
		r.Check(ok && val, "NominationSetter.AddTo", p.Pos(f.Body.Pos()), "forwards its Value and AttrType", "setter does not forward its own Value/AttrType to the attribute encoder")
	}

	// ---- R16.3 the address text travels verbatim ------------------------------------------
	r.Rule("R16.3", "Between Candidate.Address() and the wire the connection-address text passes only through substring operations (the zone cut) on both the Marshal and the Unmarshal path, never through a parse/format cycle that could re-render it: equality compares Address() as text, so a re-rendered literal breaks the round trip.", 3)
	if f := p.Fn("candidateBase.Marshal"); r.Anchor("candidateBase.Marshal", f != nil) {
		n := 0
		for _, c := range p.CallsTo(f, false, "fmt.Sprintf") {
			for _, a := range c.Args[1:] {
				if !p.mentionsCall(a, "ice.candidateBase.Address") && !p.mentionsCall(a, "ice.Candidate.Address") {
					// a named local holding the (possibly zone-cut) address
					_, isID := unparen(a).(*ast.Ident)
					if !isID {
						continue
					}
					if okV, _ := p.verbatimText(f, a, func(e ast.Expr) bool {
						ce, isC := unparen(e).(*ast.CallExpr)
						return isC && strings.HasSuffix(p.CalleeName(ce), ".Address") && len(ce.Args) == 0
					}, 0); !okV {
						continue
					}
				}
				n++
				ok, why := p.verbatimText(f, a, func(e ast.Expr) bool {
					ce, isC := unparen(e).(*ast.CallExpr)
					return isC && strings.HasSuffix(p.CalleeName(ce), ".Address") && len(ce.Args) == 0
				}, 0)
				r.Check(ok, "Marshal writes the address text verbatim", p.Pos(a.Pos()), "Address() through substring operations only", "the address written to the wire is "+why+": a valid but differently spelled literal does not survive Marshal/Unmarshal")
			}
		}
		if n == 0 {
			r.Fail("Marshal writes the address text verbatim", p.Pos(f.Body.Pos()), "the address argument of the candidate line was not found")
		}
	}
	if f := p.Fn("UnmarshalCandidate"); r.Anchor("UnmarshalCandidate", f != nil) {
		// the variable holding the connection-address token
		var obj types.Object
		walkBody(f, func(n ast.Node) bool {
			cl, ok := n.(*ast.CompositeLit)
			if !ok {
				return true
			}
			st, _ := derefStruct(p.TypeOf(cl))
			if st == nil {
				return true
			}
			for i, el := range cl.Elts {
				val := el
				name := ""
				if kv, ok := el.(*ast.KeyValueExpr); ok {
					val = kv.Value
					if id, ok := kv.Key.(*ast.Ident); ok {
						name = id.Name
					}
				} else if i < st.NumFields() {
					name = st.Field(i).Name()
				}
				if name == "Address" {
					if v, ok := unparen(val).(*ast.Ident); ok && obj == nil {
						obj = p.ObjOf(v)
					}
				}
			}
			return true
		})
		if r.Check(obj != nil, "UnmarshalCandidate: address variable", p.Pos(f.Body.Pos()), "Address: <var>", "the parsed address does not reach the constructors through a variable") {
			okAll, why, n := true, "", 0
			for _, d := range p.DefsOf(f, obj) {
				if d.Rhs == nil {
					continue
				}
				n++
				if d.Index == 0 {
					if c, isC := unparen(d.Rhs).(*ast.CallExpr); isC && p.CalleeName(c) == "ice.readCandidateStringToken" {
						continue // the token as it stands on the wire
					}
				}
				ok, w := p.verbatimText(f, d.Rhs, func(e ast.Expr) bool {
					id, isID := unparen(e).(*ast.Ident)
					return isID && p.ObjOf(id) == obj
				}, 0)
				if !ok {
					okAll, why = false, w
				}
			}
			r.Check(okAll && n >= 1, "UnmarshalCandidate keeps the address token verbatim", p.Pos(f.Body.Pos()), "token through substring operations only", "the parsed address is "+why+": Address() of the parsed candidate differs from the text that was marshalled")
		}
	}
	// ---- R16.4 every compared component is written ----------------------------------------------
	r.Rule("R16.4", "Marshal writes the related address whenever the candidate has one with a non-empty address: no other condition (such as a zero port, which is how a hidden related address 0.0.0.0:0 is spelled) may veto it, because Equal compares the related address and Unmarshal accepts rport 0.", 1)
	if f := p.Fn("candidateBase.Marshal"); f != nil {
		t := p.NewTable(f)
		t.Event = func(n ast.Node, _ *TEnv) []string {
			for _, c := range p.NodeCalls(n) {
				if p.CalleeName(c) == "fmt.Sprintf" && len(c.Args) > 0 {
					if v, ok := p.ConstVal(c.Args[0]); ok && strings.Contains(v, "raddr") {
						return []string{"raddr"}
					}
				}
			}
			return nil
		}
		t.Run()
		rows, bad := 0, ""
		for _, pa := range t.Paths {
			present, named := false, false
			var other []string
			for _, d := range pa.Hist {
				sel, isSel := unparen(d.Atom.X).(*ast.SelectorExpr)
				switch {
				case isSel && p.IsField(sel, "CandidateRelatedAddress.Address"):
					named = d.Val == `!=""`
				case isSel && p.FieldOf(sel) != nil && strings.HasPrefix(p.FieldName(p.FieldOf(sel)), "CandidateRelatedAddress."):
					other = append(other, stripVarLines(d.Atom.Key)+d.Val)
				case d.Atom.Kind == "enum" && (d.Val == "!=nil" || d.Val == "==nil"):
					if c, _, ok := p.ResolveCall(f, d.Atom.X); ok && strings.HasSuffix(p.CalleeName(c), ".RelatedAddress") {
						present = d.Val == "!=nil"
					}
				}
			}
			if !present || !named {
				continue
			}
			rows++
			emitted := false
			for _, e := range pa.Events {
				if e == "raddr" {
					emitted = true
				}
			}
			if !emitted {
				bad = "a related address with a non-empty address is not written when " + strings.Join(other, ", ")
			}
		}
		r.Check(bad == "" && rows > 0, "Marshal writes every related address that has an address", p.Pos(f.Body.Pos()), fmt.Sprintf("%d rows", rows), bad+": such a candidate (e.g. raddr 0.0.0.0 rport 0) does not survive Marshal/Unmarshal — the parsed copy has no related address and is not Equal")
	}
	// ---- R16.5 every component is written ---------------------------------------------------------------
	r.Rule("R16.5", "Every component the round trip must preserve is written by Marshal on every path: foundation, component, transport, priority, address, port and type unconditionally; the related address and the extensions (which include the TCP type) through their accessors; each extension is written as key and value.", 3)
	if f := p.Fn("candidateBase.Marshal"); f != nil {
		g := p.CFG(f)
		var missing []string
		for _, acc := range []string{"Foundation", "Component", "NetworkType", "Priority", "Address", "Port", "Type", "RelatedAddress", "marshalExtensions"} {
			name := acc
			_, escapes := g.PathAvoiding(Loc{g.Entry, 0}, func(n ast.Node) bool {
				return p.nodeHasCall(n, func(c *ast.CallExpr) bool {
					cn := p.CalleeName(c)
					return cn == "ice.candidateBase."+name || cn == "ice.Candidate."+name
				})
			}, func(b *Block) bool { return b == g.Exit }, nil)
			if escapes {
				missing = append(missing, acc)
			}
		}
		r.Check(len(missing) == 0, "Marshal reads every component on every path", p.Pos(f.Body.Pos()), "foundation … extensions", "a path through Marshal does not consult "+strings.Join(missing, ", ")+": that component is lost in the textual form")
		// and what it reads is what it prints: each accessor result flows into a Sprintf argument
		printed := map[string]bool{}
		for _, c := range p.CallsTo(f, false, "fmt.Sprintf") {
			for _, a := range c.Args[1:] {
				for _, src := range p.callsFeeding(f, a, 0, map[types.Object]bool{}) {
					printed["call:"+src] = true
				}
				ast.Inspect(a, func(n ast.Node) bool {
					if cc, ok := n.(*ast.CallExpr); ok {
						printed["call:"+p.CalleeName(cc)] = true
					}
					if sel, ok := n.(*ast.SelectorExpr); ok && p.FieldOf(sel) != nil {
						printed["field:"+p.FieldName(p.FieldOf(sel))] = true
					}
					return true
				})
			}
		}
		var unprinted []string
		for _, want := range []string{"call:ice.candidateBase.Foundation", "call:ice.candidateBase.Component", "call:ice.NetworkType.NetworkShort", "call:ice.candidateBase.Priority", "call:ice.candidateBase.Address", "call:ice.candidateBase.Port", "call:ice.candidateBase.Type", "field:CandidateRelatedAddress.Address", "field:CandidateRelatedAddress.Port", "call:ice.candidateBase.marshalExtensions"} {
			if !printed[want] {
				unprinted = append(unprinted, strings.TrimPrefix(strings.TrimPrefix(want, "call:ice."), "field:"))
			}
		}
		r.Check(len(unprinted) == 0, "Marshal prints every component it reads", p.Pos(f.Body.Pos()), "each accessor result reaches a Sprintf argument", "not printed: "+strings.Join(unprinted, ", "))
		// the extensions are appended whenever there are any: the only way past the append is "the text is empty"
		if ext := p.localByDef(f, func(rhs ast.Expr) bool {
			cc, ok := unparen(rhs).(*ast.CallExpr)
			return ok && strings.HasSuffix(p.CalleeName(cc), ".marshalExtensions")
		}); ext != nil {
			var defNode ast.Node
			walkBody(f, func(n ast.Node) bool {
				if as, ok := n.(*ast.AssignStmt); ok && defNode == nil {
					for _, l := range as.Lhs {
						if id, ok := l.(*ast.Ident); ok && p.ObjOf(id) == ext {
							defNode = as
						}
					}
				}
				return true
			})
			if loc, okL := g.Locate(defNode); defNode != nil && okL {
				appends := func(n ast.Node) bool {
					return p.nodeHasCall(n, func(cc *ast.CallExpr) bool {
						if p.CalleeName(cc) != "fmt.Sprintf" {
							return false
						}
						for _, a := range cc.Args[1:] {
							if p.mentionsObj(a, ext) {
								return true
							}
						}
						return false
					})
				}
				_, escapes := g.PathAvoiding(Loc{loc.B, loc.I + 1}, appends, func(b *Block) bool { return b == g.Exit }, func(e *Edge) bool {
					for _, ft := range p.FactsOfCond(e.Cond, e.Val) {
						if v, isC := p.ConstVal(ft.Y); isC && v == `""` && ft.Op == "==" && ft.Val && p.mentionsObj(ft.X, ext) {
							return false // nothing to append
						}
					}
					return true
				})
				r.Check(!escapes, "Marshal appends the extensions whenever there are any", p.Pos(defNode.Pos()), "the append is skipped only where the extension text is empty", "a path through Marshal skips the extensions although the candidate has some: tcptype and every other extension are lost in the textual form and the parsed copy is not Equal")
			}
		}
	}
	if f := p.Fn("candidateBase.marshalExtensions"); r.Anchor("candidateBase.marshalExtensions", f != nil) {
		usesAll := len(p.CallsTo(f, false, "ice.candidateBase.Extensions", "ice.Candidate.Extensions")) == 1
		key, val := false, false
		walkBody(f, func(n ast.Node) bool {
			if sel, ok := n.(*ast.SelectorExpr); ok {
				key = key || p.IsField(sel, "CandidateExtension.Key")
				val = val || p.IsField(sel, "CandidateExtension.Value")
			}
			return true
		})
		// every element is written: no break / continue / early return in the loop
		skips := false
		walkBody(f, func(n ast.Node) bool {
			if rs, ok := n.(*ast.RangeStmt); ok {
				ast.Inspect(rs.Body, func(x ast.Node) bool {
					switch y := x.(type) {
					case *ast.BranchStmt:
						skips = true
					case *ast.ReturnStmt:
						_ = y
						skips = true
					}
					return true
				})
			}
			return true
		})
		r.Check(usesAll && key && val && !skips, "marshalExtensions writes every extension (TCP type included) as key and value", p.Pos(f.Body.Pos()), "ranges over Extensions(), writes Key and Value, skips none", fmt.Sprintf("uses Extensions()=%v key=%v value=%v skips elements=%v", usesAll, key, val, skips))
	}
	// ---- R16.6 extension comparison keeps multiplicities on both sides -------------------------------------
	r.Rule("R16.6", "extensionsEqual summarises both extension lists with multiplicities (each side's elements are counted into an integer-valued map) before comparing: a one-sided membership test is neither symmetric nor a multiset comparison. A differently shaped implementation is reported as undecided.", 1)
	if f := p.Fn("candidateBase.extensionsEqual"); r.Anchor("candidateBase.extensionsEqual", f != nil) {
		sides := map[string]types.Object{"other": p.paramObj(f, 0)}
		sides["own"] = p.localByDef(f, func(rhs ast.Expr) bool {
			c, ok := unparen(rhs).(*ast.CallExpr)
			return ok && strings.HasSuffix(p.CalleeName(c), ".Extensions")
		})
		// range value variables per side
		elemOf := map[types.Object]string{}
		walkBody(f, func(n ast.Node) bool {
			if rs, ok := n.(*ast.RangeStmt); ok && rs.Value != nil {
				for name, o := range sides {
					if p.isObj(rs.X, o) {
						if id, ok := rs.Value.(*ast.Ident); ok {
							elemOf[p.ObjOf(id)] = name
						}
					}
				}
			}
			return true
		})
		counted := map[string]bool{}
		note := func(lhs ast.Expr) {
			ix, ok := unparen(lhs).(*ast.IndexExpr)
			if !ok {
				return
			}
			mt, ok := p.TypeOf(ix.X).Underlying().(*types.Map)
			if !ok {
				return
			}
			if b, ok := mt.Elem().Underlying().(*types.Basic); !ok || b.Info()&types.IsInteger == 0 {
				return
			}
			ast.Inspect(ix.Index, func(x ast.Node) bool {
				if id, ok := x.(*ast.Ident); ok {
					for name, o := range sides {
						if p.ObjOf(id) == o {
							counted[name] = true
						}
					}
					if name, ok := elemOf[p.ObjOf(id)]; ok {
						counted[name] = true
					}
				}
				return true
			})
		}
		walkBody(f, func(n ast.Node) bool {
			switch x := n.(type) {
			case *ast.IncDecStmt:
				note(x.X)
			case *ast.AssignStmt:
				if x.Tok == token.ADD_ASSIGN || x.Tok == token.SUB_ASSIGN {
					for _, l := range x.Lhs {
						note(l)
					}
				}
			}
			return true
		})
		if sides["own"] == nil || sides["other"] == nil {
			r.Unknown("extensionsEqual counts both sides", p.Pos(f.Body.Pos()), "the two extension lists were not identified")
		} else {
			r.Check(counted["own"] && counted["other"], "extensionsEqual counts both sides", p.Pos(f.Body.Pos()), "own and other are both counted with multiplicities", fmt.Sprintf("elements counted: own=%v other=%v — a comparison that only tests membership of one side in the other is not symmetric (DeepEqual(a,b) != DeepEqual(b,a) for repeated extensions) and ignores multiplicities", counted["own"], counted["other"]))
		}
	}

	// ---- R16.7 one notion of "the tcptype key" -----------------------------------------------------------
	r.Rule("R16.7", "Every place that recognises the tcptype pseudo-extension compares the key in the same way (exactly): the parser must not accept spellings that the writer, AddExtension, GetExtension and RemoveExtension treat as ordinary extensions, or a candidate carrying such a key changes under Marshal/Unmarshal.", 4)
	{
		kinds := map[string][]string{}
		for _, f := range p.AllFuncs {
			if f.Pkg != p.Ice || f.Body == nil {
				continue
			}
			walkBody(f, func(n ast.Node) bool {
				switch x := n.(type) {
				case *ast.BinaryExpr:
					if x.Op == token.EQL || x.Op == token.NEQ {
						for _, side := range []ast.Expr{x.X, x.Y} {
							if v, ok := p.ConstVal(side); ok && v == `"tcptype"` {
								other := x.X
								if side == x.X {
									other = x.Y
								}
								k := "exact"
								if _, isCall := unparen(other).(*ast.CallExpr); isCall {
									k = "transformed (" + stripVarLines(p.Canon(other)) + ")"
								}
								kinds[k] = append(kinds[k], f.Name+"@"+p.Pos(x.Pos()))
							}
						}
					}
				case *ast.SwitchStmt:
					// switch key { case "tcptype": ... } is the same exact comparison
					if x.Tag != nil {
						for _, cl := range x.Body.List {
							for _, e := range cl.(*ast.CaseClause).List {
								if v, ok := p.ConstVal(e); ok && v == `"tcptype"` {
									k := "exact"
									if _, isCall := unparen(x.Tag).(*ast.CallExpr); isCall {
										k = "transformed (" + stripVarLines(p.Canon(x.Tag)) + ")"
									}
									kinds[k] = append(kinds[k], f.Name+"@"+p.Pos(e.Pos()))
								}
							}
						}
					}
				case *ast.CallExpr:
					for _, a := range x.Args {
						if v, ok := p.ConstVal(a); ok && v == `"tcptype"` && p.CalleeName(x) != "" && !strings.HasPrefix(p.CalleeName(x), "fmt.") {
							kinds["via "+p.CalleeName(x)] = append(kinds["via "+p.CalleeName(x)], f.Name+"@"+p.Pos(x.Pos()))
						}
					}
				}
				return true
			})
		}
		for k, sites := range kinds {
			for _, st := range sites {
				r.Check(k == "exact", "tcptype key test in "+st[:strings.Index(st, "@")], st[strings.Index(st, "@")+1:], "exact comparison", "the tcptype key is recognised "+k+" here but exactly elsewhere: a key spelled differently is a TCP type for one side of the codec and an ordinary extension for the other")
			}
		}
		if len(kinds["exact"]) < 4 {
			r.Fail("tcptype key tests", "candidate_base.go", "fewer exact tcptype comparisons than expected (rule instance lost)")
		}
	}
	if f := p.Fn("readCandidateStringToken"); r.Anchor("readCandidateStringToken", f != nil) {
		okAll, n := true, 0
		walkBody(f, func(nd ast.Node) bool {
			if rs, ok := nd.(*ast.ReturnStmt); ok && len(rs.Results) == 2 {
				n++
				ok, _ := p.verbatimText(f, rs.Results[0], func(e ast.Expr) bool {
					id, isID := unparen(e).(*ast.Ident)
					return isID && p.ObjOf(id) == p.paramObj(f, 0)
				}, 0)
				if !ok {
					okAll = false
				}
			}
			return true
		})
		r.Check(okAll && n > 0, "readCandidateStringToken returns a slice of the input", p.Pos(f.Body.Pos()), "raw[a:b]", "the tokenizer re-renders the token")
	}
	// ---- R16.8 a decoder overwrites its destination --------------------------------------------------------
	r.Rule("R16.8", "Every attribute decoder (GetFrom / GetFromAs / GetFromWithType on a pointer receiver) stores the decoded value through its receiver on every path that reports success: decoding into a variable that already holds a value never leaves the old value in place (decode(encode(x)) == x whatever the destination held).", 8)
	for _, f := range p.AllFuncs {
		if f.Decl == nil || f.Decl.Recv == nil || f.Pkg != p.Ice || f.Body == nil || !strings.HasPrefix(f.Decl.Name.Name, "GetFrom") {
			continue
		}
		if len(f.Decl.Recv.List) != 1 || len(f.Decl.Recv.List[0].Names) != 1 {
			continue
		}
		if _, isPtr := f.Decl.Recv.List[0].Type.(*ast.StarExpr); !isPtr {
			continue
		}
		f := f
		recv := p.ObjOf(f.Decl.Recv.List[0].Names[0])
		mentionsRecv := func(e ast.Expr) bool {
			found := false
			ast.Inspect(e, func(x ast.Node) bool {
				if id, ok := x.(*ast.Ident); ok && p.ObjOf(id) == recv {
					found = true
				}
				return !found
			})
			return found
		}
		stores := func(n ast.Node) bool {
			switch x := n.(type) {
			case *ast.AssignStmt:
				for _, l := range x.Lhs {
					l = unparen(l)
					if _, isID := l.(*ast.Ident); !isID && mentionsRecv(l) {
						return true // *a = ..., a.f = ..., a.f[i] = ...
					}
				}
			}
			// delegation: another decoder invoked on (a part of) the receiver
			return p.nodeHasCall(n, func(c *ast.CallExpr) bool {
				sel, ok := unparen(c.Fun).(*ast.SelectorExpr)
				return ok && strings.HasPrefix(sel.Sel.Name, "GetFrom") && mentionsRecv(sel.X)
			})
		}
		ok, nRet := true, 0
		walkBody(f, func(x ast.Node) bool {
			rs, isR := x.(*ast.ReturnStmt)
			if !isR || len(rs.Results) != 1 {
				return true
			}
			if stores(rs) {
				nRet++
				return true // return (*T)(a).GetFromAs(...)
			}
			if !p.isNilExpr(rs.Results[0]) {
				return true // an error return: the destination is unspecified
			}
			nRet++
			if !p.MustPrecede(f, rs, stores) {
				ok = false
			}
			return true
		})
		r.Check(ok && nRet > 0, "decoder "+f.Name+" stores through its receiver before reporting success", p.Pos(f.Body.Pos()), "every 'return nil' preceded by a store through the receiver", "a path returns nil without storing the decoded value: decoding (for instance an empty list) into a variable that already holds a value leaves the old value there, so decode(encode(x)) != x")
	}

	// ---- R16.10 every priority that is written is read back ------------------------------------------------------
	r.Rule("R16.10", "UnmarshalCandidate accepts every priority value Marshal can write: the parsed 10-digit priority is refused, if at all, only above 2^32-1 — a smaller bound (2^31-1, say) rejects the line of a candidate whose priority has the top bit set, which constructors accept and a peer-reflexive candidate can carry.", 1)
	if f := p.Fn("UnmarshalCandidate"); r.Anchor("UnmarshalCandidate", f != nil) {
		objs := map[types.Object]bool{}
		for changed := true; changed; {
			changed = false
			walkBody(f, func(x ast.Node) bool {
				as, ok := x.(*ast.AssignStmt)
				if !ok {
					return true
				}
				mark := func(l ast.Expr) {
					if id, ok := unparen(l).(*ast.Ident); ok && id.Name != "_" {
						if o := p.ObjOf(id); o != nil && !objs[o] {
							objs[o] = true
							changed = true
						}
					}
				}
				if len(as.Rhs) == 1 {
					if cc, ok := unparen(as.Rhs[0]).(*ast.CallExpr); ok && p.CalleeName(cc) == "ice.readCandidateDigitToken" && len(cc.Args) == 3 {
						if v, _ := p.ConstVal(cc.Args[2]); v == "10" && len(as.Lhs) >= 1 {
							mark(as.Lhs[0])
						}
					}
				}
				if len(as.Lhs) == len(as.Rhs) {
					for i, rh := range as.Rhs {
						if id, ok := unparen(rh).(*ast.Ident); ok && objs[p.ObjOf(id)] {
							mark(as.Lhs[i])
						}
					}
				}
				return true
			})
		}
		bad := ""
		limit := new(big.Int).SetUint64(4294967295)
		walkBody(f, func(x ast.Node) bool {
			be, ok := x.(*ast.BinaryExpr)
			if !ok {
				return true
			}
			switch be.Op {
			case token.LSS, token.GTR, token.LEQ, token.GEQ:
			default:
				return true
			}
			for _, side := range [][2]ast.Expr{{be.X, be.Y}, {be.Y, be.X}} {
				id, isID := unparen(side[0]).(*ast.Ident)
				if !isID || !objs[p.ObjOf(id)] {
					continue
				}
				if v, isC := p.ConstVal(side[1]); isC {
					if n, okN := new(big.Int).SetString(v, 10); okN && n.Sign() > 0 && n.Cmp(limit) < 0 {
						bad = "the parsed priority is compared with " + v + " at " + p.Pos(be.Pos())
					}
				}
			}
			return true
		})
		r.Check(len(objs) > 0 && bad == "", "UnmarshalCandidate bounds the priority at 2^32-1 or not at all", p.Pos(f.Body.Pos()), "no bound below 4294967295", bad+": priorities between that bound and 2^32-1, which Marshal writes, do not parse")
	}

	// ---- R16.9 a separator ends a token, whatever the token's length ------------------------------------------
	r.Rule("R16.9", "In every tokenizer of the candidate parser (a function that scans the line and tests each character against SP), a character that is the separator ends the token successfully: under 'char == SP' no error return is reachable, so a token of exactly the permitted length (a 32-character foundation, a 10-digit priority, a 5-digit port) that Marshal writes is accepted by Unmarshal.", 3)
	{
		n := 0
		for _, f := range p.AllFuncs {
			if f.Pkg != p.Ice || f.Body == nil || f.Decl == nil {
				continue
			}
			g := p.CFG(f)
			// the scanned character: the operand compared with the constant 0x20
			var charObj types.Object
			for _, b := range g.Blocks {
				for _, e := range b.Succs {
					for _, ft := range p.FactsOfCond(e.Cond, e.Val) {
						if ft.Op == "==" {
							if v, ok := p.ConstVal(ft.Y); ok && v == "32" {
								if id, ok := unparen(ft.X).(*ast.Ident); ok && charObj == nil {
									charObj = p.ObjOf(id)
								}
							}
						}
					}
				}
			}
			if charObj == nil {
				continue
			}
			sig, _ := f.Obj.Type().(*types.Signature)
			ei := errIndex(sig)
			if ei < 0 {
				continue // a tokenizer that cannot fail
			}
			// a function that scans: it has a loop
			hasLoop := false
			walkBody(f, func(x ast.Node) bool {
				switch x.(type) {
				case *ast.RangeStmt, *ast.ForStmt:
					hasLoop = true
				}
				return true
			})
			if !hasLoop {
				continue
			}
			start := Loc{g.Entry, 0}
			n++
			isSuccess := func(nd ast.Node) bool {
				rs, ok := nd.(*ast.ReturnStmt)
				return ok && ei < len(rs.Results) && p.isNilExpr(rs.Results[ei])
			}
			notSP := func(e *Edge) bool {
				for _, ft := range p.FactsOfCond(e.Cond, e.Val) {
					if ft.Op == "==" && !ft.Val {
						if v, ok := p.ConstVal(ft.Y); ok && v == "32" {
							if id, ok := unparen(ft.X).(*ast.Ident); ok && p.ObjOf(id) == charObj {
								return false // the edge on which the character is not the separator
							}
						}
					}
				}
				return true
			}
			bad := ""
			walkBody(f, func(x ast.Node) bool {
				rs, ok := x.(*ast.ReturnStmt)
				if !ok || ei >= len(rs.Results) || p.isNilExpr(rs.Results[ei]) || bad != "" {
					return true
				}
				loc, okL := g.Locate(rs)
				if !okL {
					return true
				}
				if loc.B == start.B {
					bad = p.Pos(rs.Pos())
					return true
				}
				if _, found := g.PathAvoiding(Loc{start.B, start.I}, isSuccess, func(b *Block) bool { return b == loc.B }, notSP); found {
					bad = p.Pos(rs.Pos())
				}
				return true
			})
			r.Check(bad == "", "tokenizer "+f.Name+": a separator always ends the token successfully", p.Pos(f.Body.Pos()), "no error return reachable while the character is SP", "the error return at "+bad+" can be taken although the current character is the separator (for instance the length test comes first): a token of exactly the maximal length is rejected, so a line that Marshal writes does not parse")
		}
		if n < 3 {
			r.Fail("tokenizers", "candidate_base.go", fmt.Sprintf("only %d tokenizers with an SP test and an error result found (rule instance lost)", n))
		}
	}
}

// verbatimText: e derives from a source (accepted by isSrc) only by substring
// operations: slicing, strings.Cut/Trim*/TrimSpace, or a call to an analysed
// func(string) string all of whose returns are substrings of its parameter.
func (p *Prog) verbatimText(f *Func, e ast.Expr, isSrc func(ast.Expr) bool, depth int) (bool, string) {
	e = unparen(e)
	if isSrc(e) {
		return true, ""
	}
	if depth > 5 {
		return false, "too deeply derived"
	}
	switch x := e.(type) {
	case *ast.SliceExpr:
		return p.verbatimText(f, x.X, isSrc, depth+1)
	case *ast.Ident:
		if d, ok := p.reachingDef(f, x, p.ObjOf(x)); ok && d.Rhs != nil {
			if c, isC := unparen(d.Rhs).(*ast.CallExpr); isC && d.Index <= 1 && p.CalleeName(c) == "strings.Cut" {
				return p.verbatimText(f, c.Args[0], isSrc, depth+1)
			}
			if d.Index == 0 {
				return p.verbatimText(f, d.Rhs, isSrc, depth+1)
			}
		}
		if d, ok := p.SingleDef(f, p.ObjOf(x)); ok && d.Rhs != nil {
			if c, isC := unparen(d.Rhs).(*ast.CallExpr); isC && d.Index <= 1 && p.CalleeName(c) == "strings.Cut" {
				return p.verbatimText(f, c.Args[0], isSrc, depth+1)
			}
			if d.Index == 0 {
				return p.verbatimText(f, d.Rhs, isSrc, depth+1)
			}
		}
		// a local assigned on several paths (addr := src; if cut { addr = before }): every value must be verbatim;
		// a value derived from the local itself is verbatim if the others are
		if o := p.ObjOf(x); o != nil {
			if p.verbatimVisiting == nil {
				p.verbatimVisiting = map[types.Object]bool{}
			}
			if p.verbatimVisiting[o] {
				return true, ""
			}
			if ds := p.DefsOf(f, o); len(ds) > 1 {
				p.verbatimVisiting[o] = true
				defer delete(p.verbatimVisiting, o)
				for _, d := range ds {
					if d.Rhs == nil {
						return false, "assigned by something other than a substring of the address (" + stripVarLines(p.Canon(e)) + ")"
					}
					rhs := d.Rhs
					if c, isC := unparen(rhs).(*ast.CallExpr); isC && d.Index <= 1 && p.CalleeName(c) == "strings.Cut" {
						rhs = c.Args[0]
					} else if d.Index != 0 {
						return false, "assigned from result " + itoa(d.Index) + " of " + stripVarLines(p.Canon(rhs))
					}
					if ok, why := p.verbatimText(f, rhs, isSrc, depth+1); !ok {
						return false, why
					}
				}
				return true, ""
			}
		}
		return false, "defined by something other than a substring of the address (" + stripVarLines(p.Canon(e)) + ")"
	case *ast.CallExpr:
		name := p.CalleeName(x)
		switch name {
		case "strings.TrimSpace", "strings.TrimPrefix", "strings.TrimSuffix", "strings.Trim", "strings.TrimLeft", "strings.TrimRight":
			return p.verbatimText(f, x.Args[0], isSrc, depth+1)
		}
		if callee := p.Callee(x); callee != nil && len(x.Args) == 1 {
			if g := p.ByObj[callee]; g != nil && g.Body != nil {
				par := p.paramObj(g, 0)
				okAll, why, n := true, "", 0
				walkBody(g, func(nd ast.Node) bool {
					if rs, ok := nd.(*ast.ReturnStmt); ok && len(rs.Results) == 1 {
						n++
						ok, w := p.verbatimText(g, rs.Results[0], func(y ast.Expr) bool {
							id, isID := unparen(y).(*ast.Ident)
							return isID && p.ObjOf(id) == par
						}, depth+1)
						if !ok {
							okAll, why = false, w
						}
					}
					return true
				})
				if !okAll || n == 0 {
					return false, "passed through " + name + ", which returns text " + why
				}
				return p.verbatimText(f, x.Args[0], isSrc, depth+1)
			}
		}
		return false, "re-rendered by " + name
	}
	return false, "computed by " + stripVarLines(p.Canon(e))
}

func conjuncts(e ast.Expr) []ast.Expr {
	e = unparen(e)
	if b, ok := e.(*ast.BinaryExpr); ok && b.Op == token.LAND {
		return append(conjuncts(b.X), conjuncts(b.Y)...)
	}
	return []ast.Expr{e}
}

// callsFeeding: the callees whose results can reach e through local definitions.
func (p *Prog) callsFeeding(f *Func, e ast.Expr, depth int, seen map[types.Object]bool) []string {
	var out []string
	if depth > 6 {
		return nil
	}
	ast.Inspect(e, func(n ast.Node) bool {
		switch x := n.(type) {
		case *ast.CallExpr:
			out = append(out, p.CalleeName(x))
		case *ast.Ident:
			o := p.ObjOf(x)
			if v, ok := o.(*types.Var); ok && !v.IsField() && !seen[o] {
				seen[o] = true
				for _, d := range p.DefsOf(f, o) {
					if d.Rhs != nil {
						out = append(out, p.callsFeeding(f, d.Rhs, depth+1, seen)...)
					}
				}
			}
		}
		return true
	})
	return out
}
