package main

// Canonical rendering of expressions over resolved objects, and the
// "mentions" of an expression (variables, fields, calls) used to decide
// which statements invalidate a fact.

import (
	"fmt"
	"go/ast"
	"go/token"
	"go/types"
	"sort"
	"strings"
)

// Canon renders e with identifiers resolved: package-level objects as
// pkg.Name, locals as $name, fields by name, calls by resolved callee.
func (p *Prog) Canon(e ast.Expr) string {
	switch x := e.(type) {
	case nil:
		return ""
	case *ast.ParenExpr:
		return p.Canon(x.X)
	case *ast.Ident:
		o := p.ObjOf(x)
		switch o := o.(type) {
		case nil:
			return x.Name
		case *types.Nil:
			return "nil"
		case *types.Const:
			if q := objQualName(o); q != "" && o.Pkg() != nil && o.Parent() == o.Pkg().Scope() {
				return q
			}
			return o.Val().ExactString()
		case *types.Var:
			if o.Pkg() != nil && o.Parent() == o.Pkg().Scope() {
				return objQualName(o)
			}
			return p.varKey(o)
		case *types.Func:
			return objQualName(o)
		case *types.Builtin:
			return "builtin." + o.Name()
		case *types.TypeName:
			return typeStr(o.Type())
		case *types.PkgName:
			return shortPkg(o.Imported().Path())
		}
		return x.Name
	case *ast.BasicLit:
		return x.Value
	case *ast.SelectorExpr:
		if s := p.Info.Selections[x]; s != nil {
			return p.Canon(x.X) + "." + x.Sel.Name
		}
		// qualified identifier
		if o := p.ObjOf(x.Sel); o != nil {
			if q := objQualName(o); q != "" {
				return q
			}
			if tn, ok := o.(*types.TypeName); ok {
				return typeStr(tn.Type())
			}
		}
		return p.Canon(x.X) + "." + x.Sel.Name
	case *ast.CallExpr:
		var args []string
		for _, a := range x.Args {
			args = append(args, p.Canon(a))
		}
		name := p.CalleeName(x)
		if name == "" {
			if tv, ok := p.Info.Types[x.Fun]; ok && tv.IsType() {
				name = "conv:" + typeStr(tv.Type)
			} else {
				name = "dyn:" + p.Canon(x.Fun)
			}
		} else if sel, ok := unparen(x.Fun).(*ast.SelectorExpr); ok && p.Info.Selections[sel] != nil {
			// method call: keep the receiver expression
			name = p.Canon(sel.X) + "->" + name
		}
		return name + "(" + strings.Join(args, ", ") + ")"
	case *ast.UnaryExpr:
		return x.Op.String() + p.Canon(x.X)
	case *ast.StarExpr:
		return "*" + p.Canon(x.X)
	case *ast.BinaryExpr:
		return "(" + p.Canon(x.X) + " " + x.Op.String() + " " + p.Canon(x.Y) + ")"
	case *ast.IndexExpr:
		return p.Canon(x.X) + "[" + p.Canon(x.Index) + "]"
	case *ast.SliceExpr:
		return p.Canon(x.X) + "[" + p.Canon(x.Low) + ":" + p.Canon(x.High) + "]"
	case *ast.TypeAssertExpr:
		if x.Type == nil {
			return p.Canon(x.X) + ".(type)"
		}
		return p.Canon(x.X) + ".(" + typeStr(p.TypeOf(x.Type)) + ")"
	case *ast.CompositeLit:
		var el []string
		for _, e := range x.Elts {
			el = append(el, p.Canon(e))
		}
		return typeStr(p.TypeOf(x)) + "{" + strings.Join(el, ", ") + "}"
	case *ast.KeyValueExpr:
		return p.Canon(x.Key) + ": " + p.Canon(x.Value)
	case *ast.FuncLit:
		return fmt.Sprintf("func@%s", p.Pos(x.Pos()))
	case *ast.ArrayType, *ast.MapType, *ast.ChanType, *ast.FuncType, *ast.InterfaceType, *ast.StructType:
		return typeStr(p.TypeOf(x))
	case *ast.Ellipsis:
		return "..." + p.Canon(x.Elt)
	}
	return fmt.Sprintf("<%T>", e)
}

// varKey names a local variable uniquely (same-named variables of different
// scopes are different objects). Only used as an internal key of one run.
func (p *Prog) varKey(o types.Object) string {
	return fmt.Sprintf("$%s#%d", o.Name(), p.Fset.Position(o.Pos()).Line)
}

func typeStr(t types.Type) string {
	if t == nil {
		return "?"
	}
	return types.TypeString(t, func(pk *types.Package) string { return shortPkg(pk.Path()) })
}

// Mentions collects what an expression depends on.
type Mentions struct {
	Vars   map[types.Object]bool
	Fields map[*types.Var]bool
	Calls  []*ast.CallExpr
}

func (p *Prog) MentionsOf(nodes ...ast.Node) *Mentions {
	m := &Mentions{Vars: map[types.Object]bool{}, Fields: map[*types.Var]bool{}}
	for _, n := range nodes {
		if n == nil {
			continue
		}
		ast.Inspect(n, func(x ast.Node) bool {
			switch x := x.(type) {
			case *ast.FuncLit:
				return false
			case *ast.Ident:
				if v, ok := p.ObjOf(x).(*types.Var); ok && !v.IsField() {
					m.Vars[v] = true
				}
			case *ast.SelectorExpr:
				if f := p.FieldOf(x); f != nil {
					m.Fields[f] = true
				}
			case *ast.CallExpr:
				m.Calls = append(m.Calls, x)
			}
			return true
		})
	}
	return m
}

// ---- facts ----

// Fact is an atomic condition known to hold (Val) or not hold (!Val).
type Fact struct {
	Key  string
	Val  bool
	Op   string // "truth", "==", "<", "type", "range", "comm", "default"
	X, Y ast.Expr
	Stmt ast.Stmt
	deps *Mentions
}

func (f Fact) String() string {
	if f.Val {
		return f.Key
	}
	return "!" + f.Key
}

type FactSet map[string]Fact

func (s FactSet) clone() FactSet {
	o := make(FactSet, len(s))
	for k, v := range s {
		o[k] = v
	}
	return o
}

func (s FactSet) Strings() []string {
	var out []string
	for _, f := range s {
		out = append(out, f.String())
	}
	sort.Strings(out)
	return out
}

// isConstLike: nil, constants, literals — placed on the right of ==.
func (p *Prog) isConstLike(e ast.Expr) bool {
	e = unparen(e)
	if id, ok := e.(*ast.Ident); ok {
		if _, isNil := p.ObjOf(id).(*types.Nil); isNil {
			return true
		}
	}
	_, ok := p.ConstVal(e)
	return ok
}

// FactsOfCond returns the atomic facts implied by an edge condition.
func (p *Prog) FactsOfCond(c *Cond, val bool) []Fact {
	if c == nil {
		return nil
	}
	switch c.Op {
	case "truth":
		return p.factsOfExpr(c.X, val)
	case "==":
		return []Fact{p.eqFact(c.X, c.Y, val)}
	case "type":
		k := "type(" + p.Canon(c.X) + "," + typeStr(p.TypeOf(c.Y)) + ")"
		if c.Y != nil {
			if id, ok := c.Y.(*ast.Ident); ok && id.Name == "nil" {
				k = "type(" + p.Canon(c.X) + ",nil)"
			}
		}
		return []Fact{{Key: k, Val: val, Op: "type", X: c.X, Y: c.Y, deps: p.MentionsOf(c.X)}}
	case "range":
		return []Fact{{Key: "range@" + p.Pos(c.Stmt.Pos()), Val: val, Op: "range", X: c.X, Stmt: c.Stmt, deps: &Mentions{}}}
	case "comm":
		return []Fact{{Key: "comm@" + p.Pos(c.Stmt.Pos()), Val: val, Op: "comm", Stmt: c.Stmt, deps: &Mentions{}}}
	case "default":
		return []Fact{{Key: "default@" + p.Pos(c.Stmt.Pos()), Val: val, Op: "default", Stmt: c.Stmt, deps: &Mentions{}}}
	}
	return nil
}

func (p *Prog) eqFact(x, y ast.Expr, val bool) Fact {
	x, y = unparen(x), unparen(y)
	if p.isConstLike(x) && !p.isConstLike(y) {
		x, y = y, x
	} else if !p.isConstLike(y) && p.Canon(y) < p.Canon(x) {
		x, y = y, x
	}
	return Fact{Key: "(" + p.Canon(x) + " == " + p.Canon(y) + ")", Val: val, Op: "==", X: x, Y: y, deps: p.MentionsOf(x, y)}
}

// factsOfExpr decomposes a boolean expression known to be val. Conjunctions
// known true and disjunctions known false decompose into several facts.
func (p *Prog) factsOfExpr(e ast.Expr, val bool) []Fact {
	e = unparen(e)
	switch x := e.(type) {
	case *ast.UnaryExpr:
		if x.Op == token.NOT {
			return p.factsOfExpr(x.X, !val)
		}
	case *ast.BinaryExpr:
		switch x.Op {
		case token.LAND:
			if val {
				return append(p.factsOfExpr(x.X, true), p.factsOfExpr(x.Y, true)...)
			}
			return nil
		case token.LOR:
			if !val {
				return append(p.factsOfExpr(x.X, false), p.factsOfExpr(x.Y, false)...)
			}
			return nil
		case token.EQL:
			return []Fact{p.eqFact(x.X, x.Y, val)}
		case token.NEQ:
			return []Fact{p.eqFact(x.X, x.Y, !val)}
		case token.LSS:
			return []Fact{p.ltFact(x.X, x.Y, val)}
		case token.GTR:
			return []Fact{p.ltFact(x.Y, x.X, val)}
		case token.GEQ:
			return []Fact{p.ltFact(x.X, x.Y, !val)}
		case token.LEQ:
			return []Fact{p.ltFact(x.Y, x.X, !val)}
		}
	}
	if c, ok := p.ConstVal(e); ok {
		_ = c
		return nil
	}
	return []Fact{{Key: p.Canon(e), Val: val, Op: "truth", X: e, deps: p.MentionsOf(e)}}
}

func (p *Prog) ltFact(x, y ast.Expr, val bool) Fact {
	x, y = unparen(x), unparen(y)
	return Fact{Key: "(" + p.Canon(x) + " < " + p.Canon(y) + ")", Val: val, Op: "<", X: x, Y: y, deps: p.MentionsOf(x, y)}
}

// RoleCanon renders e like Canon, but names every local variable by what it
// is — receiver, parameter position, the call whose result it holds, or its
// type — instead of by its spelling; a boolean local defined by a
// side-effect-free expression is replaced by that expression. Keys built from
// it survive renaming locals and naming or un-naming intermediate conditions.
func (p *Prog) RoleCanon(f *Func, e ast.Expr) string {
	return p.roleCanon(f, e, 0)
}

func (p *Prog) roleCanon(f *Func, e ast.Expr, depth int) string {
	s := stripVarLines(p.Canon(e))
	repl := map[string]string{}
	ast.Inspect(e, func(n ast.Node) bool {
		if _, isLit := n.(*ast.FuncLit); isLit {
			return false
		}
		id, ok := n.(*ast.Ident)
		if !ok {
			return true
		}
		v, ok := p.ObjOf(id).(*types.Var)
		if !ok || v.IsField() || v.Pkg() == nil || v.Parent() == v.Pkg().Scope() {
			return true
		}
		if _, done := repl["$"+v.Name()]; !done {
			repl["$"+v.Name()] = p.roleOf(f, id, v, depth)
		}
		return true
	})
	if len(repl) == 0 {
		return s
	}
	var b strings.Builder
	for i := 0; i < len(s); {
		if s[i] != '$' {
			b.WriteByte(s[i])
			i++
			continue
		}
		j := i + 1
		for j < len(s) && (s[j] == '_' || s[j] >= '0' && s[j] <= '9' || s[j] >= 'a' && s[j] <= 'z' || s[j] >= 'A' && s[j] <= 'Z' || s[j] >= 0x80) {
			j++
		}
		if r, ok := repl[s[i:j]]; ok {
			b.WriteString(r)
		} else {
			b.WriteString(s[i:j])
		}
		i = j
	}
	return b.String()
}

func (p *Prog) roleOf(f *Func, use *ast.Ident, v *types.Var, depth int) string {
	up := ""
	for fn := f; fn != nil; fn = fn.Parent {
		if fn.Decl != nil && fn.Decl.Recv != nil {
			for _, fl := range fn.Decl.Recv.List {
				for _, n := range fl.Names {
					if p.ObjOf(n) == v {
						return "recv"
					}
				}
			}
		}
		if fn.Type != nil && fn.Type.Params != nil {
			i := 0
			for _, fl := range fn.Type.Params.List {
				for _, n := range fl.Names {
					if p.ObjOf(n) == v {
						return fmt.Sprintf("%sparam%d", up, i)
					}
					i++
				}
				if len(fl.Names) == 0 {
					i++
				}
			}
		}
		up += "outer."
	}
	d, ok := p.reachingDef(f, use, v)
	if !ok {
		d, ok = p.SingleDef(f, v)
	}
	if ok && d.Rhs != nil {
		switch x := unparen(d.Rhs).(type) {
		case *ast.CallExpr:
			if n := p.CalleeName(x); n != "" {
				return fmt.Sprintf("%s#%d", n, d.Index)
			}
		case *ast.TypeAssertExpr:
			return fmt.Sprintf("assert<%s>#%d", typeStr(p.TypeOf(x.Type)), d.Index)
		}
		if depth < 3 && pureBoolExpr(d.Rhs) {
			if b, isB := v.Type().Underlying().(*types.Basic); isB && b.Kind() == types.Bool {
				return p.roleCanon(f, d.Rhs, depth+1)
			}
		}
	}
	return "local<" + typeStr(v.Type()) + ">"
}

// negateText: the canonical text of the negation of a condition rendered by Canon / RoleCanon.
func negateText(c string) string {
	if strings.HasPrefix(c, "!") {
		return c[1:]
	}
	if !strings.ContainsAny(c, " ") {
		return "!" + c
	}
	if len(c) > 1 && c[0] == '(' {
		depth := 0
		for i := 0; i < len(c); i++ {
			switch c[i] {
			case '(':
				depth++
			case ')':
				depth--
				if depth == 0 && i < len(c)-1 {
					return "!(" + c + ")"
				}
			}
		}
		return "!" + c
	}
	return "!(" + c + ")"
}
