package main

import (
	"fmt"
	"go/ast"
	"go/token"
	"go/types"
	"math/big"
	"sort"
	"strings"
)

func init() { register("C14", checkC14) }

// ltFalse: facts contain !(x < y) for canonical operands (i.e. x >= y).
func factLT(p *Prog, s FactSet, val bool, matchX, matchY func(e ast.Expr) bool) bool {
	return s.Has(func(f Fact) bool {
		return f.Op == "<" && f.Val == val && matchX(f.X) && matchY(f.Y)
	})
}

func (p *Prog) isBuiltinOf(e ast.Expr, name string, arg types.Object) bool {
	c, ok := unparen(e).(*ast.CallExpr)
	if !ok || p.CalleeName(c) != "builtin."+name || len(c.Args) != 1 {
		return false
	}
	id, ok := unparen(c.Args[0]).(*ast.Ident)
	return ok && p.ObjOf(id) == arg
}

func (p *Prog) paramObj(f *Func, idx int) types.Object {
	i := 0
	for _, fl := range f.Type.Params.List {
		for _, n := range fl.Names {
			if i == idx {
				return p.ObjOf(n)
			}
			i++
		}
	}
	return nil
}

func (p *Prog) constInt(name string) (*big.Int, bool) {
	o := p.Ice.Types.Scope().Lookup(name)
	c, ok := o.(*types.Const)
	if !ok {
		return nil, false
	}
	b, ok := new(big.Int).SetString(c.Val().ExactString(), 10)
	return b, ok
}

func checkC14(p *Prog, r *Report) {
	rd := p.Fn("readStreamingPacket")
	wr := p.Fn("writeStreamingPacket")
	if !r.Anchor("readStreamingPacket", rd != nil) || !r.Anchor("writeStreamingPacket", wr != nil) {
		return
	}
	hdr, okH := p.constInt("streamingPacketHeaderLen")
	mtu, okM := p.constInt("receiveMTU")
	if !r.Anchor("streamingPacketHeaderLen/receiveMTU constants", okH && okM) {
		return
	}

	// ---- R14.1 bounded reads ---------------------------------------------
	r.Rule("R14.1", "readStreamingPacket: every slice of the caller's buffer has its upper bound dominated by 'length <= cap(buf)' (else io.ErrShortBuffer is returned, and only then); the length is the big-endian 16-bit header; both read loops run until exactly the wanted number of bytes, slice [read:wanted] and add the n returned by that Read.", 5)
	checkReadStreamingPacket(p, r, rd, hdr)

	// ---- R14.2 guarded narrowing ---------------------------------------------
	r.Rule("R14.2", "Every conversion of a non-constant integer to a 16-bit (or narrower) unsigned type in the framing code is dominated by a test that the value fits (else an error is returned before anything is written): the length header is never a truncated length.", 1)
	framing := []string{"writeStreamingPacket", "readStreamingPacket"}
	for _, f := range p.AllFuncs {
		if strings.HasPrefix(f.Name, "tcpPacketConn.") || strings.HasPrefix(f.Name, "bufferedConn.") || strings.HasPrefix(f.Name, "activeTCPConn.") || strings.HasPrefix(f.Name, "newActiveTCPConn") {
			framing = append(framing, f.Name)
		}
	}
	for _, name := range framing {
		f := p.Fn(name)
		if f == nil {
			continue
		}
		walkBody(f, func(n ast.Node) bool {
			c, ok := n.(*ast.CallExpr)
			if !ok || len(c.Args) != 1 {
				return true
			}
			tv, ok := p.Info.Types[c.Fun]
			if !ok || !tv.IsType() {
				return true
			}
			bs := bitSize(tv.Type)
			if bs == 0 || bs > 16 || !isUnsigned(tv.Type) {
				return true
			}
			if _, isConst := p.ConstVal(c.Args[0]); isConst {
				return true
			}
			if src := bitSize(p.TypeOf(c.Args[0])); src != 0 && src <= bs {
				return true
			}
			limit := new(big.Int).Sub(new(big.Int).Lsh(big.NewInt(1), uint(bs)), big.NewInt(1))
			facts, _ := p.FactsAtCall(f, c)
			arg := p.Canon(c.Args[0])
			guarded := factLT(p, facts, false, func(e ast.Expr) bool {
				v, ok := p.constBig(e)
				return ok && v.Cmp(limit) <= 0
			}, func(e ast.Expr) bool { return p.Canon(e) == arg })
			r.Check(guarded, f.Name+": narrowing to "+typeStr(tv.Type), p.Pos(c.Pos()), "dominated by value <= "+limit.String(),
				"conversion "+typeStr(tv.Type)+"("+stripVarLines(arg)+") is not dominated by a test that the value is at most "+limit.String()+": longer packets are framed with a truncated length header")
			return true
		})
	}
	// the too-long error is returned only for too-long packets
	walkBody(wr, func(n ast.Node) bool {
		rs, ok := n.(*ast.ReturnStmt)
		if !ok || len(rs.Results) != 2 || p.isNilExpr(rs.Results[1]) {
			return true
		}
		if id, ok := unparen(rs.Results[1]).(*ast.Ident); ok {
			if _, isVar := p.ObjOf(id).(*types.Var); isVar && p.ObjOf(id).Parent() != p.ObjOf(id).Pkg().Scope() {
				return true // propagating err of conn.Write
			}
		}
		facts, _ := p.FactsAtCall(wr, rs)
		wbuf := p.paramObj(wr, 1)
		ok2 := factLT(p, facts, true, func(e ast.Expr) bool { v, ok := p.constBig(e); return ok && v.Cmp(big.NewInt(65535)) == 0 },
			func(e ast.Expr) bool { return p.isBuiltinOf(e, "len", wbuf) })
		r.Check(ok2, "writeStreamingPacket: too-long error condition", p.Pos(rs.Pos()), "returned exactly when len(buf) > 65535", "the writer refuses packets under a condition other than 'len(buf) > 65535': packets that fit the 16-bit length field are refused")
		return true
	})

	// ---- R14.3 reader/writer agreement ---------------------------------------
	r.Rule("R14.3", "Reader and writer agree on the framing: same header length constant, both big-endian 16-bit, payload copied right after the header, header and payload emitted in one Write, and the writer reports the payload bytes (n minus header).", 4)
	{
		var problems []string
		// make size = headerLen + len(buf)
		wbuf := p.paramObj(wr, 1)
		mkOK, cpOK, putOK, nWrites := false, false, false, 0
		walkBody(wr, func(n ast.Node) bool {
			c, ok := n.(*ast.CallExpr)
			if !ok {
				return true
			}
			switch p.CalleeName(c) {
			case "builtin.make":
				if len(c.Args) >= 2 {
					lf := p.Linear(c.Args[1], func(e ast.Expr) string {
						if p.isBuiltinOf(e, "len", wbuf) {
							return "len(buf)"
						}
						return p.Canon(e)
					})
					if lf.OK && len(lf.Terms) == 2 && lf.Terms["len(buf)"] != nil && lf.Terms["len(buf)"].Cmp(big.NewInt(1)) == 0 && lf.Terms[""] != nil && lf.Terms[""].Cmp(hdr) == 0 {
						mkOK = true
					} else {
						problems = append(problems, "frame buffer size is "+lf.String()+", expected "+hdr.String()+" + len(buf)")
					}
				}
			case "builtin.copy":
				if len(c.Args) == 2 {
					if sl, ok := unparen(c.Args[0]).(*ast.SliceExpr); ok && sl.Low != nil {
						if lo, ok := p.constBig(sl.Low); ok && lo.Cmp(hdr) == 0 {
							if id, ok := unparen(c.Args[1]).(*ast.Ident); ok && p.ObjOf(id) == wbuf {
								cpOK = true
							}
						}
					}
				}
			case "encoding/binary.bigEndian.PutUint16":
				putOK = true
			case "net.Conn.Write":
				nWrites++
			}
			return true
		})
		if !mkOK && len(problems) == 0 {
			problems = append(problems, "frame buffer allocation not found")
		}
		if !cpOK {
			problems = append(problems, "payload is not copied to offset "+hdr.String()+" (the header length)")
		}
		if !putOK {
			problems = append(problems, "length header is not written with binary.BigEndian.PutUint16")
		}
		if nWrites != 1 {
			problems = append(problems, fmt.Sprintf("%d conn.Write calls: header and payload must be emitted in one write", nWrites))
		}
		r.Check(len(problems) == 0, "writeStreamingPacket framing", p.Pos(wr.Body.Pos()), "header+payload in one big-endian frame", strings.Join(problems, "; "))
		// reader uses the same constant for the header loop bound
		rdHdr := false
		walkBody(rd, func(n ast.Node) bool {
			if c, ok := n.(*ast.CallExpr); ok && p.CalleeName(c) == "builtin.make" && len(c.Args) >= 2 {
				if v, ok := p.constBig(c.Args[1]); ok && v.Cmp(hdr) == 0 {
					rdHdr = true
				}
			}
			return true
		})
		r.Check(rdHdr, "readStreamingPacket header size", p.Pos(rd.Body.Pos()), "header buffer of streamingPacketHeaderLen bytes", "reader's header buffer does not have the framing header length")
		r.Check(hdr.Cmp(big.NewInt(2)) == 0, "header length is 2 (RFC 4571)", "tcp_mux.go", "streamingPacketHeaderLen == 2", "streamingPacketHeaderLen is "+hdr.String()+", RFC 4571 uses a 2-byte length")
		// writer's result: n - header
		resOK := false
		walkBody(wr, func(n ast.Node) bool {
			if rs, ok := n.(*ast.ReturnStmt); ok && len(rs.Results) == 2 && p.isNilExpr(rs.Results[1]) {
				lf := p.Linear(rs.Results[0], nil)
				if lf.OK && lf.Terms[""] != nil && new(big.Int).Neg(lf.Terms[""]).Cmp(hdr) == 0 && len(lf.Terms) == 2 {
					resOK = true
				}
			}
			return true
		})
		r.Check(resOK, "writeStreamingPacket result", p.Pos(wr.Body.Pos()), "returns n - header length", "the writer does not report 'bytes written minus header': callers' byte counters include the framing")
	}

	// ---- R14.4 who may touch the stream ----------------------------------------
	r.Rule("R14.4", "Raw Read/Write on a stream connection happen only in the two framing functions and in the buffered writer that forwards whole frames; every user of ICE-TCP streams goes through them.", 3)
	allowed := map[string]bool{"readStreamingPacket": true, "writeStreamingPacket": true, "bufferedConn.writeProcess": true}
	for _, f := range p.AllFuncs {
		if f.Pkg != p.Ice {
			continue
		}
		for _, c := range p.CallsTo(f, false, "net.Conn.Read", "net.Conn.Write") {
			r.Check(allowed[f.Name], "raw stream I/O in "+f.Name, p.Pos(c.Pos()), "inside the framing layer", "raw "+p.CalleeName(c)+" on a stream connection outside the framing functions: packet boundaries are not preserved")
		}
	}
	users := map[string]int{}
	for _, f := range p.AllFuncs {
		n := len(p.CallsTo(f, false, "ice.readStreamingPacket", "ice.writeStreamingPacket"))
		if n > 0 {
			users[f.Root().Name] += n
		}
	}
	r.Extra["framing_users"] = users

	// ---- R14.5 errors end the stream --------------------------------------------
	r.Rule("R14.5", "After readStreamingPacket reports an error its caller never reads from that stream again (it closes/removes the connection or leaves the loop).", 3)
	for _, f := range p.AllFuncs {
		cs := p.CallsTo(f, false, "ice.readStreamingPacket")
		if len(cs) == 0 {
			continue
		}
		bad := p.rereadWithoutSuccess(f, func(c *ast.CallExpr) bool { return p.CalleeName(c) == "ice.readStreamingPacket" })
		pos := p.Pos(cs[0].Pos())
		if bad != nil {
			pos = p.Pos(bad.Pos())
		}
		r.Check(bad == nil, "reader user "+f.Root().Name, pos, "the read repeats only after err == nil", "a stream is read again (by this or another readStreamingPacket call) without having established that the previous read succeeded (e.g. after io.ErrShortBuffer, which leaves the frame body unread): a desynchronised stream yields fabricated packets")
	}

	// ---- R14.6 buffer sizing -----------------------------------------------------
	r.Rule("R14.6", "Every intermediate buffer on the ICE-TCP path is large enough: the buffered writer's forwarding buffer holds a full framed packet (receiveMTU + header), buffers carrying unframed packets hold receiveMTU.", 7)
	framed := new(big.Int).Add(mtu, hdr)
	sites := []struct {
		fn   string
		min  *big.Int
		what string
	}{
		{"bufferedConn.writeProcess", framed, "framed packet (receiveMTU + header)"},
		{"tcpPacketConn.startReading", mtu, "unframed packet"},
		{"newActiveTCPConn", mtu, "unframed packet"},
		{"candidateBase.recvLoop", mtu, "unframed packet"},
		{"UDPMuxDefault.connWorker", mtu, "unframed packet"},
	}
	for _, s := range sites {
		f := p.Fn(s.fn)
		if !r.Anchor(s.fn, f != nil) {
			continue
		}
		n := 0
		var rec func(g *Func)
		rec = func(g *Func) {
			walkBody(g, func(x ast.Node) bool {
				c, ok := x.(*ast.CallExpr)
				if !ok || p.CalleeName(c) != "builtin.make" || len(c.Args) < 2 {
					return true
				}
				if sl, ok := p.TypeOf(c.Args[0]).(*types.Slice); !ok || typeStr(sl.Elem()) != "byte" {
					return true
				}
				v, ok := p.constBig(c.Args[1])
				if !ok {
					return true
				}
				n++
				r.Check(v.Cmp(s.min) >= 0, fmt.Sprintf("%s buffer #%d", s.fn, n), p.Pos(c.Pos()), fmt.Sprintf("%s bytes >= %s", v, s.min),
					fmt.Sprintf("buffer of %s bytes carries a %s of up to %s bytes: full-size packets are dropped or truncated", v, s.what, s.min))
				return true
			})
			for _, l := range g.Lits {
				rec(l)
			}
		}
		rec(f)
		if s.fn == "candidateBase.recvLoop" && n == 0 {
			// buffer comes from the package-level pool
			for _, g := range p.AllFuncs {
				if strings.HasPrefix(g.Name, "var:bufferPool") {
					rec(g)
				}
			}
		}
		if n == 0 {
			r.Fail(s.fn+" buffer", p.Pos(f.Body.Pos()), "no constant-size packet buffer found (rule instance lost)")
		}
	}
	// the UDP mux pool
	if f := p.Fn("NewUDPMuxDefault"); f != nil {
		ok := false
		var rec func(g *Func)
		rec = func(g *Func) {
			for _, c := range p.CallsTo(g, false, "ice.newBufferHolder") {
				if v, ok2 := p.constBig(c.Args[0]); ok2 && v.Cmp(mtu) >= 0 {
					ok = true
				}
			}
			for _, l := range g.Lits {
				rec(l)
			}
		}
		rec(f)
		r.Check(ok, "UDP mux buffer pool", p.Pos(f.Body.Pos()), "holders of >= receiveMTU bytes", "UDP mux packet holders are smaller than receiveMTU")
	}

	// ---- R14.7 the buffered writer forwards whole frames one by one ----------------------------------------
	r.Rule("R14.7", "bufferedConn.writeProcess reads each queued frame into the start of its buffer and writes exactly the bytes that read returned: it never accumulates several buffer reads into one write (the packet buffer truncates a frame that does not fit and reports a short buffer, so a batched write can carry a frame whose header promises more than follows).", 2)
	if f := p.Fn("bufferedConn.writeProcess"); r.Anchor("bufferedConn.writeProcess", f != nil) {
		bufObj := p.localByDef(f, func(rhs ast.Expr) bool {
			c, ok := unparen(rhs).(*ast.CallExpr)
			return ok && p.CalleeName(c) == "builtin.make"
		})
		nRead, okRead := 0, true
		var nObjs []types.Object
		walkBody(f, func(x ast.Node) bool {
			as, ok := x.(*ast.AssignStmt)
			if !ok || len(as.Rhs) != 1 {
				return true
			}
			c, ok := unparen(as.Rhs[0]).(*ast.CallExpr)
			if !ok {
				return true
			}
			sel, ok := unparen(c.Fun).(*ast.SelectorExpr)
			if !ok || sel.Sel.Name != "Read" || !p.IsField(sel.X, "bufferedConn.buf") {
				return true
			}
			nRead++
			if len(c.Args) != 1 || !p.isObj(c.Args[0], bufObj) {
				okRead = false
			}
			if id, ok := unparen(as.Lhs[0]).(*ast.Ident); ok {
				nObjs = append(nObjs, p.ObjOf(id))
			}
			return true
		})
		r.Check(nRead == 1 && okRead, "writeProcess: one buffer read per write, into the start of the buffer", p.Pos(f.Body.Pos()), "n, err := bc.buf.Read(pktBuf)", fmt.Sprintf("%d reads from the packet buffer, destination is the whole buffer=%v: frames are batched / appended at an offset", nRead, okRead))
		okWrite, nWrite := true, 0
		walkBody(f, func(x ast.Node) bool {
			c, ok := x.(*ast.CallExpr)
			if !ok || p.CalleeName(c) != "net.Conn.Write" {
				return true
			}
			nWrite++
			sl, ok := unparen(c.Args[0]).(*ast.SliceExpr)
			if !ok || sl.Low != nil || !p.isObj(sl.X, bufObj) || len(nObjs) != 1 || !p.isObj(sl.High, nObjs[0]) {
				okWrite = false
			}
			return true
		})
		r.Check(okWrite && nWrite == 1, "writeProcess: writes exactly what was read", p.Pos(f.Body.Pos()), "Conn.Write(pktBuf[:n])", "the write does not send exactly the bytes of the one buffered frame that was read")
	}
	// ---- R14.8 one I/O buffer per goroutine -------------------------------------------------------------
	r.Rule("R14.8", "A byte buffer that a goroutine reads packets into (readStreamingPacket, the buffered reads of the active TCP connection, the packet conn's reader) is used by that goroutine only: a buffer declared outside a 'go' literal is not used both inside it and outside it (or inside two of them) — a shared buffer lets one direction overwrite the other's packet.", 3)
	nBuf := 0
	for _, f := range p.AllFuncs {
		if f.Pkg != p.Ice || f.Body == nil || f.Decl == nil {
			continue
		}
		// byte-slice locals of the declaration made by make([]byte, ...)
		var bufs []types.Object
		var scanDefs func(g *Func)
		scanDefs = func(g *Func) {
			walkBody(g, func(x ast.Node) bool {
				as, ok := x.(*ast.AssignStmt)
				if !ok || as.Tok != token.DEFINE || len(as.Lhs) != 1 || len(as.Rhs) != 1 {
					return true
				}
				c, ok := unparen(as.Rhs[0]).(*ast.CallExpr)
				if !ok || p.CalleeName(c) != "builtin.make" || len(c.Args) < 2 {
					return true
				}
				if sl, ok := p.TypeOf(c.Args[0]).(*types.Slice); !ok || typeStr(sl.Elem()) != "byte" {
					return true
				}
				if id, ok := as.Lhs[0].(*ast.Ident); ok {
					if o := p.ObjOf(id); o != nil {
						bufs = append(bufs, o)
					}
				}
				return true
			})
			for _, l := range g.Lits {
				scanDefs(l)
			}
		}
		scanDefs(f)
		if len(bufs) == 0 {
			continue
		}
		// which goroutine context uses each buffer: "" = the declaration's own flow, or the go-literal's name
		goLits := map[*Func]bool{}
		var markGo func(g *Func)
		markGo = func(g *Func) {
			walkBody(g, func(x ast.Node) bool {
				if gs, ok := x.(*ast.GoStmt); ok {
					if lit, ok := unparen(gs.Call.Fun).(*ast.FuncLit); ok {
						if lf := p.ByLit[lit]; lf != nil {
							goLits[lf] = true
						}
					}
				}
				return true
			})
			for _, l := range g.Lits {
				markGo(l)
			}
		}
		markGo(f)
		ctxOf := func(g *Func) string {
			for x := g; x != nil; x = x.Parent {
				if goLits[x] {
					return x.Name
				}
			}
			return ""
		}
		for _, b := range bufs {
			users := map[string]bool{}
			var scanUses func(g *Func)
			scanUses = func(g *Func) {
				walkBody(g, func(x ast.Node) bool {
					if id, ok := x.(*ast.Ident); ok && p.Info.Uses[id] == b {
						users[ctxOf(g)] = true
					}
					return true
				})
				for _, l := range g.Lits {
					scanUses(l)
				}
			}
			scanUses(f)
			if len(users) == 0 {
				continue
			}
			nBuf++
			var us []string
			for u := range users {
				if u == "" {
					u = f.Name
				}
				us = append(us, u)
			}
			sort.Strings(us)
			r.Check(len(users) == 1, "buffer "+b.Name()+" of "+f.Name+" used by one goroutine", p.Pos(b.Pos()), strings.Join(us, ", "), "the buffer is used by "+strings.Join(us, " and ")+": two goroutines read packets into (or write packets from) the same memory, so one direction's packet is overwritten by the other's before it is framed or delivered")
		}
	}
	if nBuf == 0 {
		r.Fail("I/O buffers", "", "no make([]byte, n) buffer found (rule instance lost)")
	}

	// ---- R14.9 a queued packet owns its bytes ---------------------------------------------------------------
	r.Rule("R14.9", "A reader that reuses one buffer for successive readStreamingPacket calls hands each packet on (to the packet connection's queue, to a channel, to another goroutine) as a private copy, never as a slice of that buffer: a packet still queued when the next frame is read keeps its contents (shared with C07).", 1)
	checkQueuedPacketsOwnTheirBytes(p, r)

	// ---- R14.10 the retained first packet is not recycled ---------------------------------------------------
	r.Rule("R14.10", "The first packet of an accepted connection is handed to tcpPacketConn.AddConn, which queues it without copying: the bytes passed must come from a buffer this call allocated itself (make) and that nothing else keeps, returns to a pool or reuses, or a later connection's first frame overwrites a packet that is still queued (shared with C15 R15.12).", 1)
	checkRetainedFirstPacket(p, r)
}

// checkRetainedFirstPacket: shared by C14 R14.10 and C15 R15.12.
func checkRetainedFirstPacket(p *Prog, r *Report) {
	add := p.Fn("tcpPacketConn.AddConn")
	if !r.Anchor("tcpPacketConn.AddConn", add != nil) {
		return
	}
	// the premise: AddConn keeps its second parameter (queues it) without copying
	retained := false
	par := p.paramObj(add, 1)
	for _, g := range append([]*Func{add}, add.Lits...) {
		walkBody(g, func(x ast.Node) bool {
			if cl, ok := x.(*ast.CompositeLit); ok && typeStr(p.TypeOf(cl)) == "ice.streamingPacket" {
				if d := p.LitField(cl, "Data"); d != nil {
					if id := rootIdent(d); id != nil && p.ObjOf(id) == par {
						retained = true
					}
				}
			}
			return true
		})
	}
	if !retained {
		r.OK("AddConn copies the first packet", p.Pos(add.Body.Pos()), "the first packet is not retained by AddConn: callers may reuse their buffer")
		return
	}
	n := 0
	for _, e := range p.Callers(add) {
		if e.Call == nil || len(e.Call.Args) != 2 || p.isNilExpr(e.Call.Args[1]) {
			continue
		}
		f := e.Caller
		n++
		id := rootIdent(p.Deref(f, e.Call.Args[1]))
		if id == nil {
			r.Unknown(f.Name+": first packet handed to AddConn", p.Pos(e.Call.Pos()), "the argument is not derived from a local buffer")
			continue
		}
		b := p.ObjOf(id)
		bad := ""
		root := f.Root()
		for _, fn := range append([]*Func{root}, root.Lits...) {
			for _, d := range p.DefsOf(fn, b) {
				if d.Zero {
					continue
				}
				if d.Rhs == nil {
					bad = "the buffer is redefined at " + p.Pos(d.Node.Pos())
					continue
				}
				if rid := rootIdent(d.Rhs); rid != nil && p.ObjOf(rid) == b {
					continue // a slice of itself
				}
				if c, ok := unparen(d.Rhs).(*ast.CallExpr); ok && p.CalleeName(c) == "builtin.make" {
					continue
				}
				bad = "the buffer is " + stripVarLines(p.Canon(d.Rhs)) + " (" + p.Pos(d.Node.Pos()) + "), not a fresh allocation of this call"
			}
			// nothing else keeps it: no pool, no field, no global, no address taken
			walkBody(fn, func(x ast.Node) bool {
				switch y := x.(type) {
				case *ast.CallExpr:
					if nm := p.CalleeName(y); nm == "sync.Pool.Put" {
						for _, a := range y.Args {
							if p.mentionsObj(a, b) {
								bad = "the buffer is returned to a pool at " + p.Pos(y.Pos())
							}
						}
					}
				case *ast.AssignStmt:
					for i, l := range y.Lhs {
						if i < len(y.Rhs) && p.mentionsObj(y.Rhs[i], b) {
							local := false
							if lid, isID := unparen(l).(*ast.Ident); isID {
								if v, isVar := p.ObjOf(lid).(*types.Var); isVar && !v.IsField() && v.Pkg() != nil && v.Parent() != v.Pkg().Scope() {
									local = true
								}
								if lid.Name == "_" {
									local = true
								}
							}
							if !local {
								bad = "the buffer is stored outside the call at " + p.Pos(y.Pos())
							}
						}
					}
				}
				return true
			})
		}
		r.Check(bad == "", f.Name+": the first packet handed to AddConn owns its bytes", p.Pos(e.Call.Pos()), "a buffer allocated by this call and kept by nothing else", bad+": AddConn queues the packet without copying, so the next connection that gets the same memory overwrites a first message that has not been read yet")
	}
	if n == 0 {
		r.Fail("callers of AddConn with a first packet", p.Pos(add.Body.Pos()), "no caller hands a first packet to AddConn (rule instance lost)")
	}
}

// errOfCall: e is the error variable assigned from call (possibly in a
// multi-assignment that is not a single definition).
func (p *Prog) errOfCall(f *Func, e ast.Expr, call *ast.CallExpr) bool {
	id, ok := unparen(e).(*ast.Ident)
	if !ok {
		return false
	}
	o := p.ObjOf(id)
	found := false
	walkBody(f, func(n ast.Node) bool {
		if as, ok := n.(*ast.AssignStmt); ok && len(as.Rhs) == 1 && unparen(as.Rhs[0]) == ast.Expr(call) {
			for _, l := range as.Lhs {
				if lid, ok := unparen(l).(*ast.Ident); ok && p.ObjOf(lid) == o {
					found = true
				}
			}
		}
		return true
	})
	return found
}

// checkReadLoop validates the shape
//
//	for read < want { if n, err = conn.Read(x[read:want]); err != nil { return } ; read += n }
func (p *Prog) checkReadLoop(f *Func, fs *ast.ForStmt, connObj types.Object) []string {
	var problems []string
	cond, ok := unparen(fs.Cond).(*ast.BinaryExpr)
	if !ok || cond.Op != token.LSS {
		return []string{"loop condition is not 'read < wanted'"}
	}
	counter, ok := unparen(cond.X).(*ast.Ident)
	if !ok {
		return []string{"loop counter is not a variable"}
	}
	want := p.Canon(cond.Y)
	var reads []*ast.CallExpr
	ast.Inspect(fs.Body, func(n ast.Node) bool {
		if c, ok := n.(*ast.CallExpr); ok && p.CalleeName(c) == "net.Conn.Read" {
			reads = append(reads, c)
		}
		return true
	})
	if len(reads) != 1 {
		return []string{fmt.Sprintf("%d Read calls in the loop body", len(reads))}
	}
	rc := reads[0]
	if sel, ok := unparen(rc.Fun).(*ast.SelectorExpr); ok {
		if id, ok := unparen(sel.X).(*ast.Ident); !ok || p.ObjOf(id) != connObj {
			problems = append(problems, "Read is not on the connection parameter")
		}
	}
	sl, ok := unparen(rc.Args[0]).(*ast.SliceExpr)
	wholeForm := false
	if ok && sl.Low != nil && sl.High == nil {
		// x[read:] read until read == len(x): the same region as x[read:len(x)]
		if c, isC := unparen(cond.Y).(*ast.CallExpr); isC && p.CalleeName(c) == "builtin.len" && len(c.Args) == 1 && p.Canon(c.Args[0]) == p.Canon(sl.X) {
			wholeForm = true
			if p.Canon(sl.Low) != p.Canon(counter) {
				problems = append(problems, "Read target does not start at the bytes-read counter: earlier bytes are overwritten")
			}
		}
	}
	if wholeForm {
		// checked above
	} else if !ok || sl.Low == nil || sl.High == nil {
		problems = append(problems, "Read target is not x[read:wanted]")
	} else {
		if p.Canon(sl.Low) != p.Canon(counter) {
			problems = append(problems, "Read target does not start at the bytes-read counter: earlier bytes are overwritten")
		}
		if p.Canon(sl.High) != want {
			problems = append(problems, "Read target does not end at the wanted length: the read can run past the frame")
		}
	}
	// n of this read is added to the counter
	var nObj types.Object
	ast.Inspect(fs.Body, func(n ast.Node) bool {
		if as, ok := n.(*ast.AssignStmt); ok && len(as.Rhs) == 1 && unparen(as.Rhs[0]) == ast.Expr(rc) && len(as.Lhs) == 2 {
			if id, ok := unparen(as.Lhs[0]).(*ast.Ident); ok {
				nObj = p.ObjOf(id)
			}
		}
		return true
	})
	incOK := false
	ast.Inspect(fs.Body, func(n ast.Node) bool {
		if as, ok := n.(*ast.AssignStmt); ok && as.Tok == token.ADD_ASSIGN && len(as.Lhs) == 1 {
			l, ok1 := unparen(as.Lhs[0]).(*ast.Ident)
			rr, ok2 := unparen(as.Rhs[0]).(*ast.Ident)
			if ok1 && ok2 && p.ObjOf(l) == p.ObjOf(counter) && nObj != nil && p.ObjOf(rr) == nObj {
				incOK = true
			}
		}
		return true
	})
	if !incOK {
		problems = append(problems, "the counter is not advanced by the n returned from that Read")
	}
	// error of the read returns
	retOK := false
	ast.Inspect(fs.Body, func(n ast.Node) bool {
		if is, ok := n.(*ast.IfStmt); ok {
			ast.Inspect(is.Body, func(y ast.Node) bool {
				switch z := y.(type) {
				case *ast.ReturnStmt:
					retOK = true
				case *ast.BranchStmt:
					// leaving through a label outside the loop (an inlined helper's return)
					if z.Tok == token.BREAK && z.Label != nil {
						retOK = true
					}
				}
				return true
			})
		}
		return true
	})
	if !retOK {
		problems = append(problems, "a Read error does not return")
	}
	return problems
}

// checkQueuedPacketsOwnTheirBytes: shared by C14 R14.9 and C07 R7.6.
func checkQueuedPacketsOwnTheirBytes(p *Prog, r *Report) {
	n := 0
	for _, f := range p.AllFuncs {
		if f.Body == nil || f.Pkg != p.Ice {
			continue
		}
		f := f
		// the reused read buffers: the buffer argument of a readStreamingPacket call that sits in a loop
		var bufs []types.Object
		walkBody(f, func(x ast.Node) bool {
			var body *ast.BlockStmt
			switch y := x.(type) {
			case *ast.ForStmt:
				body = y.Body
			case *ast.RangeStmt:
				body = y.Body
			}
			if body == nil {
				return true
			}
			ast.Inspect(body, func(z ast.Node) bool {
				if _, isLit := z.(*ast.FuncLit); isLit {
					return false
				}
				if c, ok := z.(*ast.CallExpr); ok && p.CalleeName(c) == "ice.readStreamingPacket" && len(c.Args) == 2 {
					if id := rootIdent(c.Args[1]); id != nil {
						if o := p.ObjOf(id); o != nil && o.Pos() < body.Pos() {
							bufs = append(bufs, o) // declared outside the loop: reused by the next iteration
						}
					}
				}
				return true
			})
			return true
		})
		for _, b := range bufs {
			n++
			bad := ""
			aliases := func(e ast.Expr) bool {
				// the expression is the buffer or a slice of it (copies made by append([]byte{}, ...) / make+copy are not)
				e = unparen(p.Deref(f, e))
				for {
					switch y := e.(type) {
					case *ast.SliceExpr:
						e = unparen(y.X)
						continue
					case *ast.ParenExpr:
						e = y.X
						continue
					}
					break
				}
				id, ok := e.(*ast.Ident)
				return ok && p.ObjOf(id) == b
			}
			walkBody(f, func(x ast.Node) bool {
				switch y := x.(type) {
				case *ast.CompositeLit:
					if typeStr(p.TypeOf(y)) == "ice.streamingPacket" {
						for _, el := range y.Elts {
							v := el
							if kv, ok := el.(*ast.KeyValueExpr); ok {
								v = kv.Value
							}
							if aliases(v) {
								bad = "a streamingPacket is built over the read buffer at " + p.Pos(y.Pos())
							}
						}
					}
				case *ast.SendStmt:
					if aliases(y.Value) {
						bad = "the read buffer is sent on a channel at " + p.Pos(y.Pos())
					}
				case *ast.CallExpr:
					switch p.CalleeName(y) {
					case "ice.tcpPacketConn.handleRecv", "ice.tcpPacketConn.deliver":
						for _, a := range y.Args {
							if aliases(a) {
								bad = "the read buffer itself is queued at " + p.Pos(y.Pos())
							}
						}
					}
				}
				return true
			})
			r.Check(bad == "", f.Name+": packets handed on are copies of the read buffer "+b.Name(), p.Pos(b.Pos()), "no queued value aliases the reused buffer", bad+": the queued packet is overwritten by the next frame read into the same buffer before the application has read it (wrong or mixed payloads under a backlog)")
		}
	}
	if n == 0 {
		r.Fail("readers with a reused buffer", "", "no loop calling readStreamingPacket with a buffer declared outside it (rule instance lost)")
	}
}

// checkReadStreamingPacket: the read side of the framing (C14 R14.1, shared with C15 R15.11).
func checkReadStreamingPacket(p *Prog, r *Report, rd *Func, hdr *big.Int) {
	bufObj := p.paramObj(rd, 1)
	connObj := p.paramObj(rd, 0)
	isCapBuf := func(e ast.Expr) bool { return p.isBuiltinOf(e, "cap", bufObj) || p.isBuiltinOf(e, "len", bufObj) }
	walkBody(rd, func(n ast.Node) bool {
		sl, ok := n.(*ast.SliceExpr)
		if !ok {
			return true
		}
		id, ok := unparen(sl.X).(*ast.Ident)
		if !ok {
			return true
		}
		pos := p.Pos(sl.Pos())
		if p.ObjOf(id) == bufObj {
			facts, _ := p.FactsAtCall(rd, sl)
			hi := sl.High
			ok := hi != nil && factLT(p, facts, false, isCapBuf, func(e ast.Expr) bool { return p.Canon(e) == p.Canon(hi) })
			r.Check(ok, "readStreamingPacket: slice of caller buffer", pos, "upper bound dominated by !(cap(buf) < bound)",
				"the caller's buffer is sliced up to "+stripVarLines(p.Canon(hi))+" without a dominating test that it does not exceed cap(buf): a hostile length field makes the slice panic or the read unbounded")
		} else if o := p.ObjOf(id); o != nil {
			// local header buffer: constant make size >= constant upper bound
			if d, ok := p.SingleDef(rd, o); ok {
				if mk, ok := unparen(d.Rhs).(*ast.CallExpr); ok && p.CalleeName(mk) == "builtin.make" && len(mk.Args) >= 2 {
					sz, ok1 := p.constBig(mk.Args[1])
					var hi *big.Int
					ok2 := false
					if sl.High != nil {
						hi, ok2 = p.constBig(sl.High)
					}
					if sl.High == nil && ok1 {
						// header[read:]: bounded by the buffer's constant length itself
						hi, ok2 = sz, true
					}
					r.Check(ok1 && ok2 && hi.Cmp(sz) <= 0, "readStreamingPacket: slice of header buffer", pos, "constant bound within constant size", "header buffer slice bound is not a constant within the buffer's constant size")
				}
			}
		}
		return true
	})
	// ErrShortBuffer only when strictly larger
	foundShort := false
	walkBody(rd, func(n ast.Node) bool {
		rs, ok := n.(*ast.ReturnStmt)
		if !ok || len(rs.Results) != 2 || !p.MentionsObj(rs.Results[1], "io.ErrShortBuffer") {
			return true
		}
		foundShort = true
		facts, _ := p.FactsAtCall(rd, rs)
		ok2 := factLT(p, facts, true, func(e ast.Expr) bool { return p.isBuiltinOf(e, "cap", bufObj) }, func(e ast.Expr) bool { return true })
		r.Check(ok2, "readStreamingPacket: short-buffer error condition", p.Pos(rs.Pos()), "returned exactly when cap(buf) < length",
			"io.ErrShortBuffer is not returned under 'length > cap(buf)': frames that fit the buffer exactly are refused, or oversized ones accepted")
		return true
	})
	if !foundShort {
		r.Fail("readStreamingPacket: short-buffer error condition", p.Pos(rd.Body.Pos()), "no io.ErrShortBuffer return: frames larger than the reader's buffer are not refused")
	}
	// length derives from the BigEndian Uint16 of the header
	lenOK := false
	walkBody(rd, func(n ast.Node) bool {
		if c, ok := n.(*ast.CallExpr); ok && p.CalleeName(c) == "encoding/binary.bigEndian.Uint16" {
			lenOK = true
		}
		return true
	})
	r.Check(lenOK, "readStreamingPacket: header decoding", p.Pos(rd.Body.Pos()), "binary.BigEndian.Uint16(header)", "the length is not decoded as a big-endian 16-bit header")
	// loops
	nLoops := 0
	walkBody(rd, func(n ast.Node) bool {
		fs, ok := n.(*ast.ForStmt)
		if !ok {
			return true
		}
		nLoops++
		problems := p.checkReadLoop(rd, fs, connObj)
		r.Check(len(problems) == 0, fmt.Sprintf("readStreamingPacket: read loop #%d", nLoops), p.Pos(fs.Pos()), "for read < want { n = Read(x[read:want]); read += n }", strings.Join(problems, "; "))
		return true
	})
	if nLoops != 2 {
		r.Fail("readStreamingPacket: read loops", p.Pos(rd.Body.Pos()), fmt.Sprintf("expected a header loop and a body loop, found %d loops: short reads are not tolerated", nLoops))
	}
	// every error from Read is returned
	for _, c := range p.CallsTo(rd, false, "net.Conn.Read") {
		loc, _ := p.CFG(rd).Locate(c)
		_ = loc
	}
}
