package main

// runThorough: extra work of the thorough tier (checker self-validation by
// source overlays). Filled in by selfcheck.go.
func runThorough(id string, p *Prog, r *Report, repo string) {
	selfValidate(id, p, r, repo)
}
