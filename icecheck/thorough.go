package main

import (
	"fmt"
	"sort"
)

// extraConfigs: build configurations analysed in addition to the default one in
// the thorough tier, so that every build-tagged source file of pion/ice is
// covered by some run (internal/netutil/errno_windows.go is the only file the
// default configuration does not see; 386 exercises 32-bit int/uint sizes in
// the arithmetic rules).
var extraConfigs = []struct {
	Name string
	Env  []string
}{
	{"windows/amd64", []string{"GOOS=windows", "GOARCH=amd64", "CGO_ENABLED=0"}},
	{"linux/386", []string{"GOOS=linux", "GOARCH=386", "CGO_ENABLED=0"}},
}

func runThorough(id string, p *Prog, r *Report, repo string) {
	// (a) the same rules on the other build configurations
	r.curRule = "CFG"
	r.RuleTexts["CFG"] = "The property's rules hold on every build configuration that selects different source files or type sizes (windows/amd64, linux/386), not only on the default one."
	r.ruleOrder = append(r.ruleOrder, "CFG")
	var cfgs []string
	for _, c := range extraConfigs {
		env := append([]string{"GOFLAGS=-mod=mod", "GOPROXY=off", "GOWORK=off"}, c.Env...)
		q, err := Load(repo, env, nil)
		if err != nil {
			r.Unknown("configuration "+c.Name, "", "cannot load/type-check: "+err.Error())
			continue
		}
		q.Config = c.Name
		sub := NewReport(id, "thorough", 0, q)
		func() {
			defer func() {
				if x := recover(); x != nil {
					sub.Fatal = append(sub.Fatal, fmt.Sprintf("internal panic: %v", x))
				}
			}()
			registry[id].Run(q, sub)
		}()
		bad := 0
		for _, o := range sub.Obls {
			if o.Status == Discharged {
				continue
			}
			if o.Status == Violated && knownListed(id, o.Rule, o.Construct) {
				continue // reported once, by the default configuration
			}
			bad++
			r.add(o.Status, "["+c.Name+"] "+o.Rule+" "+o.Construct, o.Pos, o.Detail, false)
		}
		for _, f := range sub.Fatal {
			bad++
			r.Unknown("configuration "+c.Name, "", f)
		}
		if bad == 0 {
			r.OK("configuration "+c.Name, "", fmt.Sprintf("%d obligations, all discharged (or listed known findings); %d functions", len(sub.Obls), len(q.AllFuncs)))
		}
		cfgs = append(cfgs, c.Name)
	}
	sort.Strings(cfgs)
	r.Extra["extra_build_configs"] = cfgs
	// (b) the checker validates itself against the overlay catalogue
	selfValidate(id, p, r, repo)
	// (c) and against the stored seeded changes
	replaySeeds(id, r, repo, verifDirGlobal)
	// and stays silent on the stored behaviour-preserving changes
	replayBenign(id, r, repo, verifDirGlobal)
	// (d) whole-program behaviour-preserving transformations leave every verdict unchanged
	runProbes(id, p, r, r, repo)
}

var knownGlobal *KnownFile

func knownListed(prop, rule, construct string) bool {
	if knownGlobal == nil {
		return false
	}
	for _, k := range knownGlobal.Findings {
		if k.Property == prop && k.Rule == rule && k.Construct == construct {
			return true
		}
	}
	return false
}
