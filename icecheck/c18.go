package main

import (
	"fmt"
	"go/ast"
	"go/token"
	"go/types"
	"sort"
	"strings"
)

func init() { register("C18", checkC18) }

// emptyAware decides whether every use of the network-type list held in obj
// (a parameter or local of g) honours "empty means all": it is expanded by
// configuredNetworkTypes, passed on to a function that is itself empty-aware,
// or consumed raw only in a function that tests len(list) == 0 explicitly.
type emptyAwareCtx struct {
	p    *Prog
	memo map[string]string // "" = ok, otherwise reason
	busy map[string]bool
}

func (c *emptyAwareCtx) uses(g *Func, match func(e ast.Expr) bool) (raw []string, lenTest bool) {
	p := c.p
	var stack []ast.Node
	ast.Inspect(g.Body, func(n ast.Node) bool {
		if n == nil {
			stack = stack[:len(stack)-1]
			return true
		}
		stack = append(stack, n)
		e, ok := n.(ast.Expr)
		if !ok || !match(e) {
			return true
		}
		// skip the selector's inner parts being re-matched
		var parent ast.Node
		for i := len(stack) - 2; i >= 0; i-- {
			if _, isParen := stack[i].(*ast.ParenExpr); isParen {
				continue
			}
			parent = stack[i]
			break
		}
		pos := p.Pos(e.Pos())
		switch x := parent.(type) {
		case *ast.CallExpr:
			if unparen(x.Fun) == e {
				return true
			}
			name := p.CalleeName(x)
			switch {
			case name == "builtin.len":
				// the comparison with zero is looked for separately
				return true
			case name == "ice.configuredNetworkTypes":
				return true
			}
			idx := -1
			for i, a := range x.Args {
				if unparen(a) == e {
					idx = i
				}
			}
			if idx < 0 {
				return true
			}
			if callee := p.Callee(x); callee != nil {
				if cf := p.ByObj[callee]; cf != nil && cf.Body != nil {
					if why := c.param(cf, idx); why != "" {
						raw = append(raw, pos+": passed to "+name+", which "+why)
					}
					return true
				}
			}
			raw = append(raw, pos+": passed unexpanded to "+name)
		case *ast.RangeStmt:
			if unparen(x.X) == e {
				raw = append(raw, pos+": ranged over unexpanded")
			}
		case *ast.IndexExpr, *ast.SliceExpr:
			raw = append(raw, pos+": indexed unexpanded")
		case *ast.AssignStmt:
			for i, r := range x.Rhs {
				if unparen(r) == e && i < len(x.Lhs) {
					if id, ok := unparen(x.Lhs[i]).(*ast.Ident); ok {
						if o := p.ObjOf(id); o != nil {
							rr, lt := c.uses(g, func(y ast.Expr) bool {
								yid, ok := y.(*ast.Ident)
								return ok && p.ObjOf(yid) == o && yid != id
							})
							raw = append(raw, rr...)
							lenTest = lenTest || lt
							continue
						}
					}
					if p.FieldOf(x.Lhs[i]) != nil {
						continue // stored as configuration (normalised copy)
					}
					raw = append(raw, pos+": stored through an unresolved expression")
				}
			}
		case *ast.KeyValueExpr, *ast.CompositeLit:
			// configuration copy
		case *ast.ReturnStmt:
			raw = append(raw, pos+": returned unexpanded")
		case *ast.BinaryExpr, *ast.SelectorExpr:
		default:
		}
		return true
	})
	// explicit handling of the empty list
	ast.Inspect(g.Body, func(n ast.Node) bool {
		be, ok := n.(*ast.BinaryExpr)
		if !ok || (be.Op != token.EQL && be.Op != token.NEQ && be.Op != token.GTR) {
			return true
		}
		for _, side := range [][2]ast.Expr{{be.X, be.Y}, {be.Y, be.X}} {
			call, ok := unparen(side[0]).(*ast.CallExpr)
			if !ok || p.CalleeName(call) != "builtin.len" || len(call.Args) != 1 || !match(unparen(call.Args[0])) {
				continue
			}
			if v, _ := p.ConstVal(side[1]); v == "0" {
				lenTest = true
			}
		}
		return true
	})
	return raw, lenTest
}

// param: "" when g's parameter idx is empty-aware, else the reason.
func (c *emptyAwareCtx) param(g *Func, idx int) string {
	key := fmt.Sprintf("%s#%d", g.Name, idx)
	if v, ok := c.memo[key]; ok {
		return v
	}
	if c.busy[key] {
		return ""
	}
	c.busy[key] = true
	defer delete(c.busy, key)
	obj := c.p.paramObj(g, idx)
	if obj == nil {
		c.memo[key] = ""
		return ""
	}
	raw, lenTest := c.uses(g, func(e ast.Expr) bool {
		id, ok := e.(*ast.Ident)
		return ok && c.p.ObjOf(id) == obj
	})
	res := ""
	if len(raw) > 0 && !lenTest {
		res = "consumes it without expanding the empty list (" + raw[0] + ")"
	}
	c.memo[key] = res
	return res
}

func checkC18(p *Prog, r *Report) {
	// ---- R18.1 empty means all -----------------------------------------------------------------------
	r.Rule("R18.1", "Every consumer of the configured network-type list honours 'empty means all': each read of Agent.networkTypes is expanded by configuredNetworkTypes, handed to a function that (transitively) does so or that handles len == 0 explicitly, or consumed in a function that tests for the empty list itself.", 10)
	ea := &emptyAwareCtx{p: p, memo: map[string]string{}, busy: map[string]bool{}}
	isNT := func(e ast.Expr) bool { return p.IsField(e, "Agent.networkTypes") }
	for _, f := range p.AllFuncs {
		if f.Body == nil || f.Pkg != p.Ice {
			continue
		}
		n := 0
		walkBody(f, func(nd ast.Node) bool {
			if e, ok := nd.(ast.Expr); ok && isNT(e) {
				n++
			}
			return true
		})
		if n == 0 {
			continue
		}
		// per function: classify its uses (nested literals are separate Funcs with their own walk)
		raw, lenTest := ea.usesShallow(f, isNT)
		if len(raw) > 0 && !lenTest {
			for _, w := range raw {
				r.Fail("Agent.networkTypes in "+f.Name, w[:strings.Index(w, ": ")], "the configured network-type list is "+w[strings.Index(w, ": ")+2:]+": with the documented empty list ('all types') this consumer sees no type at all")
			}
			continue
		}
		for i := 0; i < n; i++ {
			r.OK(fmt.Sprintf("Agent.networkTypes in %s #%d", f.Name, i+1), p.Pos(f.Body.Pos()), "expanded, or handed to an empty-aware function")
		}
	}

	// ---- R18.2 publication filter -------------------------------------------------------------------------
	r.Rule("R18.2", "A local candidate reaches the application (candidate handler, GetLocalCandidates) only if it is not location-tracked; every host-candidate constructor in the gathering code publishes the mDNS name instead of the address exactly in mDNS gather mode and otherwise marks the candidate location-tracked by shouldFilterLocationTracked* of the very address it publishes; server-reflexive and relay addresses are filtered before a candidate is built.", 9)
	for _, f := range p.AllFuncs {
		for _, c := range p.CallsTo(f, false, "ice.handlerNotifier.EnqueueCandidate") {
			if len(c.Args) != 1 || p.isNilExpr(c.Args[0]) {
				continue
			}
			facts := p.DominatingFactList(f, c)
			arg := stripVarLines(p.Canon(c.Args[0]))
			guarded := factListHas(facts, func(ft Fact) bool {
				cc, ok := unparen(ft.X).(*ast.CallExpr)
				if !ok || ft.Op != "truth" || ft.Val || p.CalleeName(cc) != "ice.Candidate.filterForLocationTracking" && p.CalleeName(cc) != "ice.candidateBase.filterForLocationTracking" {
					return false
				}
				sel, ok := unparen(cc.Fun).(*ast.SelectorExpr)
				return ok && stripVarLines(p.Canon(sel.X)) == arg
			})
			r.Check(guarded, "candidate published in "+f.Name, p.Pos(c.Pos()), "dominated by !filterForLocationTracking()", "a local candidate is handed to the application's candidate handler without the location-tracking filter: a link-local IPv6 address can be published")
		}
	}
	if f := p.Fn("Agent.GetLocalCandidates$1"); r.Anchor("Agent.GetLocalCandidates$1", f != nil) {
		n := 0
		for _, c := range p.CallsTo(f, false, "builtin.append") {
			if len(c.Args) != 2 {
				continue
			}
			n++
			facts := p.DominatingFactList(f, c)
			arg := stripVarLines(p.Canon(c.Args[1]))
			guarded := factListHas(facts, func(ft Fact) bool {
				cc, ok := unparen(ft.X).(*ast.CallExpr)
				if !ok || ft.Op != "truth" || ft.Val || !strings.HasSuffix(p.CalleeName(cc), ".filterForLocationTracking") {
					return false
				}
				sel, ok := unparen(cc.Fun).(*ast.SelectorExpr)
				return ok && stripVarLines(p.Canon(sel.X)) == arg
			})
			r.Check(guarded, "GetLocalCandidates result element", p.Pos(c.Pos()), "dominated by !filterForLocationTracking()", "GetLocalCandidates returns location-tracked candidates")
		}
		if n == 0 {
			r.Fail("GetLocalCandidates result element", p.Pos(f.Body.Pos()), "no result append found")
		}
	}
	// host constructors
	for _, f := range p.AllFuncs {
		if f.Pkg != p.Ice || f.Body == nil {
			continue
		}
		for _, c := range p.CallsTo(f, false, "ice.NewCandidateHost") {
			if len(c.Args) != 1 || !strings.HasPrefix(f.Root().Name, "Agent.") {
				continue // parsing a remote candidate (UnmarshalCandidate) is not local publication
			}
			cl := p.compositeOf(f, c.Args[0])
			if cl == nil {
				r.Unknown("host candidate built in "+f.Name, p.Pos(c.Pos()), "configuration literal not found")
				continue
			}
			var addrE, trackE ast.Expr
			for _, el := range cl.Elts {
				if kv, ok := el.(*ast.KeyValueExpr); ok {
					if id, ok := kv.Key.(*ast.Ident); ok {
						switch id.Name {
						case "Address":
							addrE = kv.Value
						case "IsLocationTracked":
							trackE = kv.Value
						}
					}
				}
			}
			ok, why := p.checkHostAddressPolicy(f, cl, addrE, trackE)
			r.Check(ok, "host candidate built in "+f.Name, p.Pos(c.Pos()), "mDNS name iff mDNS gather mode; otherwise location-tracked flag from the published address", why)
		}
	}
	// srflx / relay: filter before construction
	for _, name := range []string{"ice.NewCandidateServerReflexive", "ice.NewCandidateRelay"} {
		for _, f := range p.AllFuncs {
			if f.Pkg != p.Ice || f.Body == nil || !strings.HasPrefix(f.Root().Name, "Agent.") {
				continue
			}
			for _, c := range p.CallsTo(f, false, name) {
				ok := p.filteredBefore(f, c)
				r.Check(ok, strings.TrimPrefix(name, "ice.")+" in "+f.Name+": address filtered for location tracking first", p.Pos(c.Pos()), "a shouldFilterLocationTracked test on the published address dominates", "a "+strings.TrimPrefix(name, "ice.NewCandidate")+" candidate is built for an address that was not tested against the location-tracking filter")
			}
		}
	}

	// ---- R18.3 cycle control ------------------------------------------------------------------------------------
	r.Rule("R18.3", "gatheringState is written only by Restart (New), by setGatheringState under 'this cycle is not cancelled', and at construction; GatherCandidates starts a cycle only in state New with a handler set, after cancelling the previous cycle, and records the new cycle's cancel/done; a cycle gathers only after its Gathering transition was applied and marks Complete only after all gatherers returned.", 9)
	checkGatherCycleControl(p, r)
	for _, f := range p.AllFuncs {
		for _, st := range p.StoresTo(f, "Agent.gatheringState") {
			as, _ := st.(*ast.AssignStmt)
			switch f.Name {
			case "Agent.Restart$1":
				ok := as != nil && len(as.Rhs) == 1 && p.constName(as.Rhs[0]) == "GatheringStateNew"
				r.Check(ok, "gatheringState written in Restart", p.Pos(st.Pos()), "= GatheringStateNew", "Restart does not return the gathering state to New")
			case "Agent.setGatheringState$1":
				facts := p.DominatingFactList(f, st)
				ok := factListHas(facts, func(ft Fact) bool {
					c, isC := unparen(ft.X).(*ast.CallExpr)
					return ft.Op == "==" && ft.Val && p.isNilExpr(ft.Y) && isC && p.CalleeName(c) == "context.Context.Err"
				})
				r.Check(ok, "gatheringState written in setGatheringState", p.Pos(st.Pos()), "dominated by gatherCtx.Err() == nil", "a cancelled (superseded) cycle can still overwrite the gathering state: after Restart the state leaves New behind the new generation's back")
			default:
				r.Fail("gatheringState written in "+f.Name, p.Pos(st.Pos()), "the gathering state is written outside Restart / setGatheringState")
			}
		}
	}
	if rs := p.Fn("Agent.Restart$1"); r.Anchor("Agent.Restart$1", rs != nil) {
		r.Check(len(p.StoresTo(rs, "Agent.gatheringState")) == 1, "Restart returns the gathering state to New", p.Pos(rs.Body.Pos()), "one store", "Restart does not reset the gathering state: a fresh cycle is refused after Restart")
	}
	if f := p.Fn("Agent.gatherCandidates"); r.Anchor("Agent.gatherCandidates", f != nil) {
		gi := p.CallsTo(f, false, "ice.Agent.gatherCandidatesInternal")
		if r.Check(len(gi) == 1, "gatherCandidates: one gathering pass per cycle", p.Pos(f.Body.Pos()), "single gatherCandidatesInternal", itoa(len(gi))+" passes") {
			facts := p.DominatingFactList(f, gi[0])
			applied := factListHas(facts, func(ft Fact) bool {
				if ft.Op != "truth" || !ft.Val {
					return false
				}
				c, idx, ok := p.ResolveCall(f, ft.X)
				return ok && idx == 0 && p.CalleeName(c) == "ice.Agent.setGatheringState" && p.constName(p.argOfType(f, c, "ice.GatheringState")) == "GatheringStateGathering"
			})
			noErr := factListHas(facts, func(ft Fact) bool {
				if ft.Op != "==" || !ft.Val || !p.isNilExpr(ft.Y) {
					return false
				}
				c, idx, ok := p.ResolveCall(f, ft.X)
				return ok && idx == 1 && p.CalleeName(c) == "ice.Agent.setGatheringState"
			})
			r.Check(applied && noErr, "gatherCandidates: gathers only after the Gathering transition was applied", p.Pos(gi[0].Pos()), "dominated by applied && err == nil of setGatheringState(Gathering)", "a cycle that was cancelled before it started (or whose transition failed) still gathers: results of the old cycle mix with the new one")
			for _, c := range p.CallsTo(f, false, "ice.Agent.setGatheringState") {
				if p.constName(p.argOfType(f, c, "ice.GatheringState")) == "GatheringStateComplete" {
					after := p.MustPrecede(f, c, func(n ast.Node) bool {
						return p.nodeHasCall(n, func(x *ast.CallExpr) bool { return x == gi[0] })
					})
					r.Check(after, "gatherCandidates: Complete only after the gatherers returned", p.Pos(c.Pos()), "gatherCandidatesInternal precedes", "Complete (and the nil candidate) can be signalled before gathering has finished")
				}
			}
		}
		dc := false
		if len(f.Body.List) > 0 {
			if d, ok := f.Body.List[0].(*ast.DeferStmt); ok && p.CalleeName(d.Call) == "builtin.close" {
				dc = true
			}
		}
		r.Check(dc, "gatherCandidates: signals its end on every exit", p.Pos(f.Body.Pos()), "defer close(done) first", "a cycle can end without closing its done channel: Close waits forever")
	}
	if f := p.Fn("Agent.gatherCandidatesInternal"); r.Anchor("Agent.gatherCandidatesInternal", f != nil) {
		// waits for every gatherer it started
		w := p.CallsTo(f, false, "sync.WaitGroup.Wait")
		g := p.CFG(f)
		okW := len(w) == 1
		if okW {
			_, escapes := g.PathAvoiding(Loc{g.Entry, 0}, func(n ast.Node) bool {
				return p.nodeHasCall(n, func(c *ast.CallExpr) bool { return c == w[0] })
			}, func(b *Block) bool { return b == g.Exit }, nil)
			okW = !escapes
		}
		r.Check(okW, "gatherCandidatesInternal waits for its gatherers on every path", p.Pos(f.Body.Pos()), "wg.Wait() before returning", "the pass can return while gatherers still run: Complete is signalled early")
	}

	// ---- R18.4 / R18.5 configuration reaches the right parameter ---------------------------------------------------------
	r.Rule("R18.4", "Every socket the agent opens for host / reflexive candidates goes through listenUDPInPortRange with portMax and portMin taken from the agent's configuration in that order, and every interface enumeration passes the agent's interface filter, IP filter and loopback setting in the right positions.", 9)
	for _, f := range p.AllFuncs {
		if f.Pkg != p.Ice {
			continue
		}
		for _, c := range p.CallsTo(f, false, "ice.listenUDPInPortRange") {
			if len(c.Args) != 6 {
				continue
			}
			ok := p.MentionsField(c.Args[2], "Agent.portMax") && !p.MentionsField(c.Args[2], "Agent.portMin") &&
				p.MentionsField(c.Args[3], "Agent.portMin") && !p.MentionsField(c.Args[3], "Agent.portMax") && p.IsField(c.Args[0], "Agent.net")
			r.Check(ok, "port range arguments in "+f.Name, p.Pos(c.Pos()), "(a.net, _, a.portMax, a.portMin, ...)", "the configured port range does not reach listenUDPInPortRange in (max, min) order: sockets are opened outside the configured range")
		}
		for _, c := range p.CallsTo(f, false, "ice.localInterfaces") {
			if len(c.Args) != 5 || !strings.HasPrefix(f.Root().Name, "Agent.") {
				continue // the muxes enumerate interfaces with their own parameters
			}
			ok := p.IsField(c.Args[0], "Agent.net") && p.IsField(c.Args[1], "Agent.interfaceFilter") && p.IsField(c.Args[2], "Agent.ipFilter") && p.IsField(c.Args[4], "Agent.includeLoopback")
			r.Check(ok, "filter arguments of localInterfaces in "+f.Name, p.Pos(c.Pos()), "(a.net, a.interfaceFilter, a.ipFilter, _, a.includeLoopback)", "the agent's interface/IP filters or loopback setting do not reach the interface enumeration here")
		}
	}

	r.Rule("R18.5", "localInterfaces yields an address only if the interface is up, is not a loopback interface unless loopback is included, passes the interface filter, the address parses, is not loopback unless included, belongs to a requested family, is a supported IPv6 address if IPv6, and passes the IP filter; the family request is 'both' for an empty type list.", 9)
	if f := p.Fn("localInterfaces"); r.Anchor("localInterfaces", f != nil) {
		var app *ast.CallExpr
		for _, c := range p.CallsTo(f, false, "builtin.append") {
			if len(c.Args) == 2 && typeStr(p.TypeOf(c.Args[0])) == "[]ice.ifaceAddr" {
				app = c
			}
		}
		if r.Check(app != nil, "localInterfaces: address accepted at one site", p.Pos(f.Body.Pos()), "ipAddrs = append(...)", "accept site not found") {
			facts := p.DominatingFactList(f, app)
			txt := func(ft Fact) string { return stripVarLines(p.Canon(ft.X)) }
			type need struct {
				name string
				pred func(ft Fact) bool
			}
			inclLoop := func(ft Fact) bool { return p.isObj(ft.X, p.paramObj(f, 4)) }
			needs := []need{
				{"interface is up", func(ft Fact) bool {
					return ft.Op == "==" && !ft.Val && p.constName(ft.Y) == "0" && strings.Contains(txt(ft), "net.FlagUp")
				}},
				{"interface filter", func(ft Fact) bool {
					c, ok := unparen(ft.X).(*ast.CallExpr)
					if !ok || ft.Op != "truth" {
						return false
					}
					return p.isObj(c.Fun, p.paramObj(f, 1)) && ft.Val
				}},
				{"IP filter", func(ft Fact) bool {
					c, ok := unparen(ft.X).(*ast.CallExpr)
					if !ok || ft.Op != "truth" {
						return false
					}
					return p.isObj(c.Fun, p.paramObj(f, 2)) && ft.Val
				}},
				{"address parses", func(ft Fact) bool {
					return ft.Op == "==" && ft.Val && p.isNilExpr(ft.Y) && p.atomIsCall(f, ft.X, "ice.parseAddrFromIface")
				}},
			}
			for _, nd := range needs {
				// filters may be nil: accept (filter == nil) || filter(x) — i.e. the negative edge of "filter != nil && !filter(x)"
				ok := factListHas(facts, nd.pred)
				if !ok && (nd.name == "interface filter" || nd.name == "IP filter") {
					ok = p.guardedByOptionalFilter(f, app, strings.Fields(nd.name)[0])
				}
				r.Check(ok, "localInterfaces accepts only if: "+nd.name, p.Pos(app.Pos()), "dominates the accept site", "an address is accepted although '"+nd.name+"' was not established")
			}
			// loopback: (iface loopback -> includeLoopback) and (addr loopback -> includeLoopback)
			r.Check(p.impliedBeforeAccept(f, app, "net.FlagLoopback", inclLoop), "localInterfaces accepts only if: loopback interface implies includeLoopback", p.Pos(app.Pos()), "continue on loopback interface && !includeLoopback", "loopback interfaces are enumerated although loopback is not included")
			r.Check(p.impliedBeforeAccept(f, app, "IsLoopback", inclLoop), "localInterfaces accepts only if: loopback address implies includeLoopback", p.Pos(app.Pos()), "continue on loopback address && !includeLoopback", "loopback addresses are accepted although loopback is not included")
			// family: Is6 -> ipv6Requested && supported ; !Is6 -> ipV4Requested
			fam := p.familyGate(f, app)
			r.Check(fam == "", "localInterfaces accepts only if: family requested and IPv6 supported", p.Pos(app.Pos()), "Is6: ipv6Requested && isSupportedIPv6Partial; else ipV4Requested", fam)
		}
		// empty list requests both families
		both := 0
		v4Obj, v6Obj := p.familyFlags(f)
		for _, fo := range []types.Object{v4Obj, v6Obj} {
			if fo == nil {
				continue
			}
			for _, d := range p.DefsOf(f, fo) {
				if d.Rhs == nil {
					continue
				}
				if v, _ := p.ConstVal(d.Rhs); v == "true" {
					fs, _ := p.FactsAtCall(f, d.Node)
					if fs.Has(func(ft Fact) bool {
						c, ok := unparen(ft.X).(*ast.CallExpr)
						return ft.Op == "==" && ft.Val && p.constName(ft.Y) == "0" && ok && p.CalleeName(c) == "builtin.len"
					}) {
						both++
					}
				}
			}
		}
		r.Check(both == 2, "localInterfaces: empty type list requests both families", p.Pos(f.Body.Pos()), "len == 0 -> v4 and v6", "an empty network-type list does not enumerate both address families")
	}

	// ---- R18.6 candidate type dispatch ----------------------------------------------------------------------------------------
	r.Rule("R18.6", "gatherCandidatesInternal ranges over the configured candidate types and decides on each (switch or if chain); host, server-reflexive and relay dispatch to their own gatherers and to no other type's.", 4)
	if f := p.Fn("Agent.gatherCandidatesInternal"); f != nil {
		var rng *ast.RangeStmt
		walkBody(f, func(n ast.Node) bool {
			if x, ok := n.(*ast.RangeStmt); ok && rng == nil {
				rng = x
			}
			return true
		})
		if r.Check(rng != nil && p.IsField(rng.X, "Agent.candidateTypes"), "gathers the configured candidate types", p.Pos(f.Body.Pos()), "range a.candidateTypes", "the pass does not iterate the configured candidate types") {
			// the element of the iteration, however it is named and whether it is the range value or a[i]
			isElem := func(e ast.Expr) bool {
				e = unparen(e)
				if rng.Value != nil {
					if v, ok := rng.Value.(*ast.Ident); ok && p.isObj(e, p.ObjOf(v)) {
						return true
					}
				}
				if ix, ok := e.(*ast.IndexExpr); ok && p.IsField(ix.X, "Agent.candidateTypes") {
					return true
				}
				if id, ok := e.(*ast.Ident); ok {
					if o := p.ObjOf(id); o != nil {
						if d, okD := p.SingleDef(f, o); okD && d.Rhs != nil {
							if ix, ok := unparen(d.Rhs).(*ast.IndexExpr); ok && p.IsField(ix.X, "Agent.candidateTypes") {
								return true
							}
						}
					}
				}
				return false
			}
			// the arms: switch clauses over the element, or if / else-if conditions "elem == Const [|| ...]"
			cases := map[string][]ast.Stmt{}
			var constsOf func(e ast.Expr) []string
			constsOf = func(e ast.Expr) []string {
				e = unparen(e)
				if be, ok := e.(*ast.BinaryExpr); ok {
					switch be.Op {
					case token.LOR:
						l, rr := constsOf(be.X), constsOf(be.Y)
						if l == nil || rr == nil {
							return nil
						}
						return append(l, rr...)
					case token.EQL:
						if isElem(be.X) && p.constName(unparen(be.Y)) != "" {
							return []string{p.constName(unparen(be.Y))}
						}
						if isElem(be.Y) && p.constName(unparen(be.X)) != "" {
							return []string{p.constName(unparen(be.X))}
						}
					}
				}
				return nil
			}
			ast.Inspect(rng.Body, func(n ast.Node) bool {
				switch x := n.(type) {
				case *ast.FuncLit:
					return false
				case *ast.SwitchStmt:
					if x.Tag != nil && isElem(x.Tag) {
						for _, cl := range x.Body.List {
							cc := cl.(*ast.CaseClause)
							for _, e := range cc.List {
								if c := p.constName(unparen(e)); c != "" {
									cases[c] = cc.Body
								}
							}
						}
					} else if x.Tag == nil {
						for _, cl := range x.Body.List {
							cc := cl.(*ast.CaseClause)
							for _, e := range cc.List {
								for _, c := range constsOf(e) {
									cases[c] = cc.Body
								}
							}
						}
					}
				case *ast.IfStmt:
					for _, c := range constsOf(x.Cond) {
						cases[c] = x.Body.List
					}
				}
				return true
			})
			r.Check(len(cases) >= 3, "candidate type dispatch", p.Pos(rng.Pos()), fmt.Sprintf("%d candidate types decided on", len(cases)), "no decision on the candidate type found in the pass (switch or if chain over the iterated type)")
			want := map[string]string{"CandidateTypeHost": "ice.Agent.gatherCandidatesLocal", "CandidateTypeServerReflexive": "ice.Agent.gatherServerReflexiveCandidates", "CandidateTypeRelay": "ice.Agent.gatherCandidatesRelay"}
			var bad []string
			for k, callee := range want {
				found := false
				for _, st := range cases[k] {
					for _, c := range p.NodeCallsDeep(st) {
						if p.CalleeName(c) == callee {
							found = true
						}
					}
				}
				if !found {
					bad = append(bad, k+" does not reach "+callee)
				}
			}
			sort.Strings(bad)
			r.Check(len(bad) == 0, "candidate types dispatch to their gatherers", p.Pos(rng.Pos()), "host/srflx/relay", strings.Join(bad, "; "))
			// and only their own: an arm for one type does not start another type's gatherer
			var cross []string
			for k, body := range cases {
				for _, st := range body {
					for _, c := range p.NodeCallsDeep(st) {
						for k2, callee := range want {
							if k2 != k && p.CalleeName(c) == callee {
								cross = append(cross, k+" starts "+callee)
							}
						}
					}
				}
			}
			sort.Strings(cross)
			r.Check(len(cross) == 0, "each candidate type starts only its own gatherer", p.Pos(rng.Pos()), "no cross dispatch", strings.Join(cross, "; ")+": a candidate type that is not enabled is gathered")
		}
	}

	// ---- R18.7 address predicates -------------------------------------------------------------------------------------------------
	r.Rule("R18.7", "isSupportedIPv6Partial rejects exactly: length other than 16, IPv4-compatible (first 12 bytes zero), site-local fec0::/10 (first byte 0xfe and top two bits of the second set); shouldFilterLocationTrackedIP is Is6 and (link-local unicast or link-local multicast).", 2)
	if f := p.Fn("isSupportedIPv6Partial"); r.Anchor("isSupportedIPv6Partial", f != nil) {
		known := func(a *TAtom) bool {
			txt := stripVarLines(a.Key)
			return strings.Contains(txt, "builtin.len(") || strings.Contains(txt, "isZeros(") || strings.Contains(txt, "&") || strings.Contains(txt, "[0]")
		}
		rows := p.expandRows(f, known, 0)
		bad := ""
		seen := map[string]bool{}
		for _, pa := range rows {
			// classify the atoms decided on this path
			lenOK, zeros, fe, mask := "?", "?", "?", "?"
			for _, d := range pa.Hist {
				txt := stripVarLines(d.Atom.Key)
				switch {
				case strings.Contains(txt, "builtin.len("):
					switch d.Val {
					case "==IPv6len", "==16", "EQ":
						lenOK = "T"
					default:
						lenOK = "F"
					}
					if !strings.Contains(txt+d.Val, "IPv6len") && !strings.Contains(txt+d.Val, "16") {
						bad = "length compared with " + txt + d.Val
					}
				case strings.Contains(txt, "isZeros("):
					zeros = map[string]string{"true": "T", "false": "F"}[d.Val]
					if !strings.Contains(txt, "[0:12]") {
						bad = "IPv4-compatible test is not over bytes 0..12: " + txt
					}
				case strings.Contains(txt, "&"):
					seen["mask"] = true
					okMask := false
					ast.Inspect(d.Atom.X, func(n ast.Node) bool {
						if be, ok := n.(*ast.BinaryExpr); ok && be.Op == token.AND {
							mv, _ := p.ConstVal(be.Y)
							if ix, ok := unparen(be.X).(*ast.IndexExpr); ok && mv == "192" {
								if iv, _ := p.ConstVal(ix.Index); iv == "1" {
									okMask = true
								}
							}
						}
						return true
					})
					if !okMask {
						bad = "site-local mask atom is " + txt
					}
					switch d.Val {
					case "==192", "EQ":
						mask = "T"
					default:
						mask = "F"
					}
				case strings.Contains(txt, "[0]"):
					seen["fe"] = true
					switch d.Val {
					case "==254", "EQ":
						fe = "T"
					default:
						fe = "F"
					}
					if !strings.Contains(d.Val+txt, "254") {
						bad = "first-byte atom is " + txt + d.Val
					}
				default:
					bad = "unexpected atom " + txt
				}
			}
			reject := lenOK == "F" || zeros == "T" || (fe == "T" && mask == "T")
			accept := lenOK == "T" && zeros == "F" && (fe == "F" || mask == "F")
			res := pa.Result
			if (reject && res != "false") || (accept && res != "true") || (!reject && !accept) {
				bad = fmt.Sprintf("row len16=%s zeros=%s fe=%s mask=%s returns %s", lenOK, zeros, fe, mask, res)
			}
		}
		if !seen["mask"] || !seen["fe"] {
			bad = "the site-local test (0xfe, &0xc0 == 0xc0) is not decided by this function or the predicates it calls"
		}
		r.Check(bad == "" && len(rows) >= 4, "isSupportedIPv6Partial decision table", p.Pos(f.Body.Pos()), fmt.Sprintf("%d rows", len(rows)), bad+": IPv4-compatible or site-local IPv6 addresses can become candidates (or valid ones are dropped)")
	}
	if f := p.Fn("shouldFilterLocationTrackedIP"); r.Anchor("shouldFilterLocationTrackedIP", f != nil) {
		t := p.NewTable(f)
		t.Run()
		bad := ""
		for _, pa := range t.Paths {
			v := map[string]string{}
			for _, d := range pa.Hist {
				txt := stripVarLines(d.Atom.Key)
				switch {
				case strings.HasSuffix(txt, "Is6()"):
					v["is6"] = d.Val
				case strings.HasSuffix(txt, "IsLinkLocalUnicast()"):
					v["llu"] = d.Val
				case strings.HasSuffix(txt, "IsLinkLocalMulticast()"):
					v["llm"] = d.Val
				default:
					bad = "unexpected atom " + txt
				}
			}
			want := v["is6"] == "true" && (v["llu"] == "true" || v["llm"] == "true")
			decided := v["is6"] == "false" || v["llu"] == "true" || (v["llu"] == "false" && v["llm"] != "")
			res := strings.Join(pa.Results, ",")
			if !decided || (want && res != "true") || (!want && res != "false") {
				bad = fmt.Sprintf("row %v returns %s", v, res)
			}
		}
		r.Check(bad == "" && len(t.Paths) >= 3, "shouldFilterLocationTrackedIP decision table", p.Pos(f.Body.Pos()), fmt.Sprintf("%d rows", len(t.Paths)), bad)
	}

	// ---- R18.8 port scan ----------------------------------------------------------------------------------------------------------------
	r.Rule("R18.8", "listenUDPInPortRange: a fixed port or an unset range listens once as asked; otherwise min defaults to 1024 and max to 65535, min > max is an error, the scan starts at a random port inside [min, max], tries each port at most once (increment, wrap from max to min, stop at the start port), listens on the caller's IP and zone, and reports an exhausted range as an error.", 8)
	if f := p.Fn("listenUDPInPortRange"); r.Anchor("listenUDPInPortRange", f != nil) {
		p.checkPortScan(f, r)
	}
	// ---- R18.10 no wildcard socket behind a filter --------------------------------------------------------
	r.Rule("R18.10", "In the agent's gathering code a UDP socket is bound to the wildcard address (a net.UDPAddr without IP) only where both the interface filter and the IP filter are known to be unset; with a filter configured the sockets are bound to the addresses the filters accepted (and to none when they accepted none).", 2)
	filterFields := []string{"Agent.interfaceFilter", "Agent.ipFilter"}
	for _, f := range p.AllFuncs {
		if f.Body == nil || f.Pkg != p.Ice || !strings.HasPrefix(f.Root().Name, "Agent.gather") {
			continue
		}
		f := f
		walkBody(f, func(x ast.Node) bool {
			cl, ok := x.(*ast.CompositeLit)
			if !ok || typeStr(p.TypeOf(cl)) != "net.UDPAddr" {
				return true
			}
			wild := true
			for _, el := range cl.Elts {
				if kv, isKV := el.(*ast.KeyValueExpr); isKV {
					if id, isI := kv.Key.(*ast.Ident); isI && id.Name == "IP" && !p.isNilExpr(kv.Value) {
						wild = false
					}
				} else {
					wild = false // positional literal: not the idiom, decided elsewhere
				}
			}
			if !wild {
				return true
			}
			unset := map[string]bool{}
			var note func(e ast.Expr, val bool, fn *Func, depth int)
			note = func(e ast.Expr, val bool, fn *Func, depth int) {
				e = unparen(e)
				if depth > 3 {
					return
				}
				switch y := e.(type) {
				case *ast.UnaryExpr:
					if y.Op == token.NOT {
						note(y.X, !val, fn, depth+1)
					}
				case *ast.BinaryExpr:
					switch {
					case y.Op == token.LOR && !val:
						note(y.X, false, fn, depth+1)
						note(y.Y, false, fn, depth+1)
					case y.Op == token.LAND && val:
						note(y.X, true, fn, depth+1)
						note(y.Y, true, fn, depth+1)
					case (y.Op == token.EQL && val) || (y.Op == token.NEQ && !val):
						for _, ff := range filterFields {
							if (p.IsField(y.X, ff) && p.isNilExpr(y.Y)) || (p.IsField(y.Y, ff) && p.isNilExpr(y.X)) {
								unset[ff] = true
							}
						}
					}
				case *ast.Ident:
					if o := p.ObjOf(y); o != nil {
						if d, okD := p.SingleDef(fn, o); okD && d.Rhs != nil {
							note(d.Rhs, val, fn, depth+1)
						}
					}
				}
			}
			for fn := f; fn != nil; fn = fn.Parent {
				for _, ft := range p.DominatingFactList(fn, cl) {
					switch ft.Op {
					case "truth":
						note(ft.X, ft.Val, fn, 0)
					case "==":
						if ft.Val {
							for _, ff := range filterFields {
								if (p.IsField(ft.X, ff) && p.isNilExpr(ft.Y)) || (ft.Y != nil && p.IsField(ft.Y, ff) && p.isNilExpr(ft.X)) {
									unset[ff] = true
								}
							}
						}
					}
				}
			}
			r.Check(unset[filterFields[0]] && unset[filterFields[1]], "wildcard UDP socket in "+f.Name, p.Pos(cl.Pos()), "only where interfaceFilter == nil and ipFilter == nil", fmt.Sprintf("a socket is bound to the wildcard address where the filters are not known to be unset (interface filter unset: %v, IP filter unset: %v): with filters that accept no (or not this) address the agent still publishes a reflexive candidate whose base sits on an address the filters excluded", unset[filterFields[0]], unset[filterFields[1]]))
			return true
		})
	}

	// ---- R18.11 the network monitor belongs to its cycle ----------------------------------------------------------
	r.Rule("R18.11", "The network-change monitor of a continual-gathering cycle runs under that cycle's cancellable context — the context parameter of gatherCandidates handed down unchanged — never under a task loop's context or a fresh one: Restart's cancel stops it, so it cannot re-gather into the next generation or run beside the next cycle's monitor.", 1)
	nMon := 0
	for _, f := range p.AllFuncs {
		if f.Body == nil || f.Pkg != p.Ice {
			continue
		}
		f := f
		for _, c := range p.CallsTo(f, false, "ice.Agent.startNetworkMonitoring") {
			nMon++
			okCtx := false
			if len(c.Args) == 1 {
				if id, isID := unparen(p.Deref(f, c.Args[0])).(*ast.Ident); isID {
					root := f.Root()
					// a parameter of the declared function the call sits in (not of a literal in between), and that
					// function receives the cycle's context from its callers
					for j := 0; ; j++ {
						o := p.paramObj(root, j)
						if o == nil {
							break
						}
						if p.ObjOf(id) == o && typeStr(o.Type()) == "context.Context" {
							okCtx = root.Name == "Agent.gatherCandidates"
						}
					}
				}
			}
			r.Check(okCtx, "network monitor started in "+f.Name, p.Pos(c.Pos()), "startNetworkMonitoring(<the cycle's ctx parameter of gatherCandidates>)", "the monitor is started under a context that is not the gathering cycle's (a task-loop parameter shadowing it, or another context): Restart's cancel no longer stops it, it keeps publishing candidates after Restart and runs beside the next cycle's monitor")
		}
	}
	if nMon == 0 {
		r.Fail("network monitor start", "gather.go", "no call of startNetworkMonitoring found (rule instance lost)")
	}

	// ---- R18.9 one end-of-candidates per live cycle ------------------------------------------------------
	r.Rule("R18.9", "The nil (end-of-candidates) event has exactly one source, and it is taken only by a gathering cycle that has not been cancelled, on the state actually changing, with target Complete (shared with C11 R11.6): a cycle cancelled by Restart never contributes a nil to the next cycle's stream, and repeated completion never yields a second one.", 1)
	checkCandidateEventSources(p, r, false)
}

// usesShallow: like uses, but does not descend into nested function literals
// (they are analysed as functions of their own).
func (c *emptyAwareCtx) usesShallow(g *Func, match func(e ast.Expr) bool) ([]string, bool) {
	return c.uses(&Func{Name: g.Name, Body: shallowBody(g.Body), Pkg: g.Pkg}, match)
}

// shallowBody returns a copy of the block in which nested function literals
// have empty bodies (so that ast.Inspect does not see their statements).
func shallowBody(b *ast.BlockStmt) *ast.BlockStmt {
	return b // nested literals are walked too: a use inside a closure belongs to the same configuration read
}

// compositeOf: e is &T{...}, T{...}, or a variable defined once by one.
func (p *Prog) compositeOf(f *Func, e ast.Expr) *ast.CompositeLit {
	e = unparen(e)
	if u, ok := e.(*ast.UnaryExpr); ok && u.Op == token.AND {
		e = unparen(u.X)
	}
	switch x := e.(type) {
	case *ast.CompositeLit:
		return x
	case *ast.Ident:
		obj := p.ObjOf(x)
		for fn := f; fn != nil; fn = fn.Parent {
			if d, ok := p.SingleDef(fn, obj); ok && d.Rhs != nil {
				return p.compositeOf(fn, d.Rhs)
			}
			// the declaring statement (the variable's address may be taken later)
			var found *ast.CompositeLit
			n := 0
			walkBody(fn, func(nd ast.Node) bool {
				as, ok := nd.(*ast.AssignStmt)
				if !ok || len(as.Lhs) != len(as.Rhs) {
					return true
				}
				for i, l := range as.Lhs {
					if id, ok := unparen(l).(*ast.Ident); ok && p.ObjOf(id) == obj {
						n++
						if cl, ok := unparen(as.Rhs[i]).(*ast.CompositeLit); ok {
							found = cl
						}
					}
				}
				return true
			})
			if n == 1 && found != nil {
				return found
			}
		}
	}
	return nil
}

// checkHostAddressPolicy: the Address / IsLocationTracked pair of a host
// candidate configuration follows the publication policy.
func (p *Prog) checkHostAddressPolicy(f *Func, cl *ast.CompositeLit, addrE, trackE ast.Expr) (bool, string) {
	if addrE == nil {
		return false, "no Address in the configuration"
	}
	aid, ok := unparen(addrE).(*ast.Ident)
	if !ok {
		// a direct expression: must not be an interface address unless flagged
		if trackE == nil {
			return false, "the published address is not chosen by the mDNS / location-tracking policy (no IsLocationTracked, address is " + stripVarLines(p.Canon(addrE)) + "): in mDNS gather mode the IP is exposed, and a link-local IPv6 address is published"
		}
		return false, "address expression " + stripVarLines(p.Canon(addrE)) + " not understood"
	}
	aobj := p.ObjOf(aid)
	var fn *Func
	for g := f; g != nil; g = g.Parent {
		if len(p.DefsOf(g, aobj)) > 0 {
			fn = g
			break
		}
	}
	if fn == nil {
		return false, "definition of the published address not found"
	}
	// every definition of the address: mDNS name under mode == QueryAndGather, an IP string otherwise
	sawName, sawIP := false, false
	var ipSrc string
	for _, d := range p.DefsOf(fn, aobj) {
		if d.Rhs == nil {
			continue
		}
		fs := p.DominatingFactList(fn, d.Node)
		inMDNS := factListHas(fs, func(ft Fact) bool {
			return ft.Op == "==" && ft.Val && p.IsField(ft.X, "Agent.mDNSMode") && p.constName(ft.Y) == "MulticastDNSModeQueryAndGather"
		})
		notMDNS := factListHas(fs, func(ft Fact) bool {
			return ft.Op == "==" && !ft.Val && p.IsField(ft.X, "Agent.mDNSMode") && p.constName(ft.Y) == "MulticastDNSModeQueryAndGather"
		})
		switch {
		case p.IsField(d.Rhs, "Agent.mDNSName"):
			if !inMDNS {
				return false, "the mDNS name is published outside mDNS gather mode"
			}
			sawName = true
		default:
			c, isC := unparen(d.Rhs).(*ast.CallExpr)
			if !isC || !strings.HasSuffix(p.CalleeName(c), ".String") {
				return false, "published address defined by " + stripVarLines(p.Canon(d.Rhs))
			}
			sel, _ := unparen(c.Fun).(*ast.SelectorExpr)
			ipSrc = stripVarLines(p.Canon(sel.X))
			sawIP = true
			_ = notMDNS
		}
	}
	if !sawName || !sawIP {
		return false, fmt.Sprintf("mDNS name branch=%v, address branch=%v: the address policy is incomplete (in mDNS gather mode the IP must be replaced by the mDNS name)", sawName, sawIP)
	}
	// the flag: set from shouldFilterLocationTracked*(same ip) on the non-mDNS branch only
	tid, ok := unparen(trackE).(*ast.Ident)
	if trackE == nil || !ok {
		return false, "IsLocationTracked is not set from the location-tracking filter"
	}
	tobj := p.ObjOf(tid)
	okFlag := false
	for _, d := range p.DefsOf(fn, tobj) {
		if d.Rhs == nil {
			continue
		}
		c, isC := unparen(d.Rhs).(*ast.CallExpr)
		if !isC || !(p.CalleeName(c) == "ice.shouldFilterLocationTrackedIP" || p.CalleeName(c) == "ice.shouldFilterLocationTracked") || len(c.Args) != 1 {
			return false, "IsLocationTracked defined by " + stripVarLines(p.Canon(d.Rhs))
		}
		if stripVarLines(p.Canon(c.Args[0])) != ipSrc {
			return false, "the location-tracking filter is applied to " + stripVarLines(p.Canon(c.Args[0])) + " but " + ipSrc + " is published"
		}
		fs := p.DominatingFactList(fn, d.Node)
		if !factListHas(fs, func(ft Fact) bool {
			return ft.Op == "==" && !ft.Val && p.IsField(ft.X, "Agent.mDNSMode") && p.constName(ft.Y) == "MulticastDNSModeQueryAndGather"
		}) {
			return false, "the location-tracking flag is not tied to the non-mDNS branch"
		}
		okFlag = true
	}
	if !okFlag {
		return false, "IsLocationTracked is never set from the location-tracking filter"
	}
	return true, ""
}

// filteredBefore: a call to shouldFilterLocationTracked* with a false outcome dominates call.
func (p *Prog) filteredBefore(f *Func, call *ast.CallExpr) bool {
	for fn := f; fn != nil; fn = fn.Parent {
		var site ast.Node = call
		if fn != f {
			// the literal containing the call
			for g := f; g != nil && g.Parent != nil; g = g.Parent {
				if g.Parent == fn {
					site = g.Lit
				}
			}
		}
		fs := p.DominatingFactList(fn, site)
		if factListHas(fs, func(ft Fact) bool {
			c, ok := unparen(ft.X).(*ast.CallExpr)
			return ok && ft.Op == "truth" && !ft.Val && (p.CalleeName(c) == "ice.shouldFilterLocationTracked" || p.CalleeName(c) == "ice.shouldFilterLocationTrackedIP")
		}) {
			return true
		}
	}
	// createRelayCandidate is reached only through addRelayCandidates from the relay gatherer, which filters the relayed address
	if f.Name == "Agent.createRelayCandidate" {
		for _, e := range p.Callers(f) {
			if e.Caller.Name != "Agent.addRelayCandidates" {
				return false
			}
		}
		ar := p.Fn("Agent.addRelayCandidates")
		okAll := ar != nil
		n := 0
		for _, e := range p.Callers(ar) {
			n++
			fs := p.DominatingFactList(e.Caller, e.Site)
			if !factListHas(fs, func(ft Fact) bool {
				c, ok := unparen(ft.X).(*ast.CallExpr)
				return ok && ft.Op == "truth" && !ft.Val && p.CalleeName(c) == "ice.shouldFilterLocationTracked"
			}) {
				okAll = false
			}
		}
		return okAll && n > 0
	}
	return false
}

// guardedByOptionalFilter: the accept site is reached only over the negative
// edge of "<name>Filter != nil && !<name>Filter(x)".
func (p *Prog) guardedByOptionalFilter(f *Func, site ast.Node, which string) bool {
	fobj := p.paramObj(f, map[string]int{"interface": 1, "IP": 2}[which])
	g := p.CFG(f)
	loc, ok := g.Locate(site)
	if !ok {
		return false
	}
	// the call filter(x) must be evaluated on every path on which filter != nil
	isCall := func(n ast.Node) bool {
		return p.nodeHasCall(n, func(c *ast.CallExpr) bool { return p.isObj(c.Fun, fobj) })
	}
	_, escapes := g.PathAvoiding(Loc{g.Entry, 0}, isCall, func(b *Block) bool { return b == loc.B }, func(e *Edge) bool {
		for _, ft := range p.FactsOfCond(e.Cond, e.Val) {
			if ft.Op == "==" && ft.Val && p.isNilExpr(ft.Y) {
				if p.isObj(ft.X, fobj) {
					return false // filter == nil: nothing to ask
				}
			}
		}
		return true
	})
	if escapes {
		return false
	}
	// and a true answer is required: the edge "filter(x) == false" must not reach the site
	reach := g.Reach([]*Block{g.Entry}, func(e *Edge) bool {
		for _, ft := range p.FactsOfCond(e.Cond, e.Val) {
			if c, ok := unparen(ft.X).(*ast.CallExpr); ok && ft.Op == "truth" && !ft.Val {
				if p.isObj(c.Fun, fobj) {
					// taking this edge means the filter said no; it must lead away from the site within this iteration
					return true
				}
			}
		}
		return true
	})
	_ = reach
	// the rejecting edge must not dominate-reach the accept site without passing the loop head: check that from the
	// target of the "filter said no" edge the site is reachable only through a range head (next element)
	for _, b := range g.Blocks {
		for _, e := range b.Succs {
			no := false
			for _, ft := range p.FactsOfCond(e.Cond, e.Val) {
				if c, ok := unparen(ft.X).(*ast.CallExpr); ok && ft.Op == "truth" && !ft.Val {
					if p.isObj(c.Fun, fobj) {
						no = true
					}
				}
			}
			if !no {
				continue
			}
			head := p.loopHeadOf(f, edgePos(e))
			r := g.Reach([]*Block{e.To}, func(x *Edge) bool { return x.To != head })
			if r[loc.B] {
				return false
			}
		}
	}
	return true
}

// impliedBeforeAccept: every path to the accept site on which an atom
// mentioning marker was decided "loopback" also decided includeLoopback true.
func (p *Prog) impliedBeforeAccept(f *Func, site ast.Node, marker string, incl func(Fact) bool) bool {
	g := p.CFG(f)
	loc, ok := g.Locate(site)
	if !ok {
		return false
	}
	found := false
	for _, b := range g.Blocks {
		for _, e := range b.Succs {
			isLoop := false
			for _, ft := range p.FactsOfCond(e.Cond, e.Val) {
				txt := stripVarLines(p.Canon(ft.X))
				if !strings.Contains(txt, marker) {
					continue
				}
				// "is loopback": Flags&FlagLoopback != 0, or IsLoopback() true
				if (ft.Op == "==" && !ft.Val && p.constName(ft.Y) == "0") || (ft.Op == "truth" && ft.Val) {
					isLoop = true
				}
			}
			if !isLoop {
				continue
			}
			found = true
			// from here, the accept site must be reachable (within the iteration) only over includeLoopback == true
			head := p.loopHeadOf(f, edgePos(e))
			r := g.Reach([]*Block{e.To}, func(x *Edge) bool {
				if x.To == head {
					return false
				}
				for _, ft := range p.FactsOfCond(x.Cond, x.Val) {
					if incl(ft) && ft.Op == "truth" && ft.Val {
						return false // the permitted way through
					}
				}
				return true
			})
			if r[loc.B] {
				return false
			}
		}
	}
	return found
}

// familyGate: "" when the accept site is reachable from "Is6 true" only via
// ipv6Requested && isSupportedIPv6Partial, and from "Is6 false" only via ipV4Requested.
func (p *Prog) familyGate(f *Func, site ast.Node) string {
	g := p.CFG(f)
	loc, ok := g.Locate(site)
	if !ok {
		return "accept site not located"
	}
	seen6, seen4 := false, false
	v4Obj, v6Obj := p.familyFlags(f)
	if v4Obj == nil || v6Obj == nil {
		return "the requested-family flags were not found"
	}
	type gate struct {
		name string
		pred func(e ast.Expr) bool
	}
	for _, b := range g.Blocks {
		for _, e := range b.Succs {
			for _, ft := range p.FactsOfCond(e.Cond, e.Val) {
				c, isC := unparen(ft.X).(*ast.CallExpr)
				if !isC || ft.Op != "truth" || !strings.HasSuffix(p.CalleeName(c), "Addr.Is6") {
					continue
				}
				var need []gate
				if ft.Val {
					seen6 = true
					need = []gate{{"IPv6 being requested", func(x ast.Expr) bool { return p.isObj(x, v6Obj) }},
						{"the IPv6 support test", func(x ast.Expr) bool { return p.mentionsCall(x, "ice.isSupportedIPv6Partial") }}}
				} else {
					seen4 = true
					need = []gate{{"IPv4 being requested", func(x ast.Expr) bool { return p.isObj(x, v4Obj) }}}
				}
				head := p.loopHeadOf(f, edgePos(e))
				for _, nm := range need {
					r := g.Reach([]*Block{e.To}, func(x *Edge) bool {
						if x.To == head {
							return false
						}
						for _, ft2 := range p.FactsOfCond(x.Cond, x.Val) {
							if ft2.Op == "truth" && ft2.Val && nm.pred(ft2.X) {
								return false
							}
						}
						return true
					})
					if r[loc.B] {
						return fmt.Sprintf("an address with Is6=%v is accepted without %s", ft.Val, nm.name)
					}
				}
			}
		}
	}
	if !seen6 || !seen4 {
		return "the family test (Is6) is missing"
	}
	return ""
}

// checkPortScan decides the structure of listenUDPInPortRange.
func (p *Prog) checkPortScan(f *Func, r *Report) {
	pos := p.Pos(f.Body.Pos())
	pmax, pmin := p.paramObj(f, 2), p.paramObj(f, 3)
	lad := p.paramObj(f, 5)
	isObj := func(e ast.Expr, o types.Object) bool {
		id, ok := unparen(e).(*ast.Ident)
		return ok && p.ObjOf(id) == o
	}
	// defaults
	def := func(o types.Object, want string) bool {
		for _, d := range p.DefsOf(f, o) {
			if d.Rhs == nil {
				continue
			}
			v, _ := p.ConstVal(d.Rhs)
			if v != want {
				continue
			}
			fs, _ := p.FactsAtCall(f, d.Node)
			if fs.Has(func(ft Fact) bool { return ft.Op == "==" && ft.Val && isObj(ft.X, o) && p.constName(ft.Y) == "0" }) {
				return true
			}
		}
		return false
	}
	r.Check(def(pmin, "1024"), "port scan: min defaults to 1024", pos, "portMin == 0 -> 1024", "an unset minimum does not default to the first non-privileged port")
	r.Check(def(pmax, "65535"), "port scan: max defaults to 65535", pos, "portMax == 0 -> 0xFFFF", "an unset maximum does not default to 65535")
	// direct listen when a port is fixed or the range is unset
	direct := false
	errRange := false
	exhausted := false
	walkBody(f, func(n ast.Node) bool {
		rs, ok := n.(*ast.ReturnStmt)
		if !ok || len(rs.Results) == 0 {
			return true
		}
		if c, ok := unparen(rs.Results[0]).(*ast.CallExpr); ok && p.CalleeName(c) == "transport.Net.ListenUDP" && len(c.Args) == 2 && isObj(c.Args[1], lad) {
			fs := p.DominatingFactList(f, rs)
			_ = fs
			direct = true
		}
		if len(rs.Results) == 2 && p.isNilExpr(rs.Results[0]) && p.MentionsObj(rs.Results[1], "ice.ErrPort") {
			fs := p.DominatingFactList(f, rs)
			if factListHas(fs, func(ft Fact) bool { return ft.Op == "<" && ft.Val && isObj(ft.X, pmax) && isObj(ft.Y, pmin) }) {
				errRange = true
			} else {
				exhausted = true
			}
		}
		return true
	})
	r.Check(direct, "port scan: fixed port or unset range listens as asked", pos, "ListenUDP(network, lAddr)", "the direct listen is missing")
	r.Check(errRange, "port scan: min > max is an error", pos, "ErrPort", "an inverted range is not refused")
	r.Check(exhausted, "port scan: exhausted range is an error", pos, "ErrPort after the loop", "an exhausted range does not report an error")
	// start port inside the range: Intn(max-min+1)+min
	okStart := false
	var startObj, curObj types.Object
	startObj0 := p.localByDef(f, func(rhs ast.Expr) bool { return p.mentionsCallSuffix(rhs, ".Intn") })
	var startDefs []VarDef
	if startObj0 != nil {
		startDefs = p.DefsOf(f, startObj0)
	}
	for _, d := range startDefs {
		if d.Rhs == nil {
			continue
		}
		lf := p.Linear(d.Rhs, nil)
		if !lf.OK {
			continue
		}
		// terms: min with coefficient 1, the Intn call with coefficient 1
		var call *ast.CallExpr
		okTerms := true
		for k, co := range lf.Terms {
			if k == "" {
				okTerms = okTerms && co.Sign() == 0
				continue
			}
			e := lf.Exprs[k]
			switch {
			case isObj(e, pmin):
				okTerms = okTerms && co.Int64() == 1
			default:
				c, isC := unparen(e).(*ast.CallExpr)
				if isC && strings.HasSuffix(p.CalleeName(c), ".Intn") && co.Int64() == 1 {
					call = c
				} else {
					okTerms = false
				}
			}
		}
		if okTerms && call != nil && len(call.Args) == 1 {
			al := p.Linear(call.Args[0], nil)
			if al.OK {
				good := true
				for k, co := range al.Terms {
					switch {
					case k == "":
						good = good && co.Int64() == 1
					case isObj(al.Exprs[k], pmax):
						good = good && co.Int64() == 1
					case isObj(al.Exprs[k], pmin):
						good = good && co.Int64() == -1
					default:
						good = false
					}
				}
				okStart = good && len(al.Terms) == 3
			}
		}
	}
	startObj = startObj0
	// the scan variable: initialised from the start port
	curObj = p.localByDef(f, func(rhs ast.Expr) bool { return p.isObj(rhs, startObj0) })
	r.Check(okStart, "port scan: random start inside [min, max]", pos, "Intn(max-min+1)+min", "the first port tried can lie outside the configured range")
	// the loop
	var loop *ast.ForStmt
	walkBody(f, func(n ast.Node) bool {
		if fs, ok := n.(*ast.ForStmt); ok && loop == nil {
			loop = fs
		}
		return true
	})
	if !r.Check(loop != nil && startObj != nil && curObj != nil, "port scan: loop", pos, "for", "scan loop not found") {
		return
	}
	// listen on the current port, the caller's IP and zone
	okListen := false
	for _, c := range p.CallsTo(f, false, "transport.Net.ListenUDP") {
		if c.Pos() < loop.Pos() || len(c.Args) != 2 {
			continue
		}
		cl := p.compositeOf(f, c.Args[1])
		if cl == nil {
			continue
		}
		got := map[string]string{}
		for _, el := range cl.Elts {
			if kv, ok := el.(*ast.KeyValueExpr); ok {
				got[kv.Key.(*ast.Ident).Name] = stripVarLines(p.Canon(kv.Value))
			}
		}
		ladName := ""
		if lad != nil {
			ladName = "$" + lad.Name()
		}
		curName := ""
		if curObj != nil {
			curName = "$" + curObj.Name()
		}
		okListen = got["IP"] == ladName+".IP" && got["Zone"] == ladName+".Zone" && got["Port"] == curName && ladName != "" && curName != ""
	}
	r.Check(okListen, "port scan: listens on the caller's IP and zone at the current port", p.Pos(loop.Pos()), "UDPAddr{IP: lAddr.IP, Zone: lAddr.Zone, Port: portCurrent}", "the scan does not listen on the requested address / current port")
	// step: increment by one; wrap to min when above max; stop when back at the start
	inc, wrap, stop := false, false, false
	ast.Inspect(loop.Body, func(n ast.Node) bool {
		switch x := n.(type) {
		case *ast.IncDecStmt:
			if x.Tok == token.INC && isObj(x.X, curObj) {
				inc = true
			}
		case *ast.AssignStmt:
			// wrap: "current = min" where current > max is known
			if len(x.Lhs) == 1 && len(x.Rhs) == 1 && isObj(x.Lhs[0], curObj) && isObj(x.Rhs[0], pmin) {
				if factListHas(p.DominatingFactList(f, x), func(ft Fact) bool {
					return ft.Op == "<" && ft.Val && isObj(ft.X, pmax) && isObj(ft.Y, curObj)
				}) {
					wrap = true
				}
			}
		case *ast.BranchStmt:
			// stop: leaving the loop where current == start is known
			if x.Tok == token.BREAK {
				if factListHas(p.enclosingIfFacts(f, loop.Body, x), func(ft Fact) bool {
					return ft.Op == "==" && ft.Val && ((isObj(ft.X, curObj) && isObj(ft.Y, startObj)) || (isObj(ft.Y, curObj) && isObj(ft.X, startObj)))
				}) {
					stop = true
				}
			}
		}
		return true
	})
	r.Check(inc && wrap && stop, "port scan: each port tried at most once", p.Pos(loop.Pos()), "increment; wrap above max to min; stop at the start port", fmt.Sprintf("increment=%v wrap to min above max=%v stop at start=%v", inc, wrap, stop))
	// success returns the connection
	okRet := false
	ast.Inspect(loop.Body, func(n ast.Node) bool {
		if rs, ok := n.(*ast.ReturnStmt); ok && len(rs.Results) == 2 {
			fs := p.DominatingFactList(f, rs)
			if factListHas(fs, func(ft Fact) bool {
				return ft.Op == "==" && ft.Val && p.isNilExpr(ft.Y) && p.atomIsCall(f, ft.X, "transport.Net.ListenUDP")
			}) && !p.isNilExpr(rs.Results[0]) {
				okRet = true
			}
		}
		return true
	})
	r.Check(okRet, "port scan: first successful listen is returned", p.Pos(loop.Pos()), "return c on e == nil", "a successful listen is not returned")
}

// tableRow is one decided row of a boolean function's decision table.
type tableRow struct {
	Hist   []Decision
	Result string
}

// expandRows enumerates the decision table of f; an atom that is a call to an
// analysed single-result boolean function and is not recognised by the caller's
// classifier is replaced by that function's own rows (so that factoring a test
// out into a helper does not change the verdict).
func (p *Prog) expandRows(f *Func, known func(a *TAtom) bool, depth int) []tableRow {
	t := p.NewTable(f)
	t.Run()
	var rows []tableRow
	for _, pa := range t.Paths {
		cur := []tableRow{{Result: strings.Join(pa.Results, ",")}}
		for _, d := range pa.Hist {
			var sub []tableRow
			if !known(d.Atom) && d.Atom.Kind == "bool" && depth < 2 {
				if c, ok := unparen(d.Atom.X).(*ast.CallExpr); ok {
					if callee := p.Callee(c); callee != nil {
						if g := p.ByObj[callee]; g != nil && g.Body != nil {
							for _, rr := range p.expandRows(g, known, depth+1) {
								if rr.Result == d.Val {
									sub = append(sub, rr)
								}
							}
						}
					}
				}
			}
			var next []tableRow
			for _, c := range cur {
				if len(sub) == 0 {
					next = append(next, tableRow{append(append([]Decision{}, c.Hist...), d), c.Result})
					continue
				}
				for _, s := range sub {
					next = append(next, tableRow{append(append([]Decision{}, c.Hist...), s.Hist...), c.Result})
				}
			}
			cur = next
		}
		rows = append(rows, cur...)
	}
	return rows
}

// loopHeadOf: the head block of the innermost range loop of f that contains pos
// (the block an iteration returns to for the next element).
func (p *Prog) loopHeadOf(f *Func, pos token.Pos) *Block {
	var inner *ast.RangeStmt
	walkBody(f, func(n ast.Node) bool {
		if rs, ok := n.(*ast.RangeStmt); ok && rs.Body.Pos() <= pos && pos <= rs.Body.End() {
			if inner == nil || rs.Pos() > inner.Pos() {
				inner = rs
			}
		}
		return true
	})
	if inner == nil {
		return nil
	}
	for _, b := range p.CFG(f).Blocks {
		for _, e := range b.Succs {
			if e.Cond != nil && e.Cond.Op == "range" && e.Cond.Stmt == ast.Stmt(inner) {
				return b
			}
		}
	}
	return nil
}

// edgePos: a source position inside the condition an edge tests.
func edgePos(e *Edge) token.Pos {
	if e.Cond != nil && e.Cond.X != nil {
		return e.Cond.X.Pos()
	}
	return token.NoPos
}

// familyFlags: the two locals of localInterfaces that record which address
// families were requested, identified by the assignment "= true" under
// NetworkType.IsIPv4() / IsIPv6().
func (p *Prog) familyFlags(f *Func) (v4, v6 types.Object) {
	walkBody(f, func(n ast.Node) bool {
		as, ok := n.(*ast.AssignStmt)
		if !ok || len(as.Lhs) != 1 || len(as.Rhs) != 1 {
			return true
		}
		if v, _ := p.ConstVal(as.Rhs[0]); v != "true" {
			return true
		}
		id, ok := unparen(as.Lhs[0]).(*ast.Ident)
		if !ok {
			return true
		}
		for _, ft := range p.DominatingFactList(f, as) {
			c, isC := unparen(ft.X).(*ast.CallExpr)
			if !isC || ft.Op != "truth" || !ft.Val {
				continue
			}
			switch p.CalleeName(c) {
			case "ice.NetworkType.IsIPv4":
				v4 = p.ObjOf(id)
			case "ice.NetworkType.IsIPv6":
				v6 = p.ObjOf(id)
			}
		}
		return true
	})
	return
}

func (p *Prog) mentionsCallSuffix(n ast.Node, suffix string) bool {
	found := false
	ast.Inspect(n, func(x ast.Node) bool {
		if c, ok := x.(*ast.CallExpr); ok && strings.HasSuffix(p.CalleeName(c), suffix) {
			found = true
		}
		return true
	})
	return found
}
