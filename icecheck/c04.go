package main

import (
	"fmt"
	"go/ast"
	"go/token"
	"go/types"
	"sort"
	"strings"
)

func init() { register("C04", checkC04) }

// enumConsistent: is subject value v consistent with every decision named
// name, name#2, ... in vals ("==C" / "!=C")?
func enumConsistent(vals map[string]string, name, v string) bool {
	for k, d := range vals {
		if k != name && !strings.HasPrefix(k, name+"#") {
			continue
		}
		if strings.HasPrefix(d, "==") && d[2:] != v {
			return false
		}
		if strings.HasPrefix(d, "!=") && d[2:] == v {
			return false
		}
	}
	return true
}

func maskHas(mask, v string) bool {
	if mask == "" {
		return true
	}
	for _, x := range strings.Split(mask, "|") {
		if x == v {
			return true
		}
	}
	return false
}

func checkC04(p *Prog, r *Report) {
	ucs := p.Fn("Agent.updateConnectionState")
	if !r.Anchor("Agent.updateConnectionState", ucs != nil) {
		return
	}

	// ---- R4.1 choke point -------------------------------------------------------
	r.Rule("R4.1", "Agent.connectionState is stored only in the choke point (updateConnectionState) after construction; the store is guarded by 'state != new' (no consecutive repeats) and is followed by the one EnqueueConnectionState call of the program, with the same value.", 3)
	writers := p.WritersOf("Agent.connectionState")
	for f, nodes := range writers {
		ok := f == ucs
		r.Check(ok, "writer of connectionState: "+f.Name, p.Pos(nodes[0].Pos()), "the choke point", "Agent.connectionState is written outside updateConnectionState: the transition is not deduplicated and not notified")
	}
	if len(writers) == 0 {
		r.Fail("writer of connectionState", p.Pos(ucs.Body.Pos()), "no function stores Agent.connectionState")
	}
	for _, n := range writers[ucs] {
		// structural dominance: the release calls on the Failed branch cannot
		// change connectionState (setSelectedPair(nil) returns before its
		// Connected transition), which the path-insensitive effect summary
		// cannot see
		facts := p.DominatingFacts(ucs, n)
		param := p.paramObj(ucs, 0)
		dedup := facts.Has(func(ft Fact) bool {
			if ft.Op != "==" || ft.Val {
				return false
			}
			isState := func(e ast.Expr) bool { return p.IsField(e, "Agent.connectionState") }
			isParam := func(e ast.Expr) bool {
				id, ok := unparen(e).(*ast.Ident)
				return ok && p.ObjOf(id) == param
			}
			return (isState(ft.X) && isParam(ft.Y)) || (isState(ft.Y) && isParam(ft.X))
		})
		r.Check(dedup, "choke point: dedup guard", p.Pos(n.Pos()), "store dominated by connectionState != newState", "the state is stored (and notified) even when it does not change: consecutive repeats reach the callback")
		if as, ok := n.(*ast.AssignStmt); ok && len(as.Rhs) == 1 {
			id, ok := unparen(as.Rhs[0]).(*ast.Ident)
			r.Check(ok && p.ObjOf(id) == param, "choke point: stores its argument", p.Pos(n.Pos()), "connectionState = newState", "the choke point stores something other than the requested state")
		}
	}
	nEnq := 0
	for _, f := range p.AllFuncs {
		for _, c := range p.CallsTo(f, false, "ice.handlerNotifier.EnqueueConnectionState") {
			nEnq++
			ok := f == ucs && len(c.Args) == 1
			if ok {
				id, isID := unparen(c.Args[0]).(*ast.Ident)
				ok = isID && p.ObjOf(id) == p.paramObj(ucs, 0)
			}
			r.Check(ok, "EnqueueConnectionState call in "+f.Name, p.Pos(c.Pos()), "only in the choke point, with the new state", "a connection-state notification is enqueued outside the choke point or with a different value than the stored one")
		}
	}
	if nEnq == 0 {
		r.Fail("EnqueueConnectionState call", p.Pos(ucs.Body.Pos()), "state changes are never notified")
	}

	// ---- R4.3 / R4.8 ordering inside the choke point and the select anchor ---------
	r.Rule("R4.3", "On the transition to Failed the mux entries, checklist, pair index, pending transactions, selection and candidates are released before the state is stored and notified; in setSelectedPair the pair is stored before the transition to Connected.", 3)
	{
		t := p.NewTable(ucs)
		var evOf func(n ast.Node, depth int) []string
		evOf = func(n ast.Node, depth int) []string {
			var out []string
			if as, ok := n.(*ast.AssignStmt); ok {
				for _, l := range as.Lhs {
					if fv := p.FieldOf(l); fv != nil {
						out = append(out, "set:"+fv.Name())
					}
				}
			}
			for _, c := range p.NodeCalls(n) {
				switch p.CalleeName(c) {
				case "ice.Agent.removeUfragFromMux":
					out = append(out, "removeUfrag")
				case "ice.Agent.setSelectedPair":
					if len(c.Args) == 1 && p.isNilExpr(c.Args[0]) {
						out = append(out, "unselect")
					} else {
						out = append(out, "select?")
					}
				case "ice.Agent.deleteAllCandidates":
					out = append(out, "deleteAll")
				case "ice.handlerNotifier.EnqueueConnectionState":
					out = append(out, "notify")
				default:
					// a straight-line helper of the agent contributes its own events in order
					if o := p.Callee(c); o != nil && depth < 2 {
						if h := p.ByObj[o]; h != nil && h.Body != nil && strings.HasPrefix(h.Name, "Agent.") {
							straight := true
							for _, st := range h.Body.List {
								switch st.(type) {
								case *ast.AssignStmt, *ast.ExprStmt:
								default:
									straight = false
								}
							}
							if straight {
								for _, st := range h.Body.List {
									out = append(out, evOf(st, depth+1)...)
								}
							}
						}
					}
				}
			}
			return out
		}
		t.Event = func(n ast.Node, _ *TEnv) []string { return evOf(n, 0) }
		t.Run()
		sawFailed := false
		for _, sp := range t.Semantic(func(a *TAtom) (string, bool) {
			if a.Kind == "ord" {
				return "changed", false
			}
			if a.Kind == "enum" {
				return "new", false
			}
			return "", false
		}) {
			if len(sp.Unclassified) > 0 {
				r.Fail("choke point structure", sp.EndPos, "transition handling depends on an unexpected condition "+strings.Join(sp.Unclassified, ","))
				continue
			}
			ev := strings.Join(sp.Events, ",")
			switch {
			case sp.Vals["changed"] == "EQ":
				r.Check(ev == "", "choke point: unchanged state", sp.EndPos, "no effect", "effects on an unchanged state: "+ev)
			case sp.Vals["new"] == "==ConnectionStateFailed":
				sawFailed = true
				idx := func(e string) int {
					for i, x := range sp.Events {
						if x == e {
							return i
						}
					}
					return -1
				}
				store, notify := idx("set:connectionState"), idx("notify")
				var missing []string
				for _, need := range []string{"removeUfrag", "set:checklist", "set:pairsByID", "set:pendingBindingRequests", "unselect", "deleteAll"} {
					if i := idx(need); i < 0 || i > store || store < 0 {
						missing = append(missing, need)
					}
				}
				r.Check(len(missing) == 0 && store >= 0 && notify > store, "choke point: release before Failed", sp.EndPos, "release sequence precedes store and notification: "+ev,
					"on the transition to Failed these releases do not precede the stored/notified state: "+strings.Join(missing, ", ")+" (sequence: "+ev+")")
			default:
				r.Check(ev == "set:connectionState,notify", "choke point: ordinary transition", sp.EndPos, "store then notify", "an ordinary transition does "+ev+" instead of store-then-notify")
			}
		}
		if !sawFailed {
			r.Fail("choke point: release before Failed", p.Pos(ucs.Body.Pos()), "no Failed-specific path: entering Failed releases nothing")
		}
	}
	ssp := p.Fn("Agent.setSelectedPair")
	if r.Anchor("Agent.setSelectedPair", ssp != nil) {
		t := p.NewTable(ssp)
		t.Event = func(n ast.Node, _ *TEnv) []string {
			var out []string
			for _, c := range p.NodeCalls(n) {
				switch {
				case p.isMethodOnField(c, "Agent.selectedPair", "Store"):
					out = append(out, "store")
				case p.CalleeName(c) == "ice.Agent.updateConnectionState":
					out = append(out, "state="+strings.TrimPrefix(p.constName(c.Args[0]), "ConnectionState"))
				case p.CalleeName(c) == "ice.handlerNotifier.EnqueueSelectedCandidatePair":
					out = append(out, "notify-pair")
				}
			}
			return out
		}
		t.Run()
		for _, pa := range t.Paths {
			ev := strings.Join(pa.Events, ",")
			isNil := false
			for _, d := range pa.Hist {
				if d.Val == "==nil" {
					isNil = true
				}
			}
			if isNil {
				r.Check(ev == "store", "setSelectedPair(nil)", pa.EndPos, "clears the selection only", "clearing the selection does "+ev)
			} else {
				r.Check(ev == "store,state=Connected,notify-pair", "setSelectedPair(pair): store before Connected", pa.EndPos, "store, then Connected, then pair notification",
					"selecting a pair does "+ev+": Connected must be reported only with the pair already in place")
			}
		}
	}

	// ---- R4.2 transition sites ---------------------------------------------------------
	r.Rule("R4.2", "The callers of the choke point are exactly: start -> Checking; check tick -> Failed (only while Checking, deadline enabled and exceeded); select -> Connected; validateSelectedPair -> the timing function's result (only with a selected pair); Restart -> Checking (only if not New); loop close callback -> Closed.", 6)
	type site struct {
		target string
		guard  func(f *Func, facts FactSet) (bool, string)
	}
	hasStateEq := func(facts FactSet, c string, val bool) bool {
		return p.hasFieldEq(facts, "Agent.connectionState", c, val)
	}
	ccFn := p.Fn("Agent.connectivityChecks")
	// roles of the tick's captured locals, by what defines them
	ticks, checkingTimeoutObj, checkingSinceObj, lastStateObj := p.tickRoles(ccFn)
	r.Anchor("connectivityChecks: checking deadline variable", checkingTimeoutObj != nil)
	r.Anchor("connectivityChecks: checking start variable", checkingSinceObj != nil)
	r.Anchor("connectivityChecks: previous-state variable", lastStateObj != nil)
	table := map[string]site{
		"Agent.startConnectivityChecks$1": {"ConnectionStateChecking", nil},
		"<tick>": {"ConnectionStateFailed", func(f *Func, facts FactSet) (bool, string) {
			checking := hasStateEq(facts, "ConnectionStateChecking", true)
			enabled := facts.Has(func(ft Fact) bool {
				return ft.Op == "==" && !ft.Val && p.isLoc(ft.X, checkingTimeoutObj) && p.constName(ft.Y) == "0"
			})
			exceeded := facts.Has(func(ft Fact) bool {
				// checkingTimeout < time.Since(...)
				if ft.Op != "<" || !ft.Val {
					return false
				}
				c, ok2 := unparen(ft.Y).(*ast.CallExpr)
				return p.isLoc(ft.X, checkingTimeoutObj) && ok2 && p.CalleeName(c) == "time.Since"
			})
			return checking && enabled && exceeded, fmt.Sprintf("while Checking=%v deadline enabled=%v exceeded=%v", checking, enabled, exceeded)
		}},
		"Agent.setSelectedPair": {"ConnectionStateConnected", nil},
		"Agent.validateSelectedPair": {"call:ice.Agent.connectionStateForDisconnection", func(f *Func, facts FactSet) (bool, string) {
			ok := facts.Has(func(ft Fact) bool {
				return ft.Op == "==" && !ft.Val && p.isNilExpr(ft.Y) && p.atomIsCall(f, ft.X, "ice.Agent.getSelectedPair")
			})
			return ok, "selected pair != nil"
		}},
		"Agent.Restart$1": {"ConnectionStateChecking", func(f *Func, facts FactSet) (bool, string) {
			return hasStateEq(facts, "ConnectionStateNew", false), "connectionState != New"
		}},
		"newAgentWithConfig$1": {"ConnectionStateClosed", nil},
	}
	for _, tf := range ticks {
		table[tf.Name] = table["<tick>"]
	}
	delete(table, "<tick>")
	if len(ticks) == 0 {
		table["Agent.connectivityChecks$1$1"] = site{"ConnectionStateFailed", nil} // reported as a lost site below
	}
	seen := map[string]bool{}
	for _, e := range p.Callers(ucs) {
		name := e.Caller.Name
		s, ok := table[name]
		if !ok {
			r.Fail("transition site "+name, p.Pos(e.Site.Pos()), "new caller of the connection-state choke point that is not in the documented lifecycle table")
			continue
		}
		seen[name] = true
		arg := e.Call.Args[0]
		got := p.constName(arg)
		if c, ok := unparen(arg).(*ast.CallExpr); ok {
			got = "call:" + p.CalleeName(c)
		}
		okT := got == s.target
		detail := "-> " + strings.TrimPrefix(s.target, "ConnectionState")
		okG := true
		if s.guard != nil {
			facts, _ := p.FactsAtCall(e.Caller, e.Call)
			var gd string
			okG, gd = s.guard(e.Caller, facts)
			detail += " under " + gd
		}
		r.Check(okT && okG, "transition site "+name, p.Pos(e.Site.Pos()), detail, "transition site requests "+got+" (expected "+s.target+"), guard satisfied: "+boolStr(okG)+" ("+detail+")")
	}
	var missing []string
	for name := range table {
		if !seen[name] {
			missing = append(missing, name)
		}
	}
	sort.Strings(missing)
	for _, m := range missing {
		r.Fail("transition site "+m, p.Pos(ucs.Body.Pos()), "documented transition site no longer calls the choke point: that edge of the lifecycle is lost")
	}
	// Closed is final: notifiers are closed after the loop in Agent.close
	closers := p.agentClosers()
	r.Anchor("Agent.close", len(closers) > 0)
	for _, f := range closers {
		var order []string
		walkBody(f, func(n ast.Node) bool {
			if c, ok := n.(*ast.CallExpr); ok {
				switch p.CalleeName(c) {
				case "taskloop.Loop.CloseWithPreStop", "taskloop.Loop.Close":
					order = append(order, "loop")
				case "ice.handlerNotifier.Close":
					order = append(order, "notifier")
				}
			}
			return true
		})
		ok := len(order) == 4 && order[0] == "loop"
		what := "close order: loop before notifiers"
		if f.Name != "Agent.close" {
			what += " (" + f.Name + ")"
		}
		r.Check(ok, what, p.Pos(f.Body.Pos()), strings.Join(order, ","), f.Name+" does "+strings.Join(order, ",")+": the Closed notification (issued by the loop's close callback) must be enqueued before the notifiers are closed")
	}

	// ---- R4.8 Checking is entered once by a start -----------------------------------------------------------
	r.Rule("R4.8", "The start task, which moves the agent to Checking unconditionally, runs at most once: the 'already started?' test and the submission of the task are one critical section (rule of C10 R10.3), so an overlapping second start cannot push a Connected agent back to Checking without a Restart.", 2)
	checkStartAtomic(p, r)

	// ---- R4.4 timing function -------------------------------------------------------------
	r.Rule("R4.4", "connectionStateForDisconnection(silence, total) is the documented table: Connected up to the disconnected timeout, Disconnected beyond it, Failed beyond total (reported once as Disconnected first when the disconnected timeout is enabled and not yet reported); zero disables either; total = failed + disconnected, zero iff the failed timeout is zero; the initial checking deadline likewise (lite default).", 12)
	csd := p.Fn("Agent.connectionStateForDisconnection")
	if r.Anchor("Agent.connectionStateForDisconnection", csd != nil) {
		// the two durations by role, not by position: the silence is the parameter compared with the agent's
		// disconnected timeout, the total time to failure is the other one
		silIdx, totIdx := timingParamRoles(p, csd)
		pSil, pTot := p.paramObj(csd, silIdx), p.paramObj(csd, totIdx)
		isObj := func(e ast.Expr, o any) bool {
			id, ok := unparen(e).(*ast.Ident)
			return ok && p.ObjOf(id) == o
		}
		t := p.NewTable(csd)
		t.Run()
		rows := 0
		for _, sp := range t.Semantic(func(a *TAtom) (string, bool) {
			switch a.Kind {
			case "enum":
				switch {
				case p.IsField(a.X, "Agent.disconnectedTimeout"):
					return "dSet", false
				case isObj(a.X, pTot):
					return "tSet", false
				case p.IsField(a.X, "Agent.connectionState"):
					return "state", false
				}
			case "ord":
				// normalise to ord(silence, threshold)
				switch {
				case isObj(a.X, pSil) && p.IsField(a.Y, "Agent.disconnectedTimeout"):
					return "sVsD", false
				case isObj(a.Y, pSil) && p.IsField(a.X, "Agent.disconnectedTimeout"):
					return "sVsD", true
				case isObj(a.X, pSil) && isObj(a.Y, pTot):
					return "sVsT", false
				case isObj(a.Y, pSil) && isObj(a.X, pTot):
					return "sVsT", true
				}
			}
			return "", false
		}) {
			if len(sp.Unclassified) > 0 {
				r.Fail("timing function", sp.EndPos, "the state depends on an unexpected condition "+strings.Join(sp.Unclassified, ","))
				continue
			}
			got := ""
			if len(sp.Results) == 1 {
				got = strings.TrimPrefix(sp.Results[0], "ConnectionState")
			}
			for _, dSet := range []bool{false, true} {
				if v, ok := sp.Vals["dSet"]; ok && (v == "!=0") != dSet {
					continue
				}
				for _, tSet := range []bool{false, true} {
					if v, ok := sp.Vals["tSet"]; ok && (v == "!=0") != tSet {
						continue
					}
					for _, sd := range []string{"LT", "EQ", "GT"} {
						if !maskHas(sp.Vals["sVsD"], sd) {
							continue
						}
						for _, stt := range []string{"LT", "EQ", "GT"} {
							if !maskHas(sp.Vals["sVsT"], stt) {
								continue
							}
							for _, state := range []string{"ConnectionStateDisconnected", "ConnectionStateFailed", "other"} {
								if !enumConsistent(sp.Vals, "state", state) {
									continue
								}
								// undecided atoms are only enumerated when relevant
								disc := dSet && sd == "GT"
								failed := tSet && stt == "GT"
								// consistency: total = failed + disconnected >= disconnected
								if failed && dSet && sd != "GT" {
									continue
								}
								want := "Connected"
								switch {
								case failed && disc && state == "other":
									want = "Disconnected"
								case failed:
									want = "Failed"
								case disc:
									want = "Disconnected"
								}
								// skip rows whose distinguishing atoms the path never consulted
								if _, ok := sp.Vals["dSet"]; !ok && dSet {
									continue
								}
								if _, ok := sp.Vals["tSet"]; !ok && tSet {
									continue
								}
								if _, ok := sp.Vals["sVsD"]; !ok && sd != "LT" {
									continue
								}
								if _, ok := sp.Vals["sVsT"]; !ok && stt != "LT" {
									continue
								}
								if !hasPrefixKey(sp.Vals, "state") && state != "other" {
									continue
								}
								rows++
								key := fmt.Sprintf("timing row d=%v T=%v s?d=%s s?T=%s state=%s", dSet, tSet, sd, stt, strings.TrimPrefix(state, "ConnectionState"))
								r.Check(got == want, key, sp.EndPos, "-> "+want, "the code reports "+got+", the documented timing requires "+want)
							}
						}
					}
				}
			}
		}
		r.Extra["R4.4_rows"] = rows
	}
	if f := p.Fn("Agent.validateSelectedPair"); r.Anchor("Agent.validateSelectedPair", f != nil) {
		totalObj := p.localByDef(f, func(rhs ast.Expr) bool { return p.IsField(rhs, "Agent.failedTimeout") })
		t := p.NewTable(f)
		t.Event = func(n ast.Node, _ *TEnv) []string {
			if as, ok := n.(*ast.AssignStmt); ok && len(as.Lhs) == 1 {
				if p.isObj(as.Lhs[0], totalObj) {
					switch {
					case as.Tok == token.DEFINE && p.IsField(as.Rhs[0], "Agent.failedTimeout"):
						return []string{"total:=failed"}
					case as.Tok == token.ADD_ASSIGN && p.IsField(as.Rhs[0], "Agent.disconnectedTimeout"):
						return []string{"total+=disconnected"}
					default:
						return []string{"total:?"}
					}
				}
			}
			for _, c := range p.NodeCalls(n) {
				if p.CalleeName(c) == "ice.Agent.connectionStateForDisconnection" && len(c.Args) == 2 {
					a0, a1 := "?", "?"
					silIdx, totIdx := 0, 1
					if csdF := p.Fn("Agent.connectionStateForDisconnection"); csdF != nil {
						silIdx, totIdx = timingParamRoles(p, csdF)
					}
					if c0, _, ok := p.ResolveCall(f, c.Args[silIdx]); ok && p.CalleeName(c0) == "time.Since" {
						if c1, ok := unparen(c0.Args[0]).(*ast.CallExpr); ok && p.CalleeName(c1) == "ice.Candidate.LastReceived" {
							if sel, ok := unparen(c1.Fun).(*ast.SelectorExpr); ok && p.IsField(sel.X, "CandidatePair.Remote") {
								a0 = "silence(selected remote)"
							}
						}
					}
					if p.isObj(c.Args[totIdx], totalObj) {
						a1 = "total"
					}
					return []string{"timing(" + a0 + "," + a1 + ")"}
				}
			}
			return nil
		}
		t.Run()
		n := 0
		for _, pa := range t.Paths {
			ev := strings.Join(pa.Events, ",")
			sel, tot := "", ""
			for _, d := range pa.Hist {
				if d.Atom.Kind == "enum" {
					if p.atomIsCall(f, d.Atom.X, "ice.Agent.getSelectedPair") {
						sel = d.Val
					} else {
						tot = d.Val
					}
				}
			}
			switch {
			case sel == "==nil":
				r.Check(ev == "" && len(pa.Results) == 1 && pa.Results[0] == "false", "validateSelectedPair: nothing selected", pa.EndPos, "no transition", "without a selected pair the function does "+ev)
			case tot == "==0":
				n++
				r.Check(ev == "total:=failed,timing(silence(selected remote),total)", "validateSelectedPair: failed timeout disabled", pa.EndPos, "total stays 0", "with a zero failed timeout the code does "+ev+": total must stay 0 (Failed disabled)")
			case tot == "!=0":
				n++
				r.Check(ev == "total:=failed,total+=disconnected,timing(silence(selected remote),total)", "validateSelectedPair: total = failed + disconnected", pa.EndPos, "total = failed + disconnected", "with a non-zero failed timeout the code does "+ev)
			default:
				r.Fail("validateSelectedPair structure", pa.EndPos, "total time to failure is not derived from 'failedTimeout != 0': "+strings.Join(pa.HistKeys(), ";"))
			}
		}
		if n < 2 {
			r.Fail("validateSelectedPair structure", p.Pos(f.Body.Pos()), "the zero / non-zero failed-timeout cases are not both present")
		}
		// the guard variable is the failed timeout (not the disconnected timeout)
		walkBody(f, func(x ast.Node) bool {
			if is, ok := x.(*ast.IfStmt); ok {
				if b, ok := unparen(is.Cond).(*ast.BinaryExpr); ok && b.Op == token.NEQ {
					if p.isObj(b.X, totalObj) {
						r.OK("validateSelectedPair: zero test on the failed timeout", p.Pos(is.Pos()), "guard tests totalTimeToFailure (= failedTimeout)")
					} else {
						r.Fail("validateSelectedPair: zero test on the failed timeout", p.Pos(is.Pos()), "the guard for adding the disconnected timeout tests "+stripVarLines(p.Canon(b.X))+" instead of the failed timeout: a zero failed timeout no longer disables Failed")
					}
				}
			}
			return true
		})
	}
	if f := p.Fn("Agent.initialCheckingTimeout"); r.Anchor("Agent.initialCheckingTimeout", f != nil) {
		dObj := p.localByDef(f, func(rhs ast.Expr) bool { return p.IsField(rhs, "Agent.disconnectedTimeout") })
		wantSum, wantSumAlt := "", ""
		if dObj != nil && f.Decl != nil && f.Decl.Recv != nil && len(f.Decl.Recv.List) == 1 && len(f.Decl.Recv.List[0].Names) == 1 {
			rn := f.Decl.Recv.List[0].Names[0].Name
			wantSum = "($" + dObj.Name() + " + $" + rn + ".failedTimeout)"
			wantSumAlt = "($" + rn + ".failedTimeout + $" + dObj.Name() + ")"
		}
		t := p.NewTable(f)
		t.Event = func(n ast.Node, _ *TEnv) []string {
			if as, ok := n.(*ast.AssignStmt); ok && len(as.Lhs) == 1 {
				if p.isObj(as.Lhs[0], dObj) {
					switch {
					case p.IsField(as.Rhs[0], "Agent.disconnectedTimeout"):
						return []string{"d=configured"}
					case p.constName(as.Rhs[0]) == "defaultDisconnectedTimeout":
						return []string{"d=default"}
					}
					return []string{"d=?"}
				}
			}
			return nil
		}
		t.Run()
		sawLiteDefault := false
		defer func() {
			if !sawLiteDefault {
				r.curRule = "R4.4"
				r.Fail("initialCheckingTimeout: lite default", p.Pos(f.Body.Pos()), "no path substitutes the default disconnected timeout for lite agents without an explicit one: the longer lite timeout extends the initial checking deadline")
			}
		}()
		for _, sp := range t.Semantic(func(a *TAtom) (string, bool) {
			switch {
			case a.Kind == "enum" && p.IsField(a.X, "Agent.failedTimeout"):
				return "failed", false
			case a.Kind == "bool" && p.IsField(a.X, "Agent.lite"):
				return "lite", false
			case a.Kind == "bool" && p.IsField(a.X, "Agent.disconnectedTimeoutExplicit"):
				return "explicit", false
			}
			return "", false
		}) {
			if len(sp.Unclassified) > 0 {
				r.Fail("initialCheckingTimeout", sp.EndPos, "deadline depends on an unexpected condition "+strings.Join(sp.Unclassified, ","))
				continue
			}
			res := ""
			if len(sp.Results) == 1 {
				res = stripVarLines(sp.Results[0])
			}
			ev := strings.Join(sp.Events, ",")
			switch {
			case sp.Vals["failed"] == "==0":
				r.Check(res == "0", "initialCheckingTimeout: failed timeout disabled", sp.EndPos, "0 (never fails)", "with a zero failed timeout the checking deadline is "+res)
			case sp.Vals["lite"] == "true" && sp.Vals["explicit"] == "false":
				sawLiteDefault = true
				r.Check(ev == "d=configured,d=default" && (res == wantSum || res == wantSumAlt) && res != "", "initialCheckingTimeout: lite default", sp.EndPos, "default disconnected + failed", "lite agent without explicit timeout: "+ev+" -> "+res)
			default:
				r.Check(ev == "d=configured" && (res == wantSum || res == wantSumAlt) && res != "", "initialCheckingTimeout: disconnected + failed "+rowKey(sp, "lite", "explicit"), sp.EndPos, "configured disconnected + failed", "deadline is "+ev+" -> "+res)
			}
		}
	}

	// ---- R4.5 the check tick ---------------------------------------------------------------
	r.Rule("R4.5", "The check tick does nothing while Failed; while Checking it (re)arms the deadline whenever the state was entered since the previous tick, fails the agent once the enabled deadline has passed, and otherwise contacts candidates; the previous-tick state is recorded on every exit of the tick.", 6)
	checkTickDiscipline(p, r)

	// ---- R4.6 what counts as "not silent" ------------------------------------------------------------
	r.Rule("R4.6", "Every datagram accepted from a known remote candidate refreshes that candidate's last-received time, application data as well as STUN: the cached-source fast path marks the cached candidate seen on every path on which it accepts, and the slow path marks the candidate it found; so a selected remote that keeps sending data is never declared silent.", 2)
	isSeen := func(n ast.Node) bool {
		return p.nodeHasCall(n, func(c *ast.CallExpr) bool {
			cn := p.CalleeName(c)
			return (cn == "ice.Candidate.seen" || cn == "ice.candidateBase.seen") && len(c.Args) == 1 && p.constName(c.Args[0]) == "false"
		})
	}
	if f := p.Fn("candidateBase.validateSTUNTrafficCache"); r.Anchor("candidateBase.validateSTUNTrafficCache", f != nil) {
		g := p.CFG(f)
		ok, n := true, 0
		for _, b := range g.Blocks {
			for _, nd := range b.Nodes {
				rs, isR := nd.(*ast.ReturnStmt)
				if !isR || len(rs.Results) != 1 {
					continue
				}
				if v, _ := p.ConstVal(rs.Results[0]); v != "true" {
					continue
				}
				n++
				if !p.MustPrecede(f, rs, isSeen) {
					ok = false
				}
			}
		}
		r.Check(ok && n > 0, "cached source: accepted data refreshes the remote's last-received time", p.Pos(f.Body.Pos()), "seen(false) before every 'return true'", "the fast path accepts a datagram without marking the remote seen: after the first packet from an address, application data no longer counts as liveness and a talking peer is reported Disconnected / Failed")
	}
	if f := p.Fn("Agent.validateNonSTUNTraffic$1"); r.Anchor("Agent.validateNonSTUNTraffic$1", f != nil) {
		g := p.CFG(f)
		// every path on which a remote candidate was found marks it seen
		_, escapes := g.PathAvoiding(Loc{g.Entry, 0}, isSeen, func(b *Block) bool { return b == g.Exit }, func(e *Edge) bool {
			for _, ft := range p.FactsOfCond(e.Cond, e.Val) {
				if ft.Op == "==" && ft.Val && p.isNilExpr(ft.Y) {
					return false // nothing found: nothing to refresh
				}
			}
			return true
		})
		r.Check(!escapes, "first datagram from a source: the matched remote is marked seen", p.Pos(f.Body.Pos()), "seen(false) whenever a remote candidate was found", "the slow path validates a source without refreshing the remote's last-received time")
	}
	// ---- R4.7 one callback at a time, in transition order ---------------------------------------------
	r.Rule("R4.7", "The connection-state stream delivers one event at a time in queue order: events are appended at the tail under the notifier mutex, a drainer is started only if none is running, and the running flag is cleared only when the drainer has found the queue empty and then returns without calling the handler again (protocol summary shared with C11 R11.1).", 1)
	if f := p.Fn("handlerNotifier.EnqueueConnectionState"); r.Anchor("handlerNotifier.EnqueueConnectionState", f != nil) {
		s := p.summarizeStream(f)
		r.Check(len(s.problems) == 0, "stream "+f.Name, p.Pos(f.Body.Pos()), strings.Join(s.protocol, " "), strings.Join(dedupStrings(s.problems), "; ")+": a second drainer can run while a handler is still executing, so the callback for a later transition can start (and finish) before the one for an earlier transition")
	}

	// ---- R4.8 the silence clock survives candidate replacement ------------------------------------------
	r.Rule("R4.8", "When a signalled candidate replaces a peer-reflexive one, the last-received time is carried over on a condition that depends only on the two last-received times (and the setter assertion), and likewise for last-sent: the silence of the selected remote is measured from the last datagram actually received, not from zero.", 2)
	if f := p.Fn("copyCandidateActivity"); r.Anchor("copyCandidateActivity", f != nil) {
		for _, pr := range [][2]string{{"setLastReceived", "LastReceived"}, {"setLastSent", "LastSent"}} {
			other := "LastSent"
			if pr[1] == "LastSent" {
				other = "LastReceived"
			}
			n := 0
			walkBody(f, func(x ast.Node) bool {
				c, ok := x.(*ast.CallExpr)
				if !ok || !strings.HasSuffix(p.CalleeName(c), "."+pr[0]) {
					return true
				}
				n++
				foreign, own := "", false
				for _, ft := range p.DominatingFactList(f, c) {
					for _, e := range []ast.Expr{ft.X, ft.Y} {
						if e == nil {
							continue
						}
						for _, cn := range p.callsFeeding(f, e, 0, map[types.Object]bool{}) {
							if strings.HasSuffix(cn, "."+other) {
								foreign = cn
							}
							if strings.HasSuffix(cn, "."+pr[1]) {
								own = true
							}
						}
					}
				}
				argOK := len(c.Args) == 1
				if argOK {
					argOK = false
					for _, cn := range p.callsFeeding(f, c.Args[0], 0, map[types.Object]bool{}) {
						if strings.HasSuffix(cn, "."+pr[1]) {
							argOK = true
						}
					}
				}
				r.Check(foreign == "" && own && argOK, "copyCandidateActivity: "+pr[0], p.Pos(c.Pos()), "condition and value depend on "+pr[1]+" only", fmt.Sprintf("the carried-over %s depends on %s (value from %s: %v): a replaced remote that was heard from but never written to loses its last-received time, the next tick measures an unbounded silence and the agent reports Disconnected / Failed for a peer heard milliseconds ago", pr[1], orQ(foreign), pr[1], argOK))
				return true
			})
			if n == 0 {
				r.Fail("copyCandidateActivity: "+pr[0], p.Pos(f.Body.Pos()), "the "+pr[1]+" time is no longer carried over to the replacing candidate")
			}
		}
	}
}

func hasPrefixKey(m map[string]string, name string) bool {
	for k := range m {
		if k == name || strings.HasPrefix(k, name+"#") {
			return true
		}
	}
	return false
}

// localByDef: the local variable of f (nested literals included) that has an
// assignment whose right-hand side satisfies pred. Roles of locals are resolved
// through what defines them, never through their names.
func (p *Prog) localByDef(f *Func, pred func(rhs ast.Expr) bool) types.Object {
	var found types.Object
	if f == nil || f.Body == nil {
		return nil
	}
	ast.Inspect(f.Body, func(n ast.Node) bool {
		switch x := n.(type) {
		case *ast.AssignStmt:
			if len(x.Lhs) == len(x.Rhs) {
				for i, l := range x.Lhs {
					if id, ok := unparen(l).(*ast.Ident); ok && found == nil && pred(x.Rhs[i]) {
						if v, ok := p.ObjOf(id).(*types.Var); ok && !v.IsField() {
							found = v
						}
					}
				}
			}
		case *ast.ValueSpec:
			if len(x.Names) == len(x.Values) {
				for i, nm := range x.Names {
					if found == nil && pred(x.Values[i]) {
						found = p.ObjOf(nm)
					}
				}
			}
		}
		return true
	})
	return found
}

func (p *Prog) isObj(e ast.Expr, o types.Object) bool {
	id, ok := unparen(e).(*ast.Ident)
	return ok && o != nil && p.ObjOf(id) == o
}

// isLoc: e denotes the storage location o — a local variable (by object) or a struct field (by field).
func (p *Prog) isLoc(e ast.Expr, o types.Object) bool {
	if o == nil {
		return false
	}
	e = unparen(e)
	if id, ok := e.(*ast.Ident); ok {
		return p.ObjOf(id) == o
	}
	if fv := p.FieldOf(e); fv != nil {
		return types.Object(fv) == o
	}
	return false
}

// locByDef: the location (local or field) that some assignment in f1 / f2 — or a field of a composite
// literal there — gives a value accepted by pred. Roles of state variables are resolved by what is
// stored in them, not by their names or by whether they are locals or fields.
func (p *Prog) locByDef(f1, f2 *Func, pred func(rhs ast.Expr) bool) types.Object {
	var found types.Object
	for _, f := range []*Func{f1, f2} {
		if f == nil || found != nil {
			continue
		}
		var scan func(g *Func)
		scan = func(g *Func) {
			walkBody(g, func(n ast.Node) bool {
				switch x := n.(type) {
				case *ast.AssignStmt:
					if len(x.Lhs) == len(x.Rhs) {
						for i, rr := range x.Rhs {
							if found == nil && pred(rr) {
								l := unparen(x.Lhs[i])
								if id, ok := l.(*ast.Ident); ok {
									found = p.ObjOf(id)
								} else if fv := p.FieldOf(l); fv != nil {
									found = fv
								}
							}
						}
					}
				case *ast.ValueSpec:
					for i, v := range x.Values {
						if found == nil && i < len(x.Names) && pred(v) {
							found = p.ObjOf(x.Names[i])
						}
					}
				case *ast.KeyValueExpr:
					if found == nil && pred(x.Value) {
						if id, ok := x.Key.(*ast.Ident); ok {
							if v, isVar := p.ObjOf(id).(*types.Var); isVar && v.IsField() {
								found = v
							}
						}
					}
				}
				return true
			})
			for _, l := range g.Lits {
				scan(l)
			}
		}
		scan(f)
	}
	return found
}

// checkTickFuncs: the function literals handed to taskloop.Loop.Run that call the selector's
// ContactCandidates and belong to the connectivity-check loop (inside connectivityChecks or a
// function it calls directly).
func (p *Prog) checkTickFuncs(cc *Func) []*Func {
	if cc == nil {
		return nil
	}
	roots := map[*Func]bool{cc: true}
	var mark func(g *Func)
	mark = func(g *Func) {
		walkBody(g, func(n ast.Node) bool {
			if c, ok := n.(*ast.CallExpr); ok {
				if o := p.Callee(c); o != nil {
					if h := p.ByObj[o]; h != nil && h.Body != nil && h.Pkg == p.Ice && strings.HasPrefix(h.Name, "Agent.") {
						roots[h] = true
					}
				}
			}
			return true
		})
		for _, l := range g.Lits {
			mark(l)
		}
	}
	mark(cc)
	var out []*Func
	for _, f := range p.AllFuncs {
		if f.Lit == nil || !roots[f.Root()] {
			continue
		}
		if len(p.CallsTo(f, false, "ice.pairCandidateSelector.ContactCandidates")) == 0 {
			continue
		}
		isTask := false
		for _, e := range p.Callers(f) {
			if e.Kind == "arg" && e.Via == "taskloop.Loop.Run" {
				isTask = true
			}
		}
		if isTask {
			out = append(out, f)
		}
	}
	return out
}

// tickRoles: the check tick — the loop task(s) that contact the candidates, wherever the refactoring of the
// day put them (a closure inside connectivityChecks, or a method it calls) — and the locations (locals or
// fields) that hold its state, identified by what is stored in them.
func (p *Prog) tickRoles(ccFn *Func) (ticks []*Func, checkingTimeoutObj, checkingSinceObj, lastStateObj types.Object) {
	ticks = p.checkTickFuncs(ccFn)
	var tick0 *Func
	if len(ticks) > 0 {
		tick0 = ticks[0]
	}
	checkingTimeoutObj = p.locByDef(ccFn, tick0, func(rhs ast.Expr) bool {
		c, ok := unparen(rhs).(*ast.CallExpr)
		return ok && p.CalleeName(c) == "ice.Agent.initialCheckingTimeout"
	})
	checkingSinceObj = p.locByDef(tick0, nil, func(rhs ast.Expr) bool {
		c, ok := unparen(rhs).(*ast.CallExpr)
		return ok && p.CalleeName(c) == "time.Now"
	})
	// the previous-tick state: the location that outlives the tick (a variable captured from outside it, or a
	// field) and is assigned the agent's state, directly or through a snapshot local — not that snapshot local
	if tick0 != nil && tick0.Body != nil {
		ast.Inspect(tick0.Body, func(n ast.Node) bool {
			as, ok := n.(*ast.AssignStmt)
			if !ok || as.Tok != token.ASSIGN || len(as.Lhs) != len(as.Rhs) || lastStateObj != nil {
				return true
			}
			for i, rr := range as.Rhs {
				if !p.IsField(p.Deref(p.EnclosingFunc(rr.Pos()), rr), "Agent.connectionState") {
					continue
				}
				l := unparen(as.Lhs[i])
				if id, ok := l.(*ast.Ident); ok {
					if v, ok := p.ObjOf(id).(*types.Var); ok && (v.Pos() < tick0.Body.Pos() || v.Pos() > tick0.Body.End()) {
						lastStateObj = v
					}
				} else if fv := p.FieldOf(l); fv != nil {
					lastStateObj = fv
				}
			}
			return true
		})
	}
	if lastStateObj == nil {
		lastStateObj = p.locByDef(tick0, nil, func(rhs ast.Expr) bool { return p.IsField(rhs, "Agent.connectionState") })
	}
	return
}

// checkTickDiscipline: the decision table of the check tick and "the previous state is recorded on every
// exit" (C04 R4.5; shared with C01 R1.12 and C06 R6.9).
func checkTickDiscipline(p *Prog, r *Report) {
	ticks, checkingTimeoutObj, checkingSinceObj, lastStateObj := p.tickRoles(p.Fn("Agent.connectivityChecks"))
	r.Anchor("check tick closure", len(ticks) > 0)
	for _, tick := range ticks {
		t := p.NewTable(tick)
		t.Event = func(n ast.Node, _ *TEnv) []string {
			var out []string
			if as, ok := n.(*ast.AssignStmt); ok && len(as.Lhs) == 1 {
				if p.isLoc(as.Lhs[0], checkingSinceObj) {
					out = append(out, "arm")
				}
			}
			for _, c := range p.NodeCalls(n) {
				switch p.CalleeName(c) {
				case "ice.Agent.updateConnectionState":
					out = append(out, "state="+strings.TrimPrefix(p.constName(c.Args[0]), "ConnectionState"))
				case "ice.pairCandidateSelector.ContactCandidates":
					out = append(out, "contact")
				}
			}
			return out
		}
		t.Run()
		for _, sp := range t.Semantic(func(a *TAtom) (string, bool) {
			switch a.Kind {
			case "enum":
				if p.IsField(a.X, "Agent.connectionState") {
					return "state", false
				}
				if p.isLoc(a.X, checkingTimeoutObj) {
					return "enabled", false
				}
			case "ord":
				if p.MentionsField(a.X, "Agent.connectionState") || p.MentionsField(a.Y, "Agent.connectionState") {
					return "entered", false
				}
				// checkingTimeout ? time.Since(...)
				if p.isLoc(a.X, checkingTimeoutObj) {
					return "deadline", false
				}
				if p.isLoc(a.Y, checkingTimeoutObj) {
					return "deadline", true
				}
			}
			return "", false
		}) {
			if len(sp.Unclassified) > 0 {
				r.Fail("check tick", sp.EndPos, "the tick depends on an unexpected condition "+strings.Join(sp.Unclassified, ","))
				continue
			}
			ev := strings.Join(sp.Events, ",")
			want := "contact"
			switch {
			case enumConsistent(sp.Vals, "state", "ConnectionStateFailed") && sp.Vals["state"] == "==ConnectionStateFailed":
				want = ""
			case sp.Vals["state#2"] == "==ConnectionStateChecking" || sp.Vals["state"] == "==ConnectionStateChecking":
				armed := sp.Vals["entered"] != "EQ"
				pre := ""
				if armed {
					pre = "arm,"
				}
				if sp.Vals["enabled"] == "!=0" && sp.Vals["deadline"] == "LT" {
					want = pre + "state=Failed"
				} else {
					want = pre + "contact"
				}
			}
			r.Check(ev == want, "check tick row "+rowKey(sp, "state", "state#2", "entered", "enabled", "deadline"), sp.EndPos, "-> ["+want+"]", "the tick does ["+ev+"], the documented behaviour is ["+want+"]")
		}
		// what is recorded is the state at that moment: the field itself, or a snapshot of it taken in the
		// same function literal with nothing but plain local statements in between — not a snapshot taken
		// before the tick's own transitions (the Failed it has just requested would be recorded as Checking
		// and a Restart before the next tick would then not re-arm the deadline)
		if tick.Body != nil && lastStateObj != nil {
			var lits []ast.Node
			var visit func(n ast.Node) bool
			visit = func(n ast.Node) bool {
				switch x := n.(type) {
				case *ast.FuncLit:
					lits = append(lits, x.Body)
					ast.Inspect(x.Body, visit)
					lits = lits[:len(lits)-1]
					return false
				case *ast.AssignStmt:
					if len(x.Lhs) != 1 || len(x.Rhs) != 1 || !p.isLoc(x.Lhs[0], lastStateObj) {
						return true
					}
					scope := ast.Node(tick.Body)
					if len(lits) > 0 {
						scope = lits[len(lits)-1]
					}
					fresh := p.IsField(x.Rhs[0], "Agent.connectionState")
					if id, ok := unparen(x.Rhs[0]).(*ast.Ident); ok && !fresh {
						if v, ok := p.ObjOf(id).(*types.Var); ok && v.Pos() > scope.Pos() && v.Pos() < scope.End() {
							if d, okD := p.SingleDef(tick, v); okD && d.Rhs != nil && p.IsField(d.Rhs, "Agent.connectionState") {
								fresh = true
								ast.Inspect(scope, func(y ast.Node) bool {
									if y == nil || y.Pos() <= v.Pos() || y.Pos() >= x.Pos() {
										return true
									}
									switch z := y.(type) {
									case *ast.CallExpr, *ast.GoStmt, *ast.DeferStmt, *ast.SendStmt, *ast.UnaryExpr:
										if u, isU := z.(*ast.UnaryExpr); !isU || u.Op == token.ARROW {
											fresh = false
										}
									case *ast.AssignStmt:
										for _, l := range z.Lhs {
											if _, isId := unparen(l).(*ast.Ident); !isId {
												fresh = false
											}
										}
									}
									return true
								})
							}
						}
					}
					r.Check(fresh, "check tick: the recorded previous state is the state at the time of recording", p.Pos(x.Pos()), "the value stored is Agent.connectionState read there", "the tick records "+types.ExprString(x.Rhs[0])+", which is not the agent's state at that moment (a snapshot taken before the tick's own transition): after deadline -> Failed and a Restart before the next tick, the Checking deadline is not re-armed and the agent fails early")
				}
				return true
			}
			ast.Inspect(tick.Body, visit)
		}
		// previous-tick state recorded on every exit: a deferred assignment
		deferred := false
		walkBody(tick, func(n ast.Node) bool {
			if d, ok := n.(*ast.DeferStmt); ok {
				if lit, ok := unparen(d.Call.Fun).(*ast.FuncLit); ok {
					ast.Inspect(lit.Body, func(x ast.Node) bool {
						if as, ok := x.(*ast.AssignStmt); ok && len(as.Lhs) == 1 {
							if p.isLoc(as.Lhs[0], lastStateObj) && p.IsField(as.Rhs[0], "Agent.connectionState") {
								deferred = true
							}
						}
						return true
					})
				}
			}
			return true
		})
		if !deferred {
			// otherwise every exit path must pass through the assignment
			g := p.CFG(tick)
			isAssign := func(n ast.Node) bool {
				as, ok := n.(*ast.AssignStmt)
				if !ok || len(as.Lhs) != 1 {
					return false
				}
				return p.isLoc(as.Lhs[0], lastStateObj)
			}
			_, escapes := g.PathAvoiding(Loc{g.Entry, 0}, isAssign, func(b *Block) bool { return b == g.Exit }, nil)
			r.Check(!escapes, "check tick: previous state recorded on every exit", p.Pos(tick.Body.Pos()), "every path assigns lastConnectionState", "some exit of the tick (the Failed / deadline early returns) does not record the state seen: after Restart the Checking deadline is not re-armed and the agent fails at once")
		} else {
			r.OK("check tick: previous state recorded on every exit", p.Pos(tick.Body.Pos()), "deferred assignment of lastConnectionState")
		}
	}

}

// timingParamRoles: which parameter of connectionStateForDisconnection is the silence (the one compared with
// Agent.disconnectedTimeout) and which the total time to failure (the other one); (0, 1) when that cannot be told.
func timingParamRoles(p *Prog, csd *Func) (sil, tot int) {
	p0, p1 := p.paramObj(csd, 0), p.paramObj(csd, 1)
	if p0 == nil || p1 == nil {
		return 0, 1
	}
	with := map[types.Object]bool{}
	walkBody(csd, func(x ast.Node) bool {
		be, ok := x.(*ast.BinaryExpr)
		if !ok {
			return true
		}
		for _, side := range [][2]ast.Expr{{be.X, be.Y}, {be.Y, be.X}} {
			if p.IsField(side[0], "Agent.disconnectedTimeout") {
				if id, ok := unparen(side[1]).(*ast.Ident); ok {
					with[p.ObjOf(id)] = true
				}
			}
		}
		return true
	})
	if with[p1] && !with[p0] {
		return 1, 0
	}
	return 0, 1
}
