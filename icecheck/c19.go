package main

import (
	"fmt"
	"go/ast"
	"go/token"
	"go/types"
	"sort"
	"strconv"
	"strings"
)

func init() { register("C19", checkC19) }

func isTruncate(p *Prog, n ast.Node) bool {
	as, ok := n.(*ast.AssignStmt)
	if !ok || len(as.Lhs) != 1 || len(as.Rhs) != 1 {
		return false
	}
	sl, ok := unparen(as.Rhs[0]).(*ast.SliceExpr)
	if !ok || sl.High == nil {
		return false
	}
	hi, _ := p.ConstVal(sl.High)
	return hi == "0" && p.Canon(sl.X) == p.Canon(as.Lhs[0])
}

func checkC19(p *Prog, r *Report) {
	// ---- R19.1 specificity rank ------------------------------------------------
	r.Rule("R19.1", "catchAllSpecificity ranks, in every lookup context (lookup interface empty or not): interface+CIDR > interface > CIDR > global.", 4)
	cas := p.Fn("catchAllSpecificity")
	if r.Anchor("catchAllSpecificity", cas != nil) {
		pIface := p.paramObj(cas, 1)
		t := p.NewTable(cas)
		t.Event = func(n ast.Node, _ *TEnv) []string {
			switch x := n.(type) {
			case *ast.AssignStmt:
				if x.Tok == token.ADD_ASSIGN && len(x.Rhs) == 1 {
					if c, ok := p.ConstVal(x.Rhs[0]); ok {
						return []string{"+" + c}
					}
					return []string{"+?"}
				}
				if x.Tok == token.SUB_ASSIGN || x.Tok == token.MUL_ASSIGN {
					return []string{"?"}
				}
			case *ast.IncDecStmt:
				if x.Tok == token.INC {
					return []string{"+1"}
				}
				return []string{"?"}
			}
			return nil
		}
		t.Run()
		sem := t.Semantic(func(a *TAtom) (string, bool) {
			if a.Kind == "enum" {
				switch {
				case p.IsField(a.X, "AddressRewriteRule.Iface"):
					return "ruleIface", false
				case p.IsField(a.X, "addressRewriteRuleMapping.cidr"):
					return "ruleCIDR", false
				}
				if id, ok := unparen(a.X).(*ast.Ident); ok && p.ObjOf(id) == pIface {
					return "lookupIface", false
				}
			}
			return "", false
		})
		rank := func(lookupSet, ruleIface, ruleCIDR bool) (int, bool) {
			for _, sp := range sem {
				ok := true
				chk := func(name string, set bool, nilName string) {
					v, has := sp.Vals[name]
					if !has {
						return
					}
					isSet := strings.HasPrefix(v, "!=")
					if isSet != set {
						ok = false
					}
				}
				chk("lookupIface", lookupSet, "")
				chk("ruleIface", ruleIface, "")
				chk("ruleCIDR", ruleCIDR, "")
				if !ok {
					continue
				}
				sum := 0
				for _, e := range sp.Events {
					if !strings.HasPrefix(e, "+") || e == "+?" {
						return 0, false
					}
					n, err := strconv.Atoi(e[1:])
					if err != nil {
						return 0, false
					}
					sum += n
				}
				return sum, true
			}
			return 0, false
		}
		bad := false
		for _, sp := range sem {
			if len(sp.Unclassified) > 0 {
				bad = true
				r.Fail("catchAllSpecificity", sp.EndPos, "rank depends on an unexpected condition "+strings.Join(sp.Unclassified, ","))
			}
		}
		if !bad {
			for _, lookup := range []bool{false, true} {
				ctx := "lookup without interface"
				if lookup {
					ctx = "lookup with interface"
				}
				both, ok1 := rank(lookup, true, true)
				ifc, ok2 := rank(lookup, true, false)
				cidr, ok3 := rank(lookup, false, true)
				glob, ok4 := rank(lookup, false, false)
				if !(ok1 && ok2 && ok3 && ok4) {
					r.Unknown("catchAllSpecificity ranks ("+ctx+")", p.Pos(cas.Body.Pos()), "rank is not a sum of constants on some path")
					continue
				}
				det := fmt.Sprintf("iface+CIDR=%d iface=%d CIDR=%d global=%d", both, ifc, cidr, glob)
				r.Check(both > ifc, "rank(iface+CIDR) > rank(iface) | "+ctx, p.Pos(cas.Body.Pos()), det, det+": interface+CIDR does not outrank interface-only")
				r.Check(ifc > cidr, "rank(iface) > rank(CIDR) | "+ctx, p.Pos(cas.Body.Pos()), det, det+": interface-only does not outrank CIDR-only")
				r.Check(cidr > glob, "rank(CIDR) > rank(global) | "+ctx, p.Pos(cas.Body.Pos()), det, det+": a CIDR-only rule ranks equal to a global rule in this context, so declaration order decides where the documentation says CIDR > global")
			}
		}
	}

	// ---- R19.2 selection loop ---------------------------------------------------
	r.Rule("R19.2", "evaluateRewriteRules, per rule in declaration order: a rule rejected by the match predicate is skipped; an explicit Local entry for the lookup address returns at once with that rule's mode; a catch-all becomes the candidate only if there is none yet or it is strictly more specific; after the loop the candidate (if any) is returned with its mode.", 5)
	ev := p.Fn("evaluateRewriteRules")
	if r.Anchor("evaluateRewriteRules", ev != nil) {
		t := p.NewTable(ev)
		t.MaxRange = 2
		// roles of the locals, by what defines them
		specObj := p.localByDef(ev, func(rhs ast.Expr) bool {
			c, ok := unparen(rhs).(*ast.CallExpr)
			return ok && p.CalleeName(c) == "ice.catchAllSpecificity"
		})
		bestObj := p.localByDef(ev, func(rhs ast.Expr) bool { return p.isObj(rhs, specObj) })
		takeObj := p.localByDef(ev, func(rhs ast.Expr) bool { return p.MentionsField(rhs, "ipMapping.ipSole") })
		modeObj := p.localByDef(ev, func(rhs ast.Expr) bool { return p.IsField(rhs, "addressRewriteRuleMapping.mode") })
		r.Anchor("evaluateRewriteRules: rank / best / candidate / mode variables", specObj != nil && bestObj != nil && takeObj != nil && modeObj != nil)
		t.Event = func(n ast.Node, _ *TEnv) []string {
			switch x := n.(type) {
			case *RangeAssign:
				return []string{"iter"}
			case *ast.AssignStmt:
				if len(x.Lhs) == 1 {
					switch {
					case p.isObj(x.Lhs[0], takeObj):
						return []string{"take"}
					case p.isObj(x.Lhs[0], modeObj):
						if p.IsField(x.Rhs[0], "addressRewriteRuleMapping.mode") {
							return []string{"mode"}
						}
						return []string{"mode?"}
					case p.isObj(x.Lhs[0], bestObj):
						return []string{"best"}
					}
				}
			case *ast.ReturnStmt:
				if len(x.Results) == 3 {
					m := "mode?"
					if p.IsField(x.Results[2], "addressRewriteRuleMapping.mode") {
						m = "rule.mode"
					} else if p.isObj(x.Results[2], modeObj) {
						m = "catchAllMode"
					} else if c := p.constName(x.Results[2]); c != "" {
						m = c
					}
					mt, _ := p.ConstVal(x.Results[1])
					return []string{"return(matched=" + mt + "," + m + ")"}
				}
			}
			return nil
		}
		t.Run()
		classify := func(a *TAtom) (string, bool) {
			switch a.Kind {
			case "bool":
				if p.atomIsCall(ev, a.X, "ice.ruleMappingForLookup") {
					return "match", false
				}
				if p.IsField(a.X, "ipMapping.catchAllSet") {
					return "catchAll", false
				}
				if id, ok := unparen(a.X).(*ast.Ident); ok {
					if o := p.ObjOf(id); o != nil {
						if d, ok := p.SingleDef(ev, o); ok {
							if ix, ok := unparen(d.Rhs).(*ast.IndexExpr); ok && p.IsField(ix.X, "ipMapping.ipMap") {
								return "explicit", false
							}
						}
					}
				}
			case "ord":
				if p.isObj(a.X, specObj) && p.isObj(a.Y, bestObj) {
					return "spec", false
				}
				if p.isObj(a.X, bestObj) && p.isObj(a.Y, specObj) {
					return "spec", true
				}
			case "range":
				return "-", false
			}
			return "", false
		}
		okPaths, badPaths := 0, 0
		for _, pa := range t.Paths {
			if pa.End == "loop-limit" {
				continue
			}
			// replay the path against the oracle
			have := false
			var want []string
			ended := false
			var unclassified []string
			// decisions of one iteration are collected and evaluated when the iteration ends, so that the
			// verdict does not depend on the order in which the code evaluates them
			iterCatchAll, iterSpec := false, ""
			flush := func() {
				if iterCatchAll && (!have || iterSpec == "GT") {
					want = append(want, "take", "mode", "best")
					have = true
				}
				iterCatchAll, iterSpec = false, ""
			}
			for _, d := range pa.Hist {
				name, flip := classify(d.Atom)
				val := d.Val
				if flip {
					val = flipMask(val)
				}
				switch {
				case d.Atom.Kind == "range":
					flush()
					if d.Val == "iter" {
						want = append(want, "iter")
					} else {
						if have {
							want = append(want, "return(matched=true,catchAllMode)")
						} else {
							want = append(want, "return(matched=false,addressRewriteModeUnspecified)")
						}
						ended = true
					}
				case name == "":
					unclassified = append(unclassified, d.Atom.Key)
				case name == "explicit" && val == "true":
					want = append(want, "return(matched=true,rule.mode)")
					ended = true
				case name == "catchAll" && val == "true":
					iterCatchAll = true
				case name == "spec":
					iterSpec = val
				}
			}
			flush()
			_ = ended
			if len(unclassified) > 0 {
				badPaths++
				r.Fail("evaluateRewriteRules", pa.EndPos, "selection depends on an unexpected condition "+strings.Join(unclassified, ","))
				continue
			}
			// the "take" events may be ordered take,mode,best in any order within the block
			norm := func(ev []string) string {
				var out []string
				i := 0
				for i < len(ev) {
					if ev[i] == "take" || ev[i] == "mode" || ev[i] == "best" {
						set := map[string]bool{}
						for i < len(ev) && (ev[i] == "take" || ev[i] == "mode" || ev[i] == "best") && !set[ev[i]] {
							set[ev[i]] = true
							i++
						}
						if set["take"] && set["mode"] && set["best"] {
							out = append(out, "TAKE")
						} else {
							out = append(out, fmt.Sprintf("partial-take%v", set))
						}
						continue
					}
					out = append(out, ev[i])
					i++
				}
				return strings.Join(out, " ")
			}
			got, exp := norm(pa.Events), norm(want)
			if got == exp {
				okPaths++
			} else {
				badPaths++
				if badPaths <= 4 {
					r.Fail("evaluateRewriteRules step semantics", pa.EndPos, "for decisions ["+strings.Join(pa.HistKeys(), "; ")+"] the code does ["+got+"], the documented precedence requires ["+exp+"]")
				}
			}
		}
		if badPaths == 0 {
			r.OK("evaluateRewriteRules step semantics", p.Pos(ev.Body.Pos()), fmt.Sprintf("%d two-rule paths replayed against the documented precedence", okPaths))
			r.OK("evaluateRewriteRules: skip on mismatch", p.Pos(ev.Body.Pos()), "covered by the replay")
			r.OK("evaluateRewriteRules: explicit hit returns", p.Pos(ev.Body.Pos()), "covered by the replay")
			r.OK("evaluateRewriteRules: strictly more specific replaces", p.Pos(ev.Body.Pos()), "covered by the replay")
			r.OK("evaluateRewriteRules: result after loop", p.Pos(ev.Body.Pos()), "covered by the replay")
		}
		r.Extra["R19.2_paths"] = len(t.Paths)
		if len(t.Problems) > 0 {
			r.Unknown("evaluateRewriteRules", p.Pos(ev.Body.Pos()), strings.Join(t.Problems, "; "))
		}
		// the explicit lookup key is the lookup address; specificity comes from catchAllSpecificity
		ok := false
		walkBody(ev, func(n ast.Node) bool {
			if ix, ok2 := n.(*ast.IndexExpr); ok2 && p.IsField(ix.X, "ipMapping.ipMap") {
				if c, ok3 := unparen(ix.Index).(*ast.CallExpr); ok3 && p.CalleeName(c) == "net.IP.String" {
					if sel, ok4 := unparen(c.Fun).(*ast.SelectorExpr); ok4 {
						if id, ok5 := unparen(sel.X).(*ast.Ident); ok5 && p.ObjOf(id) == p.paramObj(ev, 1) {
							ok = true
						}
					}
				}
			}
			return true
		})
		r.Check(ok, "evaluateRewriteRules: explicit key", p.Pos(ev.Body.Pos()), "ipMap[locIP.String()]", "the explicit Local table is not indexed by the lookup address")
	}

	// ---- R19.3 match predicate -----------------------------------------------------
	r.Rule("R19.3", "ruleMappingForLookup accepts a rule iff (rule has no interface or it equals the lookup interface) and (rule has no CIDR or it contains the lookup address) and the mapping of the lookup's IP family is valid.", 6)
	rm := p.Fn("ruleMappingForLookup")
	if r.Anchor("ruleMappingForLookup", rm != nil) {
		t := p.NewTable(rm)
		t.Event = func(n ast.Node, _ *TEnv) []string {
			var out []string
			for _, c := range p.NodeCalls(n) {
				if p.CalleeName(c) == "ice.addressRewriteRuleMapping.mappingForFamily" && len(c.Args) == 1 {
					if id, ok := unparen(c.Args[0]).(*ast.Ident); ok && p.ObjOf(id) == p.paramObj(rm, 2) {
						out = append(out, "family(lookup)")
					} else {
						out = append(out, "family(?)")
					}
				}
			}
			return out
		}
		t.Run()
		for _, sp := range t.Semantic(func(a *TAtom) (string, bool) {
			switch a.Kind {
			case "enum":
				if p.IsField(a.X, "AddressRewriteRule.Iface") {
					return "ruleIface", false
				}
				if p.IsField(a.X, "addressRewriteRuleMapping.cidr") {
					return "cidr", false
				}
			case "ord":
				if p.MentionsField(a.X, "AddressRewriteRule.Iface") || p.MentionsField(a.Y, "AddressRewriteRule.Iface") {
					return "ifaceEq", false
				}
			case "bool":
				if c, ok := unparen(a.X).(*ast.CallExpr); ok && p.CalleeName(c) == "net.IPNet.Contains" {
					return "contains", false
				}
				if p.IsField(a.X, "ipMapping.valid") {
					return "valid", false
				}
			}
			return "", false
		}) {
			if len(sp.Unclassified) > 0 {
				r.Fail("ruleMappingForLookup", sp.EndPos, "match depends on an unexpected condition "+strings.Join(sp.Unclassified, ","))
				continue
			}
			want := true
			if sp.Vals["ruleIface"] == `!=""` && sp.Vals["ifaceEq"] != "EQ" {
				want = false
			}
			if sp.Vals["cidr"] == "!=nil" && sp.Vals["contains"] == "false" {
				want = false
			}
			if v, ok := sp.Vals["valid"]; ok && v == "false" {
				want = false
			}
			if want && sp.Vals["valid"] != "true" {
				r.Fail("ruleMappingForLookup row "+sp.String(), sp.EndPos, "rule accepted without testing that the family mapping is valid")
				continue
			}
			got := len(sp.Results) == 2 && sp.Results[1] == "true"
			famOK := !got || sp.Has("family(lookup)")
			if got {
				// an accepting path has examined both scopes of the rule: a path that accepts without having looked
				// at the interface or at the CIDR accepts rules whose other restriction excludes the address
				_, sawIface := sp.Vals["ruleIface"]
				_, sawCIDR := sp.Vals["cidr"]
				if !sawIface || !sawCIDR {
					r.Fail("ruleMappingForLookup row "+sp.String(), sp.EndPos, fmt.Sprintf("the rule is accepted on a path that never examined its interface restriction (%v) / its CIDR restriction (%v): a rule scoped by both is matched although one of them excludes the address", sawIface, sawCIDR))
					continue
				}
			}
			r.Check(got == want && famOK, "ruleMappingForLookup row "+rowKey(sp, "ruleIface", "ifaceEq", "cidr", "contains", "valid"), sp.EndPos,
				"accept="+boolStr(want), "the code accepts="+boolStr(got)+" (family from lookup: "+boolStr(famOK)+"), the documentation requires accept="+boolStr(want))
		}
	}

	// ---- R19.4 appliers agree -----------------------------------------------------
	r.Rule("R19.4", "Every applier of a lookup result: unmatched -> keep the local address; replace with no externals -> drop the candidate; append with no externals -> keep; replace with externals -> advertise the externals instead; append with externals -> advertise both (server-reflexive: mapped only, the unmapped srflx comes from the STUN gatherer).", 16)
	for _, ap := range []struct {
		fn                 string
		orig               string // name of the variable holding the unmapped address list
		mappedOnlyOnAppend bool
	}{
		{"Agent.resolveRelayAddresses", "addresses", false},
		{"Agent.resolveSrflxAddresses", "addresses", true},
		{"Agent.applyHostRewriteForUDPMux", "candidateIPs", false},
		{"Agent.applyHostAddressRewrite", "mappedAddrs", false},
	} {
		f := p.Fn(ap.fn)
		if !r.Anchor(ap.fn, f != nil) {
			continue
		}
		// roles, not names: the list of unmapped addresses is the slice parameter of the result's type, or the
		// local initialised with a composite literal; the mapped list is result #0 of findExternalIPs
		origName, mappedName := "\x00", "\x00"
		if sig, okS := p.TypeOfFunc(f); okS && sig.Results().Len() >= 1 {
			rt := typeStr(sig.Results().At(0).Type())
			for i := 0; ; i++ {
				o := p.paramObj(f, i)
				if o == nil {
					break
				}
				if typeStr(o.Type()) == rt {
					origName = o.Name()
					break
				}
			}
			if origName == "\x00" {
				if o := p.localByDef(f, func(rhs ast.Expr) bool {
					cl, okC := unparen(rhs).(*ast.CompositeLit)
					return okC && typeStr(p.TypeOf(cl)) == rt
				}); o != nil {
					origName = o.Name()
				}
			}
		}
		walkBody(f, func(n ast.Node) bool {
			if as, okA := n.(*ast.AssignStmt); okA && len(as.Rhs) == 1 && len(as.Lhs) >= 1 {
				if c, okC := unparen(as.Rhs[0]).(*ast.CallExpr); okC && p.CalleeName(c) == "ice.addressRewriteMapper.findExternalIPs" {
					if id, okI := as.Lhs[0].(*ast.Ident); okI {
						mappedName = id.Name
					}
				}
			}
			return true
		})
		t := p.NewTable(f)
		t.Event = func(n ast.Node, _ *TEnv) []string {
			var out []string
			if isTruncate(p, n) {
				out = append(out, "truncate")
			}
			for _, c := range p.NodeCalls(n) {
				if p.CalleeName(c) == "ice.appendHostMappedAddrs" {
					out = append(out, "append-mapped")
				}
			}
			return out
		}
		t.Run()
		rows := 0
		for _, sp := range t.Semantic(func(a *TAtom) (string, bool) {
			switch a.Kind {
			case "bool":
				if c, i, ok := p.ResolveCall(f, a.X); ok && p.CalleeName(c) == "ice.addressRewriteMapper.findExternalIPs" && i == 1 {
					return "matched", false
				}
				if p.atomIsCall(f, a.X, "ice.Agent.shouldRewriteCandidateType") {
					return "enabled", false
				}
			case "enum":
				if c, i, ok := p.ResolveCall(f, a.X); ok && p.CalleeName(c) == "ice.addressRewriteMapper.findExternalIPs" {
					switch i {
					case 2:
						return "mode", false
					case 3:
						return "err", false
					}
				}
				if c, ok := unparen(a.X).(*ast.CallExpr); ok && p.CalleeName(c) == "builtin.len" {
					return "len", false
				}
			}
			return "", false
		}) {
			if len(sp.Unclassified) > 0 {
				r.Fail(ap.fn, sp.EndPos, "outcome depends on an unexpected condition "+strings.Join(sp.Unclassified, ","))
				continue
			}
			if sp.Vals["err"] == "!=nil" || sp.Vals["enabled"] == "false" {
				continue // error handling / feature off: not specified by the property
			}
			if len(sp.Results) != 2 {
				r.Fail(ap.fn, sp.EndPos, "unexpected result shape")
				continue
			}
			res, ok := sp.Results[0], sp.Results[1] == "true"
			// classify the returned list
			kind := "?"
			hasOrig := strings.Contains(res, "$"+origName+"#")
			hasMapped := strings.Contains(res, "$"+mappedName+"#") || sp.Has("append-mapped")
			isAppend := strings.HasPrefix(res, "builtin.append(") || sp.Has("append-mapped")
			switch {
			case !ok:
				kind = "drop"
			case sp.Has("truncate") && isAppend:
				kind = "mapped"
			case isAppend && hasOrig && hasMapped:
				kind = "orig+mapped"
			case hasOrig && !isAppend:
				kind = "orig"
			case strings.Contains(res, "$"+mappedName+"#") && !hasOrig:
				kind = "mapped"
			}
			replace := sp.Vals["mode"] == "==AddressRewriteReplace"
			empty := sp.Vals["len"] == "==0"
			want := ""
			switch {
			case sp.Vals["matched"] == "false":
				want = "orig"
			case ap.fn == "Agent.applyHostAddressRewrite":
				// emptiness is tested on the resulting list
				switch {
				case replace && empty:
					want = "drop"
				case replace:
					want = "mapped"
				default:
					want = "orig+mapped"
				}
			case replace && empty:
				want = "drop"
			case !replace && empty:
				want = "orig"
			case replace:
				want = "mapped"
			case ap.mappedOnlyOnAppend:
				want = "mapped"
			default:
				want = "orig+mapped"
			}
			rows++
			r.Check(kind == want, ap.fn+" row "+rowKey(sp, "matched", "mode", "len"), sp.EndPos, "-> "+want,
				"the applier yields "+kind+" ("+stripVarLines(res)+", ok="+boolStr(ok)+"), the documented semantics require "+want)
		}
		if rows < 4 {
			r.Fail(ap.fn+" rows", p.Pos(f.Body.Pos()), fmt.Sprintf("only %d rows of the application table were found", rows))
		}
	}
	// the srflx STUN gatherer runs iff the mapper does not replace
	if f := p.Fn("Agent.gatherServerReflexiveCandidates"); r.Anchor("Agent.gatherServerReflexiveCandidates", f != nil) {
		ok := false
		for _, l := range f.Lits {
			for _, c := range p.CallsTo(l, false, "ice.Agent.gatherCandidatesSrflx", "ice.Agent.gatherCandidatesSrflxUDPMux") {
				_ = c
				ok = true
			}
		}
		guard := false
		walkBody(f, func(n ast.Node) bool {
			if c, ok2 := n.(*ast.CallExpr); ok2 && p.CalleeName(c) == "ice.addressRewriteMapper.shouldReplace" {
				guard = true
			}
			return true
		})
		r.Check(ok && guard, "unmapped srflx gatherer enabled iff not replace", p.Pos(f.Body.Pos()), "guarded by !shouldReplace(srflx)", "the STUN srflx gatherer is not tied to the mapper's replace mode")
	}

	// ---- R19.6 family resolution at compile time ------------------------------------
	r.Rule("R19.6", "When a rule is compiled, the IP family it applies to is the family of its Local pin, else of its CIDR, else of the external address; the rule's Networks filter is applied to that same family and the mapping is stored under it (IPv4 and IPv6 mappings never cross families unless pinned by Local).", 4)
	if f := p.Fn("addExternalMappings"); r.Anchor("addExternalMappings", f != nil) {
		var filterArg, mapArg ast.Expr
		var filterCall *ast.CallExpr
		walkBody(f, func(n ast.Node) bool {
			if c, ok := n.(*ast.CallExpr); ok {
				switch p.CalleeName(c) {
				case "ice.addressRewriteRuleMapping.isFamilyAllowed":
					if len(c.Args) == 1 {
						filterArg, filterCall = c.Args[0], c
					}
				case "ice.addressRewriteRuleMapping.addImplicitMapping":
					if len(c.Args) == 4 {
						mapArg = c.Args[1]
					}
				}
			}
			return true
		})
		if !r.Anchor("addExternalMappings: family filter and mapping calls", filterArg != nil && mapArg != nil) {
			return
		}
		same := p.Canon(filterArg) == p.Canon(mapArg)
		r.Check(same, "addExternalMappings: Networks filter uses the mapping's family", p.Pos(filterCall.Pos()), "isFamilyAllowed(x) and addImplicitMapping(_, x, ...) use the same family variable",
			"the Networks filter tests "+stripVarLines(p.Canon(filterArg))+" but the mapping is stored under "+stripVarLines(p.Canon(mapArg))+": cross-family rules (Local or CIDR of the other family) are filtered by the wrong family")
		if id, ok := unparen(mapArg).(*ast.Ident); ok {
			o := p.ObjOf(id)
			// no assignment to the family variable can follow the filter
			loc, _ := p.CFG(f).Locate(filterCall)
			late := false
			for _, n := range p.CFG(f).NodesAfter(loc) {
				if as, ok := n.(*ast.AssignStmt); ok {
					for _, l := range as.Lhs {
						if lid, ok := unparen(l).(*ast.Ident); ok && p.ObjOf(lid) == o && as.Tok == token.ASSIGN {
							// assignments in the next loop iteration precede that iteration's filter
							if as.Pos() > filterCall.Pos() {
								late = true
							}
						}
					}
				}
			}
			r.Check(!late, "addExternalMappings: family resolved before the filter", p.Pos(filterCall.Pos()), "no later re-assignment", "the target family is re-assigned after the Networks filter was applied")
			// the resolution table: Local pin > CIDR > external family
			okLocal, okCIDR, okExt := false, false, false
			for _, d := range p.DefsOf(f, o) {
				if d.Rhs == nil {
					continue
				}
				facts, _ := p.FactsAtCall(f, d.Node)
				rhs := stripVarLines(p.Canon(d.Rhs))
				hasLocal := facts.Has(func(ft Fact) bool {
					id, ok := unparen(ft.X).(*ast.Ident)
					return ft.Op == "truth" && ft.Val && ok && p.ObjOf(id) == p.paramObj(f, 2)
				})
				noLocal := facts.Has(func(ft Fact) bool {
					id, ok := unparen(ft.X).(*ast.Ident)
					return ft.Op == "truth" && !ft.Val && ok && p.ObjOf(id) == p.paramObj(f, 2)
				})
				cidrSet := facts.Has(func(ft Fact) bool {
					return ft.Op == "==" && !ft.Val && p.isNilExpr(ft.Y) && p.IsField(ft.X, "addressRewriteRuleMapping.cidr")
				})
				switch {
				case hasLocal:
					if id2, ok := unparen(d.Rhs).(*ast.Ident); ok && p.ObjOf(id2) == p.paramObj(f, 4) {
						okLocal = true
					}
				case noLocal && cidrSet:
					if p.MentionsField(d.Rhs, "addressRewriteRuleMapping.cidr") && strings.Contains(rhs, "To4") {
						okCIDR = true
					}
				default:
					if c, i, ok := p.ResolveCall(f, d.Rhs); ok && p.CalleeName(c) == "ice.validateIPString" && i == 1 {
						okExt = true
					}
				}
			}
			r.Check(okLocal, "family resolution: Local pin wins", p.Pos(f.Body.Pos()), "under hasLocalAddr the family is the Local address's", "with a Local pin the rule's family is not taken from the Local address")
			r.Check(okCIDR, "family resolution: CIDR next", p.Pos(f.Body.Pos()), "without Local and with a CIDR the family is the CIDR's", "without a Local pin the CIDR's family is not used")
			r.Check(okExt, "family resolution: external family otherwise", p.Pos(f.Body.Pos()), "defaults to the external address's family", "the default family is not the external address's")
		} else {
			r.Unknown("addExternalMappings: family variable", p.Pos(f.Body.Pos()), "mapping family is not a local variable")
		}
	}

	// ---- R19.5 construction-time validation -----------------------------------------
	r.Rule("R19.5", "Invalid rule sets are rejected when the mapper is built: unsupported (peer-reflexive) type, unparsable CIDR, Local outside CIDR, unparsable Local/external IPs, '/' inside an external entry, duplicate legacy catch-alls.", 6)
	type errSite struct {
		fn, what string
		guard    func(f *Func, facts FactSet) bool
		errName  string
	}
	nm := p.Fn("newAddressRewriteMapper")
	if r.Anchor("newAddressRewriteMapper", nm != nil) {
		sites := []errSite{
			{"newAddressRewriteMapper", "peer-reflexive type rejected", func(f *Func, s FactSet) bool {
				return s.Has(func(ft Fact) bool {
					return ft.Op == "==" && ft.Val && p.constName(ft.Y) == "CandidateTypePeerReflexive"
				})
			}, "ErrUnsupportedNAT1To1IPCandidateType"},
			{"newAddressRewriteMapper", "CIDR parse failure rejected", func(f *Func, s FactSet) bool {
				_, ok := p.HasCallEqNil(s, f, "net.ParseCIDR", 2, false)
				return ok
			}, "ErrInvalidNAT1To1IPMapping"},
			{"newAddressRewriteMapper", "Local outside CIDR rejected", func(f *Func, s FactSet) bool {
				return s.Has(func(ft Fact) bool {
					if ft.Op != "truth" || ft.Val {
						return false
					}
					c, ok := unparen(ft.X).(*ast.CallExpr)
					return ok && p.CalleeName(c) == "net.IPNet.Contains"
				})
			}, "ErrInvalidNAT1To1IPMapping"},
			{"addExternalMappings", "'/' in external rejected", func(f *Func, s FactSet) bool {
				return s.Has(func(ft Fact) bool {
					if ft.Op != "==" || ft.Val {
						return false
					}
					c, ok := unparen(ft.X).(*ast.CallExpr)
					v, _ := p.ConstVal(ft.Y)
					return ok && p.CalleeName(c) == "builtin.len" && v == "1"
				})
			}, "ErrInvalidNAT1To1IPMapping"},
		}
		for _, s := range sites {
			f := p.Fn(s.fn)
			if !r.Anchor(s.fn, f != nil) {
				continue
			}
			s := s
			found := p.guardLeadsToError(f, func(ft Fact) bool { return s.guard(f, FactSet{ft.Key: ft}) }, "ice."+s.errName)
			r.Check(found, s.fn+": "+s.what, p.Pos(f.Body.Pos()), "error return "+s.errName+" under the guard", "no return of "+s.errName+" under the corresponding test: the invalid rule set is accepted")
		}
		// IP parse errors propagate
		for _, fn := range []string{"newAddressRewriteMapper", "addExternalMappings"} {
			f := p.Fn(fn)
			if f == nil {
				continue
			}
			for _, c := range p.CallsTo(f, false, "ice.validateIPString") {
				c := c
				ok := p.guardLeadsToError(f, func(ft Fact) bool {
					if ft.Op != "==" || ft.Val || ft.Y == nil || !p.isNilExpr(ft.Y) {
						return false
					}
					cc, i, okR := p.ResolveCall(f, ft.X)
					return okR && cc == c && i == 2
				}, "")
				r.Check(ok, fn+": bad IP rejected", p.Pos(c.Pos()), "validateIPString error is returned", "an unparsable IP string does not abort construction")
			}
		}
		// validateIPString itself
		if f := p.Fn("validateIPString"); f != nil {
			ok := false
			walkBody(f, func(n ast.Node) bool {
				if rs, ok2 := n.(*ast.ReturnStmt); ok2 && len(rs.Results) == 3 && p.MentionsObj(rs.Results[2], "ice.ErrInvalidNAT1To1IPMapping") {
					facts, _ := p.FactsAtCall(f, rs)
					if facts.Has(func(ft Fact) bool { return ft.Op == "==" && ft.Val && p.isNilExpr(ft.Y) }) {
						ok = true
					}
				}
				return true
			})
			r.Check(ok, "validateIPString rejects unparsable text", p.Pos(f.Body.Pos()), "net.ParseIP == nil -> error", "validateIPString does not reject unparsable IPs")
		}
		// duplicate legacy catch-alls
		if f := p.Fn("validateLegacyNAT1To1Entry"); r.Anchor("validateLegacyNAT1To1Entry", f != nil) {
			n := 0
			walkBody(f, func(x ast.Node) bool {
				if rs, ok := x.(*ast.ReturnStmt); ok && len(rs.Results) == 3 && p.MentionsObj(rs.Results[2], "ice.ErrInvalidNAT1To1IPMapping") {
					facts, _ := p.FactsAtCall(f, rs)
					if facts.Has(func(ft Fact) bool {
						if ft.Op != "truth" || !ft.Val {
							return false
						}
						id, ok := unparen(ft.X).(*ast.Ident)
						return ok && strings.HasPrefix(id.Name, "hasIPv")
					}) {
						n++
					}
				}
				return true
			})
			r.Check(n >= 2, "duplicate legacy catch-all rejected (IPv4 and IPv6)", p.Pos(f.Body.Pos()), "two guarded error returns", fmt.Sprintf("only %d of the two duplicate catch-all checks remain", n))
		}
	}

	// ---- R19.7 keys of the explicit-mapping table are canonical --------------------------------------------
	r.Rule("R19.7", "Every key written to or looked up in a family mapping's explicit table (ipMap) is the canonical text net.IP.String() of a parsed address — never the rule's raw Local string — so a pinned rule is found whatever spelling the configuration used.", 3)
	for _, op := range p.mapOps("ipMapping.ipMap") {
		if op.key == nil {
			continue
		}
		ok := false
		if c, _, isC := p.ResolveCall(op.f, op.key); isC && p.CalleeName(c) == "net.IP.String" {
			ok = true
		}
		r.Check(ok, "ipMap key in "+op.f.Name+" ("+op.kind+")", p.Pos(op.node.Pos()), "net.IP.String() of a parsed address", "the explicit-mapping table is keyed by "+stripVarLines(p.Canon(op.key))+" here: a pinned rule whose Local is spelled non-canonically (upper-case hex, expanded zeros, IPv4-mapped) is never found and the lookup falls through to the catch-all")
	}

	// ---- R19.8 every external address of the winning rule is applied -------------------------------------
	r.Rule("R19.8", "appendHostMappedAddrs adds every external address of the lookup result that converts to an address: nothing but a failed conversion may drop one (the advertised set equals the winning rule's externals).", 1)
	if f := p.Fn("appendHostMappedAddrs"); r.Anchor("appendHostMappedAddrs", f != nil) {
		n := 0
		walkBody(f, func(x ast.Node) bool {
			rs, ok := x.(*ast.RangeStmt)
			if !ok {
				return true
			}
			n++
			skips := p.iterationSkips(f, rs, func(nd ast.Node) bool {
				return p.nodeHasCall(nd, func(c *ast.CallExpr) bool { return p.CalleeName(c) == "builtin.append" })
			}, func(e *Edge) bool {
				// the conversion failed
				for _, ft := range p.FactsOfCond(e.Cond, e.Val) {
					if ft.Op == "truth" && !ft.Val {
						if c, idx, ok := p.ResolveCall(f, ft.X); ok && idx == 1 && p.CalleeName(c) == "net/netip.AddrFromSlice" {
							return true
						}
					}
				}
				return false
			})
			r.Check(!skips, "appendHostMappedAddrs adds every convertible external address", p.Pos(rs.Pos()), "append on every path except a failed conversion", "an external address of the winning rule can be dropped for another reason: with a replace rule that names the local address itself the candidate disappears")
			return true
		})
		if n == 0 {
			r.Fail("appendHostMappedAddrs adds every convertible external address", p.Pos(f.Body.Pos()), "no loop over the external addresses")
		}
	}

	// ---- R19.9 legacy catch-all bookkeeping is monotone -----------------------------------------------------
	r.Rule("R19.9", "validateLegacyNAT1To1Entry never forgets a catch-all it has seen: on every return each family flag is the incoming flag or true, so a later duplicate catch-all of that family is still rejected whatever entries lie in between.", 1)
	if f := p.Fn("validateLegacyNAT1To1Entry"); r.Anchor("validateLegacyNAT1To1Entry", f != nil) {
		in4, in6 := p.paramObj(f, 1), p.paramObj(f, 2)
		bad := ""
		n := 0
		walkBody(f, func(x ast.Node) bool {
			rs, ok := x.(*ast.ReturnStmt)
			if !ok || len(rs.Results) != 3 {
				return true
			}
			n++
			for i, in := range []types.Object{in4, in6} {
				v, _ := p.ConstVal(rs.Results[i])
				if !p.isObj(rs.Results[i], in) && v != "true" {
					bad = "a return yields " + stripVarLines(p.Canon(rs.Results[i])) + " for family flag " + itoa(i) + " (" + p.Pos(rs.Pos()) + ")"
				}
			}
			return true
		})
		r.Check(bad == "" && n > 0, "legacy validation keeps the catch-all flags", p.Pos(f.Body.Pos()), itoa(n)+" returns, each flag is the incoming one or true", bad+": an entry in between erases the memory of an earlier catch-all and a duplicate legacy catch-all is accepted")
	}

	// ---- R19.10 interface resolution compares addresses in one form -----------------------------------------
	r.Rule("R19.10", "findIfaceForIP (the interface name that scopes srflx / relay rule lookups) compares the local address with the interface addresses in a form that is insensitive to the 4-byte / 16-byte spelling of an IPv4 address: text on both sides, or netip addresses that were unmapped.", 1)
	if f := p.Fn("findIfaceForIP"); r.Anchor("findIfaceForIP", f != nil) {
		n, ok := 0, true
		why := ""
		// (also inside a callback handed to slices.IndexFunc / ContainsFunc)
		ast.Inspect(f.Body, func(x ast.Node) bool {
			be, isB := x.(*ast.BinaryExpr)
			if !isB || (be.Op != token.EQL && be.Op != token.NEQ) || p.isNilExpr(be.X) || p.isNilExpr(be.Y) {
				return true
			}
			if typeStr(p.TypeOf(be.X)) != "string" && typeStr(p.TypeOf(be.X)) != "net/netip.Addr" {
				return true
			}
			n++
			for _, side := range []ast.Expr{be.X, be.Y} {
				switch typeStr(p.TypeOf(side)) {
				case "string":
					c, isC := unparen(side).(*ast.CallExpr)
					if !isC || !strings.HasSuffix(p.CalleeName(c), ".String") {
						ok, why = false, "a text operand is not an address's String()"
					}
				case "net/netip.Addr":
					// a value converted from a byte slice must be unmapped; interface addresses are stored unmapped
					conv := false
					ast.Inspect(side, func(y ast.Node) bool {
						if c, isC := y.(*ast.CallExpr); isC && p.CalleeName(c) == "net/netip.AddrFromSlice" {
							conv = true
						}
						return true
					})
					if id, isID := unparen(side).(*ast.Ident); isID {
						if d, okd := p.SingleDef(f, p.ObjOf(id)); okd && d.Rhs != nil && p.mentionsCall(d.Rhs, "net/netip.AddrFromSlice") {
							conv = true
						}
					}
					if conv && !p.mentionsCall(side, "net/netip.Addr.Unmap") {
						ok, why = false, "an address converted from a byte slice is compared without Unmap(): a 16-byte IPv4 address never equals the stored interface address"
					}
				default:
					ok, why = false, "operands of type "+typeStr(p.TypeOf(side))
				}
			}
			return true
		})
		r.Check(ok && n > 0, "findIfaceForIP compares addresses in one form", p.Pos(f.Body.Pos()), "String() == String()", why+": interface-scoped srflx / relay rules are skipped and a less specific rule decides the advertised address")
	}
	// ---- R19.11 the Networks restriction knows every network type ----------------------------------------------
	r.Rule("R19.11", "The family restriction of a rule with a Networks list is computed per element by the authoritative classifiers (NetworkType.IsIPv4 / IsIPv6) or by an enumeration that puts each of the four network types into its own family: udp4 and tcp4 allow IPv4, udp6 and tcp6 allow IPv6, nothing else.", 2)
	if f := p.Fn("newAddressRewriteMapper"); r.Anchor("newAddressRewriteMapper", f != nil) {
		// the assignments of 'true' that end up in the two allow flags
		sitesOf := func(field string) map[ast.Node]bool {
			out := map[ast.Node]bool{}
			for _, st := range p.StoresTo(f, field) {
				as, ok := st.(*ast.AssignStmt)
				if !ok || len(as.Lhs) != len(as.Rhs) {
					continue
				}
				for i, l := range as.Lhs {
					if !p.IsField(l, field) {
						continue
					}
					if cv, isC := p.ConstVal(as.Rhs[i]); isC {
						if cv == "true" {
							out[as] = true
						}
						continue
					}
					if id, ok := unparen(as.Rhs[i]).(*ast.Ident); ok {
						for _, d := range p.leafDefs(f, p.ObjOf(id), 0, map[types.Object]bool{}) {
							if d.Rhs != nil {
								if cv, isC := p.ConstVal(d.Rhs); isC && cv == "true" && d.Node != nil {
									out[d.Node] = true
								}
							}
						}
					}
				}
			}
			return out
		}
		v4, v6 := sitesOf("addressRewriteRuleMapping.allowIPv4"), sitesOf("addressRewriteRuleMapping.allowIPv6")
		// the loop over the Networks list and its element
		var loop *ast.RangeStmt
		walkBody(f, func(x ast.Node) bool {
			if rs, ok := x.(*ast.RangeStmt); ok && loop == nil && typeStr(p.TypeOf(rs.X)) == "[]ice.NetworkType" {
				loop = rs
			}
			return true
		})
		if r.Check(loop != nil && len(v4) > 0 && len(v6) > 0, "Networks restriction: loop and flag sites", p.Pos(f.Body.Pos()), fmt.Sprintf("%d IPv4 and %d IPv6 sites", len(v4), len(v6)), "the loop over a rule's Networks or the assignments that allow a family were not found") {
			isElem := func(e ast.Expr) bool {
				e = unparen(e)
				if loop.Value != nil {
					if v, ok := loop.Value.(*ast.Ident); ok && p.isObj(e, p.ObjOf(v)) {
						return true
					}
				}
				if ix, ok := e.(*ast.IndexExpr); ok && p.Canon(ix.X) == p.Canon(loop.X) {
					return true
				}
				return false
			}
			all := []string{"NetworkTypeUDP4", "NetworkTypeTCP4", "NetworkTypeUDP6", "NetworkTypeTCP6"}
			isV4 := map[string]bool{"NetworkTypeUDP4": true, "NetworkTypeTCP4": true}
			// which sites run for a given constant: a small evaluator over the loop body
			var run func(list []ast.Stmt, c string, hit map[ast.Node]bool) bool
			holds := func(cond ast.Expr, c string) (bool, bool) {
				cond = unparen(cond)
				neg := false
				if u, ok := cond.(*ast.UnaryExpr); ok && u.Op == token.NOT {
					cond, neg = unparen(u.X), true
				}
				switch x := cond.(type) {
				case *ast.CallExpr:
					if sel, ok := unparen(x.Fun).(*ast.SelectorExpr); ok && isElem(sel.X) {
						switch p.CalleeName(x) {
						case "ice.NetworkType.IsIPv4":
							return isV4[c] != neg, true
						case "ice.NetworkType.IsIPv6":
							return !isV4[c] != neg, true
						}
					}
				case *ast.BinaryExpr:
					if x.Op == token.EQL || x.Op == token.NEQ {
						var k string
						switch {
						case isElem(x.X):
							k = p.constName(unparen(x.Y))
						case isElem(x.Y):
							k = p.constName(unparen(x.X))
						}
						if k != "" {
							return ((k == c) == (x.Op == token.EQL)) != neg, true
						}
					}
					if x.Op == token.LOR {
						a, ok1 := holdsRec(x.X, c, isElem, p, isV4)
						b, ok2 := holdsRec(x.Y, c, isElem, p, isV4)
						return (a || b) != neg, ok1 && ok2
					}
				}
				return false, false
			}
			understood := true
			run = func(list []ast.Stmt, c string, hit map[ast.Node]bool) bool {
				for _, st := range list {
					switch x := st.(type) {
					case *ast.AssignStmt:
						hit[x] = true
					case *ast.IfStmt:
						if x.Init != nil {
							understood = false
						}
						v, ok := holds(x.Cond, c)
						if !ok {
							understood = false
							continue
						}
						if v {
							run(x.Body.List, c, hit)
						} else if x.Else != nil {
							switch e := x.Else.(type) {
							case *ast.BlockStmt:
								run(e.List, c, hit)
							case *ast.IfStmt:
								run([]ast.Stmt{e}, c, hit)
							}
						}
					case *ast.SwitchStmt:
						if x.Tag == nil || !isElem(x.Tag) || x.Init != nil {
							understood = false
							continue
						}
						var def *ast.CaseClause
						matched := false
						for _, cl := range x.Body.List {
							cc := cl.(*ast.CaseClause)
							if cc.List == nil {
								def = cc
								continue
							}
							for _, e := range cc.List {
								if p.constName(unparen(e)) == c && !matched {
									matched = true
									run(cc.Body, c, hit)
								}
							}
						}
						if !matched && def != nil {
							run(def.Body, c, hit)
						}
					case *ast.BlockStmt:
						run(x.List, c, hit)
					case *ast.ExprStmt, *ast.EmptyStmt, *ast.BranchStmt:
					default:
						understood = false
					}
				}
				return true
			}
			var bad []string
			for _, c := range all {
				hit := map[ast.Node]bool{}
				run(loop.Body.List, c, hit)
				got4, got6 := false, false
				for n := range hit {
					if v4[n] {
						got4 = true
					}
					if v6[n] {
						got6 = true
					}
				}
				if got4 != isV4[c] || got6 != !isV4[c] {
					bad = append(bad, fmt.Sprintf("%s allows IPv4=%v IPv6=%v", c, got4, got6))
				}
			}
			sort.Strings(bad)
			if !understood {
				r.Unknown("Networks restriction: each network type in its family", p.Pos(loop.Pos()), "the loop body contains a construct the family evaluator does not interpret")
			} else {
				r.Check(len(bad) == 0, "Networks restriction: each network type in its family", p.Pos(loop.Pos()), "udp4/tcp4 -> IPv4, udp6/tcp6 -> IPv6", strings.Join(bad, "; ")+": a rule restricted to that network type does not apply to (or wrongly applies to) addresses of the family, or is dropped at construction")
			}
		}
	}
}

// guardLeadsToError: wherever a fact accepted by guard is established in f, every path from
// there to the normal exit returns a non-nil error (a return whose last result is not the nil
// literal; a path on which the error variable is known to be nil is pruned by the flag-aware
// search), and — when a sentinel is given — the sentinel error is mentioned on the way.
func (p *Prog) guardLeadsToError(f *Func, guard func(Fact) bool, sentinel string) bool {
	g := p.CFG(f)
	starts := p.branchStarts(f, guard)
	if len(starts) == 0 {
		return false
	}
	isErrReturn := func(n ast.Node) bool {
		rs, ok := n.(*ast.ReturnStmt)
		if !ok || len(rs.Results) == 0 {
			return false
		}
		last := rs.Results[len(rs.Results)-1]
		if p.isNilExpr(last) {
			return false
		}
		t := p.TypeOf(last)
		return t != nil && isErrType(t)
	}
	for _, b := range starts {
		if _, escapes := g.PathAvoiding(Loc{b, 0}, isErrReturn, func(x *Block) bool { return x == g.Exit }, nil); escapes {
			return false
		}
		if sentinel != "" {
			mentioned := false
			for bl := range g.Reach([]*Block{b}, nil) {
				for _, n := range bl.Nodes {
					if _, isRA := n.(*RangeAssign); isRA {
						continue
					}
					if p.MentionsObj(n, sentinel) {
						mentioned = true
					}
				}
			}
			if !mentioned {
				return false
			}
		}
	}
	return true
}

// holdsRec: a disjunct of a family condition (helper of R19.11).
func holdsRec(cond ast.Expr, c string, isElem func(ast.Expr) bool, p *Prog, isV4 map[string]bool) (bool, bool) {
	cond = unparen(cond)
	switch x := cond.(type) {
	case *ast.CallExpr:
		if sel, ok := unparen(x.Fun).(*ast.SelectorExpr); ok && isElem(sel.X) {
			switch p.CalleeName(x) {
			case "ice.NetworkType.IsIPv4":
				return isV4[c], true
			case "ice.NetworkType.IsIPv6":
				return !isV4[c], true
			}
		}
	case *ast.BinaryExpr:
		if x.Op == token.EQL {
			var k string
			switch {
			case isElem(x.X):
				k = p.constName(unparen(x.Y))
			case isElem(x.Y):
				k = p.constName(unparen(x.X))
			}
			if k != "" {
				return k == c, true
			}
		}
		if x.Op == token.LOR {
			a, ok1 := holdsRec(x.X, c, isElem, p, isV4)
			b, ok2 := holdsRec(x.Y, c, isElem, p, isV4)
			return a || b, ok1 && ok2
		}
	}
	return false, false
}
