package main

// Value provenance over the AST: the set of "sources" an expression's value
// may come from, followed through local definitions, parameters (to every
// call site, depth-limited), and struct fields (to every value stored into
// the field anywhere in the analysed code).

import (
	"go/ast"
	"go/types"
	"sort"
	"strings"
)

type provCtx struct {
	p     *Prog
	seen  map[string]bool
	out   map[string]bool
	depth int
}

// Provenance returns the leaf sources of e evaluated in f:
//
//	call:<callee>   result of a call
//	const           constant / literal
//	param:<f>#<i>   a parameter that could not be followed further
//	field:<S.f>     a field with no visible stores
//	expr:<canon>    anything else
func (p *Prog) Provenance(f *Func, e ast.Expr) []string {
	pc := &provCtx{p: p, seen: map[string]bool{}, out: map[string]bool{}}
	pc.walk(f, e, 0)
	var out []string
	for k := range pc.out {
		out = append(out, k)
	}
	sort.Strings(out)
	return out
}

func (pc *provCtx) walk(f *Func, e ast.Expr, depth int) {
	p := pc.p
	e = unparen(e)
	if e == nil {
		return
	}
	key := f.Name + "|" + p.Pos(e.Pos()) + "|" + p.Canon(e)
	if pc.seen[key] {
		return
	}
	pc.seen[key] = true
	if depth > 14 {
		pc.out["expr:(depth limit)"] = true
		return
	}
	if _, ok := p.ConstVal(e); ok {
		pc.out["const"] = true
		return
	}
	switch x := e.(type) {
	case *ast.Ident:
		o := p.ObjOf(x)
		if v, ok := o.(*types.Var); ok && !v.IsField() {
			// a re-assignment that reaches this use on every path supersedes
			// earlier definitions (x = canonical(x))
			isMake := func(e ast.Expr) bool {
				c, ok := unparen(e).(*ast.CallExpr)
				return ok && p.CalleeName(c) == "builtin.make"
			}
			if d, ok := p.reachingDef(f, x, o); ok && d.Rhs != nil && !isMake(d.Rhs) {
				if d.Index == 0 {
					pc.walk(f, d.Rhs, depth+1)
				} else if c, ok := unparen(d.Rhs).(*ast.CallExpr); ok {
					pc.out["call:"+p.CalleeName(c)+"#"+itoa(d.Index)] = true
				}
				return
			}
			// parameter?
			for fn := f; fn != nil; fn = fn.Parent {
				if fn.Type == nil || fn.Type.Params == nil {
					continue
				}
				idx := 0
				for _, fl := range fn.Type.Params.List {
					for _, n := range fl.Names {
						if p.ObjOf(n) == o {
							n2 := 0
							for _, ce := range p.Callers(fn) {
								if ce.Call == nil || ce.Kind == "arg" || len(ce.Call.Args) <= idx {
									continue
								}
								n2++
								pc.walk(ce.Caller, ce.Call.Args[idx], depth+1)
							}
							if n2 == 0 {
								pc.out["param:"+fn.Name+"#"+itoa(idx)] = true
							}
							// re-assignments inside the function
							for _, d := range p.DefsOf(fn, o) {
								if d.Rhs != nil {
									pc.walk(fn, d.Rhs, depth+1)
								}
							}
							return
						}
						idx++
					}
				}
			}
			found := false
			for fn := f; fn != nil && !found; fn = fn.Parent {
				for _, d := range p.DefsOf(fn, o) {
					found = true
					switch {
					case d.Rhs != nil && d.Index == 0:
						pc.walk(fn, d.Rhs, depth+1)
					case d.Rhs != nil:
						if c, ok := unparen(d.Rhs).(*ast.CallExpr); ok {
							pc.out["call:"+p.CalleeName(c)+"#"+itoa(d.Index)] = true
						} else {
							pc.walk(fn, d.Rhs, depth+1)
						}
					default:
						if rs, ok := d.Node.(*ast.RangeStmt); ok {
							pc.walk(fn, rs.X, depth+1)
						} else if !d.Zero {
							pc.out["expr:"+stripVarLines(p.Canon(e))] = true
						}
					}
				}
			}
			// copy(x, src) fills x
			for fn := f; fn != nil; fn = fn.Parent {
				walkBody(fn, func(n ast.Node) bool {
					if c, ok := n.(*ast.CallExpr); ok && p.CalleeName(c) == "builtin.copy" && len(c.Args) == 2 {
						if id, ok := unparen(c.Args[0]).(*ast.Ident); ok && p.ObjOf(id) == o {
							found = true
							pc.walk(fn, c.Args[1], depth+1)
						}
					}
					return true
				})
			}
			if !found {
				pc.out["expr:"+stripVarLines(p.Canon(e))] = true
			}
			return
		}
		pc.out["expr:"+stripVarLines(p.Canon(e))] = true
	case *ast.CallExpr:
		if tv, ok := p.Info.Types[x.Fun]; ok && tv.IsType() && len(x.Args) == 1 {
			pc.walk(f, x.Args[0], depth)
			return
		}
		name := p.CalleeName(x)
		// pass-through helpers
		switch name {
		case "builtin.append":
			for _, a := range x.Args {
				pc.walk(f, a, depth+1)
			}
			return
		case "builtin.make", "builtin.new":
			return
		}
		// follow trivial getters / copies inside the analysed code
		if callee := p.Callee(x); callee != nil {
			if cf := p.ByObj[callee]; cf != nil && depth < 12 {
				if rets := returnExprs(cf); len(rets) > 0 && len(rets) <= 3 && isSimpleAccessor(p, cf) {
					for _, r := range rets {
						pc.walk(cf, r, depth+1)
					}
					return
				}
			}
		}
		pc.out["call:"+name] = true
	case *ast.SelectorExpr:
		if fv := p.FieldOf(x); fv != nil {
			n := 0
			for _, g := range p.AllFuncs {
				for _, st := range p.storesOfField(g, fv) {
					n++
					pc.walk(g, st, depth+1)
				}
			}
			if n == 0 {
				pc.out["field:"+p.FieldName(fv)] = true
			}
			return
		}
		pc.out["expr:"+stripVarLines(p.Canon(e))] = true
	case *ast.IndexExpr:
		pc.walk(f, x.X, depth+1)
	case *ast.SliceExpr:
		pc.walk(f, x.X, depth+1)
	case *ast.StarExpr:
		pc.walk(f, x.X, depth+1)
	case *ast.UnaryExpr:
		pc.walk(f, x.X, depth+1)
	case *ast.CompositeLit:
		for _, el := range x.Elts {
			if kv, ok := el.(*ast.KeyValueExpr); ok {
				pc.walk(f, kv.Value, depth+1)
			} else {
				pc.walk(f, el, depth+1)
			}
		}
	default:
		pc.out["expr:"+stripVarLines(p.Canon(e))] = true
	}
}

func returnExprs(f *Func) []ast.Expr {
	var out []ast.Expr
	walkBody(f, func(n ast.Node) bool {
		if rs, ok := n.(*ast.ReturnStmt); ok && len(rs.Results) == 1 {
			out = append(out, rs.Results[0])
		}
		return true
	})
	return out
}

// isSimpleAccessor: a method without parameters that returns (a copy of) a
// field of its receiver.
func isSimpleAccessor(p *Prog, f *Func) bool {
	if f.Decl == nil || f.Decl.Recv == nil || f.Type.Params == nil || len(f.Type.Params.List) != 0 {
		return false
	}
	mentionsField := false
	walkBody(f, func(n ast.Node) bool {
		if sel, ok := n.(*ast.SelectorExpr); ok && p.FieldOf(sel) != nil {
			mentionsField = true
		}
		return true
	})
	return mentionsField
}

// storesOfField: the value expressions stored (or appended / copied) into fv in g.
func (p *Prog) storesOfField(g *Func, fv *types.Var) []ast.Expr {
	var out []ast.Expr
	walkBody(g, func(n ast.Node) bool {
		switch x := n.(type) {
		case *ast.AssignStmt:
			if len(x.Lhs) == len(x.Rhs) {
				for i, l := range x.Lhs {
					l = unparen(l)
					if ix, ok := l.(*ast.IndexExpr); ok {
						l = unparen(ix.X)
					}
					if p.FieldOf(l) == fv {
						out = append(out, x.Rhs[i])
					}
				}
			}
		case *ast.CompositeLit:
			st, _ := derefStruct(p.TypeOf(x))
			if st == nil {
				return true
			}
			for _, el := range x.Elts {
				if kv, ok := el.(*ast.KeyValueExpr); ok {
					if id, ok := kv.Key.(*ast.Ident); ok {
						for j := 0; j < st.NumFields(); j++ {
							if st.Field(j) == fv && st.Field(j).Name() == id.Name {
								out = append(out, kv.Value)
							}
						}
					}
				}
			}
		case *ast.CallExpr:
			if p.CalleeName(x) == "builtin.copy" && len(x.Args) == 2 {
				dst := unparen(x.Args[0])
				if id, ok := dst.(*ast.Ident); ok {
					_ = id
				}
				if p.FieldOf(dst) == fv {
					out = append(out, x.Args[1])
				}
			}
		}
		return true
	})
	return out
}

func onlySource(srcs []string, allowed ...string) (bool, string) {
	var bad []string
	for _, s := range srcs {
		ok := false
		for _, a := range allowed {
			if s == a || strings.HasPrefix(s, a) {
				ok = true
			}
		}
		if !ok {
			bad = append(bad, s)
		}
	}
	return len(bad) == 0 && len(srcs) > 0, strings.Join(bad, ", ")
}
