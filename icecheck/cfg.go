package main

// Control-flow graph over the AST with labelled edges. Unlike go/cfg it splits
// short-circuit conditions, lowers switch cases to explicit comparisons and
// labels every conditional edge with the atom it tests, which is what the
// must-fact, decision-table and typestate engines need.

import (
	"fmt"
	"go/ast"
	"go/token"
	"go/types"
	"sort"
	"strings"
)

// Cond is the test on a conditional edge.
type Cond struct {
	Op   string   // "truth", "==", "type", "range", "comm", "default"
	X, Y ast.Expr // truth: X; ==: X==Y (switch tag vs case); type: X.(Y); range: X
	Stmt ast.Stmt // comm: the communication statement; range: the RangeStmt
}

type Edge struct {
	From, To *Block
	Cond     *Cond // nil: unconditional
	Val      bool
}

type Block struct {
	ID    int
	Kind  string
	Nodes []ast.Node
	Succs []*Edge
	Preds []*Edge
}

// RangeAssign marks the per-iteration assignment of a range loop's key/value.
type RangeAssign struct{ Stmt *ast.RangeStmt }

func (r *RangeAssign) Pos() token.Pos {
	if r.Stmt.Key != nil {
		return r.Stmt.Key.Pos()
	}
	return r.Stmt.For
}
func (r *RangeAssign) End() token.Pos {
	if r.Stmt.Value != nil {
		return r.Stmt.Value.End()
	}
	if r.Stmt.Key != nil {
		return r.Stmt.Key.End()
	}
	return r.Stmt.For
}

type CFG struct {
	Fn     *Func
	Blocks []*Block
	Entry  *Block
	Exit   *Block // normal return
	Panic  *Block // abnormal termination
	prog   *Prog
}

type cfgBuilder struct {
	g       *CFG
	p       *Prog
	cur     *Block
	targets []*target
	labels  map[string]*target
	// pending: a boolean local defined by the statement just lowered as a pure
	// comparison / logical expression ("failed := newState == X"); a condition
	// that tests it immediately afterwards is lowered as that expression, so that
	// naming an intermediate does not hide the atoms from the fact engines.
	pendingObj types.Object
	pendingRhs ast.Expr
	// stable: boolean locals defined once as a pure comparison / logical expression of
	// operands that are themselves never reassigned ("blocked := state&bit != 0" with
	// state defined once): wherever they are tested, the test is that expression.
	stable   map[types.Object]ast.Expr
	defCount map[types.Object]int
}

type target struct {
	label        string
	brk, cont    *Block
	fallthrough_ *Block
}

func (p *Prog) CFG(f *Func) *CFG {
	if f.cfg != nil {
		return f.cfg
	}
	g := &CFG{Fn: f, prog: p}
	b := &cfgBuilder{g: g, p: p, labels: map[string]*target{}}
	g.Entry = b.newBlock("entry")
	g.Exit = b.newBlock("exit")
	g.Panic = b.newBlock("panic")
	b.cur = g.Entry
	if f.Body != nil {
		b.stmtList(f.Body.List)
	}
	if b.cur != nil {
		b.jump(g.Exit)
	}
	f.cfg = g
	return g
}

func (b *cfgBuilder) newBlock(kind string) *Block {
	bl := &Block{ID: len(b.g.Blocks), Kind: kind}
	b.g.Blocks = append(b.g.Blocks, bl)
	return bl
}

func (b *cfgBuilder) ensure() {
	if b.cur == nil {
		b.cur = b.newBlock("unreachable")
	}
}

func (b *cfgBuilder) add(n ast.Node) {
	b.ensure()
	b.cur.Nodes = append(b.cur.Nodes, n)
}

func (b *cfgBuilder) edge(from, to *Block, c *Cond, v bool) {
	e := &Edge{From: from, To: to, Cond: c, Val: v}
	from.Succs = append(from.Succs, e)
	to.Preds = append(to.Preds, e)
}

func (b *cfgBuilder) jump(to *Block) {
	b.ensure()
	b.edge(b.cur, to, nil, true)
	b.cur = nil
}

// cond lowers a boolean expression into branches to t / f.
func (b *cfgBuilder) cond(e ast.Expr, t, f *Block) {
	switch x := e.(type) {
	case *ast.ParenExpr:
		b.cond(x.X, t, f)
		return
	case *ast.Ident:
		if b.pendingObj != nil && b.p.ObjOf(x) == b.pendingObj {
			b.cond(b.pendingRhs, t, f)
			return
		}
		if rhs, ok := b.stable[b.p.ObjOf(x)]; ok {
			b.cond(rhs, t, f)
			return
		}
	case *ast.UnaryExpr:
		if x.Op == token.NOT {
			b.cond(x.X, f, t)
			return
		}
	case *ast.BinaryExpr:
		switch x.Op {
		case token.LAND:
			mid := b.newBlock("and.rhs")
			b.cond(x.X, mid, f)
			b.cur = mid
			b.cond(x.Y, t, f)
			return
		case token.LOR:
			mid := b.newBlock("or.rhs")
			b.cond(x.X, t, mid)
			b.cur = mid
			b.cond(x.Y, t, f)
			return
		}
	}
	b.add(e)
	c := &Cond{Op: "truth", X: e}
	b.edge(b.cur, t, c, true)
	b.edge(b.cur, f, c, false)
	b.cur = nil
}

func (b *cfgBuilder) stmtList(l []ast.Stmt) {
	for i, s := range l {
		b.stmt(s, "")
		b.noteStableBool(s)
		// a pure boolean definition is remembered for the next statement only
		b.pendingObj, b.pendingRhs = nil, nil
		if i+1 < len(l) {
			if _, nextIsIf := l[i+1].(*ast.IfStmt); nextIsIf {
				b.notePureBool(s)
			}
		}
	}
	b.pendingObj, b.pendingRhs = nil, nil
}

// notePureBool records "v := <pure boolean expression>".
func (b *cfgBuilder) notePureBool(s ast.Stmt) {
	as, ok := s.(*ast.AssignStmt)
	if !ok || as.Tok != token.DEFINE || len(as.Lhs) != 1 || len(as.Rhs) != 1 {
		return
	}
	id, ok := as.Lhs[0].(*ast.Ident)
	if !ok || !pureBoolExpr(as.Rhs[0]) {
		return
	}
	if t := b.p.TypeOf(as.Rhs[0]); t == nil {
		return
	} else if bt, isB := t.Underlying().(*types.Basic); !isB || bt.Info()&types.IsBoolean == 0 {
		return
	}
	b.pendingObj, b.pendingRhs = b.p.ObjOf(id), as.Rhs[0]
}

// noteStableBool records "v := <pure boolean expression over never-reassigned locals>".
func (b *cfgBuilder) noteStableBool(s ast.Stmt) {
	as, ok := s.(*ast.AssignStmt)
	if !ok || as.Tok != token.DEFINE || len(as.Lhs) != 1 || len(as.Rhs) != 1 {
		return
	}
	id, ok := as.Lhs[0].(*ast.Ident)
	if !ok || !pureBoolExpr(as.Rhs[0]) {
		return
	}
	if t := b.p.TypeOf(as.Rhs[0]); t == nil {
		return
	} else if bt, isB := t.Underlying().(*types.Basic); !isB || bt.Info()&types.IsBoolean == 0 {
		return
	}
	v := b.p.Info.Defs[id]
	if v == nil {
		return
	}
	if b.defCount == nil {
		b.defCount = map[types.Object]int{}
		root := b.g.Fn.Root()
		if root.Body != nil {
			bump := func(e ast.Expr, k int) {
				if x, ok := unparen(e).(*ast.Ident); ok {
					if o := b.p.ObjOf(x); o != nil {
						b.defCount[o] += k
					}
				}
			}
			ast.Inspect(root.Body, func(n ast.Node) bool {
				switch x := n.(type) {
				case *ast.AssignStmt:
					for _, l := range x.Lhs {
						bump(l, 1)
					}
				case *ast.IncDecStmt:
					bump(x.X, 1)
				case *ast.RangeStmt:
					bump(x.Key, 1)
					bump(x.Value, 1)
				case *ast.ValueSpec:
					for _, nm := range x.Names {
						bump(nm, 1)
					}
				case *ast.UnaryExpr:
					if x.Op == token.AND {
						bump(x.X, 2)
					}
				}
				return true
			})
		}
	}
	if b.defCount[v] != 1 {
		return
	}
	root := b.g.Fn.Root()
	okOps := true
	ast.Inspect(as.Rhs[0], func(n ast.Node) bool {
		switch x := n.(type) {
		case *ast.SelectorExpr, *ast.IndexExpr, *ast.StarExpr, *ast.CallExpr, *ast.SliceExpr, *ast.TypeAssertExpr, *ast.FuncLit:
			okOps = false
		case *ast.Ident:
			switch o := b.p.ObjOf(x).(type) {
			case *types.Var:
				if o.IsField() || o.Pkg() == nil || o.Parent() == o.Pkg().Scope() {
					okOps = false
					break
				}
				want := 1
				if root.Body != nil && o.Pos() < root.Body.Pos() {
					want = 0 // a parameter
				}
				if b.defCount[o] != want {
					okOps = false
				}
			case *types.Const, *types.Nil:
			default:
				okOps = false
			}
		}
		return okOps
	})
	if !okOps {
		return
	}
	if b.stable == nil {
		b.stable = map[types.Object]ast.Expr{}
	}
	b.stable[v] = as.Rhs[0]
}

// pureBoolExpr: comparisons and logical combinations of operands without calls.
func pureBoolExpr(e ast.Expr) bool {
	switch x := unparen(e).(type) {
	case *ast.BinaryExpr:
		switch x.Op {
		case token.LAND, token.LOR:
			return pureBoolExpr(x.X) && pureBoolExpr(x.Y)
		case token.EQL, token.NEQ, token.LSS, token.GTR, token.LEQ, token.GEQ:
			return noCalls(x.X) && noCalls(x.Y)
		}
	case *ast.UnaryExpr:
		return x.Op == token.NOT && pureBoolExpr(x.X)
	case *ast.Ident:
		return true // a boolean operand of && / || / !
	case *ast.SelectorExpr:
		return noCalls(x)
	}
	return false
}

func noCalls(e ast.Expr) bool {
	ok := true
	ast.Inspect(e, func(n ast.Node) bool {
		if _, isCall := n.(*ast.CallExpr); isCall {
			ok = false
		}
		return ok
	})
	return ok
}

func (b *cfgBuilder) isPanic(call *ast.CallExpr) bool {
	if id, ok := unparen(call.Fun).(*ast.Ident); ok && id.Name == "panic" {
		if _, isB := b.p.ObjOf(id).(interface{ Name() string }); isB {
			return b.p.CalleeName(call) == "builtin.panic"
		}
	}
	return false
}

func (b *cfgBuilder) stmt(s ast.Stmt, label string) {
	switch s := s.(type) {
	case nil:
	case *ast.BadStmt, *ast.EmptyStmt:
	case *ast.SendStmt, *ast.IncDecStmt, *ast.GoStmt, *ast.DeferStmt, *ast.AssignStmt:
		b.add(s)
	case *ast.ExprStmt:
		b.add(s)
		if call, ok := s.X.(*ast.CallExpr); ok && b.isPanic(call) {
			b.jump(b.g.Panic)
		}
	case *ast.DeclStmt:
		if d, ok := s.Decl.(*ast.GenDecl); ok && d.Tok == token.VAR {
			for _, sp := range d.Specs {
				if vs, ok := sp.(*ast.ValueSpec); ok {
					b.add(vs)
				}
			}
		}
	case *ast.LabeledStmt:
		b.stmt(s.Stmt, s.Label.Name)
	case *ast.ReturnStmt:
		b.add(s)
		b.jump(b.g.Exit)
	case *ast.BranchStmt:
		b.branch(s)
	case *ast.BlockStmt:
		b.stmtList(s.List)
	case *ast.IfStmt:
		if s.Init != nil {
			b.stmt(s.Init, "")
			b.notePureBool(s.Init)
		}
		then := b.newBlock("if.then")
		done := b.newBlock("if.done")
		els := done
		if s.Else != nil {
			els = b.newBlock("if.else")
		}
		b.ensure()
		b.cond(s.Cond, then, els)
		b.pendingObj, b.pendingRhs = nil, nil
		b.cur = then
		b.stmt(s.Body, "")
		if b.cur != nil {
			b.jump(done)
		}
		if s.Else != nil {
			b.cur = els
			b.stmt(s.Else, "")
			if b.cur != nil {
				b.jump(done)
			}
		}
		b.cur = done
	case *ast.ForStmt:
		if s.Init != nil {
			b.stmt(s.Init, "")
		}
		head := b.newBlock("for.head")
		body := b.newBlock("for.body")
		done := b.newBlock("for.done")
		post := head
		if s.Post != nil {
			post = b.newBlock("for.post")
		}
		b.jump(head)
		b.cur = head
		if s.Cond != nil {
			b.cond(s.Cond, body, done)
		} else {
			b.jump(body)
		}
		b.push(label, done, post)
		b.cur = body
		b.stmt(s.Body, "")
		if b.cur != nil {
			b.jump(post)
		}
		b.pop()
		if s.Post != nil {
			b.cur = post
			b.stmt(s.Post, "")
			b.jump(head)
		}
		b.cur = done
	case *ast.RangeStmt:
		b.add(s.X)
		head := b.newBlock("range.head")
		body := b.newBlock("range.body")
		done := b.newBlock("range.done")
		b.jump(head)
		c := &Cond{Op: "range", X: s.X, Stmt: s}
		b.edge(head, body, c, true)
		b.edge(head, done, c, false)
		b.push(label, done, head)
		b.cur = body
		b.add(&RangeAssign{Stmt: s})
		b.stmt(s.Body, "")
		if b.cur != nil {
			b.jump(head)
		}
		b.pop()
		b.cur = done
	case *ast.SwitchStmt:
		b.switchStmt(s, label)
	case *ast.TypeSwitchStmt:
		b.typeSwitch(s, label)
	case *ast.SelectStmt:
		b.selectStmt(s, label)
	default:
		panic(fmt.Sprintf("cfg: unexpected statement %T", s))
	}
}

func (b *cfgBuilder) push(label string, brk, cont *Block) *target {
	t := &target{label: label, brk: brk, cont: cont}
	b.targets = append(b.targets, t)
	return t
}
func (b *cfgBuilder) pop() { b.targets = b.targets[:len(b.targets)-1] }

func (b *cfgBuilder) branch(s *ast.BranchStmt) {
	var to *Block
	for i := len(b.targets) - 1; i >= 0 && to == nil; i-- {
		t := b.targets[i]
		if s.Label != nil && t.label != s.Label.Name {
			continue
		}
		switch s.Tok {
		case token.BREAK:
			to = t.brk
		case token.CONTINUE:
			to = t.cont
		case token.FALLTHROUGH:
			to = t.fallthrough_
		}
	}
	if to == nil {
		panic(fmt.Sprintf("cfg: unresolved branch %s at %s", s.Tok, b.p.Pos(s.Pos())))
	}
	b.jump(to)
}

func (b *cfgBuilder) switchStmt(s *ast.SwitchStmt, label string) {
	if s.Init != nil {
		b.stmt(s.Init, "")
	}
	if s.Tag != nil {
		b.add(s.Tag)
	}
	done := b.newBlock("switch.done")
	n := len(s.Body.List)
	bodies := make([]*Block, n)
	for i := range bodies {
		bodies[i] = b.newBlock("case.body")
	}
	var defaultIdx = -1
	b.ensure()
	for i, cl := range s.Body.List {
		cc := cl.(*ast.CaseClause)
		if cc.List == nil {
			defaultIdx = i
			continue
		}
		for _, e := range cc.List {
			next := b.newBlock("case.next")
			if s.Tag != nil {
				b.ensure()
				b.add(e)
				c := &Cond{Op: "==", X: s.Tag, Y: e}
				b.edge(b.cur, bodies[i], c, true)
				b.edge(b.cur, next, c, false)
			} else {
				b.ensure()
				b.cond(e, bodies[i], next)
			}
			b.cur = next
		}
	}
	if defaultIdx >= 0 {
		b.jump(bodies[defaultIdx])
	} else {
		b.jump(done)
	}
	for i, cl := range s.Body.List {
		cc := cl.(*ast.CaseClause)
		t := b.push(label, done, nil)
		// continue inside switch refers to the enclosing loop
		t.cont = nil
		if i+1 < n {
			t.fallthrough_ = bodies[i+1]
		}
		b.cur = bodies[i]
		b.stmtList(cc.Body)
		if b.cur != nil {
			b.jump(done)
		}
		b.pop()
	}
	b.cur = done
}

func (b *cfgBuilder) typeSwitch(s *ast.TypeSwitchStmt, label string) {
	if s.Init != nil {
		b.stmt(s.Init, "")
	}
	b.add(s.Assign)
	var subject ast.Expr
	switch a := s.Assign.(type) {
	case *ast.AssignStmt:
		if ta, ok := unparen(a.Rhs[0]).(*ast.TypeAssertExpr); ok {
			subject = ta.X
		}
	case *ast.ExprStmt:
		if ta, ok := unparen(a.X).(*ast.TypeAssertExpr); ok {
			subject = ta.X
		}
	}
	done := b.newBlock("tswitch.done")
	n := len(s.Body.List)
	bodies := make([]*Block, n)
	for i := range bodies {
		bodies[i] = b.newBlock("tcase.body")
	}
	defaultIdx := -1
	b.ensure()
	for i, cl := range s.Body.List {
		cc := cl.(*ast.CaseClause)
		if cc.List == nil {
			defaultIdx = i
			continue
		}
		for _, e := range cc.List {
			next := b.newBlock("tcase.next")
			b.ensure()
			c := &Cond{Op: "type", X: subject, Y: e}
			b.edge(b.cur, bodies[i], c, true)
			b.edge(b.cur, next, c, false)
			b.cur = next
		}
	}
	if defaultIdx >= 0 {
		b.jump(bodies[defaultIdx])
	} else {
		b.jump(done)
	}
	for i, cl := range s.Body.List {
		cc := cl.(*ast.CaseClause)
		t := b.push(label, done, nil)
		t.cont = nil
		b.cur = bodies[i]
		b.stmtList(cc.Body)
		if b.cur != nil {
			b.jump(done)
		}
		b.pop()
	}
	b.cur = done
}

func (b *cfgBuilder) selectStmt(s *ast.SelectStmt, label string) {
	b.ensure()
	head := b.cur
	done := b.newBlock("select.done")
	for _, cl := range s.Body.List {
		cc := cl.(*ast.CommClause)
		body := b.newBlock("select.body")
		if cc.Comm == nil {
			b.edge(head, body, &Cond{Op: "default", Stmt: s}, true)
		} else {
			b.edge(head, body, &Cond{Op: "comm", Stmt: cc.Comm}, true)
		}
		t := b.push(label, done, nil)
		t.cont = nil
		b.cur = body
		if cc.Comm != nil {
			b.add(cc.Comm)
		}
		b.stmtList(cc.Body)
		if b.cur != nil {
			b.jump(done)
		}
		b.pop()
	}
	if len(s.Body.List) == 0 {
		// select {} blocks forever
		b.cur = nil
		b.cur = b.newBlock("unreachable")
		return
	}
	b.cur = done
}

// fix: 'continue' inside switch/select must find the enclosing loop: branch()
// skips targets whose cont is nil.
func init() {}

// ---- queries ----

type Loc struct {
	B *Block
	I int
}

// Locate returns the block position of the innermost CFG node that contains
// pos (the statement or condition within which the expression is evaluated).
func (g *CFG) Locate(n ast.Node) (Loc, bool) {
	best := Loc{}
	var bestSize token.Pos = -1
	for _, bl := range g.Blocks {
		for i, x := range bl.Nodes {
			if x.Pos() <= n.Pos() && n.End() <= x.End() {
				sz := x.End() - x.Pos()
				if bestSize < 0 || sz < bestSize {
					best, bestSize = Loc{bl, i}, sz
				}
			}
		}
	}
	return best, bestSize >= 0
}

// Reachable blocks from a set of start blocks, following edges accepted by ok.
func (g *CFG) Reach(start []*Block, ok func(e *Edge) bool) map[*Block]bool {
	seen := map[*Block]bool{}
	var st []*Block
	for _, s := range start {
		if !seen[s] {
			seen[s] = true
			st = append(st, s)
		}
	}
	for len(st) > 0 {
		b := st[len(st)-1]
		st = st[:len(st)-1]
		for _, e := range b.Succs {
			if ok != nil && !ok(e) {
				continue
			}
			if !seen[e.To] {
				seen[e.To] = true
				st = append(st, e.To)
			}
		}
	}
	return seen
}

// PathTo searches for a path from (startBlock, startIdx) to a block satisfying
// goal that does not execute any node satisfying barrier and only follows
// edges accepted by ok. It returns the sequence of blocks of one such path.
func (g *CFG) PathAvoiding(start Loc, barrier func(n ast.Node) bool, goal func(b *Block) bool, ok func(e *Edge) bool) ([]*Block, bool) {
	type item struct {
		b    *Block
		prev *item
		env  flagEnv
	}
	// walk the nodes of b from index from: blocked by the barrier, or the flag knowledge after the block
	run := func(b *Block, from int, env flagEnv) (flagEnv, bool) {
		for i := from; i < len(b.Nodes); i++ {
			if barrier != nil && barrier(b.Nodes[i]) {
				return nil, true
			}
			env = g.flagStep(env, b.Nodes[i])
		}
		return env, false
	}
	seen := map[string]bool{}
	var queue []*item
	env0, blocked := run(start.B, start.I, flagEnv{})
	if blocked {
		return nil, false
	}
	if goal(start.B) && start.I == 0 {
		return []*Block{start.B}, true
	}
	queue = append(queue, &item{b: start.B, env: env0})
	for len(queue) > 0 {
		it := queue[0]
		queue = queue[1:]
		for _, e := range it.b.Succs {
			if ok != nil && !ok(e) {
				continue
			}
			if g.flagContradicts(it.env, e) {
				continue // the test of a flag variable cannot go this way after the assignment just passed
			}
			key := fmt.Sprintf("%d|%s", e.To.ID, it.env.String())
			if seen[key] {
				continue
			}
			seen[key] = true
			nx := &item{b: e.To, prev: it}
			if goal(e.To) {
				var path []*Block
				for x := nx; x != nil; x = x.prev {
					path = append([]*Block{x.b}, path...)
				}
				return path, true
			}
			env, blocked := run(e.To, 0, it.env)
			if blocked {
				continue
			}
			nx.env = env
			queue = append(queue, nx)
		}
	}
	return nil, false
}

// flagEnv: what a path knows about flag variables (boolean locals set to
// constants; error / pointer locals set to nil or to something known to be
// non-nil; copies of such locals) after the assignments it has passed. It
// prunes the edges of later tests that cannot be taken on that path, which
// makes the must-pass-through queries exact across an inlined helper that
// returns (value, ok) or (value, err).
type flagEnv map[types.Object]string

func (e flagEnv) String() string {
	if len(e) == 0 {
		return ""
	}
	var ks []string
	for o, c := range e {
		ks = append(ks, fmt.Sprintf("%s@%d=%s", o.Name(), o.Pos(), c))
	}
	sort.Strings(ks)
	return strings.Join(ks, ",")
}

func (g *CFG) flagStep(env flagEnv, n ast.Node) flagEnv {
	p := g.prog
	if p == nil {
		return env
	}
	set := func(o types.Object, class string) {
		ne := flagEnv{}
		for k, v := range env {
			ne[k] = v
		}
		if class == "" {
			delete(ne, o)
		} else {
			ne[o] = class
		}
		env = ne
	}
	classify := func(lhs *ast.Ident, rhs ast.Expr) {
		v, ok := p.ObjOf(lhs).(*types.Var)
		if !ok || v.IsField() || lhs.Name == "_" || v.Pkg() == nil || v.Parent() == v.Pkg().Scope() {
			return
		}
		isBool := false
		if b, isB := v.Type().Underlying().(*types.Basic); isB && b.Kind() == types.Bool {
			isBool = true
		}
		if !isBool {
			switch v.Type().Underlying().(type) {
			case *types.Pointer, *types.Interface, *types.Slice, *types.Map, *types.Chan, *types.Signature:
			default:
				return
			}
		}
		class := ""
		if rhs != nil {
			rhs = unparen(rhs)
			switch {
			case isBool:
				if cv, isC := p.ConstVal(rhs); isC {
					class = "false"
					if cv == "true" {
						class = "true"
					}
				}
			case p.isNilExpr(rhs):
				class = "nil"
			default:
				switch x := rhs.(type) {
				case *ast.UnaryExpr:
					if x.Op == token.AND {
						class = "nonnil"
					}
				case *ast.CompositeLit:
					class = "nonnil"
				case *ast.CallExpr:
					if n := p.CalleeName(x); n == "fmt.Errorf" || n == "errors.New" {
						class = "nonnil"
					}
				}
			}
			if class == "" && !isBool && p.isSentinelError(rhs) {
				class = "nonnil"
			}
			if class == "" {
				if rid, isID := rhs.(*ast.Ident); isID {
					if w := p.ObjOf(rid); w != nil && env[w] != "" {
						class = env[w]
					}
				}
			}
			if class == "" && !isBool {
				for _, d := range p.dominatingFactListDepth(g.Fn, n, 3) {
					if d.Op == "==" && d.Y != nil && p.isNilExpr(d.Y) && p.Canon(d.X) == p.Canon(rhs) {
						class = "nonnil"
						if d.Val {
							class = "nil"
						}
					}
				}
			}
		} else if isBool {
			class = "false" // zero value
		} else {
			class = "nil"
		}
		if class != env[v] {
			set(v, class)
		}
	}
	switch x := n.(type) {
	case *ast.AssignStmt:
		if len(x.Lhs) == len(x.Rhs) {
			for i, l := range x.Lhs {
				if id, ok := unparen(l).(*ast.Ident); ok {
					classify(id, x.Rhs[i])
				}
			}
		} else {
			for _, l := range x.Lhs {
				if id, ok := unparen(l).(*ast.Ident); ok {
					if o := p.ObjOf(id); o != nil && env[o] != "" {
						set(o, "")
					}
				}
			}
		}
	case *ast.DeclStmt:
		if gd, ok := x.Decl.(*ast.GenDecl); ok {
			for _, sp := range gd.Specs {
				if vs, ok := sp.(*ast.ValueSpec); ok {
					for i, nm := range vs.Names {
						if i < len(vs.Values) {
							classify(nm, vs.Values[i])
						} else if len(vs.Values) == 0 {
							classify(nm, nil)
						}
					}
				}
			}
		}
	case *RangeAssign:
		for _, e := range []ast.Expr{x.Stmt.Key, x.Stmt.Value} {
			if e != nil {
				if id, ok := unparen(e).(*ast.Ident); ok {
					if o := p.ObjOf(id); o != nil && env[o] != "" {
						set(o, "")
					}
				}
			}
		}
	}
	return env
}

// flagContradicts: edge e tests a flag variable whose value on this path is known to be the other one.
func (g *CFG) flagContradicts(env flagEnv, e *Edge) bool {
	p := g.prog
	if p == nil || len(env) == 0 || e.Cond == nil {
		return false
	}
	for _, ft := range p.FactsOfCond(e.Cond, e.Val) {
		switch ft.Op {
		case "truth":
			if id, ok := unparen(ft.X).(*ast.Ident); ok {
				if c := env[p.ObjOf(id)]; (c == "true" && !ft.Val) || (c == "false" && ft.Val) {
					return true
				}
			}
		case "==":
			if ft.Y != nil && p.isNilExpr(ft.Y) {
				if id, ok := unparen(ft.X).(*ast.Ident); ok {
					if c := env[p.ObjOf(id)]; (c == "nil" && !ft.Val) || (c == "nonnil" && ft.Val) {
						return true
					}
				}
			}
		}
	}
	return false
}

func (g *CFG) describePath(p *Prog, path []*Block) string {
	s := ""
	for _, b := range path {
		if len(b.Nodes) > 0 {
			if s != "" {
				s += " -> "
			}
			s += p.Pos(b.Nodes[0].Pos())
		} else if b == g.Exit {
			s += " -> exit"
		}
	}
	return s
}

// DominatingEdges returns the conditional edges that every path from the
// entry to loc must traverse (structural dominance: deleting the edge makes
// loc unreachable). Unlike must-facts this ignores intervening writes; rules
// use it where the tested operands are known not to change in between.
func (g *CFG) DominatingEdges(loc Loc) []*Edge {
	var out []*Edge
	for _, b := range g.Blocks {
		for _, e := range b.Succs {
			if e.Cond == nil {
				continue
			}
			cut := e
			reach := g.Reach([]*Block{g.Entry}, func(x *Edge) bool { return x != cut })
			if !reach[loc.B] {
				out = append(out, e)
			}
		}
	}
	return out
}
