package main

import (
	"fmt"
	"go/ast"
	"go/token"
	"go/types"
	"strings"
)

func init() { register("C13", checkC13) }

func checkC13(p *Prog, r *Report) {
	nsp := p.Fn("newSharedPacketConn")
	spClose := p.Fn("sharedPacketConn.Close")
	if !r.Anchor("newSharedPacketConn", nsp != nil) || !r.Anchor("sharedPacketConn.Close", spClose != nil) {
		return
	}

	// ---- R13.1 refcount ownership --------------------------------------------------------
	r.Rule("R13.1", "The per-connection reference count is incremented only by the wrapper constructor and decremented only by the wrapper's Close, once per handle (inside closeOnce); the underlying connection is closed iff the decrement reaches zero; every connection handed out by UDPMuxDefault.GetConn / TCPMuxDefault.GetConnByUfrag is a fresh wrapper over that connection's own counter.", 7)
	for _, fld := range []string{"udpMuxedConn.refs", "tcpPacketConn.refs", "sharedPacketConn.refs"} {
		for _, f := range p.AllFuncs {
			walkBody(f, func(n ast.Node) bool {
				c, ok := n.(*ast.CallExpr)
				if !ok {
					return true
				}
				sel, ok := unparen(c.Fun).(*ast.SelectorExpr)
				if !ok || !p.IsField(sel.X, fld) {
					return true
				}
				switch sel.Sel.Name {
				case "Add", "Store", "Swap", "CompareAndSwap":
					okF := f == spClose || f.Parent == spClose
					r.Check(okF, "refcount "+fld+" modified in "+f.Name, p.Pos(c.Pos()), "wrapper Close", "the reference count is modified outside the wrapper constructor / Close")
				}
				return true
			})
		}
	}
	// constructor: refs.Add(1) on its parameter
	{
		n := 0
		refsParam := p.paramObj(nsp, 1)
		walkBody(nsp, func(x ast.Node) bool {
			if c, ok := x.(*ast.CallExpr); ok {
				if sel, ok := unparen(c.Fun).(*ast.SelectorExpr); ok && sel.Sel.Name == "Add" {
					if id, ok := unparen(sel.X).(*ast.Ident); ok && p.ObjOf(id) == refsParam {
						if v, _ := p.ConstVal(c.Args[0]); v == "1" {
							n++
						}
					}
				}
			}
			return true
		})
		r.Check(n == 1, "wrapper constructor takes exactly one reference", p.Pos(nsp.Body.Pos()), "refs.Add(1)", itoa(n)+" increments in the constructor")
		// the wrapper stores that counter and its own cancellable context
		has := map[string]bool{}
		walkBody(nsp, func(x ast.Node) bool {
			if kv, ok := x.(*ast.KeyValueExpr); ok {
				if id, ok := kv.Key.(*ast.Ident); ok {
					switch id.Name {
					case "refs":
						vid, ok := unparen(kv.Value).(*ast.Ident)
						has["refs"] = ok && p.ObjOf(vid) == refsParam
					case "ctx", "cancel", "underlying":
						has[id.Name] = true
					}
				}
			}
			return true
		})
		ctxOwn := false
		for _, c := range p.CallsTo(nsp, false, "context.WithCancel") {
			if len(c.Args) == 1 {
				if bc, ok := unparen(c.Args[0]).(*ast.CallExpr); ok && p.CalleeName(bc) == "context.Background" {
					ctxOwn = true
				}
			}
		}
		r.Check(has["refs"] && has["ctx"] && has["cancel"] && has["underlying"] && ctxOwn, "wrapper owns its counter reference and a private context", p.Pos(nsp.Body.Pos()), "refs stored; ctx from context.WithCancel(context.Background())", "the wrapper does not keep the counter it incremented, or its context is shared with other handles")
	}
	// Close: closeOnce{cancel; if refs.Add(-1) <= 0 {underlying.Close()}}
	{
		inOnce := false
		walkBody(spClose, func(n ast.Node) bool {
			if c, ok := n.(*ast.CallExpr); ok && p.isMethodOnField(c, "sharedPacketConn.closeOnce", "Do") {
				inOnce = true
			}
			return true
		})
		var lit *Func
		for _, l := range spClose.Lits {
			lit = l
		}
		if r.Anchor("sharedPacketConn.Close once-body", lit != nil) {
			t := p.NewTable(lit)
			t.Event = func(n ast.Node, _ *TEnv) []string {
				var out []string
				for _, c := range p.NodeCalls(n) {
					switch {
					case p.IsField(c.Fun, "sharedPacketConn.cancel"):
						out = append(out, "cancel")
					case p.isMethodOnField(c, "sharedPacketConn.refs", "Add"):
						v, _ := p.ConstVal(c.Args[0])
						out = append(out, "refs.Add("+v+")")
					case p.CalleeName(c) == "ice.muxedPacketConn.Close" || p.CalleeName(c) == "net.PacketConn.Close":
						out = append(out, "close-underlying")
					}
				}
				return out
			}
			t.Run()
			okAll := len(t.Paths) > 0 && inOnce
			for _, pa := range t.Paths {
				mask := ""
				for _, d := range pa.Hist {
					switch {
					case d.Atom.Kind == "ord":
						mask = d.Val // the engine keeps the constant on the right
					case d.Atom.Kind == "enum" && d.Val == "==0":
						mask = "EQ"
					case d.Atom.Kind == "enum" && d.Val == "!=0":
						mask = "LT|GT"
					}
				}
				ev := strings.Join(pa.Events, ",")
				// result == 0 must close, result > 0 must not; a negative count cannot occur (once-guarded) and is a don't-care
				want := "cancel,refs.Add(-1)"
				bad := mask == "" || (maskHas(mask, "EQ") && maskHas(mask, "GT"))
				if maskHas(mask, "EQ") || mask == "LT" && strings.HasSuffix(ev, "close-underlying") {
					want += ",close-underlying"
				}
				if bad || ev != want {
					okAll = false
					r.Fail("sharedPacketConn.Close row refs-after-decrement "+mask+" 0", pa.EndPos, "does ["+ev+"], expected ["+want+"]: the underlying connection must be closed exactly when the last handle is released (result 0), and not while references remain (result > 0)")
				}
			}
			if okAll {
				r.OK("sharedPacketConn.Close: cancel own context, decrement once, close underlying iff last", p.Pos(spClose.Body.Pos()), "inside closeOnce; close iff result <= 0")
			} else if !inOnce {
				r.Fail("sharedPacketConn.Close once", p.Pos(spClose.Body.Pos()), "the decrement is not inside closeOnce: closing a handle twice releases two references")
			}
		}
	}
	// hand-out sites
	for _, name := range []string{"UDPMuxDefault.GetConn", "TCPMuxDefault.GetConnByUfrag"} {
		f := p.Fn(name)
		if !r.Anchor(name, f != nil) {
			continue
		}
		n := 0
		walkBody(f, func(x ast.Node) bool {
			rs, ok := x.(*ast.ReturnStmt)
			if !ok || len(rs.Results) != 2 || p.isNilExpr(rs.Results[0]) {
				return true
			}
			n++
			c, isCall := unparen(rs.Results[0]).(*ast.CallExpr)
			ok2 := isCall && (p.CalleeName(c) == "ice.newSharedPacketConn" || p.CalleeName(c) == "ice.newSharedAddrPortConn") && len(c.Args) == 2
			if ok2 {
				// &x.refs of the same connection that is wrapped
				u, isU := unparen(c.Args[1]).(*ast.UnaryExpr)
				ok2 = isU && u.Op == token.AND
				if ok2 {
					sel, isSel := unparen(u.X).(*ast.SelectorExpr)
					ok2 = isSel && sel.Sel.Name == "refs" && p.Canon(sel.X) == p.Canon(c.Args[0])
				}
			}
			r.Check(ok2, name+": hands out a fresh wrapper", p.Pos(rs.Pos()), "newShared*Conn(conn, &conn.refs)", "a connection is handed out without a per-handle wrapper over its own reference counter: closing one user's handle closes the connection for all (or never)")
			return true
		})
		if n == 0 {
			r.Fail(name+": hands out a fresh wrapper", p.Pos(f.Body.Pos()), "no successful return found")
		}
	}
	if f := p.Fn("newSharedAddrPortConn"); r.Anchor("newSharedAddrPortConn", f != nil) {
		r.Check(len(p.CallsTo(f, false, "ice.newSharedPacketConn")) == 1, "AddrPort wrapper builds on the counting wrapper", p.Pos(f.Body.Pos()), "embeds newSharedPacketConn(u, refs)", "the AddrPort wrapper does not take a reference through newSharedPacketConn")
	}

	// ---- R13.2 per-handle failure ----------------------------------------------------------
	r.Rule("R13.2", "Every I/O method of a handle tests the handle's own context before delegating to the shared connection, so closing one handle fails that handle's own pending and future I/O and nothing else; Close cancels only the handle's own context.", 6)
	for _, name := range []string{"sharedPacketConn.ReadFrom", "sharedPacketConn.WriteTo", "sharedPacketConn.SetReadDeadline", "sharedPacketConn.SetWriteDeadline",
		"sharedAddrPortConn.ReadFromAddrPort", "sharedAddrPortConn.WriteToAddrPort"} {
		f := p.Fn(name)
		if !r.Anchor(name, f != nil) {
			continue
		}
		// delegations to the underlying conn, or storing the deadline
		var sinks []ast.Node
		walkBody(f, func(n ast.Node) bool {
			switch x := n.(type) {
			case *ast.CallExpr:
				if sel, ok := unparen(x.Fun).(*ast.SelectorExpr); ok {
					if p.IsField(sel.X, "sharedPacketConn.underlying") || p.IsField(sel.X, "sharedAddrPortConn.underlyingAddrPort") || p.IsField(sel.X, "sharedPacketConn.readDeadline") {
						sinks = append(sinks, x)
					}
				}
			}
			return true
		})
		if len(sinks) == 0 {
			r.Fail(name+": delegation", p.Pos(f.Body.Pos()), "no delegation to the shared connection found")
			continue
		}
		for _, s := range sinks {
			facts, _ := p.FactsAtCall(f, s)
			alive := facts.Has(func(ft Fact) bool {
				if ft.Op != "==" || !ft.Val || !p.isNilExpr(ft.Y) {
					return false
				}
				if c, ok := unparen(ft.X).(*ast.CallExpr); ok && p.CalleeName(c) == "context.Context.Err" {
					if sel, ok := unparen(c.Fun).(*ast.SelectorExpr); ok && p.IsField(sel.X, "sharedPacketConn.ctx") {
						return true
					}
				}
				return p.atomIsCall(f, ft.X, "ice.sharedPacketConn.readContext")
			})
			r.Check(alive, name+": own context tested before delegating", p.Pos(s.Pos()), "dominated by s.ctx.Err() == nil (or readContext ok)", "the handle delegates to the shared connection without testing its own context: after this handle was closed its I/O still goes through while a sibling keeps the connection open")
		}
	}
	if f := p.Fn("sharedPacketConn.readContext"); r.Anchor("sharedPacketConn.readContext", f != nil) {
		ok := false
		walkBody(f, func(n ast.Node) bool {
			if rs, ok2 := n.(*ast.ReturnStmt); ok2 && len(rs.Results) == 3 && p.MentionsObj(rs.Results[2], "io.ErrClosedPipe") {
				facts, _ := p.FactsAtCall(f, rs)
				if facts.Has(func(ft Fact) bool { return ft.Op == "==" && !ft.Val && p.isNilExpr(ft.Y) }) {
					ok = true
				}
			}
			return true
		})
		derived := false
		for _, c := range p.CallsTo(f, false, "context.WithDeadline") {
			if len(c.Args) == 2 && p.IsField(c.Args[0], "sharedPacketConn.ctx") {
				derived = true
			}
		}
		r.Check(ok && derived, "readContext: closed handle refused; deadline context derives from the handle's", p.Pos(f.Body.Pos()), "ErrClosedPipe when ctx.Err() != nil; WithDeadline(s.ctx, ...)", "a closed handle can still start a read, or the read deadline context is not a child of the handle's context (Close would not unblock the read)")
	}

	// ---- R13.3 write bracket and abort protocol ------------------------------------------------
	r.Rule("R13.3", "Every function that enters the shared write section (startWriteContext == nil) defers finishWrite before any other exit; abortWrite arms the socket deadline only after it set the blocked bit by CAS, and on an arming error clears only the abort bits (never restores a stale snapshot); the deadline is cleared (SetWriteDeadline(zero)) before the state word is reset; nothing else stores to the state word.", 8)
	nBrackets := 0
	for _, f := range p.AllFuncs {
		starts := p.CallsTo(f, false, "ice.UDPMuxDefault.startWriteContext")
		if len(starts) == 0 || f.Name == "UDPMuxDefault.startWriteContext" {
			continue
		}
		nBrackets++
		g := p.CFG(f)
		for _, st := range starts {
			// the success edge: err == nil
			var succ *Block
			for _, b := range g.Blocks {
				for _, e := range b.Succs {
					if e.Cond == nil {
						continue
					}
					for _, ft := range p.FactsOfCond(e.Cond, e.Val) {
						if ft.Op == "==" && ft.Val && p.isNilExpr(ft.Y) {
							if c, _, ok := p.ResolveCall(f, ft.X); ok && c == st {
								succ = e.To
							}
						}
					}
				}
			}
			if succ == nil {
				r.Unknown(f.Name+": write bracket", p.Pos(st.Pos()), "success edge of startWriteContext not found")
				continue
			}
			isDeferFinish := func(n ast.Node) bool {
				d, ok := n.(*ast.DeferStmt)
				if !ok {
					return false
				}
				found := false
				ast.Inspect(d, func(x ast.Node) bool {
					if c, ok := x.(*ast.CallExpr); ok && p.CalleeName(c) == "ice.UDPMuxDefault.finishWrite" {
						found = true
					}
					return true
				})
				return found
			}
			// no exit and no other call between the success edge and the defer
			_, escapes := g.PathAvoiding(Loc{succ, 0}, isDeferFinish, func(b *Block) bool { return b == g.Exit }, nil)
			r.Check(!escapes, f.Name+": finishWrite deferred on every path after entering", p.Pos(st.Pos()), "defer finishWrite first", "a path leaves the function after startWriteContext succeeded without finishWrite: the in-flight counter never returns to zero and a later abort leaves the socket's write deadline armed for every user")
		}
	}
	if nBrackets < 2 {
		r.Fail("write brackets", "udp_mux.go", fmt.Sprintf("only %d functions enter the shared write section", nBrackets))
	}
	if f := p.Fn("UDPMuxDefault.abortWrite"); r.Anchor("UDPMuxDefault.abortWrite", f != nil) {
		for _, c := range p.CallsTo(f, false, "net.PacketConn.SetWriteDeadline") {
			facts, _ := p.FactsAtCall(f, c)
			cas := facts.Has(func(ft Fact) bool {
				cc, ok := unparen(ft.X).(*ast.CallExpr)
				return ft.Op == "truth" && ft.Val && ok && p.isMethodOnField(cc, "UDPMuxDefault.writeState", "CompareAndSwap")
			})
			inflight := facts.Has(func(ft Fact) bool {
				// (state & countMask) == 0 is false
				return ft.Op == "==" && !ft.Val && p.constName(ft.Y) == "0" && p.MentionsObj(ft.X, "ice.udpMuxWriteCountMask")
			})
			r.Check(cas && inflight, "abortWrite: deadline armed only after the blocked bit was set, with writers in flight", p.Pos(c.Pos()), "dominated by the successful CAS and count != 0", fmt.Sprintf("deadline armed with CAS done=%v writers in flight=%v: with no writer in flight nobody clears the deadline again", cas, inflight))
			now := len(c.Args) == 1 && p.atomIsCall(f, c.Args[0], "time.Now")
			r.Check(now, "abortWrite: arms with time.Now()", p.Pos(c.Pos()), "SetWriteDeadline(time.Now())", "abort arms something other than an immediate deadline")
		}
		// error edge: clearWriteAbortState, no Store
		okErr := false
		for _, c := range p.CallsTo(f, false, "ice.UDPMuxDefault.clearWriteAbortState") {
			facts, _ := p.FactsAtCall(f, c)
			if _, isErr := p.HasCallEqNil(facts, f, "net.PacketConn.SetWriteDeadline", 0, false); isErr {
				okErr = true
			}
		}
		r.Check(okErr, "abortWrite: arming error clears the abort bits", p.Pos(f.Body.Pos()), "clearWriteAbortState() on the SetWriteDeadline error edge", "when arming the deadline fails the blocked bit is not cleared by the bit-clearing CAS loop: writers wait forever, or a stale snapshot of the in-flight count is restored")
		armed := len(p.CallsTo(f, false, "ice.UDPMuxDefault.setWriteDeadlineArmed")) == 1
		r.Check(armed, "abortWrite: records that the deadline is armed", p.Pos(f.Body.Pos()), "setWriteDeadlineArmed()", "the deadline bit is never set: the last writer spins waiting for it")
	}
	// stores to the state word
	for _, f := range p.AllFuncs {
		walkBody(f, func(n ast.Node) bool {
			c, ok := n.(*ast.CallExpr)
			if !ok || !p.isMethodOnField(c, "UDPMuxDefault.writeState", "Store") {
				return true
			}
			v, _ := p.ConstVal(c.Args[0])
			okS := f.Name == "UDPMuxDefault.clearWriteDeadlineAfterAbort" && v == "0"
			if okS {
				// preceded by SetWriteDeadline(time.Time{})
				okS = p.MustPrecede(f, c, func(n ast.Node) bool {
					return p.nodeHasCall(n, func(x *ast.CallExpr) bool {
						if p.CalleeName(x) != "net.PacketConn.SetWriteDeadline" || len(x.Args) != 1 {
							return false
						}
						cl, isLit := unparen(x.Args[0]).(*ast.CompositeLit)
						return isLit && len(cl.Elts) == 0
					})
				})
				facts, _ := p.FactsAtCall(f, c)
				// only once the deadline bit is set
				if !facts.Has(func(ft Fact) bool {
					return ft.Op == "==" && !ft.Val && p.constName(ft.Y) == "0" && p.MentionsObj(ft.X, "ice.udpMuxWriteDeadlineBit")
				}) {
					okS = false
				}
			}
			r.Check(okS, "state word reset in "+f.Name, p.Pos(c.Pos()), "Store(0) only after clearing the socket deadline, once the deadline bit is set", "the abort state word is overwritten in "+f.Name+" (value "+v+"): in-flight writers are forgotten or the armed deadline is never cleared")
			return true
		})
	}
	if f := p.Fn("UDPMuxDefault.finishWrite"); r.Anchor("UDPMuxDefault.finishWrite", f != nil) {
		n := 0
		for _, c := range p.CallsTo(f, false, "ice.UDPMuxDefault.clearWriteDeadlineAfterAbort") {
			n++
			facts, _ := p.FactsAtCall(f, c)
			last := facts.Has(func(ft Fact) bool { return ft.Op == "==" && ft.Val && p.constName(ft.Y) == "1" })
			blocked := facts.Has(func(ft Fact) bool {
				return ft.Op == "==" && !ft.Val && p.constName(ft.Y) == "0" && p.MentionsObj(ft.X, "ice.udpMuxWriteBlockedBit")
			})
			r.Check(last && blocked, "finishWrite: the last in-flight writer of an aborted section clears the deadline", p.Pos(c.Pos()), "blocked bit set and count == 1", fmt.Sprintf("deadline cleared with last-writer=%v blocked=%v", last, blocked))
		}
		if n == 0 {
			r.Fail("finishWrite: clears the deadline", p.Pos(f.Body.Pos()), "finishWrite never clears an armed deadline: after an abort the shared socket stays unusable")
		}
	}
	if f := p.Fn("UDPMuxDefault.startWriteContext"); r.Anchor("UDPMuxDefault.startWriteContext", f != nil) {
		// a writer enters only while the blocked bit is clear
		ok := false
		walkBody(f, func(n ast.Node) bool {
			if c, isC := n.(*ast.CallExpr); isC && p.isMethodOnField(c, "UDPMuxDefault.writeState", "CompareAndSwap") {
				facts, _ := p.FactsAtCall(f, c)
				if facts.Has(func(ft Fact) bool {
					return ft.Op == "==" && ft.Val && p.constName(ft.Y) == "0" && p.MentionsObj(ft.X, "ice.udpMuxWriteBlockedBit")
				}) {
					ok = true
				}
			}
			return true
		})
		r.Check(ok, "startWriteContext: no new writer while an abort is pending", p.Pos(f.Body.Pos()), "increment only with the blocked bit clear", "writers enter the shared section while the socket deadline is armed")
	}

	// only the arming-error edge of abortWrite may strip the abort bits
	for _, f := range p.AllFuncs {
		for _, c := range p.CallsTo(f, false, "ice.UDPMuxDefault.clearWriteAbortState") {
			r.Check(f.Name == "UDPMuxDefault.abortWrite", "abort bits stripped in "+f.Name, p.Pos(c.Pos()), "only on abortWrite's arming-error edge", "the blocked/deadline bits are cleared outside abortWrite's error edge: an abort that is still arming the socket deadline finds the blocked bit gone, never records the deadline as armed, and nobody clears it — every later write on the shared socket times out")
		}
	}
	if f := p.Fn("UDPMuxDefault.clearWriteDeadlineAfterAbort"); r.Anchor("UDPMuxDefault.clearWriteDeadlineAfterAbort", f != nil) {
		g := p.CFG(f)
		isClear := func(n ast.Node) bool {
			return p.nodeHasCall(n, func(x *ast.CallExpr) bool {
				if p.CalleeName(x) != "net.PacketConn.SetWriteDeadline" || len(x.Args) != 1 {
					return false
				}
				cl, ok := unparen(x.Args[0]).(*ast.CompositeLit)
				return ok && len(cl.Elts) == 0
			})
		}
		_, escapes := g.PathAvoiding(Loc{g.Entry, 0}, isClear, func(b *Block) bool { return b == g.Exit }, func(e *Edge) bool {
			// the only way out without clearing: the abort is no longer pending (blocked bit clear)
			for _, ft := range p.FactsOfCond(e.Cond, e.Val) {
				if ft.Op == "==" && ft.Val && p.constName(ft.Y) == "0" && p.MentionsObj(ft.X, "ice.udpMuxWriteBlockedBit") {
					return false
				}
			}
			return true
		})
		r.Check(!escapes, "the last writer of an aborted section leaves only after clearing the socket deadline", p.Pos(f.Body.Pos()), "SetWriteDeadline(zero) on every exit taken with the blocked bit set", "the last writer can leave while the abort is pending without clearing the socket's write deadline (it must wait for the deadline to be recorded as armed, then clear it)")
	}

	// ---- R13.5 deadlines are per handle -------------------------------------------------------------------
	r.Rule("R13.5", "Setting a deadline on one handle never changes a deadline of the shared connection's sockets: a handle's deadline setters may forward only to setters of the underlying connection types that have no effect.", 3)
	for _, mname := range []string{"SetDeadline", "SetReadDeadline", "SetWriteDeadline"} {
		f := p.Fn("sharedPacketConn." + mname)
		if !r.Anchor("sharedPacketConn."+mname, f != nil) {
			continue
		}
		forwarded := false
		walkBody(f, func(n ast.Node) bool {
			c, ok := n.(*ast.CallExpr)
			if !ok {
				return true
			}
			sel, ok := unparen(c.Fun).(*ast.SelectorExpr)
			if !ok || !p.IsField(sel.X, "sharedPacketConn.underlying") || !strings.HasPrefix(sel.Sel.Name, "Set") || !strings.HasSuffix(sel.Sel.Name, "Deadline") {
				return true
			}
			forwarded = true
			for _, tn := range []string{"udpMuxedConn", "tcpPacketConn"} {
				t := p.Fn(tn + "." + sel.Sel.Name)
				if t == nil {
					continue
				}
				effectFree := len(p.CallsIn(t, true, func(string, *ast.CallExpr) bool { return true })) == 0 && len(p.Effects(t).Writes) == 0
				r.Check(effectFree, "sharedPacketConn."+mname+" reaches "+tn+"."+sel.Sel.Name, p.Pos(c.Pos()), "the target has no effect", "one handle's "+mname+" is forwarded to "+tn+"."+sel.Sel.Name+", which sets the deadline on the shared sockets: shutting one handle down (abortIO uses SetDeadline(now)) makes its siblings' I/O on the same connection time out")
			}
			return true
		})
		if !forwarded {
			r.OK("sharedPacketConn."+mname+" keeps the deadline in the handle", p.Pos(f.Body.Pos()), "no call on the shared connection")
		}
	}

	// ---- R13.4 the abort reaches the handle ---------------------------------------------------------
	r.Rule("R13.4", "Closing an agent aborts a blocked write through the handle: abortIO uses the writeAborter interface, which every connection type handed out by the UDP mux implements, down to the mux's abortWrite.", 4)
	wa, _ := p.Ice.Types.Scope().Lookup("writeAborter").(*types.TypeName)
	if r.Anchor("writeAborter interface", wa != nil) {
		iface, _ := wa.Type().Underlying().(*types.Interface)
		for _, tn := range []string{"sharedPacketConn", "sharedAddrPortConn", "udpMuxedConn"} {
			o, _ := p.Ice.Types.Scope().Lookup(tn).(*types.TypeName)
			ok := o != nil && iface != nil && types.Implements(types.NewPointer(o.Type()), iface)
			r.Check(ok, "*"+tn+" implements writeAborter", "shared_packet_conn.go", "abortWrite() error", "*"+tn+" no longer implements writeAborter: Agent.Close cannot abort a write blocked on the shared socket")
		}
	}
	if f := p.Fn("candidateBase.abortIO"); r.Anchor("candidateBase.abortIO", f != nil) {
		var lit *Func
		for _, l := range f.Lits {
			lit = l
		}
		aborts := []*ast.CallExpr{}
		if lit != nil {
			aborts = p.CallsTo(lit, false, "ice.writeAborter.abortWrite")
		}
		ok := len(aborts) == 1
		if ok {
			// before the handle is closed (a closed handle's context would refuse nothing here, but the
			// abort must reach the socket while the write is still in flight) and unconditionally
			closes := p.CallsTo(lit, false, "net.PacketConn.Close")
			ok = len(closes) == 1 && aborts[0].Pos() < closes[0].Pos()
			if ok {
				ok = p.MustPrecede(lit, closes[0], func(n ast.Node) bool {
					// the type-assertion guard is the only condition on the abort
					return p.nodeHasCall(n, func(x *ast.CallExpr) bool { return x == aborts[0] })
				}) || p.abortOnlyGuardedByAssertion(lit, aborts[0])
			}
		}
		r.Check(ok, "abortIO aborts a blocked write through the handle before closing it", p.Pos(f.Body.Pos()), "c.conn.(writeAborter).abortWrite() then c.conn.Close()", "Agent.Close no longer aborts a write blocked on the shared socket (or closes the handle first): the loop waits for the blocked task")
	}
	checkAbortForwarding(p, r)

	// ---- R13.6 exhaustive clean-up / migration loops ----
	r.Rule("R13.6", "The loops that must treat every element of a collection do so: no early exit, and no path through an iteration that skips the operation (mux close and packet-connection close reach every element).", 3)
	checkForAllLoops(p, r, "C13")

	// ---- R13.7 a claimed TCP packet connection is not closed underneath its handles ------------------------
	r.Rule("R13.7", "The provisional-lifetime timer of a TCP packet connection is armed only by the constructor and afterwards only stopped: once a handle has claimed the connection, nothing can re-arm the timer that would close it with references outstanding.", 3)
	checkAliveTimerDiscipline(p, r)

	// ---- R13.9 a woken reader takes the packet it was woken for ---------------------------------------------------
	r.Rule("R13.9", "Every iteration of udpMuxedConn.readPacket's loop examines the packet queue first: no return is reachable between the loop head and the queue test. One wake-up token is sent per queued packet, so a reader that consumed the token but leaves without looking at the queue (because its own handle was closed or its deadline passed meanwhile) strands the packet, and a sibling handle parked on the same connection is never woken for it.", 1)
	if f := p.Fn("udpMuxedConn.readPacket"); r.Anchor("udpMuxedConn.readPacket", f != nil) {
		g := p.CFG(f)
		var loop *ast.ForStmt
		walkBody(f, func(x ast.Node) bool {
			if fs, ok := x.(*ast.ForStmt); ok && loop == nil {
				loop = fs
			}
			return true
		})
		if loop == nil || len(loop.Body.List) == 0 {
			r.Fail("readPacket: the wait loop", p.Pos(f.Body.Pos()), "the loop was not found")
		} else if start, ok := g.Locate(firstEvaluated(loop.Body.List[0])); !ok {
			r.Unknown("readPacket: the wait loop", p.Pos(loop.Pos()), "first statement of the loop not located in the CFG")
		} else {
			isQueueTest := func(n ast.Node) bool { return p.MentionsField(n, "udpMuxedConn.bufTail") }
			_, escapes := g.PathAvoiding(Loc{start.B, start.I}, isQueueTest, func(b *Block) bool { return b == g.Exit }, nil)
			r.Check(!escapes, "readPacket examines the queue first in every iteration", p.Pos(loop.Pos()), "no exit between the loop head and the queue test", "a path leaves readPacket from the top of an iteration without examining the queue: a reader woken for a packet can return without dequeuing it or passing the wake-up on")
		}
	}

	// ---- R13.8 the write-section protocol never parks ---------------------------------------------------------
	r.Rule("R13.8", "The functions that operate on the shared write-section state word (enter, leave, abort, clear) contain no operation that can block indefinitely — no channel receive / send, no select without default, no WaitGroup wait: a writer held back by an abort polls the state word and its own context, so the end of an abort needs no wake-up that a writer arriving at the wrong moment could miss (a missed wake-up leaves that user's write stuck although the socket is usable again).", 4)
	{
		n := 0
		for _, f := range p.AllFuncs {
			if f.Pkg != p.Ice || f.Body == nil {
				continue
			}
			uses := false
			walkBody(f, func(x ast.Node) bool {
				if c, ok := x.(*ast.CallExpr); ok {
					if sel, ok := unparen(c.Fun).(*ast.SelectorExpr); ok && p.IsField(sel.X, "UDPMuxDefault.writeState") {
						uses = true
					}
				}
				return true
			})
			if !uses {
				continue
			}
			n++
			var sites []string
			for _, b := range p.blockingSites(f) {
				sites = append(sites, b.desc+" at "+p.Pos(b.node.Pos()))
			}
			r.Check(len(sites) == 0, "write-section function "+f.Name+" does not park", p.Pos(f.Body.Pos()), "no blocking operation", "the function can block on "+strings.Join(sites, "; ")+": whoever ends the abort has to wake it, and a writer that reads the state word just before the wake-up and parks just after it is never woken")
		}
		if n < 4 {
			r.Fail("write-section functions", "udp_mux.go", fmt.Sprintf("only %d functions operate on the write-section state word (rule instance lost)", n))
		}
	}
}

// abortOnlyGuardedByAssertion: the only branch conditions dominating call are
// comma-ok type assertions (the abort is attempted whenever the handle
// supports it).
func (p *Prog) abortOnlyGuardedByAssertion(f *Func, call *ast.CallExpr) bool {
	g := p.CFG(f)
	loc, ok := g.Locate(call)
	if !ok {
		return false
	}
	for _, e := range g.DominatingEdges(loc) {
		for _, ft := range p.FactsOfCond(e.Cond, e.Val) {
			if ft.Op != "truth" || !ft.Val {
				return false
			}
			id, isID := unparen(ft.X).(*ast.Ident)
			if !isID {
				return false
			}
			d, ok := p.SingleDef(f, p.ObjOf(id))
			if !ok || d.Rhs == nil {
				return false
			}
			if _, isTA := unparen(d.Rhs).(*ast.TypeAssertExpr); !isTA {
				return false
			}
		}
	}
	return true
}

// calledOnEveryPath: every path from f's entry to its exit executes call.
func (p *Prog) calledOnEveryPath(f *Func, call *ast.CallExpr) bool {
	g := p.CFG(f)
	_, escapes := g.PathAvoiding(Loc{g.Entry, 0}, func(n ast.Node) bool {
		return p.nodeHasCall(n, func(x *ast.CallExpr) bool { return x == call })
	}, func(b *Block) bool { return b == g.Exit }, nil)
	return !escapes
}

// checkAbortForwarding: the abort of a blocked shared write is forwarded, on every path, from the handle
// to the muxed connection to the mux (shared by C13 R13.4 and C08 R8.15).
func checkAbortForwarding(p *Prog, r *Report) {
	if f := p.Fn("sharedPacketConn.abortWrite"); r.Anchor("sharedPacketConn.abortWrite", f != nil) {
		cs := p.CallsTo(f, false, "ice.writeAborter.abortWrite")
		r.Check(len(cs) == 1 && (p.calledOnEveryPath(f, cs[0]) || p.abortOnlyGuardedByAssertion(f, cs[0])), "handle forwards the abort to the shared connection", p.Pos(f.Body.Pos()), "underlying.(writeAborter).abortWrite(), whenever the underlying connection supports it", "the handle's abortWrite does not reach the shared connection on every path (a condition other than the type assertion decides)")
	}
	if f := p.Fn("udpMuxedConn.abortWrite"); r.Anchor("udpMuxedConn.abortWrite", f != nil) {
		cs := p.CallsTo(f, false, "ice.UDPMuxDefault.abortWrite")
		r.Check(len(cs) == 1 && p.calledOnEveryPath(f, cs[0]), "muxed connection forwards the abort to the mux", p.Pos(f.Body.Pos()), "Mux.abortWrite() on every path", "the muxed connection's abortWrite does not reach the mux on every path: a write that is blocked in the shared socket through a path its bookkeeping does not see is not aborted, and Close waits for it forever")
	}
}

// firstEvaluated: the node of st that is evaluated first (what the CFG holds for a compound statement).
func firstEvaluated(st ast.Stmt) ast.Node {
	switch s := st.(type) {
	case *ast.IfStmt:
		if s.Init != nil {
			return firstEvaluated(s.Init)
		}
		return unparenCond(s.Cond)
	case *ast.SwitchStmt:
		if s.Init != nil {
			return firstEvaluated(s.Init)
		}
		if s.Tag != nil {
			return s.Tag
		}
	case *ast.BlockStmt:
		if len(s.List) > 0 {
			return firstEvaluated(s.List[0])
		}
	case *ast.LabeledStmt:
		return firstEvaluated(s.Stmt)
	}
	return st
}

// unparenCond: the leftmost operand of a condition (what a short-circuit lowering evaluates first).
func unparenCond(e ast.Expr) ast.Node {
	for {
		switch x := e.(type) {
		case *ast.ParenExpr:
			e = x.X
			continue
		case *ast.BinaryExpr:
			if x.Op == token.LAND || x.Op == token.LOR {
				e = x.X
				continue
			}
		case *ast.UnaryExpr:
			if x.Op == token.NOT {
				e = x.X
				continue
			}
		}
		return e
	}
}
