package main

import (
	"fmt"
	"go/ast"
	"go/token"
	"go/types"
	"strings"
)

func init() { register("C12", checkC12) }

// mapOps lists index / assignment / delete operations on the map field.
type mapOp struct {
	f    *Func
	node ast.Node
	key  ast.Expr
	kind string // read | write | delete
}

func (p *Prog) mapOps(field string) []mapOp {
	var out []mapOp
	for _, f := range p.AllFuncs {
		writes := map[ast.Node]bool{}
		walkBody(f, func(n ast.Node) bool {
			if as, ok := n.(*ast.AssignStmt); ok {
				for _, l := range as.Lhs {
					if ix, ok := unparen(l).(*ast.IndexExpr); ok && p.IsField(ix.X, field) {
						writes[ix] = true
					}
				}
			}
			return true
		})
		walkBody(f, func(n ast.Node) bool {
			switch x := n.(type) {
			case *ast.IndexExpr:
				if p.IsField(x.X, field) {
					k := "read"
					if writes[x] {
						k = "write"
					}
					out = append(out, mapOp{f, x, x.Index, k})
				}
			case *ast.CallExpr:
				if p.CalleeName(x) == "builtin.delete" && len(x.Args) == 2 && p.IsField(x.Args[0], field) {
					out = append(out, mapOp{f, x, x.Args[1], "delete"})
				}
			}
			return true
		})
	}
	return out
}

func checkC12(p *Prog, r *Report) {
	cw := p.Fn("UDPMuxDefault.connWorker")
	if !r.Anchor("UDPMuxDefault.connWorker", cw != nil) {
		return
	}

	// ---- R12.1 canonical keys -----------------------------------------------------------
	r.Rule("R12.1", "Every key used to look up, insert into or delete from the address map (and the XOR-mapped-address map) derives from canonicalAddrPort, so a source seen as IPv4 and as IPv4-mapped IPv6 is one key; the IP family used to choose the ufrag table on the receive path is taken from the canonical source address.", 5)
	for _, field := range []string{"UDPMuxDefault.addressMap", "UniversalUDPMuxDefault.xorMappedMap"} {
		ops := p.mapOps(field)
		if len(ops) < 3 {
			r.Fail("operations on "+field, "udp_mux.go", fmt.Sprintf("only %d map operations found", len(ops)))
		}
		for _, op := range ops {
			srcs := p.Provenance(op.f, op.key)
			ok, bad := onlySource(srcs, "call:ice.canonicalAddrPort")
			r.Check(ok, op.kind+" of "+field+" in "+op.f.Name, p.Pos(op.node.Pos()), "key derives from canonicalAddrPort", "the map key derives from "+bad+" (all sources: "+strings.Join(srcs, ", ")+"): the same peer address in another textual/binary form maps to a different entry")
		}
	}
	// the family for the ufrag lookup
	for _, c := range p.CallsTo(cw, false, "ice.UDPMuxDefault.getConn") {
		ok := false
		why := ""
		if len(c.Args) == 2 {
			srcs := p.Provenance(cw, c.Args[1])
			// isIPv6 := srcAddr.Addr().Is6() with srcAddr canonical
			if id, isID := unparen(c.Args[1]).(*ast.Ident); isID {
				if d, single := p.SingleDef(cw, p.ObjOf(id)); single {
					var base ast.Expr
					ast.Inspect(d.Rhs, func(n ast.Node) bool {
						if bid, isB := n.(*ast.Ident); isB && base == nil {
							if _, isV := p.ObjOf(bid).(interface{ IsField() bool }); isV {
								base = bid
							}
						}
						return true
					})
					if base != nil {
						bs := p.Provenance(cw, base)
						ok, why = onlySource(bs, "call:ice.canonicalAddrPort")
						why = "family taken from " + stripVarLines(p.Canon(base)) + " <- " + strings.Join(bs, ", ") + " " + why
					}
				}
			}
			_ = srcs
		}
		r.Check(ok, "receive path: ufrag table chosen by the canonical source family", p.Pos(c.Pos()), why, "the IPv4/IPv6 ufrag table is chosen from the raw source address ("+why+"): an IPv4 peer seen through a dual-stack socket (::ffff:a.b.c.d) is looked up in the IPv6 table")
	}

	// ---- R12.2 guarded-by ---------------------------------------------------------------------
	r.Rule("R12.2", "addressMap is accessed only under addressMapMu; the per-family ufrag tables only under the mux mutex; a muxed connection's address list, packet queue and closed flag only under the connection's mutex.", 8)
	guards := map[string]string{
		"UDPMuxDefault.addressMap":            "UDPMuxDefault.addressMapMu",
		"UDPMuxDefault.connsIPv4":             "UDPMuxDefault.mu",
		"UDPMuxDefault.connsIPv6":             "UDPMuxDefault.mu",
		"udpMuxedConn.addresses":              "udpMuxedConn.mu",
		"udpMuxedConn.bufHead":                "udpMuxedConn.mu",
		"udpMuxedConn.bufTail":                "udpMuxedConn.mu",
		"udpMuxedConn.closed":                 "udpMuxedConn.mu",
		"UniversalUDPMuxDefault.xorMappedMap": "UDPMuxDefault.mu",
	}
	for field, mu := range guards {
		sname := field[:strings.Index(field, ".")]
		n, bad := 0, 0
		for fv, accs := range p.fieldAccesses(sname) {
			if p.FieldName(fv) != field {
				continue
			}
			for _, a := range accs {
				root := a.f.Root().Name
				if root == "NewUDPMuxDefault" || root == "newUDPMuxedConn" || root == "NewUniversalUDPMuxDefault" {
					continue // construction
				}
				n++
				if !p.HeldAt(a.f, a.node)[mu] {
					bad++
					r.Fail(field+" guarded by "+mu+": "+a.f.Name, p.Pos(a.node.Pos()), field+" is accessed without holding "+mu)
				}
			}
		}
		if bad == 0 {
			r.Check(n > 0, field+" guarded by "+mu, "", itoa(n)+" accesses, all with the mutex held", "no access found (rule instance lost)")
		}
	}

	// ---- R12.3 dispatch order -------------------------------------------------------------------
	r.Rule("R12.3", "Per inbound datagram: a hit in the address map wins; otherwise only a decodable STUN message with a USERNAME is looked up by the ufrag before ':' in the family of the source; anything else is dropped; the datagram is handed to at most one connection, with its true source address.", 5)
	wps := p.CallsTo(cw, false, "ice.udpMuxedConn.writePacket")
	r.Check(len(wps) == 1, "connWorker: one delivery per datagram", p.Pos(cw.Body.Pos()), "single writePacket call", itoa(len(wps))+" writePacket calls in the receive loop")
	for _, c := range wps {
		facts, _ := p.FactsAtCall(cw, c)
		sel, _ := unparen(c.Fun).(*ast.SelectorExpr)
		known := sel != nil && facts.Has(func(ft Fact) bool {
			return ft.Op == "==" && !ft.Val && p.isNilExpr(ft.Y) && p.Canon(ft.X) == p.Canon(sel.X)
		})
		r.Check(known, "connWorker: delivery only to a resolved connection", p.Pos(c.Pos()), "dominated by destinationConn != nil", "a datagram is delivered without a resolved destination connection")
		// payload and source
		argsOK := len(c.Args) == 3
		if argsOK {
			if sl, ok := unparen(c.Args[0]).(*ast.SliceExpr); !ok || sl.Low != nil || sl.High == nil {
				argsOK = false
			}
			srcs := p.Provenance(cw, c.Args[1])
			if ok, _ := onlySource(srcs, "call:ice.UDPMuxDefault.readFromUDPConn"); !ok {
				argsOK = false
			}
		}
		r.Check(argsOK, "connWorker: datagram delivered unmodified with its true source", p.Pos(c.Pos()), "buf[:n] and the address returned by the socket read", "the delivered payload or source address is not what the socket read returned")
		// destination provenance: address map or ufrag table
		if sel != nil {
			srcs := p.Provenance(cw, sel.X)
			ok := true
			for _, s := range srcs {
				if s != "call:ice.UDPMuxDefault.getConn#0" && !strings.HasPrefix(s, "call:ice.UDPMuxDefault.getConn") && !strings.HasPrefix(s, "call:ice.canonicalAddrPort") && !strings.HasPrefix(s, "expr:") && s != "const" {
					// stores into addressMap come from registerConnForAddress(conn) params
				}
			}
			_ = ok
		}
	}
	for _, c := range p.CallsTo(cw, false, "ice.UDPMuxDefault.getConn") {
		facts, _ := p.FactsAtCall(cw, c)
		// "address miss": the variable that receives this lookup's result was still nil
		var dstObj types.Object
		if as := p.assignOf(cw, c); as != nil && len(as.Lhs) >= 1 {
			if id, ok := unparen(as.Lhs[0]).(*ast.Ident); ok {
				dstObj = p.ObjOf(id)
			}
		}
		// ... or a variable the result is then copied to (result temporaries of a helper)
		targets := map[types.Object]bool{}
		if dstObj != nil {
			targets[dstObj] = true
			for round := 0; round < 3; round++ {
				walkBody(cw, func(n ast.Node) bool {
					if as, ok := n.(*ast.AssignStmt); ok && len(as.Lhs) == len(as.Rhs) {
						for i, rr := range as.Rhs {
							if rid, ok := unparen(rr).(*ast.Ident); ok && targets[p.ObjOf(rid)] {
								if lid, ok := unparen(as.Lhs[i]).(*ast.Ident); ok && p.ObjOf(lid) != nil {
									targets[p.ObjOf(lid)] = true
								}
							}
						}
					}
					return true
				})
			}
		}
		miss := facts.Has(func(ft Fact) bool {
			id, ok := unparen(ft.X).(*ast.Ident)
			return ft.Op == "==" && ft.Val && p.isNilExpr(ft.Y) && ok && targets[p.ObjOf(id)]
		})
		_, isStun := p.HasCallTruth(facts, cw, "stun.IsMessage", 0, true)
		_, decoded := p.HasCallEqNil(facts, cw, "stun.Message.Decode", 0, true)
		_, hasUser := p.HasCallEqNil(facts, cw, "stun.Message.Get", 1, true)
		r.Check(miss && isStun && decoded && hasUser, "connWorker: ufrag lookup only for unseen sources with decodable STUN + USERNAME", p.Pos(c.Pos()), "address miss, STUN, decoded, USERNAME present",
			fmt.Sprintf("ufrag lookup guards: address miss=%v STUN=%v decoded=%v USERNAME=%v", miss, isStun, decoded, hasUser))
		// ufrag = strings.Split(string(attr), ":")[0]
		uOK := false
		if len(c.Args) == 2 {
			if id, ok := unparen(c.Args[0]).(*ast.Ident); ok {
				if d, single := p.SingleDef(cw, p.ObjOf(id)); single {
					if ix, ok := unparen(d.Rhs).(*ast.IndexExpr); ok {
						i0, _ := p.ConstVal(ix.Index)
						if sc, ok := unparen(ix.X).(*ast.CallExpr); ok && p.CalleeName(sc) == "strings.Split" && len(sc.Args) == 2 && isStringLit(p, sc.Args[1], ":") && i0 == "0" {
							if at := p.Provenance(cw, sc.Args[0]); len(at) == 1 && strings.HasPrefix(at[0], "call:stun.Message.Get") {
								uOK = true
							}
						}
					}
				}
			}
		}
		r.Check(uOK, "connWorker: ufrag is the USERNAME part before ':'", p.Pos(c.Pos()), "strings.Split(string(username), \":\")[0]", "the lookup key is not the text before ':' of the USERNAME attribute")
		held := p.Locks(cw).At(c)["UDPMuxDefault.mu"]
		r.Check(held, "connWorker: ufrag table read under the mux mutex", p.Pos(c.Pos()), "mu held", "getConn called without the mux mutex")
	}
	// a decode failure / missing username drops the datagram (continue), it does not fall through
	{
		g := p.CFG(cw)
		bad := false
		if len(wps) == 1 {
			loc, _ := g.Locate(wps[0])
			for _, b := range g.Blocks {
				for _, e := range b.Succs {
					if e.Cond == nil {
						continue
					}
					for _, ft := range p.FactsOfCond(e.Cond, e.Val) {
						if ft.Op == "==" && !ft.Val && p.isNilExpr(ft.Y) && p.atomIsCallAny(cw, ft.X, "stun.Message.Decode", "stun.Message.Get") {
							// from the failure edge, the delivery must not be reachable within the same iteration:
							// i.e. every path to writePacket passes the loop head (read) again
							reach := g.Reach([]*Block{e.To}, func(x *Edge) bool {
								return x.To.Kind != "for.head" && x.To.Kind != "for.body" || x.From.Kind == "for.head"
							})
							if reach[loc.B] && !reachesViaRead(p, g, e.To, loc.B) {
								bad = true
							}
						}
					}
				}
			}
		}
		r.Check(!bad, "connWorker: undecodable / anonymous STUN from an unseen source is dropped", p.Pos(cw.Body.Pos()), "failure edges continue with the next datagram", "after a decode failure or a missing USERNAME the datagram is still delivered")
	}

	// ---- R12.4 takeover and cleanup ------------------------------------------------------------------
	r.Rule("R12.4", "Registering an address for a connection first removes it from the previous owner; removing a ufrag deletes its connections from both families and every address binding they own; closing the mux closes all connections, empties both tables and closes the socket; a muxed connection's Close drops its queue and marks it closed.", 4)
	if f := p.Fn("UDPMuxDefault.registerConnForAddress"); r.Anchor("UDPMuxDefault.registerConnForAddress", f != nil) {
		var rmPos, stPos token.Pos
		walkBody(f, func(n ast.Node) bool {
			switch x := n.(type) {
			case *ast.CallExpr:
				if p.CalleeName(x) == "ice.udpMuxedConn.removeAddress" {
					rmPos = x.Pos()
					facts, _ := p.FactsAtCall(f, x)
					if !facts.Has(func(ft Fact) bool { return ft.Op == "truth" && ft.Val }) {
						rmPos = token.NoPos
					}
				}
			case *ast.AssignStmt:
				if ix, ok := unparen(x.Lhs[0]).(*ast.IndexExpr); ok && p.IsField(ix.X, "UDPMuxDefault.addressMap") {
					stPos = x.Pos()
					if id, ok := unparen(x.Rhs[0]).(*ast.Ident); !ok || p.ObjOf(id) != p.paramObj(f, 0) {
						stPos = token.NoPos
					}
				}
			}
			return true
		})
		r.Check(rmPos.IsValid() && stPos.IsValid() && rmPos < stPos, "address takeover removes the previous owner's binding", p.Pos(f.Body.Pos()), "existing.removeAddress(addr) then addressMap[addr] = conn", "registering an address does not first detach it from the previous owner: when that owner is removed later it deletes the new owner's binding")
		closedTest := false
		if len(f.Body.List) > 0 {
			if is, ok := f.Body.List[0].(*ast.IfStmt); ok && p.atomIsCall(f, is.Cond, "ice.UDPMuxDefault.IsClosed") {
				closedTest = true
			}
		}
		r.Check(closedTest, "no address registration on a closed mux", p.Pos(f.Body.Pos()), "if m.IsClosed() { return }", "addresses can be registered after the mux was closed")
	}
	if f := p.Fn("UDPMuxDefault.RemoveConnByUfrag"); r.Anchor("UDPMuxDefault.RemoveConnByUfrag", f != nil) {
		del := map[string]bool{}
		walkBody(f, func(n ast.Node) bool {
			if c, ok := n.(*ast.CallExpr); ok && p.CalleeName(c) == "builtin.delete" {
				if fv := p.FieldOf(c.Args[0]); fv != nil {
					del[fv.Name()] = true
				}
			}
			return true
		})
		getAddrs := len(p.CallsTo(f, false, "ice.udpMuxedConn.getAddresses")) == 1
		r.Check(del["connsIPv4"] && del["connsIPv6"] && del["addressMap"] && getAddrs, "RemoveConnByUfrag deletes both families and every owned address", p.Pos(f.Body.Pos()), "delete from connsIPv4, connsIPv6 and addressMap[each address]", fmt.Sprintf("deletes: %v, iterates owned addresses: %v", del, getAddrs))
	}
	if f := p.Fn("UDPMuxDefault.Close"); r.Anchor("UDPMuxDefault.Close", f != nil) {
		var lit *Func
		for _, l := range f.Lits {
			lit = l
		}
		if lit != nil {
			closes := len(p.CallsTo(lit, false, "ice.udpMuxedConn.Close"))
			reset := len(p.StoresTo(lit, "UDPMuxDefault.connsIPv4")) > 0 && len(p.StoresTo(lit, "UDPMuxDefault.connsIPv6")) > 0
			sock := len(p.CallsTo(lit, false, "net.PacketConn.Close")) == 1
			sig := false
			for _, c := range p.CallsTo(lit, false, "builtin.close") {
				if p.IsField(c.Args[0], "UDPMuxDefault.closedChan") {
					sig = true
				}
			}
			r.Check(closes == 2 && reset && sock && sig, "mux Close: conns closed, tables emptied, closed flag, socket closed", p.Pos(f.Body.Pos()), "all four", fmt.Sprintf("conn-close loops=%d tables reset=%v socket closed=%v closed channel=%v", closes, reset, sock, sig))
		}
	}
	if f := p.Fn("udpMuxedConn.Close"); r.Anchor("udpMuxedConn.Close", f != nil) {
		setClosed := false
		for _, n := range p.StoresTo(f, "udpMuxedConn.closed") {
			if as, ok := n.(*ast.AssignStmt); ok && p.constName(as.Rhs[0]) == "true" {
				setClosed = true
			}
		}
		drop := len(p.StoresTo(f, "udpMuxedConn.bufHead")) > 0 && len(p.StoresTo(f, "udpMuxedConn.bufTail")) > 0
		r.Check(setClosed && drop, "muxed conn Close: queue dropped and closed flag set", p.Pos(f.Body.Pos()), "closed = true, queue emptied", fmt.Sprintf("closed set=%v queue dropped=%v", setClosed, drop))
	}

	// ---- R12.5 per-connection FIFO and closed-check atomicity ---------------------------------------
	r.Rule("R12.5", "writePacket links the new packet after the node held in one end field and advances that field; readPacket takes the node held in the other end field and advances it to .next; the enqueue happens in the same critical section as the test that the connection is not closed (a connection that was closed receives nothing, even under a concurrent Close); readPacket reports EOF only when the queue is empty.", 4)
	if f := p.Fn("udpMuxedConn.writePacket"); r.Anchor("udpMuxedConn.writePacket", f != nil) {
		var enq []ast.Node
		for _, fld := range []string{"udpMuxedConn.bufHead", "udpMuxedConn.bufTail"} {
			enq = append(enq, p.StoresTo(f, fld)...)
		}
		la := p.Locks(f)
		okAll := len(enq) >= 2
		why := ""
		for _, n := range enq {
			facts, _ := p.FactsAtCall(f, n)
			notClosed := facts.Has(func(ft Fact) bool { return ft.Op == "truth" && !ft.Val && p.IsField(ft.X, "udpMuxedConn.closed") })
			if !notClosed {
				okAll, why = false, "enqueue not dominated by a direct test of the closed flag"
			}
			if !la.At(n)["udpMuxedConn.mu"] {
				okAll, why = false, "enqueue outside the connection mutex"
			}
		}
		// no Unlock between the closed test and the enqueue
		if okAll {
			g := p.CFG(f)
			var testBlock *Block
			for _, b := range g.Blocks {
				for _, e := range b.Succs {
					if e.Cond != nil && e.Cond.Op == "truth" && p.IsField(e.Cond.X, "udpMuxedConn.closed") && !e.Val {
						testBlock = e.To
					}
				}
			}
			if testBlock != nil {
				eloc, _ := g.Locate(enq[0])
				isUnlock := func(n ast.Node) bool {
					for _, c := range p.NodeCalls(n) {
						if k, op := p.lockKey(c); op == "unlock" && k == "udpMuxedConn.mu" {
							return true
						}
					}
					return false
				}
				// a path test -> unlock -> enqueue would break atomicity
				for _, b := range g.Blocks {
					for i, n := range b.Nodes {
						if !isUnlock(n) {
							continue
						}
						fromTest := g.Reach([]*Block{testBlock}, nil)[b] || b == testBlock
						toEnq := g.Reach([]*Block{b}, nil)[eloc.B] || (b == eloc.B && i < eloc.I)
						if fromTest && toEnq && !(b == eloc.B && i > eloc.I) {
							okAll, why = false, "the mutex is released between the closed test and the enqueue"
						}
					}
				}
			}
		}
		r.Check(okAll, "writePacket: closed test and enqueue in one critical section", p.Pos(f.Body.Pos()), "c.closed tested and packet linked under one acquisition of c.mu", why+": a Close running in between has already drained the queue, so the closed connection still receives (and later yields) the datagram")
		// link shape: head.next = pkt; head = pkt
		link := false
		walkBody(f, func(n ast.Node) bool {
			if as, ok := n.(*ast.AssignStmt); ok && len(as.Lhs) == 1 {
				if sel, ok := unparen(as.Lhs[0]).(*ast.SelectorExpr); ok && sel.Sel.Name == "next" && p.IsField(sel.X, "udpMuxedConn.bufHead") {
					link = true
				}
			}
			return true
		})
		r.Check(link, "writePacket links at the insertion end", p.Pos(f.Body.Pos()), "bufHead.next = pkt; bufHead = pkt", "the new packet is not linked after the current insertion-end node: order or packets are lost")
	}
	if f := p.Fn("udpMuxedConn.readPacket"); r.Anchor("udpMuxedConn.readPacket", f != nil) {
		adv := false
		walkBody(f, func(n ast.Node) bool {
			if as, ok := n.(*ast.AssignStmt); ok && len(as.Lhs) == 1 && p.IsField(as.Lhs[0], "udpMuxedConn.bufTail") {
				if sel, ok := unparen(as.Rhs[0]).(*ast.SelectorExpr); ok && sel.Sel.Name == "next" {
					adv = p.Locks(f).At(as)["udpMuxedConn.mu"]
				}
			}
			return true
		})
		r.Check(adv, "readPacket takes from the removal end and advances to .next", p.Pos(f.Body.Pos()), "pkt := bufTail; bufTail = pkt.next under the mutex", "dequeue does not advance the removal end to .next under the mutex")
		// EOF only when the queue is empty: the closed test is dominated by bufTail == nil
		eofOK := false
		walkBody(f, func(n ast.Node) bool {
			if rs, ok := n.(*ast.ReturnStmt); ok && len(rs.Results) == 4 && p.MentionsObj(rs.Results[3], "io.EOF") {
				facts, _ := p.FactsAtCall(f, rs)
				if facts.Has(func(ft Fact) bool {
					return ft.Op == "==" && ft.Val && p.isNilExpr(ft.Y) && p.IsField(ft.X, "udpMuxedConn.bufTail")
				}) {
					eofOK = true
				}
			}
			return true
		})
		r.Check(eofOK, "readPacket: EOF only with an empty queue", p.Pos(f.Body.Pos()), "closed reported after the queue test", "EOF can be reported while packets are still queued (or the order of the two tests changed)")
	}

	// ---- R12.6 identity-checked removal in close watchers -----------------------------------------
	r.Rule("R12.6", "A goroutine that waits for a muxed connection to close and then unregisters it does so by identity (only entries that still refer to that connection are removed): a connection registered later under the same ufrag is not removed by a stale watcher.", 2)
	if f := p.Fn("UDPMuxDefault.GetConn"); r.Anchor("UDPMuxDefault.GetConn", f != nil) {
		n := 0
		for _, l := range f.Lits {
			waits := false
			walkBody(l, func(x ast.Node) bool {
				if u, ok := x.(*ast.UnaryExpr); ok && u.Op == token.ARROW {
					if c, ok := unparen(u.X).(*ast.CallExpr); ok && p.CalleeName(c) == "ice.udpMuxedConn.CloseChannel" {
						waits = true
					}
				}
				return true
			})
			if !waits {
				continue
			}
			n++
			byKey := len(p.CallsTo(l, false, "ice.UDPMuxDefault.RemoveConnByUfrag")) > 0
			byID := false
			for _, c := range p.CallsTo(l, false, "ice.UDPMuxDefault.removeClosedConn") {
				if len(c.Args) == 2 {
					if t := p.TypeOf(c.Args[1]); t != nil && typeStr(t) == "*ice.udpMuxedConn" {
						byID = true
					}
				}
			}
			r.Check(byID && !byKey, "UDP mux close watcher removes by identity", p.Pos(l.Body.Pos()), "removeClosedConn(ufrag, conn)", "the close watcher removes whatever is registered under the ufrag: after GetConn(u), RemoveConnByUfrag(u), GetConn(u) closing the first handle unregisters the second connection")
		}
		if n == 0 {
			r.Fail("UDP mux close watcher", p.Pos(f.Body.Pos()), "no close watcher: closed connections stay registered")
		}
	}
	if f := p.Fn("UDPMuxDefault.removeClosedConn"); r.Anchor("UDPMuxDefault.removeClosedConn", f != nil) {
		conn := p.paramObj(f, 1)
		bad := 0
		walkBody(f, func(n ast.Node) bool {
			c, ok := n.(*ast.CallExpr)
			if !ok || p.CalleeName(c) != "builtin.delete" {
				return true
			}
			facts, _ := p.FactsAtCall(f, c)
			same := facts.Has(func(ft Fact) bool {
				if ft.Op != "==" || !ft.Val {
					return false
				}
				return p.mentionsObj(ft.X, conn) || p.mentionsObj(ft.Y, conn)
			})
			if !same {
				bad++
			}
			return true
		})
		r.Check(bad == 0, "removeClosedConn deletes only entries equal to the closed connection", p.Pos(f.Body.Pos()), "every delete dominated by entry == conn", itoa(bad)+" deletions are not guarded by an identity comparison with the closed connection")
	}

	// ---- R12.7 membership is decided from what takeover edits ---------------------------------------------
	r.Rule("R12.7", "Whether a connection already owns a source address (and therefore skips re-registering it) is decided only from state that every function editing the connection's address list also updates: a memo of the membership answer must be reset wherever the list changes, otherwise the previous owner of an address does not take it back after a takeover.", 1)
	if f := p.Fn("udpMuxedConn.containsAddress"); r.Anchor("udpMuxedConn.containsAddress", f != nil) {
		bad := p.cacheIncoherence(f, []string{"udpMuxedConn.addresses"}, func(g *Func) bool { return g.Root().Name == "newUDPMuxedConn" })
		r.Check(len(bad) == 0, "containsAddress depends only on state kept in step with the address list", p.Pos(f.Body.Pos()), "reads the address list (and nothing that list edits leave stale)", strings.Join(bad, "; "))
	}
	// removal drops the bindings of every removed connection
	r.curRule = "R12.4"
	if f := p.Fn("UDPMuxDefault.RemoveConnByUfrag"); f != nil {
		walkBody(f, func(n ast.Node) bool {
			rs, ok := n.(*ast.RangeStmt)
			if !ok || typeStr(p.TypeOf(rs.X)) != "[]*ice.udpMuxedConn" {
				return true
			}
			skips := p.iterationSkips(f, rs, func(nd ast.Node) bool {
				// entering the loop over the connection's addresses
				e, isE := nd.(ast.Expr)
				if !isE {
					return false
				}
				for x, inner := range p.NewOwn().rangesOf(f) {
					if x == e && inner != rs {
						return true
					}
				}
				return false
			}, nil)
			r.Check(!skips, "RemoveConnByUfrag drops the bindings of every removed connection", p.Pos(rs.Pos()), "no removed connection is skipped", "a removed connection (e.g. one that is already closed) keeps its entries in the address map: datagrams from those sources are routed to a dead connection and never reach the ufrag registered next")
			return true
		})
	}

	// ---- R12.8 exhaustive clean-up / migration loops ----
	r.Rule("R12.8", "The loops that must treat every element of a collection do so: no early exit, and no path through an iteration that skips the operation (closing the mux closes every connection of both families).", 2)
	checkForAllLoops(p, r, "C12")

	// ---- R12.9 the canonical form itself ------------------------------------------------------------------
	r.Rule("R12.9", "canonicalAddr unmaps before it decides anything: every value it returns derives from the unmapped address, so the 4-byte and the IPv4-in-IPv6 spelling of one address always yield the same key (link-local IPv4 included).", 1)
	if f := p.Fn("canonicalAddr"); r.Anchor("canonicalAddr", f != nil) {
		par := p.paramObj(f, 0)
		ok, n := true, 0
		why := ""
		walkBody(f, func(x ast.Node) bool {
			rs, isR := x.(*ast.ReturnStmt)
			if !isR || len(rs.Results) != 1 {
				return true
			}
			n++
			// the returned value: a chain of method calls on an identifier
			e := unparen(rs.Results[0])
			unmapped := false
			for {
				c, isC := e.(*ast.CallExpr)
				if !isC {
					break
				}
				sel, isS := unparen(c.Fun).(*ast.SelectorExpr)
				if !isS {
					break
				}
				if p.CalleeName(c) == "net/netip.Addr.Unmap" {
					unmapped = true
				}
				e = unparen(sel.X)
			}
			if id, isID := e.(*ast.Ident); isID && !unmapped {
				d, okd := p.reachingDef(f, id, p.ObjOf(id))
				if okd && d.Rhs != nil && p.mentionsCall(d.Rhs, "net/netip.Addr.Unmap") {
					unmapped = true
				}
				if !okd && p.ObjOf(id) == par {
					unmapped = false
				}
			}
			if !unmapped {
				ok, why = false, "a return yields "+stripVarLines(p.Canon(rs.Results[0]))+" without having unmapped the address ("+p.Pos(rs.Pos())+")"
			}
			return true
		})
		// and the family / link-local decision is taken on the unmapped value
		for _, c := range p.CallsTo(f, false, "ice.isIPv6LinkLocal") {
			if id, isID := unparen(c.Args[0]).(*ast.Ident); isID {
				d, okd := p.reachingDef(f, id, p.ObjOf(id))
				if !(okd && d.Rhs != nil && p.mentionsCall(d.Rhs, "net/netip.Addr.Unmap")) {
					ok, why = false, "the link-local test is applied to the address before it was unmapped"
				}
			}
		}
		r.Check(ok && n > 0, "canonicalAddr returns only unmapped addresses", p.Pos(f.Body.Pos()), itoa(n)+" returns", why+": the two spellings of one IPv4 address get different keys, a takeover by the other spelling is missed and replies go to the previous owner")
	}

	// only the enqueue side links packets into the queue
	r.curRule = "R12.5"
	if f := p.Fn("udpMuxedConn.readPacket"); f != nil {
		okRead := true
		why := ""
		walkBody(f, func(x ast.Node) bool {
			as, isA := x.(*ast.AssignStmt)
			if !isA {
				return true
			}
			for i, l := range as.Lhs {
				sel, isS := unparen(l).(*ast.SelectorExpr)
				if !isS || i >= len(as.Rhs) {
					continue
				}
				switch {
				case p.IsField(sel, "udpMuxedConn.bufHead") && !p.isNilExpr(as.Rhs[i]):
					okRead, why = false, "readPacket stores a packet into the insertion end of the queue"
				case sel.Sel.Name == "next" && p.FieldOf(sel) != nil && !p.isNilExpr(as.Rhs[i]):
					okRead, why = false, "readPacket links a packet behind another one"
				}
			}
			return true
		})
		r.Check(okRead, "readPacket only dequeues", p.Pos(f.Body.Pos()), "no store into the insertion end, no linking", why+": a datagram put back by the reader lands behind newer ones and the connection no longer delivers in arrival order")
	}

	// ---- R12.11 table entries are selected by their exact key --------------------------------------------------
	r.Rule("R12.11", "An entry of a per-ufrag connection table (map[string]*udpMuxedConn) is selected by its exact key only: code that walks a table and decides on the key compares it by == / != (or uses it as a key again), never by a partial match (strings.HasPrefix, Contains, …) or an ordering — keys are ufrag or ufrag+URL without a separator, so a partial match confuses one user's entries with another's.", 1)
	{
		n := 0
		for _, f := range p.AllFuncs {
			if f.Pkg != p.Ice || f.Body == nil {
				continue
			}
			f := f
			walkBody(f, func(x ast.Node) bool {
				rs, ok := x.(*ast.RangeStmt)
				if !ok || typeStr(p.TypeOf(rs.X)) != "map[string]*ice.udpMuxedConn" {
					return true
				}
				n++
				kid, ok := rs.Key.(*ast.Ident)
				if !ok || kid.Name == "_" {
					r.OK("table walk in "+f.Name, p.Pos(rs.Pos()), "the key is not used")
					return true
				}
				key := p.ObjOf(kid)
				bad := ""
				ast.Inspect(rs.Body, func(y ast.Node) bool {
					switch z := y.(type) {
					case *ast.CallExpr:
						if nm := p.CalleeName(z); strings.HasPrefix(nm, "strings.") || strings.HasPrefix(nm, "bytes.") || strings.HasPrefix(nm, "regexp.") {
							for _, a := range z.Args {
								if p.mentionsObj(a, key) {
									bad = nm + " at " + p.Pos(z.Pos())
								}
							}
						}
					case *ast.BinaryExpr:
						switch z.Op {
						case token.LSS, token.GTR, token.LEQ, token.GEQ:
							if p.mentionsObj(z.X, key) || p.mentionsObj(z.Y, key) {
								bad = "an ordering comparison at " + p.Pos(z.Pos())
							}
						}
					case *ast.SliceExpr:
						if p.mentionsObj(z.X, key) {
							bad = "a substring of the key at " + p.Pos(z.Pos())
						}
					}
					return true
				})
				r.Check(bad == "", "table walk in "+f.Name+" selects by exact key", p.Pos(rs.Pos()), "== / != only", "entries are selected through "+bad+": the keys are ufrag or ufrag+URL, so the entries of a user whose ufrag merely begins like (or contains) another's are removed, closed or redirected with it")
				return true
			})
		}
		if n == 0 {
			r.Fail("walks over a per-ufrag table", "udp_mux.go", "no loop over a per-ufrag connection table found (rule instance lost)")
		}
	}

	// ---- R12.10 the reply can be routed before it can arrive ----------------------------------------------
	r.Rule("R12.10", "A connection registers the destination address with the mux before it hands the datagram to the socket (both write paths): a reply that arrives while the write is still returning is already routed to the writer, not to the address's previous owner.", 2)
	for _, wn := range []string{"udpMuxedConn.WriteTo", "udpMuxedConn.WriteToAddrPort"} {
		f := p.Fn(wn)
		if !r.Anchor(wn, f != nil) {
			continue
		}
		var writes []*ast.CallExpr
		for _, c := range p.CallsTo(f, false, "ice.UDPMuxDefault.writeTo", "ice.UDPMuxDefault.writeToUDPAddrPort") {
			writes = append(writes, c)
		}
		ok := len(writes) > 0
		g := p.CFG(f)
		isReg := func(n ast.Node) bool {
			return p.nodeHasCall(n, func(c *ast.CallExpr) bool {
				nm := p.CalleeName(c)
				return nm == "ice.udpMuxedConn.registerAddress" || nm == "ice.udpMuxedConn.addAddress"
			})
		}
		// an edge on which the address is known to be registered already needs no registration
		needsReg := func(e *Edge) bool {
			for _, ft := range p.FactsOfCond(e.Cond, e.Val) {
				if c, isC := unparen(ft.X).(*ast.CallExpr); isC && ft.Op == "truth" && ft.Val && p.CalleeName(c) == "ice.udpMuxedConn.containsAddress" {
					return false
				}
			}
			return true
		}
		for _, w := range writes {
			loc, okL := g.Locate(w)
			if !okL {
				ok = false
				continue
			}
			before := false
			for i := 0; i < loc.I; i++ {
				before = before || isReg(loc.B.Nodes[i])
			}
			if before {
				continue
			}
			if loc.B == g.Entry {
				ok = false
				continue
			}
			if _, found := g.PathAvoiding(Loc{g.Entry, 0}, isReg, func(b *Block) bool { return b == loc.B }, needsReg); found {
				ok = false
			}
		}
		r.Check(ok, wn+": address registered before the socket write", p.Pos(f.Body.Pos()), "registerAddress precedes the write on every path", "the destination address is registered after (or not on every path before) the socket write: a reply dispatched in between is delivered to the connection that used the address before, or dropped")
	}
}

// reachesViaRead: every path from b to target passes the socket read (i.e.
// belongs to a later datagram).
func reachesViaRead(p *Prog, g *CFG, from, target *Block) bool {
	isRead := func(n ast.Node) bool {
		for _, c := range p.NodeCalls(n) {
			if p.CalleeName(c) == "ice.UDPMuxDefault.readFromUDPConn" {
				return true
			}
		}
		return false
	}
	_, direct := g.PathAvoiding(Loc{from, 0}, isRead, func(b *Block) bool { return b == target }, nil)
	return !direct
}

// assignOf: the assignment statement whose right-hand side is call.
func (p *Prog) assignOf(f *Func, call *ast.CallExpr) *ast.AssignStmt {
	var out *ast.AssignStmt
	walkBody(f, func(n ast.Node) bool {
		if as, ok := n.(*ast.AssignStmt); ok && len(as.Rhs) == 1 && unparen(as.Rhs[0]) == ast.Expr(call) {
			out = as
		}
		return true
	})
	return out
}
