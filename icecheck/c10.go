package main

import (
	"fmt"
	"go/ast"
	"go/token"
	"go/types"
	"sort"
	"strings"
)

func init() { register("C10", checkC10) }

// fieldClass classifies a field of a loop-owned struct.
//
//	sync       synchronised by its type (atomic, mutex, channel, ...)
//	immutable  written only during construction
//	guarded    protected by a named mutex (frozen table)
//	confined   may only be touched inside the task loop
func (p *Prog) isSyncType(t types.Type) bool {
	switch u := t.(type) {
	case *types.Pointer:
		return p.isSyncType(u.Elem())
	case *types.Chan:
		return true
	case *types.Named:
		if u.Obj().Pkg() != nil {
			path := u.Obj().Pkg().Path()
			if isSyncPkg(path) || path == "context" {
				return true
			}
			name := shortPkg(path) + "." + u.Obj().Name()
			switch name {
			case "packetio.Buffer", "ice.handlerNotifier", "taskloop.Loop":
				return true
			}
		}
	case *types.Signature:
		return false
	}
	if s, ok := t.Underlying().(*types.Chan); ok {
		_ = s
		return true
	}
	return false
}

var guardedBy = map[string]string{
	"Agent.startedCandidates": "Agent.startedCandidatesMu",
	"Agent.selector":          "Agent.selectorLock",
}

type fieldAccess struct {
	f     *Func
	node  ast.Node
	write bool
}

func (p *Prog) fieldAccesses(structName string) map[*types.Var][]fieldAccess {
	out := map[*types.Var][]fieldAccess{}
	for _, f := range p.AllFuncs {
		writes := map[ast.Node]bool{}
		walkBody(f, func(n ast.Node) bool {
			switch x := n.(type) {
			case *ast.AssignStmt:
				for _, l := range x.Lhs {
					l = unparen(l)
					if sel, ok := l.(*ast.SelectorExpr); ok {
						writes[sel] = true
					}
					if ix, ok := l.(*ast.IndexExpr); ok {
						if sel, ok := unparen(ix.X).(*ast.SelectorExpr); ok {
							writes[sel] = true
						}
					}
				}
			case *ast.IncDecStmt:
				if sel, ok := unparen(x.X).(*ast.SelectorExpr); ok {
					writes[sel] = true
				}
			case *ast.CallExpr:
				switch p.CalleeName(x) {
				case "builtin.delete", "builtin.clear":
					if len(x.Args) > 0 {
						if sel, ok := unparen(x.Args[0]).(*ast.SelectorExpr); ok {
							writes[sel] = true
						}
					}
				}
			}
			return true
		})
		walkBody(f, func(n ast.Node) bool {
			sel, ok := n.(*ast.SelectorExpr)
			if !ok {
				return true
			}
			fv := p.FieldOf(sel)
			if fv == nil || !strings.HasPrefix(p.FieldName(fv), structName+".") {
				return true
			}
			out[fv] = append(out[fv], fieldAccess{f, sel, writes[sel]})
			return true
		})
		// composite literals &Agent{f: v}
		walkBody(f, func(n ast.Node) bool {
			cl, ok := n.(*ast.CompositeLit)
			if !ok {
				return true
			}
			st, _ := derefStruct(p.TypeOf(cl))
			if st == nil || typeBaseName(p.TypeOf(cl)) != structName {
				return true
			}
			for _, el := range cl.Elts {
				if kv, ok := el.(*ast.KeyValueExpr); ok {
					if id, ok := kv.Key.(*ast.Ident); ok {
						for i := 0; i < st.NumFields(); i++ {
							if st.Field(i).Name() == id.Name {
								out[st.Field(i)] = append(out[st.Field(i)], fieldAccess{f, kv, true})
							}
						}
					}
				}
			}
			return true
		})
	}
	return out
}

func checkC10(p *Prog, r *Report) {
	ci := p.Contexts()

	// ---- R10.1 task-loop shape ---------------------------------------------------------
	r.Rule("R10.1", "The task loop: tasks is an unbuffered channel with exactly one receiver, started once by New; the receiver runs each task and then closes its done channel; Run reports success only after its send was accepted and the task's done channel was received from, and never sends on the other paths; the close callback runs in the receiver's deferred exit before taskLoopDone is closed; CloseWithPreStop closes done once and always waits for taskLoopDone.", 10)
	newF, runLoop, run, cwp := p.Fn("taskloop.New"), p.Fn("taskloop.Loop.runLoop"), p.Fn("taskloop.Loop.Run"), p.Fn("taskloop.Loop.CloseWithPreStop")
	if r.Anchor("taskloop functions", newF != nil && runLoop != nil && run != nil && cwp != nil) {
		// unbuffered tasks channel
		unbuf := false
		walkBody(newF, func(n ast.Node) bool {
			if kv, ok := n.(*ast.KeyValueExpr); ok {
				if id, ok := kv.Key.(*ast.Ident); ok && id.Name == "tasks" {
					if c, ok := unparen(kv.Value).(*ast.CallExpr); ok && p.CalleeName(c) == "builtin.make" && len(c.Args) == 1 {
						unbuf = true
					}
				}
			}
			return true
		})
		r.Check(unbuf, "taskloop.New: unbuffered tasks channel", p.Pos(newF.Body.Pos()), "make(chan task)", "the task channel is buffered: Run can return 'accepted' for a task that never runs, and tasks queue up past Close")
		// single consumer goroutine
		nGo := 0
		walkBody(newF, func(n ast.Node) bool {
			if g, ok := n.(*ast.GoStmt); ok && p.CalleeName(g.Call) == "taskloop.Loop.runLoop" {
				nGo++
			}
			return true
		})
		others := 0
		for _, e := range p.Callers(runLoop) {
			if e.Caller != newF {
				others++
			}
		}
		r.Check(nGo == 1 && others == 0, "taskloop: one consumer goroutine", p.Pos(newF.Body.Pos()), "started once by New", fmt.Sprintf("runLoop is started %d times by New and from %d other places: tasks no longer run one at a time", nGo, others))
		// receivers of tasks
		var receivers []string
		for _, f := range p.AllFuncs {
			walkBody(f, func(n ast.Node) bool {
				if u, ok := n.(*ast.UnaryExpr); ok && u.Op == token.ARROW && p.IsField(u.X, "taskloop.Loop.tasks") {
					receivers = append(receivers, f.Name)
				}
				return true
			})
		}
		r.Check(len(receivers) == 1 && receivers[0] == "taskloop.Loop.runLoop", "taskloop: single receiver of tasks", p.Pos(runLoop.Body.Pos()), "only runLoop receives", "tasks are received in "+strings.Join(receivers, ", "))
		// runLoop: call the task then close(t.done), synchronously
		{
			okOrder, async := false, false
			walkBody(runLoop, func(n ast.Node) bool {
				cc, ok := n.(*ast.CommClause)
				if !ok {
					return true
				}
				var seq []string
				for _, s := range cc.Body {
					ast.Inspect(s, func(x ast.Node) bool {
						switch y := x.(type) {
						case *ast.GoStmt:
							async = true
						case *ast.CallExpr:
							if p.IsField(y.Fun, "taskloop.task.fn") {
								seq = append(seq, "run")
							}
							if p.CalleeName(y) == "builtin.close" && len(y.Args) == 1 && p.IsField(y.Args[0], "taskloop.task.done") {
								seq = append(seq, "close-done")
							}
						}
						return true
					})
				}
				if strings.Join(seq, ",") == "run,close-done" {
					okOrder = true
				}
				return true
			})
			r.Check(okOrder && !async, "runLoop: run the task, then signal completion", p.Pos(runLoop.Body.Pos()), "t.fn(l); close(t.done) on the consumer goroutine", "the consumer does not run each task to completion before signalling it (or runs it on another goroutine): Run may return before its task finished, tasks may overlap")
			// deferred exit: onClose() then close(taskLoopDone)
			var dseq []string
			walkBody(runLoop, func(n ast.Node) bool {
				if d, ok := n.(*ast.DeferStmt); ok {
					ast.Inspect(d, func(x ast.Node) bool {
						if c, ok := x.(*ast.CallExpr); ok {
							if id, ok := unparen(c.Fun).(*ast.Ident); ok && p.ObjOf(id) == p.paramObj(runLoop, 0) {
								dseq = append(dseq, "onClose")
							}
							if p.CalleeName(c) == "builtin.close" && len(c.Args) == 1 && p.IsField(c.Args[0], "taskloop.Loop.taskLoopDone") {
								dseq = append(dseq, "close-loopDone")
							}
						}
						return true
					})
				}
				return true
			})
			r.Check(strings.Join(dseq, ",") == "onClose,close-loopDone", "runLoop: close callback before loop-exit signal", p.Pos(runLoop.Body.Pos()), "defer { onClose(); close(taskLoopDone) }", "deferred exit does ["+strings.Join(dseq, ",")+"]: Close can return before the close callback ran / the callback never runs")
		}
		// Run: success only via send+<-done
		{
			g := p.CFG(run)
			var sendBlock *Block
			var doneObj types.Object // the completion channel placed in the submitted task
			var sentObj types.Object
			for _, b := range g.Blocks {
				for _, e := range b.Succs {
					if e.Cond != nil && e.Cond.Op == "comm" {
						if s, ok := e.Cond.Stmt.(*ast.SendStmt); ok && p.IsField(s.Chan, "taskloop.Loop.tasks") {
							sendBlock = e.To
							if id, ok := unparen(s.Value).(*ast.Ident); ok {
								sentObj = p.ObjOf(id) // the task is sent through a variable: its channel field is the completion channel
							}
							if cl, ok := unparen(p.Deref(run, s.Value)).(*ast.CompositeLit); ok {
								for _, el := range cl.Elts {
									v := el
									if kv, ok := el.(*ast.KeyValueExpr); ok {
										v = kv.Value
									}
									if id, ok := unparen(v).(*ast.Ident); ok {
										if _, isChan := p.TypeOf(id).Underlying().(*types.Chan); isChan {
											doneObj = p.ObjOf(id)
										}
									}
								}
							}
						}
					}
				}
			}
			// resolves aliases of the completion channel (finished := done)
			isDone := func(e ast.Expr) bool {
				if sel, ok := unparen(e).(*ast.SelectorExpr); ok && sentObj != nil {
					if id, ok := unparen(sel.X).(*ast.Ident); ok && p.ObjOf(id) == sentObj {
						if _, isChan := p.TypeOf(sel).Underlying().(*types.Chan); isChan && p.FieldOf(sel) != nil {
							return true
						}
					}
				}
				for i := 0; i < 4; i++ {
					id, ok := unparen(e).(*ast.Ident)
					if !ok {
						return false
					}
					if p.ObjOf(id) == doneObj && doneObj != nil {
						return true
					}
					d, ok := p.SingleDef(run, p.ObjOf(id))
					if !ok || d.Rhs == nil {
						return false
					}
					e = d.Rhs
				}
				return false
			}
			if r.Anchor("taskloop.Run: send case", sendBlock != nil) {
				isDoneRecv := func(n ast.Node) bool {
					found := false
					if _, isRA := n.(*RangeAssign); isRA {
						return false
					}
					ast.Inspect(n, func(x ast.Node) bool {
						if u, ok := x.(*ast.UnaryExpr); ok && u.Op == token.ARROW {
							if isDone(u.X) {
								found = true
							}
						}
						return true
					})
					// must be a plain receive statement, not one arm of a select
					if _, isExpr := n.(*ast.ExprStmt); !isExpr {
						return false
					}
					return found
				}
				_, escapes := g.PathAvoiding(Loc{sendBlock, 1}, isDoneRecv, func(b *Block) bool { return b == g.Exit }, nil)
				r.Check(!escapes, "taskloop.Run: accepted task is awaited", p.Pos(run.Body.Pos()), "every path from the accepted send to a return receives from done", "Run can return after its task was accepted without waiting for the task to finish: the caller continues concurrently with its own task, and an error no longer means 'the task never ran'")
				// nil is returned only on the send path; the other paths return errors
				nilOutside := false
				walkBody(run, func(n ast.Node) bool {
					rs, ok := n.(*ast.ReturnStmt)
					if !ok || len(rs.Results) != 1 || !p.isNilExpr(rs.Results[0]) {
						return true
					}
					loc, _ := g.Locate(rs)
					reach := g.Reach([]*Block{sendBlock}, nil)
					if !reach[loc.B] {
						nilOutside = true
					}
					return true
				})
				r.Check(!nilOutside, "taskloop.Run: success only after the task ran", p.Pos(run.Body.Pos()), "nil is returned only on the send path", "Run reports success on a path where the task was never handed to the loop")
				// early closed check
				// the select (and so the send) is reached only where l.Err() was nil
				first := false
				walkBody(run, func(n ast.Node) bool {
					if snd, ok := n.(*ast.SendStmt); ok && p.IsField(snd.Chan, "taskloop.Loop.tasks") {
						first = factListHas(p.DominatingFactList(run, snd), func(ft Fact) bool {
							if ft.Op != "==" || !ft.Val || !p.isNilExpr(ft.Y) {
								return false
							}
							c, _, ok := p.ResolveCall(run, ft.X)
							return ok && p.CalleeName(c) == "taskloop.Loop.Err"
						})
						// the same test spelled out: the default arm of a select whose other arm receives from
						// the closed channel and returns the error
						first = first || factListHas(p.DominatingFactList(run, snd), func(ft Fact) bool {
							sel, isSel := ft.Stmt.(*ast.SelectStmt)
							if ft.Op != "default" || !ft.Val || !isSel || len(sel.Body.List) != 2 {
								return false
							}
							for _, cl := range sel.Body.List {
								cc := cl.(*ast.CommClause)
								if cc.Comm == nil {
									continue
								}
								es, isE := cc.Comm.(*ast.ExprStmt)
								if !isE {
									return false
								}
								u, isU := unparen(es.X).(*ast.UnaryExpr)
								if !isU || u.Op != token.ARROW || !p.IsField(u.X, "taskloop.Loop.done") || len(cc.Body) == 0 {
									return false
								}
								rs, isR := cc.Body[len(cc.Body)-1].(*ast.ReturnStmt)
								return isR && len(rs.Results) == 1 && !p.isNilExpr(rs.Results[0])
							}
							return false
						})
					}
					return true
				})
				r.Check(first, "taskloop.Run: closed loop refuses at once", p.Pos(run.Body.Pos()), "if err := l.Err(); err != nil { return err } first", "Run does not test for a closed loop first: with a cancelled context and a closed loop the wrong error is reported / a task may be accepted after Close")
			}
		}
		// CloseWithPreStop
		{
			var seq []string
			inOnce := false
			walkBody(cwp, func(n ast.Node) bool {
				if c, ok := n.(*ast.CallExpr); ok && p.CalleeName(c) == "sync.Once.Do" {
					inOnce = p.isMethodOnField(c, "taskloop.Loop.closeOnce", "Do")
				}
				return true
			})
			for _, l := range cwp.Lits {
				walkBody(l, func(n ast.Node) bool {
					if c, ok := n.(*ast.CallExpr); ok {
						switch {
						case p.isMethodOnField(c, "taskloop.Loop.err", "Store"):
							seq = append(seq, "err")
						case p.CalleeName(c) == "builtin.close" && len(c.Args) == 1 && p.IsField(c.Args[0], "taskloop.Loop.done"):
							seq = append(seq, "close-done")
						default:
							if id, ok := unparen(c.Fun).(*ast.Ident); ok && p.ObjOf(id) == p.paramObj(cwp, 0) {
								seq = append(seq, "preStop")
							}
						}
					}
					return true
				})
			}
			wait := false
			for _, s := range cwp.Body.List {
				if es, ok := s.(*ast.ExprStmt); ok {
					if u, ok := unparen(es.X).(*ast.UnaryExpr); ok && u.Op == token.ARROW && p.IsField(u.X, "taskloop.Loop.taskLoopDone") {
						wait = true
					}
				}
			}
			r.Check(inOnce && strings.Join(seq, ",") == "err,close-done,preStop" && wait, "CloseWithPreStop: close once, pre-stop, always wait", p.Pos(cwp.Body.Pos()), "closeOnce{err; close(done); preStop}; <-taskLoopDone", "CloseWithPreStop does once=["+strings.Join(seq, ",")+"] waits="+boolStr(wait)+": expected store the error, close done, run preStop inside closeOnce, then wait for the loop exit unconditionally")
		}
		// Err / Done observe the done channel
		if f := p.Fn("taskloop.Loop.Err"); f != nil {
			ok := false
			walkBody(f, func(n ast.Node) bool {
				if u, ok2 := n.(*ast.UnaryExpr); ok2 && u.Op == token.ARROW && p.IsField(u.X, "taskloop.Loop.done") {
					ok = true
				}
				return true
			})
			r.Check(ok, "taskloop.Err observes done", p.Pos(f.Body.Pos()), "select on l.done", "Err does not observe the closed flag")
		}
	}

	// ---- R10.2 confinement ---------------------------------------------------------------
	r.Rule("R10.2", "Every field of Agent, CandidatePair (non-atomic part) and the selectors is synchronised by its type, written only during construction, protected by its named mutex, or touched only by code that can run only inside the task loop (or during construction). An access reachable from an exported entry point or a goroutine without entering the loop is a data race in waiting.", 60)
	type report struct {
		field string
		fn    *Func
		ctx   string
		node  ast.Node
		write bool
	}
	classCount := map[string]int{}
	var viols []report
	for _, sname := range []string{"Agent", "CandidatePair", "controllingSelector", "controlledSelector"} {
		_, st := p.StructType(sname)
		if !r.Anchor("struct "+sname, st != nil) {
			continue
		}
		acc := p.fieldAccesses(sname)
		for i := 0; i < st.NumFields(); i++ {
			fv := st.Field(i)
			fname := sname + "." + fv.Name()
			if p.isSyncType(fv.Type()) {
				classCount["sync"]++
				r.Trivial("field "+fname, "", "synchronised by its type ("+typeStr(fv.Type())+")")
				continue
			}
			if sname == "CandidatePair" {
				// statistics fields are accessed through sync/atomic functions only
				allAtomic, n := true, 0
				for _, a := range acc[fv] {
					n++
					if !p.insideAtomicCall(a.f, a.node) {
						allAtomic = false
					}
				}
				if allAtomic && n > 0 {
					classCount["sync"]++
					r.Trivial("field "+fname, "", "accessed through sync/atomic only")
					continue
				}
			}
			// writers
			var postWrites []fieldAccess
			for _, a := range acc[fv] {
				if !a.write {
					continue
				}
				cs := ci.List(a.f)
				onlyConstr := len(cs) == 1 && cs[0] == CtxConstr
				if a.f.Root().Name == "createAgentBase" || a.f.Root().Name == "newCandidatePair" || onlyConstr || a.f.Root().Name == "AgentConfig.initWithDefaults" {
					continue
				}
				if _, isKV := a.node.(*ast.KeyValueExpr); isKV {
					continue // initialisation of a new object
				}
				postWrites = append(postWrites, a)
			}
			if len(postWrites) == 0 {
				classCount["immutable"]++
				r.Trivial("field "+fname, "", "written only during construction")
				continue
			}
			if mu, ok := guardedBy[fname]; ok {
				classCount["guarded"]++
				bad := 0
				for _, a := range acc[fv] {
					if a.f.Root().Name == "createAgentBase" {
						continue
					}
					if !p.HeldAt(a.f, a.node)[mu] {
						bad++
						r.Fail("field "+fname+" guarded by "+mu+": "+a.f.Name, p.Pos(a.node.Pos()), "accessed without holding "+mu)
					}
				}
				if bad == 0 {
					r.OK("field "+fname+" guarded by "+mu, "", itoa(len(acc[fv]))+" accesses, all with the mutex held")
				}
				continue
			}
			classCount["confined"]++
			nOK := 0
			for _, a := range acc[fv] {
				for _, ctx := range ci.List(a.f) {
					if ctx == CtxAPI || ctx == CtxGo {
						viols = append(viols, report{fname, a.f, ctx, a.node, a.write})
					}
				}
				if len(ci.List(a.f)) == 0 {
					// unreachable helper (tests only) — not an access at run time
					continue
				}
				nOK++
			}
			_ = nOK
		}
	}
	r.Extra["field_classes"] = classCount
	r.Extra["loop_tasks"] = len(ci.LoopTasks)
	nLoopFuncs := 0
	for _, f := range p.AllFuncs {
		if ci.Has(f, CtxLoop) {
			nLoopFuncs++
		}
	}
	r.Extra["functions_in_loop_context"] = nLoopFuncs
	// one report per (field, root entry point)
	type key struct{ field, root string }
	seen := map[key]bool{}
	perField := map[string]bool{}
	sort.Slice(viols, func(i, j int) bool {
		if viols[i].field != viols[j].field {
			return viols[i].field < viols[j].field
		}
		return viols[i].node.Pos() < viols[j].node.Pos()
	})
	r.Except("R10.2: CandidatePair.String / CandidatePair.ID (exported, read loop-confined pair fields): the agent's own pair objects never leave the loop — GetSelectedCandidatePair returns a fresh copy, the binding-request handler runs inside the loop — so users can call them only on copies; inside the library they are called from loop code (logging)")
	for _, v := range viols {
		root := ci.Root[v.fn][v.ctx]
		if v.ctx == CtxAPI && (root.Name == "CandidatePair.String" || root.Name == "CandidatePair.ID") {
			continue
		}
		k := key{v.field, root.Name}
		if seen[k] {
			continue
		}
		seen[k] = true
		perField[v.field] = true
		kind := "read"
		if v.write {
			kind = "written"
		}
		r.Fail("loop-confined "+v.field+" reachable from "+root.Name, p.Pos(v.node.Pos()),
			v.field+" is "+kind+" in "+v.fn.Name+" which runs outside the task loop ("+v.ctx+" context): "+ci.ChainTo(v.fn, v.ctx))
	}
	// every confined field without a violation is an obligation discharged
	for _, sname := range []string{"Agent", "CandidatePair", "controllingSelector", "controlledSelector"} {
		_, st := p.StructType(sname)
		if st == nil {
			continue
		}
		for i := 0; i < st.NumFields(); i++ {
			fname := sname + "." + st.Field(i).Name()
			if _, g := guardedBy[fname]; g || p.isSyncType(st.Field(i).Type()) {
				continue
			}
			if !perField[fname] {
				r.OK("field "+fname+" confined/immutable", "", "no access outside loop/construction context")
			}
		}
	}

	// ---- R10.3 start is atomic ----------------------------------------------------------------
	r.Rule("R10.3", "The 'already started?' test and the start task are one critical section of muHaveStarted: concurrent start calls cannot both succeed.", 2)
	checkStartAtomic(p, r)

	// ---- R10.4 results leave the loop by value --------------------------------------------------
	r.Rule("R10.4", "Exported accessors hand results out of the loop only through variables assigned inside their task and read after Run returned without error.", 6)
	for _, f := range p.AllFuncs {
		if !p.isAPIRoot(f) || f.Decl.Recv == nil {
			continue
		}
		rt := recvTypeName(f.Decl.Recv.List[0].Type)
		if rt != "Agent" && rt != "Conn" {
			continue
		}
		runs := p.CallsTo(f, false, "taskloop.Loop.Run")
		if len(runs) == 0 {
			continue
		}
		// the error of Run must not be dropped
		for _, c := range runs {
			dropped := false
			walkBody(f, func(n ast.Node) bool {
				if es, ok := n.(*ast.ExprStmt); ok && es.X == ast.Expr(c) {
					dropped = true
				}
				if as, ok := n.(*ast.AssignStmt); ok && len(as.Rhs) == 1 && as.Rhs[0] == ast.Expr(c) {
					if id, ok := as.Lhs[0].(*ast.Ident); ok && id.Name == "_" {
						dropped = true
					}
				}
				return true
			})
			r.Check(!dropped, f.Name+": Run's error is observed", p.Pos(c.Pos()), "returned or tested", "the closed/cancelled error of loop.Run is ignored: after Close the call looks successful")
		}
	}

	// accessors hand out copies, never the loop's own slices or maps
	for _, f := range p.AllFuncs {
		if f.Lit == nil || f.Parent == nil || !p.isAPIRoot(f.Parent) || !ci.Has(f, CtxLoop) {
			continue
		}
		walkBody(f, func(n ast.Node) bool {
			as, ok := n.(*ast.AssignStmt)
			if !ok || len(as.Lhs) != len(as.Rhs) {
				return true
			}
			for i, l := range as.Lhs {
				id, ok := unparen(l).(*ast.Ident)
				if !ok {
					continue
				}
				obj := p.ObjOf(id)
				// a variable of the enclosing exported method (the result carrier)
				if obj == nil || f.Body.Pos() <= obj.Pos() && obj.Pos() <= f.Body.End() {
					continue
				}
				switch p.TypeOf(id).Underlying().(type) {
				case *types.Slice, *types.Map:
				default:
					continue
				}
				if why := p.aliasesLoopState(f, as.Rhs[i], 0); why != "" {
					r.Fail(f.Parent.Name+": result is a copy", p.Pos(as.Pos()), "the accessor hands out "+why+" itself, not a copy: the caller's goroutine then reads memory the task loop keeps mutating (and earlier results change under the caller)")
				} else {
					r.OK(f.Parent.Name+": result is a copy", p.Pos(as.Pos()), "built inside the task")
				}
			}
			return true
		})
	}

	// ---- R10.5 the role flag is used only inside the loop ----
	r.Rule("R10.5", "The controlling/controlled flag is read and written only by code that runs inside the task loop or during construction: no exported entry point tests the role before queueing the task that depends on it.", 5)
	checkRoleFlagConfined(p, r)
}

// insideAtomicCall: the selector is an argument (&x.f) of a sync/atomic call.
func (p *Prog) insideAtomicCall(f *Func, sel ast.Node) bool {
	found := false
	walkBody(f, func(n ast.Node) bool {
		c, ok := n.(*ast.CallExpr)
		if !ok {
			return true
		}
		m := p.Callee(c)
		if m == nil || m.Pkg() == nil || !isSyncPkg(m.Pkg().Path()) {
			return true
		}
		if c.Pos() <= sel.Pos() && sel.End() <= c.End() {
			found = true
		}
		return true
	})
	return found
}

// aliasesLoopState: e (a slice or map) is, or may be, a field of the agent or an
// element of one — as opposed to a value built inside the task (append to a
// fresh or nil slice, make, a literal). Returns a description or "".
func (p *Prog) aliasesLoopState(f *Func, e ast.Expr, depth int) string {
	e = unparen(e)
	if depth > 4 {
		return ""
	}
	switch x := e.(type) {
	case *ast.SelectorExpr:
		if fv := p.FieldOf(x); fv != nil {
			return p.FieldName(fv)
		}
	case *ast.IndexExpr:
		if w := p.aliasesLoopState(f, x.X, depth+1); w != "" {
			return "an element of " + w
		}
	case *ast.SliceExpr:
		return p.aliasesLoopState(f, x.X, depth+1)
	case *ast.Ident:
		if _, isNil := p.ObjOf(x).(*types.Nil); isNil {
			return ""
		}
		for _, d := range p.DefsOf(f, p.ObjOf(x)) {
			if d.Rhs == nil {
				var rx ast.Expr
				switch rn := d.Node.(type) {
				case *RangeAssign:
					rx = rn.Stmt.X
				case *ast.RangeStmt:
					rx = rn.X
				}
				if rx != nil {
					if w := p.aliasesLoopState(f, rx, depth+1); w != "" {
						return "an element of " + w
					}
				}
				continue
			}
			if w := p.aliasesLoopState(f, d.Rhs, depth+1); w != "" {
				return w
			}
		}
	case *ast.CallExpr:
		if p.CalleeName(x) == "builtin.append" && len(x.Args) > 0 {
			// append(dst, ...) aliases dst when dst has spare capacity
			return p.aliasesLoopState(f, x.Args[0], depth+1)
		}
	}
	return ""
}

// checkStartAtomic: the started test and the start task are one critical section (C10 R10.3, shared with C04 R4.8).
func checkStartAtomic(p *Prog, r *Report) {
	if f := p.Fn("Agent.startConnectivityChecks"); r.Anchor("Agent.startConnectivityChecks", f != nil) {
		runs := p.CallsTo(f, false, "taskloop.Loop.Run")
		if len(runs) == 0 {
			r.Fail("startConnectivityChecks: start task", p.Pos(f.Body.Pos()), "no loop task")
		}
		for _, c := range runs {
			held := p.Locks(f).At(c)["Agent.muHaveStarted"]
			r.Check(held, "startConnectivityChecks: start task under muHaveStarted", p.Pos(c.Pos()), "mutex held", "the start task is submitted without holding muHaveStarted: two concurrent starts can both pass the started test")
			// the started test in the same function, under the lock, dominating the task
			tested := false
			walkBody(f, func(n ast.Node) bool {
				if u, ok := n.(*ast.UnaryExpr); ok && u.Op == token.ARROW && p.IsField(u.X, "Agent.startedCh") {
					if p.Locks(f).At(u)["Agent.muHaveStarted"] && u.Pos() < c.Pos() {
						tested = true
					}
				}
				return true
			})
			r.Check(tested, "startConnectivityChecks: started test in the same critical section", p.Pos(c.Pos()), "select on startedCh under the lock, before the task", "the already-started test is not made inside the same muHaveStarted critical section as the start task")
		}
	}
}
