package main

// Whole-program behaviour-preserving transformations ("probes"). Each probe
// rewrites every non-test file of the analysed packages at once, in memory,
// in a way that cannot change behaviour; the property's rules are then run on
// the transformed program and must report exactly what they report on the
// tree itself. A rule that reacts to a probe identifies something by its
// spelling or by the direction in which a test happens to be written, not by
// what it is. The probes run in the thorough tier (rule PROBE).

import (
	"fmt"
	"go/ast"
	"go/printer"
	"go/token"
	"go/types"
	"os"
	"sort"
	"strings"
)

type textEdit struct {
	start, end int // byte offsets in the file
	text       string
}

type probe struct {
	Name string
	Doc  string
	Make func(p *Prog) (overlay map[string][]byte, sites int, err error)
}

var probes = []probe{
	{"rename-locals", "every local variable, parameter, receiver and named result of every function is renamed", probeRenameLocals},
	{"flip-if-else", "every if/else whose else branch is a plain block is rewritten as if !(cond) with the two branches swapped", probeFlipIfElse},
	{"name-conditions", "every side-effect-free if condition of a plain block statement is first assigned to a fresh boolean local and then tested", probeNameConditions},
	{"hoist-if-init", "every 'if init; cond' is rewritten as a block containing the init statement followed by 'if cond'", probeHoistIfInit},
	{"range-to-index", "every range loop over a slice is rewritten as an index loop over a snapshot of the slice header", probeRangeToIndex},
	{"switch-to-if", "every expression switch without break / fallthrough (and with a side-effect-free tag) is rewritten as an if / else-if chain", probeSwitchToIf},
	{"if-to-switch", "every if / else-if chain of at least two conditions without break statements is rewritten as a tagless switch", probeIfToSwitch},
	{"split-and", "every 'if a && b' without else is rewritten as two nested ifs", probeSplitAnd},
	{"loop-leading-break", "every 'for cond { ... }' is rewritten as 'for { if !(cond) { break }; ... }'", probeLoopLeadingBreak},
	{"named-results", "every function with unnamed results and no defer gets named results; each 'return e1, e2' becomes 'r1, r2 = e1, e2; return'", probeNamedResults},
	{"body-in-closure", "the body of every function without results, returns, labels, defer, recover and panic is wrapped in an immediately invoked function literal", probeBodyInClosure},
}

func applyEdits(src []byte, edits []textEdit) ([]byte, error) {
	sort.Slice(edits, func(i, j int) bool { return edits[i].start < edits[j].start })
	var out []byte
	pos := 0
	for _, e := range edits {
		if e.start < pos {
			return nil, fmt.Errorf("overlapping edits at offset %d", e.start)
		}
		out = append(out, src[pos:e.start]...)
		out = append(out, e.text...)
		pos = e.end
	}
	out = append(out, src[pos:]...)
	return out, nil
}

func (p *Prog) fileOf(pos token.Pos) (*token.File, string) {
	tf := p.Fset.File(pos)
	if tf == nil {
		return nil, ""
	}
	return tf, tf.Name()
}

// sortedFiles: the files of the analysed packages in a deterministic order.
func (p *Prog) sortedFiles() []*ast.File {
	var fs []*ast.File
	for f := range p.Files {
		fs = append(fs, f)
	}
	sort.Slice(fs, func(i, j int) bool { return p.Fset.File(fs[i].Pos()).Name() < p.Fset.File(fs[j].Pos()).Name() })
	return fs
}

func finishOverlay(p *Prog, perFile map[string][]textEdit) (map[string][]byte, error) {
	out := map[string][]byte{}
	for name, eds := range perFile {
		src, err := os.ReadFile(name)
		if err != nil {
			return nil, err
		}
		b, err := applyEdits(src, eds)
		if err != nil {
			return nil, fmt.Errorf("%s: %v", name, err)
		}
		out[name] = b
	}
	return out, nil
}

// ---- rename-locals ----

func probeRenameLocals(p *Prog) (map[string][]byte, int, error) {
	const suffix = "Rnm"
	taken := map[string]bool{}
	for _, pk := range p.Pkgs {
		for _, n := range pk.Types.Scope().Names() {
			taken[n] = true
		}
	}
	// function extents: only objects declared inside a function declaration are renamed
	type span struct{ lo, hi token.Pos }
	var spans []span
	for _, f := range p.sortedFiles() {
		for _, d := range f.Decls {
			if fd, ok := d.(*ast.FuncDecl); ok && fd.Body != nil {
				spans = append(spans, span{fd.Pos(), fd.End()})
			}
		}
		// function literals in package-level variable initialisers
		for _, d := range f.Decls {
			if gd, ok := d.(*ast.GenDecl); ok {
				ast.Inspect(gd, func(n ast.Node) bool {
					if fl, ok := n.(*ast.FuncLit); ok {
						spans = append(spans, span{fl.Pos(), fl.End()})
						return false
					}
					return true
				})
			}
		}
	}
	inFunc := func(pos token.Pos) bool {
		for _, s := range spans {
			if s.lo <= pos && pos < s.hi {
				return true
			}
		}
		return false
	}
	want := func(o types.Object) bool {
		v, ok := o.(*types.Var)
		if !ok || v.IsField() || v.Name() == "_" || v.Name() == "" || v.Pkg() == nil {
			return false
		}
		if v.Parent() == nil || v.Parent() == v.Pkg().Scope() || v.Parent() == types.Universe {
			return false
		}
		return inFunc(v.Pos()) && !taken[v.Name()+suffix]
	}
	perFile := map[string][]textEdit{}
	seen := map[token.Pos]bool{}
	n := 0
	rename := func(id *ast.Ident) {
		if p.synthIdent[id] {
			return
		}
		if seen[id.Pos()] {
			return
		}
		seen[id.Pos()] = true
		tf, name := p.fileOf(id.Pos())
		if tf == nil || !strings.HasSuffix(name, ".go") {
			return
		}
		off := tf.Offset(id.Pos())
		perFile[name] = append(perFile[name], textEdit{off, off + len(id.Name), id.Name + suffix})
		n++
	}
	for id, o := range p.Info.Defs {
		if o != nil && want(o) {
			rename(id)
		}
	}
	for id, o := range p.Info.Uses {
		if want(o) {
			rename(id)
		}
	}
	// type switches: the symbolic variable has one implicit object per clause
	for _, f := range p.sortedFiles() {
		ast.Inspect(f, func(x ast.Node) bool {
			ts, ok := x.(*ast.TypeSwitchStmt)
			if !ok {
				return true
			}
			as, ok := ts.Assign.(*ast.AssignStmt)
			if !ok || len(as.Lhs) != 1 {
				return true
			}
			id, ok := as.Lhs[0].(*ast.Ident)
			if !ok || id.Name == "_" {
				return true
			}
			for _, cl := range ts.Body.List {
				if o := p.Info.Implicits[cl]; o != nil && want(o) {
					rename(id)
					break
				}
			}
			return true
		})
	}
	ov, err := finishOverlay(p, perFile)
	return ov, n, err
}

// ---- flip-if-else ----

func nodeText(p *Prog, src map[string][]byte, n ast.Node) (string, error) {
	tf, name := p.fileOf(n.Pos())
	if tf == nil {
		return "", fmt.Errorf("no file")
	}
	b, ok := src[name]
	if !ok {
		var err error
		b, err = os.ReadFile(name)
		if err != nil {
			return "", err
		}
		src[name] = b
	}
	return string(b[tf.Offset(n.Pos()):tf.Offset(n.End())]), nil
}

func probeFlipIfElse(p *Prog) (map[string][]byte, int, error) {
	perFile := map[string][]textEdit{}
	src := map[string][]byte{}
	n := 0
	for _, f := range p.sortedFiles() {
		var visit func(x ast.Node) bool
		visit = func(x ast.Node) bool {
			is, ok := x.(*ast.IfStmt)
			if !ok {
				return true
			}
			els, ok := is.Else.(*ast.BlockStmt)
			if !ok {
				return true // no else, or else-if chain: left alone
			}
			// nested candidates inside the two branches would overlap with this edit: only the outermost is flipped
			cond, e1 := nodeText(p, src, is.Cond)
			body, e2 := nodeText(p, src, is.Body)
			elseT, e3 := nodeText(p, src, els)
			if e1 != nil || e2 != nil || e3 != nil {
				return false
			}
			tf, name := p.fileOf(is.Pos())
			perFile[name] = append(perFile[name],
				textEdit{tf.Offset(is.Cond.Pos()), tf.Offset(is.Cond.End()), "!(" + cond + ")"},
				textEdit{tf.Offset(is.Body.Pos()), tf.Offset(is.Body.End()), elseT},
				textEdit{tf.Offset(els.Pos()), tf.Offset(els.End()), body})
			n++
			return false
		}
		ast.Inspect(f, visit)
	}
	ov, err := finishOverlay(p, perFile)
	return ov, n, err
}

// ---- name-conditions ----

func probeNameConditions(p *Prog) (map[string][]byte, int, error) {
	perFile := map[string][]textEdit{}
	src := map[string][]byte{}
	n := 0
	for _, f := range p.sortedFiles() {
		ast.Inspect(f, func(x ast.Node) bool {
			bl, ok := x.(*ast.BlockStmt)
			if !ok {
				return true
			}
			for _, st := range bl.List {
				is, ok := st.(*ast.IfStmt)
				if !ok || is.Init != nil || !pureBoolExpr(is.Cond) {
					continue
				}
				if _, isIdent := unparen(is.Cond).(*ast.Ident); isIdent {
					continue
				}
				cond, err := nodeText(p, src, is.Cond)
				if err != nil {
					continue
				}
				tf, name := p.fileOf(is.Pos())
				v := fmt.Sprintf("condPrb%d", n)
				perFile[name] = append(perFile[name],
					textEdit{tf.Offset(is.Pos()), tf.Offset(is.Pos()), v + " := " + cond + "\n"},
					textEdit{tf.Offset(is.Cond.Pos()), tf.Offset(is.Cond.End()), v})
				n++
			}
			return true
		})
	}
	ov, err := finishOverlay(p, perFile)
	return ov, n, err
}

// ---- running the probes ----

func obligationKey(o *Obligation) string { return o.Rule + " | " + o.Construct }

// runProbes runs the property's rules on each transformed program and reports
// every obligation whose status differs from the run on the tree itself.
func runProbes(id string, base *Prog, baseRep *Report, r *Report, repo string) {
	r.curRule = "PROBE"
	r.RuleTexts["PROBE"] = "Whole-program behaviour-preserving transformations (all locals renamed; every if/else flipped; every pure condition named) leave the verdict of every obligation unchanged."
	r.ruleOrder = append(r.ruleOrder, "PROBE")
	baseBad := map[string]bool{}
	for _, o := range baseRep.Obls {
		if o.Status != Discharged {
			baseBad[obligationKey(o)] = true
		}
	}
	var names []string
	for _, pr := range probes {
		ov, sites, err := pr.Make(base)
		if err != nil {
			r.Unknown("probe "+pr.Name, "", "cannot build the transformed program: "+err.Error())
			continue
		}
		q, err := loadRepo(repo, ov)
		if err != nil {
			r.Unknown("probe "+pr.Name, "", "the transformed program does not type-check: "+short(err.Error(), 400))
			continue
		}
		sub := NewReport(id, "probe", 0, q)
		func() {
			defer func() {
				if x := recover(); x != nil {
					sub.Fatal = append(sub.Fatal, fmt.Sprintf("internal panic: %v", x))
				}
			}()
			registry[id].Run(q, sub)
		}()
		bad := 0
		for _, o := range sub.Obls {
			if o.Status == Discharged || baseBad[obligationKey(o)] {
				continue
			}
			if o.Status == Violated && knownListed(id, o.Rule, o.Construct) {
				continue
			}
			bad++
			r.add(Undecided, "["+pr.Name+"] "+o.Rule+" "+o.Construct, o.Pos, "the rule reports this only on the behaviour-preserving transformation ("+pr.Doc+"): "+o.Detail, false)
		}
		for _, f := range sub.Fatal {
			bad++
			r.Unknown("probe "+pr.Name, "", f)
		}
		// floors
		count := map[string]int{}
		for _, o := range sub.Obls {
			count[o.Rule]++
		}
		for rule, fl := range sub.Floors {
			if count[rule] < fl {
				bad++
				r.Unknown("["+pr.Name+"] floor "+rule, "", fmt.Sprintf("%d instances on the transformed program, %d required", count[rule], fl))
			}
		}
		if bad == 0 {
			r.OK("probe "+pr.Name, "", fmt.Sprintf("%d sites transformed in %d files; %d obligations, verdicts unchanged", sites, len(ov), len(sub.Obls)))
		}
		names = append(names, fmt.Sprintf("%s (%d sites)", pr.Name, sites))
	}
	r.Extra["probes"] = names
}

var _ = printer.Fprint

// ---- hoist-if-init ----

func probeHoistIfInit(p *Prog) (map[string][]byte, int, error) {
	perFile := map[string][]textEdit{}
	src := map[string][]byte{}
	n := 0
	for _, f := range p.sortedFiles() {
		ast.Inspect(f, func(x ast.Node) bool {
			bl, ok := x.(*ast.BlockStmt)
			if !ok {
				return true
			}
			for _, st := range bl.List {
				is, ok := st.(*ast.IfStmt)
				if !ok || is.Init == nil {
					continue
				}
				initT, err := nodeText(p, src, is.Init)
				if err != nil {
					continue
				}
				tf, name := p.fileOf(is.Pos())
				// "if init; cond {" -> "{ init\nif cond {" ... "}" + "}"
				perFile[name] = append(perFile[name],
					textEdit{tf.Offset(is.Pos()), tf.Offset(is.Cond.Pos()), "{\n" + initT + "\nif "},
					textEdit{tf.Offset(is.End()), tf.Offset(is.End()), "\n}"})
				n++
			}
			return true
		})
	}
	ov, err := finishOverlay(p, perFile)
	return ov, n, err
}

// ---- range-to-index ----

func probeRangeToIndex(p *Prog) (map[string][]byte, int, error) {
	perFile := map[string][]textEdit{}
	src := map[string][]byte{}
	n := 0
	for _, f := range p.sortedFiles() {
		ast.Inspect(f, func(x ast.Node) bool {
			bl, ok := x.(*ast.BlockStmt)
			if !ok {
				return true
			}
			for _, st := range bl.List {
				rs, ok := st.(*ast.RangeStmt)
				if !ok || rs.Tok != token.DEFINE || p.synthRange[rs] {
					continue
				}
				if _, isSlice := p.TypeOf(rs.X).Underlying().(*types.Slice); !isSlice {
					continue
				}
				key, val := "", ""
				if id, ok := rs.Key.(*ast.Ident); ok && id.Name != "_" {
					key = id.Name
				}
				if rs.Value != nil {
					if id, ok := rs.Value.(*ast.Ident); ok && id.Name != "_" {
						val = id.Name
					}
				}
				xT, err := nodeText(p, src, rs.X)
				if err != nil {
					continue
				}
				// the index variable is assigned by the loop: a body that assigns to the key would change the iteration
				assignsKey := false
				if key != "" {
					ko := p.ObjOf(rs.Key.(*ast.Ident))
					ast.Inspect(rs.Body, func(y ast.Node) bool {
						switch z := y.(type) {
						case *ast.AssignStmt:
							for _, l := range z.Lhs {
								if id, ok := l.(*ast.Ident); ok && p.ObjOf(id) == ko {
									assignsKey = true
								}
							}
						case *ast.IncDecStmt:
							if id, ok := z.X.(*ast.Ident); ok && p.ObjOf(id) == ko {
								assignsKey = true
							}
						case *ast.UnaryExpr:
							if z.Op == token.AND {
								if id, ok := z.X.(*ast.Ident); ok && p.ObjOf(id) == ko {
									assignsKey = true
								}
							}
						}
						return true
					})
				}
				if assignsKey {
					continue
				}
				snap := fmt.Sprintf("rngPrb%d", n)
				idx := key
				if idx == "" {
					idx = fmt.Sprintf("idxPrb%d", n)
				}
				head := "{\n" + snap + " := " + xT + "\nfor " + idx + " := 0; " + idx + " < len(" + snap + "); " + idx + "++ {"
				if val != "" {
					head += "\n" + val + " := " + snap + "[" + idx + "]"
					// the value may be unused in the body only if it was "_"; it is named, so it is used
				}
				tf, name := p.fileOf(rs.Pos())
				perFile[name] = append(perFile[name],
					textEdit{tf.Offset(rs.Pos()), tf.Offset(rs.Body.Lbrace) + 1, head},
					textEdit{tf.Offset(rs.End()), tf.Offset(rs.End()), "\n}"})
				n++
			}
			return true
		})
	}
	ov, err := finishOverlay(p, perFile)
	return ov, n, err
}

// ---- switch-to-if / if-to-switch ----

// hasLooseBreak: an unlabeled break (or a fallthrough / goto) in n that would bind to n itself
// (i.e. not inside a nested for / switch / select / function literal).
func hasLooseBreak(n ast.Node) bool {
	found := false
	var visit func(x ast.Node, top bool)
	visit = func(x ast.Node, top bool) {
		ast.Inspect(x, func(y ast.Node) bool {
			if y == nil || found {
				return false
			}
			if y != x {
				switch y.(type) {
				case *ast.ForStmt, *ast.RangeStmt, *ast.SwitchStmt, *ast.TypeSwitchStmt, *ast.SelectStmt, *ast.FuncLit:
					// a labeled break inside may still target an outer label; unlabeled ones bind inside
					ast.Inspect(y, func(z ast.Node) bool {
						if b, ok := z.(*ast.BranchStmt); ok && (b.Label != nil || b.Tok == token.GOTO) {
							found = true
						}
						return !found
					})
					return false
				}
			}
			if b, ok := y.(*ast.BranchStmt); ok && (b.Tok == token.BREAK || b.Tok == token.FALLTHROUGH || b.Tok == token.GOTO) {
				found = true
			}
			if _, ok := y.(*ast.LabeledStmt); ok {
				found = true
			}
			return !found
		})
	}
	visit(n, true)
	return found
}

func pureTag(e ast.Expr) bool {
	switch x := unparen(e).(type) {
	case *ast.Ident:
		return true
	case *ast.SelectorExpr:
		return pureTag(x.X)
	case *ast.BasicLit:
		return true
	}
	return false
}

func probeSwitchToIf(p *Prog) (map[string][]byte, int, error) {
	perFile := map[string][]textEdit{}
	src := map[string][]byte{}
	n := 0
	var done [][2]token.Pos // statements already replaced as a whole: nothing inside them is edited again
	inside := func(x ast.Node) bool {
		for _, d := range done {
			if d[0] <= x.Pos() && x.End() <= d[1] {
				return true
			}
		}
		return false
	}
	for _, f := range p.sortedFiles() {
		ast.Inspect(f, func(x ast.Node) bool {
			bl, ok := x.(*ast.BlockStmt)
			if !ok {
				return true
			}
			for _, st := range bl.List {
				sw, ok := st.(*ast.SwitchStmt)
				if !ok || inside(sw) || sw.Init != nil || hasLooseBreak(sw.Body) || len(sw.Body.List) == 0 {
					continue
				}
				if sw.Tag != nil && !pureTag(sw.Tag) {
					continue
				}
				tagT := ""
				if sw.Tag != nil {
					tagT, _ = nodeText(p, src, sw.Tag)
				}
				var b strings.Builder
				var def *ast.CaseClause
				first, bad := true, false
				for _, c := range sw.Body.List {
					cc := c.(*ast.CaseClause)
					if cc.List == nil {
						def = cc
						continue
					}
					var conds []string
					for _, e := range cc.List {
						t, err := nodeText(p, src, e)
						if err != nil {
							bad = true
						}
						if sw.Tag != nil {
							t = tagT + " == (" + t + ")"
						} else {
							t = "(" + t + ")"
						}
						conds = append(conds, t)
					}
					if !first {
						b.WriteString(" else ")
					}
					first = false
					b.WriteString("if " + strings.Join(conds, " || ") + " {\n")
					for _, s := range cc.Body {
						t, err := nodeText(p, src, s)
						if err != nil {
							bad = true
						}
						b.WriteString(t + "\n")
					}
					b.WriteString("}")
				}
				if bad || first {
					continue // only a default clause, or unreadable
				}
				// the default clause must be last in evaluation: it is, whatever its position
				if def != nil {
					b.WriteString(" else {\n")
					for _, s := range def.Body {
						t, _ := nodeText(p, src, s)
						b.WriteString(t + "\n")
					}
					b.WriteString("}")
				}
				tf, name := p.fileOf(sw.Pos())
				perFile[name] = append(perFile[name], textEdit{tf.Offset(sw.Pos()), tf.Offset(sw.End()), b.String()})
				done = append(done, [2]token.Pos{sw.Pos(), sw.End()})
				n++
			}
			return true
		})
	}
	ov, err := finishOverlay(p, perFile)
	return ov, n, err
}

func probeIfToSwitch(p *Prog) (map[string][]byte, int, error) {
	perFile := map[string][]textEdit{}
	src := map[string][]byte{}
	n := 0
	var done [][2]token.Pos // statements already replaced as a whole: nothing inside them is edited again
	inside := func(x ast.Node) bool {
		for _, d := range done {
			if d[0] <= x.Pos() && x.End() <= d[1] {
				return true
			}
		}
		return false
	}
	for _, f := range p.sortedFiles() {
		ast.Inspect(f, func(x ast.Node) bool {
			bl, ok := x.(*ast.BlockStmt)
			if !ok {
				return true
			}
			for _, st := range bl.List {
				is, ok := st.(*ast.IfStmt)
				if !ok || inside(is) || is.Init != nil || is.Else == nil {
					continue
				}
				// collect the chain
				type arm struct {
					cond string
					body *ast.BlockStmt
				}
				var arms []arm
				var tail *ast.BlockStmt
				bad := false
				for cur := is; cur != nil; {
					if cur.Init != nil || hasLooseBreak(cur.Body) {
						bad = true
						break
					}
					c, err := nodeText(p, src, cur.Cond)
					if err != nil {
						bad = true
						break
					}
					arms = append(arms, arm{c, cur.Body})
					switch e := cur.Else.(type) {
					case *ast.IfStmt:
						cur = e
					case *ast.BlockStmt:
						if hasLooseBreak(e) {
							bad = true
						}
						tail = e
						cur = nil
					default:
						cur = nil
					}
				}
				if bad || len(arms) < 2 {
					continue
				}
				var b strings.Builder
				b.WriteString("switch {\n")
				for _, a := range arms {
					b.WriteString("case " + a.cond + ":\n")
					for _, s := range a.body.List {
						t, _ := nodeText(p, src, s)
						b.WriteString(t + "\n")
					}
				}
				if tail != nil {
					b.WriteString("default:\n")
					for _, s := range tail.List {
						t, _ := nodeText(p, src, s)
						b.WriteString(t + "\n")
					}
				}
				b.WriteString("}")
				tf, name := p.fileOf(is.Pos())
				perFile[name] = append(perFile[name], textEdit{tf.Offset(is.Pos()), tf.Offset(is.End()), b.String()})
				done = append(done, [2]token.Pos{is.Pos(), is.End()})
				n++
			}
			return true
		})
	}
	ov, err := finishOverlay(p, perFile)
	return ov, n, err
}

// ---- loop-leading-break ----

func probeLoopLeadingBreak(p *Prog) (map[string][]byte, int, error) {
	perFile := map[string][]textEdit{}
	src := map[string][]byte{}
	n := 0
	for _, f := range p.sortedFiles() {
		ast.Inspect(f, func(x ast.Node) bool {
			fs, ok := x.(*ast.ForStmt)
			if !ok || fs.Init != nil || fs.Post != nil || fs.Cond == nil {
				return true
			}
			if _, synthetic := p.Info.Types[fs.Cond]; !synthetic {
				return true // a condition synthesised by the normaliser has no source text
			}
			if fs.Cond.Pos() < fs.For || fs.Cond.End() > fs.Body.Lbrace {
				return true
			}
			c, err := nodeText(p, src, fs.Cond)
			if err != nil {
				return true
			}
			tf, name := p.fileOf(fs.Pos())
			perFile[name] = append(perFile[name],
				textEdit{tf.Offset(fs.Cond.Pos()), tf.Offset(fs.Body.Lbrace) + 1, "{\nif !(" + c + ") {\nbreak\n}"})
			n++
			return true
		})
	}
	ov, err := finishOverlay(p, perFile)
	return ov, n, err
}

// ---- split-and ----

func probeSplitAnd(p *Prog) (map[string][]byte, int, error) {
	perFile := map[string][]textEdit{}
	src := map[string][]byte{}
	n := 0
	for _, f := range p.sortedFiles() {
		ast.Inspect(f, func(x ast.Node) bool {
			bl, ok := x.(*ast.BlockStmt)
			if !ok {
				return true
			}
			for _, st := range bl.List {
				is, ok := st.(*ast.IfStmt)
				if !ok || is.Else != nil {
					continue
				}
				be, ok := unparen(is.Cond).(*ast.BinaryExpr)
				if !ok || be.Op != token.LAND {
					continue
				}
				l, e1 := nodeText(p, src, be.X)
				rr, e2 := nodeText(p, src, be.Y)
				if e1 != nil || e2 != nil {
					continue
				}
				tf, name := p.fileOf(is.Pos())
				perFile[name] = append(perFile[name],
					textEdit{tf.Offset(is.Cond.Pos()), tf.Offset(is.Cond.End()), l + " {\nif " + rr},
					textEdit{tf.Offset(is.End()), tf.Offset(is.End()), "\n}"})
				n++
			}
			return true
		})
	}
	ov, err := finishOverlay(p, perFile)
	return ov, n, err
}

// devProbes: every probe against every property, one load per probe.
func devProbes(repo, verif string) int {
	verifDirGlobal = verif
	if k, err := loadKnown(verif + "/known_findings.json"); err == nil {
		knownGlobal = k
	}
	base, err := loadRepo(repo, nil)
	if err != nil {
		fmt.Println(err)
		return 2
	}
	var ids []string
	for id := range registry {
		ids = append(ids, id)
	}
	sort.Strings(ids)
	baseBad := map[string]map[string]bool{}
	for _, id := range ids {
		rep := NewReport(id, "probe-base", 0, base)
		registry[id].Run(base, rep)
		baseBad[id] = map[string]bool{}
		for _, o := range rep.Obls {
			if o.Status != Discharged {
				baseBad[id][obligationKey(o)] = true
			}
		}
	}
	code := 0
	for _, pr := range probes {
		ov, sites, err := pr.Make(base)
		if err != nil {
			fmt.Printf("%s: cannot build: %v\n", pr.Name, err)
			code = 1
			continue
		}
		if dump := os.Getenv("PROBE_DUMP"); dump != "" {
			// development aid: write the transformed files into <dump>/<probe>/ (a scratch copy of the tree)
			for name, b := range ov {
				out := dump + "/" + pr.Name + strings.TrimPrefix(name, repo)
				_ = os.MkdirAll(out[:strings.LastIndex(out, "/")], 0o755)
				_ = os.WriteFile(out, b, 0o644)
			}
		}
		q, err := loadRepo(repo, ov)
		if err != nil {
			fmt.Printf("%s: does not type-check: %s\n", pr.Name, short(err.Error(), 600))
			code = 1
			continue
		}
		fmt.Printf("== %s: %d sites in %d files\n", pr.Name, sites, len(ov))
		for _, id := range ids {
			sub := NewReport(id, "probe", 0, q)
			func() {
				defer func() {
					if x := recover(); x != nil {
						sub.Fatal = append(sub.Fatal, fmt.Sprintf("internal panic: %v", x))
					}
				}()
				registry[id].Run(q, sub)
			}()
			count := map[string]int{}
			for _, o := range sub.Obls {
				count[o.Rule]++
				if o.Status == Discharged || baseBad[id][obligationKey(o)] {
					continue
				}
				fmt.Printf("  %s %s %s [%s]: %s\n", id, o.Rule, o.Construct, o.Pos, short(o.Detail, 300))
				code = 1
			}
			for rule, fl := range sub.Floors {
				if count[rule] < fl {
					fmt.Printf("  %s floor %s: %d < %d\n", id, rule, count[rule], fl)
					code = 1
				}
			}
			for _, f := range sub.Fatal {
				fmt.Printf("  %s FATAL %s\n", id, f)
				code = 1
			}
		}
	}
	return code
}

// ---- named-results ----

// probeNamedResults: every function with unnamed results (and no defer) gets named results; each
// "return e1, e2" becomes "r1, r2 = e1, e2; return".
func probeNamedResults(p *Prog) (map[string][]byte, int, error) {
	perFile := map[string][]textEdit{}
	n := 0
	for _, f := range p.sortedFiles() {
		for _, d := range f.Decls {
			fd, ok := d.(*ast.FuncDecl)
			if !ok || fd.Body == nil || fd.Type.Results == nil || len(fd.Type.Results.List) == 0 {
				continue
			}
			tf, name := p.fileOf(fd.Pos())
			if tf == nil || !strings.HasSuffix(name, ".go") {
				continue
			}
			named := false
			for _, fl := range fd.Type.Results.List {
				if len(fl.Names) > 0 {
					named = true
				}
			}
			if named {
				continue
			}
			nres := len(fd.Type.Results.List)
			okFn := true
			var rets []*ast.ReturnStmt
			ast.Inspect(fd.Body, func(x ast.Node) bool {
				switch y := x.(type) {
				case *ast.FuncLit:
					return false
				case *ast.DeferStmt:
					okFn = false
				case *ast.ReturnStmt:
					if len(y.Results) != nres {
						okFn = false
					}
					rets = append(rets, y)
				}
				return true
			})
			if !okFn || len(rets) == 0 {
				continue
			}
			src := p.srcOf(name)
			if src == nil {
				continue
			}
			var names []string
			paren := !fd.Type.Results.Opening.IsValid()
			for i, fl := range fd.Type.Results.List {
				nm := fmt.Sprintf("zzr%d", i)
				names = append(names, nm)
				off := tf.Offset(fl.Type.Pos())
				pre := ""
				if paren && i == 0 {
					pre = "("
				}
				perFile[name] = append(perFile[name], textEdit{off, off, pre + nm + " "})
			}
			if paren {
				b := tf.Offset(fd.Type.Results.End())
				perFile[name] = append(perFile[name], textEdit{b, b, ")"})
			}
			for _, rs := range rets {
				var es []string
				for _, e := range rs.Results {
					es = append(es, string(src[tf.Offset(e.Pos()):tf.Offset(e.End())]))
				}
				a, b := tf.Offset(rs.Pos()), tf.Offset(rs.End())
				perFile[name] = append(perFile[name], textEdit{a, b, strings.Join(names, ", ") + " = " + strings.Join(es, ", ") + "\nreturn"})
			}
			n++
		}
	}
	ov, err := finishOverlay(p, perFile)
	return ov, n, err
}

// ---- body-in-closure ----

// probeBodyInClosure: the body of every function without results, returns, defer and recover is wrapped
// in an immediately invoked function literal.
func probeBodyInClosure(p *Prog) (map[string][]byte, int, error) {
	perFile := map[string][]textEdit{}
	n := 0
	for _, f := range p.sortedFiles() {
		for _, d := range f.Decls {
			fd, ok := d.(*ast.FuncDecl)
			if !ok || fd.Body == nil || len(fd.Body.List) == 0 {
				continue
			}
			if fd.Type.Results != nil && len(fd.Type.Results.List) > 0 {
				continue
			}
			tf, name := p.fileOf(fd.Pos())
			if tf == nil || !strings.HasSuffix(name, ".go") {
				continue
			}
			okFn := true
			ast.Inspect(fd.Body, func(x ast.Node) bool {
				switch y := x.(type) {
				case *ast.FuncLit:
					return false
				case *ast.DeferStmt, *ast.ReturnStmt, *ast.LabeledStmt:
					okFn = false
				case *ast.CallExpr:
					if id, isID := y.Fun.(*ast.Ident); isID && (id.Name == "recover" || id.Name == "panic") {
						okFn = false
					}
				}
				return okFn
			})
			if !okFn {
				continue
			}
			a, b := tf.Offset(fd.Body.Lbrace)+1, tf.Offset(fd.Body.Rbrace)
			perFile[name] = append(perFile[name], textEdit{a, a, "\nfunc() {"}, textEdit{b, b, "}()\n"})
			n++
		}
	}
	ov, err := finishOverlay(p, perFile)
	return ov, n, err
}

// srcOf: the source text of a file of the analysed tree.
func (p *Prog) srcOf(name string) []byte {
	if p.srcCache == nil {
		p.srcCache = map[string][]byte{}
	}
	if b, ok := p.srcCache[name]; ok {
		return b
	}
	b, err := os.ReadFile(name)
	if err != nil {
		b = nil
	}
	p.srcCache[name] = b
	return b
}
