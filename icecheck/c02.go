package main

import (
	"fmt"
	"go/ast"
	"go/types"
	"sort"
	"strings"
)

func init() { register("C02", checkC02) }

// effectSites lists the statements of f (own body) that have an effect on
// pion/ice state: direct field stores and calls whose transitive effect
// summary writes a field of an analysed struct (this includes socket sends,
// which stamp lastSent, and notifier enqueues).
type effectSite struct {
	node ast.Node
	what string
}

func (p *Prog) effectSites(f *Func) []effectSite {
	var out []effectSite
	walkBody(f, func(n ast.Node) bool {
		switch x := n.(type) {
		case *ast.AssignStmt:
			for _, l := range x.Lhs {
				for _, fv := range p.lhsFields(l) {
					out = append(out, effectSite{x, "store " + p.FieldName(fv)})
				}
			}
		case *ast.IncDecStmt:
			for _, fv := range p.lhsFields(x.X) {
				out = append(out, effectSite{x, "store " + p.FieldName(fv)})
			}
		case *ast.CallExpr:
			w := p.CallWrites(f, x)
			if len(w) > 0 {
				var fs []string
				for fv := range w {
					if nm := p.FieldName(fv); !strings.HasPrefix(nm, "?.") {
						fs = append(fs, nm)
					}
				}
				if len(fs) > 0 {
					sort.Strings(fs)
					name := p.CalleeName(x)
					if name == "" {
						name = stripVarLines(p.Canon(x.Fun))
					}
					out = append(out, effectSite{x, "call " + name + " (writes " + fs[0] + fmt.Sprintf(" +%d", len(fs)-1) + ")"})
				}
			}
		}
		return true
	})
	return out
}

func checkC02(p *Prog, r *Report) {
	hi := p.Fn("Agent.handleInbound")
	hreq := p.Fn("Agent.handleInboundRequest")
	hresp := p.Fn("Agent.handleInboundResponse")
	if !r.Anchor("Agent.handleInbound", hi != nil) || !r.Anchor("Agent.handleInboundRequest", hreq != nil) || !r.Anchor("Agent.handleInboundResponse", hresp != nil) {
		return
	}

	// ---- R2.1 class/method filter first ------------------------------------------
	r.Rule("R2.1", "In handleInbound every statement with an effect is dominated by canHandleInbound(msg); canHandleInbound accepts exactly Binding x {request, success response, indication} (error responses and other methods change nothing).", 5)
	for _, es := range p.effectSites(hi) {
		facts, _ := p.FactsAtCall(hi, es.node)
		_, ok := p.HasCallTruth(facts, hi, "ice.canHandleInbound", 0, true)
		r.Check(ok, "handleInbound: "+es.what, p.Pos(es.node.Pos()), "dominated by canHandleInbound(msg)", "effect reachable for a message whose class/method was not admitted by canHandleInbound")
	}
	if f := p.Fn("canHandleInbound"); r.Anchor("canHandleInbound", f != nil) {
		t := p.NewTable(f)
		t.Run()
		for _, sp := range t.Semantic(func(a *TAtom) (string, bool) {
			if a.Kind == "enum" {
				// the Method / Class field of a STUN message type, however the message (or its type) reaches the function
				if sel, ok := unparen(a.X).(*ast.SelectorExpr); ok && p.FieldOf(sel) != nil {
					if t := p.TypeOf(sel.X); t != nil && strings.HasSuffix(typeStr(t), "stun.MessageType") {
						switch sel.Sel.Name {
						case "Method":
							return "method", false
						case "Class":
							return "class", false
						}
					}
				}
			}
			return "", false
		}) {
			if len(sp.Unclassified) > 0 {
				r.Fail("canHandleInbound", sp.EndPos, "admission depends on an unexpected condition "+strings.Join(sp.Unclassified, ","))
				continue
			}
			for _, m := range []string{"MethodBinding", "other"} {
				if !enumConsistent(sp.Vals, "method", m) {
					continue
				}
				for _, c := range []string{"ClassRequest", "ClassSuccessResponse", "ClassIndication", "ClassErrorResponse", "other"} {
					if !enumConsistent(sp.Vals, "class", c) {
						continue
					}
					if !hasPrefixKey(sp.Vals, "class") && c != "other" {
						continue
					}
					want := m == "MethodBinding" && (c == "ClassRequest" || c == "ClassSuccessResponse" || c == "ClassIndication")
					got := len(sp.Results) == 1 && sp.Results[0] == "true"
					r.Check(got == want, "canHandleInbound row method="+m+" class="+c, sp.EndPos, "admit="+boolStr(want), "admits="+boolStr(got)+", the property requires "+boolStr(want))
				}
			}
		}
	}

	// ---- R2.2 requests ----------------------------------------------------------------
	r.Rule("R2.2", "In the request handler every statement with an effect is dominated by AssertUsername(msg, localUfrag+\":\"+remoteUfrag) == nil and MessageIntegrity(localPwd).Check(msg) == nil; nothing with an effect runs before the two checks.", 6)
	nGuarded := 0
	for _, es := range p.effectSites(hreq) {
		facts, _ := p.FactsAtCall(hreq, es.node)
		_, u := p.HasCallEqNil(facts, hreq, "stun.AssertUsername", 0, true)
		_, m := p.HasCallEqNil(facts, hreq, "stun.MessageIntegrity.Check", 0, true)
		if u && m {
			nGuarded++
		}
		r.Check(u && m, "handleInboundRequest: "+es.what, p.Pos(es.node.Pos()), "dominated by username and integrity checks",
			fmt.Sprintf("effect reachable for a request that did not pass authentication (username check dominates: %v, integrity check dominates: %v)", u, m))
	}
	// what is compared
	for _, c := range p.CallsTo(hreq, false, "stun.AssertUsername") {
		ok := false
		if len(c.Args) == 2 {
			lf := p.concatParts(c.Args[1])
			ok = len(lf) == 3 && p.IsField(lf[0], "Agent.localUfrag") && isStringLit(p, lf[1], ":") && p.IsField(lf[2], "Agent.remoteUfrag")
			if id, isID := unparen(c.Args[0]).(*ast.Ident); !isID || p.ObjOf(id) != p.paramObj(hreq, 3) {
				ok = false
			}
		}
		r.Check(ok, "request USERNAME is '<local ufrag>:<remote ufrag>'", p.Pos(c.Pos()), "AssertUsername(msg, a.localUfrag+\":\"+a.remoteUfrag)", "the expected USERNAME is "+stripVarLines(p.Canon(c.Args[1]))+" — not exactly local ufrag, colon, remote ufrag")
	}
	for _, c := range p.CallsTo(hreq, false, "stun.MessageIntegrity.Check") {
		r.Check(p.integrityKeyField(c) == "Agent.localPwd", "request integrity key is the local password", p.Pos(c.Pos()), "MessageIntegrity([]byte(a.localPwd))", "requests are verified under "+p.integrityKeyField(c)+" instead of the local password")
	}
	if len(p.CallsTo(hreq, false, "stun.AssertUsername")) == 0 || len(p.CallsTo(hreq, false, "stun.MessageIntegrity.Check")) == 0 {
		r.Fail("request authentication calls", p.Pos(hreq.Body.Pos()), "the request handler no longer calls AssertUsername / MessageIntegrity.Check")
	}

	// ---- R2.3 responses -----------------------------------------------------------------
	r.Rule("R2.3", "A success response reaches the selector only after MessageIntegrity(remotePwd).Check(msg) == nil and with a known remote candidate.", 2)
	for _, es := range p.effectSites(hresp) {
		facts, _ := p.FactsAtCall(hresp, es.node)
		_, m := p.HasCallEqNil(facts, hresp, "stun.MessageIntegrity.Check", 0, true)
		known := facts.Has(func(ft Fact) bool {
			id, ok := unparen(ft.X).(*ast.Ident)
			return ft.Op == "==" && !ft.Val && p.isNilExpr(ft.Y) && ok && p.ObjOf(id) == p.paramObj(hresp, 0)
		})
		r.Check(m && known, "handleInboundResponse: "+es.what, p.Pos(es.node.Pos()), "dominated by integrity check and known remote", fmt.Sprintf("response processed without integrity (%v) / known-remote (%v) guard", m, known))
	}
	for _, c := range p.CallsTo(hresp, false, "stun.MessageIntegrity.Check") {
		r.Check(p.integrityKeyField(c) == "Agent.remotePwd", "response integrity key is the remote password", p.Pos(c.Pos()), "MessageIntegrity([]byte(a.remotePwd))", "responses are verified under "+p.integrityKeyField(c)+" instead of the remote password")
	}
	if len(p.CallsTo(hresp, false, "ice.pairCandidateSelector.HandleSuccessResponse")) == 0 {
		r.Fail("handleInboundResponse forwards", p.Pos(hresp.Body.Pos()), "no HandleSuccessResponse call")
	}

	// ---- R2.4 transaction match and symmetry ---------------------------------------------
	r.Rule("R2.4", "In every implementation of HandleSuccessResponse each effect is dominated by a matched outstanding transaction (handleInboundBindingSuccess ok) and by responseSymmetric(pending, local, source); responseSymmetric compares the pending request's network type with the local candidate's and its destination with the source address.", 6)
	for _, name := range []string{"controllingSelector.HandleSuccessResponse", "controlledSelector.HandleSuccessResponse"} {
		f := p.Fn(name)
		if !r.Anchor(name, f != nil) {
			continue
		}
		for _, es := range p.effectSites(f) {
			if c, ok := es.node.(*ast.CallExpr); ok && p.CalleeName(c) == "ice.Agent.handleInboundBindingSuccess" {
				continue // the matcher itself (removes the matched entry)
			}
			facts, _ := p.FactsAtCall(f, es.node)
			_, txn := p.HasCallTruth(facts, f, "ice.Agent.handleInboundBindingSuccess", 0, true)
			sc, sym := p.HasCallTruth(facts, f, "ice.responseSymmetric", 0, true)
			argOK := true
			if sym && len(sc.Args) == 3 {
				// (pendingRequest of this transaction, local, remoteAddr param)
				c0, i0, ok0 := p.ResolveCall(f, sc.Args[0])
				argOK = ok0 && p.CalleeName(c0) == "ice.Agent.handleInboundBindingSuccess" && i0 == 1
				if id, ok := unparen(sc.Args[1]).(*ast.Ident); !ok || p.ObjOf(id) != p.paramObj(f, 1) {
					argOK = false
				}
				if id, ok := unparen(sc.Args[2]).(*ast.Ident); !ok || p.ObjOf(id) != p.paramObj(f, 3) {
					argOK = false
				}
			}
			r.Check(txn && sym && argOK, name+": "+es.what, p.Pos(es.node.Pos()), "dominated by transaction match and symmetry",
				fmt.Sprintf("effect reachable without transaction match (%v) / symmetric-response check on this transaction's request, the local candidate and the source address (%v, args ok %v)", txn, sym, argOK))
		}
		// the transaction id handed to the matcher is the message's
		for _, c := range p.CallsTo(f, false, "ice.Agent.handleInboundBindingSuccess") {
			ok := len(c.Args) == 1 && strings.HasSuffix(stripVarLines(p.Canon(c.Args[0])), ".TransactionID")
			r.Check(ok, name+": matches the message's transaction id", p.Pos(c.Pos()), "handleInboundBindingSuccess(m.TransactionID)", "the transaction lookup key is not the response's transaction id")
		}
	}
	if f := p.Fn("responseSymmetric"); r.Anchor("responseSymmetric", f != nil) {
		t := p.NewTable(f)
		t.Run()
		pReq, pLocal, pAddr := p.paramObj(f, 0), p.paramObj(f, 1), p.paramObj(f, 2)
		okAll := len(t.Paths) > 0
		for _, sp := range t.Semantic(func(a *TAtom) (string, bool) {
			switch a.Kind {
			case "ord":
				isNT := func(e ast.Expr) bool {
					return p.IsField(e, "bindingRequest.networkType") && p.mentionsObj(e, pReq)
				}
				isLocalNT := func(e ast.Expr) bool {
					c, ok := unparen(e).(*ast.CallExpr)
					return ok && p.CalleeName(c) == "ice.Candidate.NetworkType" && p.mentionsObj(c, pLocal)
				}
				if (isNT(a.X) && isLocalNT(a.Y)) || (isNT(a.Y) && isLocalNT(a.X)) {
					return "transport", false
				}
			case "bool":
				if c, ok := unparen(a.X).(*ast.CallExpr); ok && p.CalleeName(c) == "ice.addrPortEqual" && len(c.Args) == 2 {
					isDst := func(e ast.Expr) bool { return p.IsField(e, "bindingRequest.destination") && p.mentionsObj(e, pReq) }
					isSrc := func(e ast.Expr) bool {
						id, ok := unparen(e).(*ast.Ident)
						return ok && p.ObjOf(id) == pAddr
					}
					if (isDst(c.Args[0]) && isSrc(c.Args[1])) || (isDst(c.Args[1]) && isSrc(c.Args[0])) {
						return "address", false
					}
				}
			}
			return "", false
		}) {
			if len(sp.Unclassified) > 0 {
				okAll = false
				r.Fail("responseSymmetric", sp.EndPos, "symmetry depends on an unexpected condition "+strings.Join(sp.Unclassified, ","))
				continue
			}
			want := sp.Vals["transport"] == "EQ" && sp.Vals["address"] == "true"
			got := len(sp.Results) == 1 && sp.Results[0] == "true"
			if got != want {
				okAll = false
				r.Fail("responseSymmetric row "+rowKey(sp, "transport", "address"), sp.EndPos, "returns "+boolStr(got)+", required "+boolStr(want)+" (same transport AND same address)")
			}
		}
		if okAll {
			r.OK("responseSymmetric table", p.Pos(f.Body.Pos()), "true iff request transport == local candidate's transport and request destination == source address")
		}
	}

	// ---- R2.5 liveness refresh --------------------------------------------------------------
	r.Rule("R2.5", "On the inbound STUN path the liveness timestamp is refreshed only in handleInbound, for a known remote candidate, and never after a handler reported failure; the decoding stage in front of it calls nothing that stores a last-received time.", 3)
	nSeen := 0
	for _, c := range p.CallsTo(hi, false, "ice.Candidate.seen") {
		nSeen++
		facts, _ := p.FactsAtCall(hi, c)
		known := facts.Has(func(ft Fact) bool { return ft.Op == "==" && !ft.Val && p.isNilExpr(ft.Y) })
		inbound := len(c.Args) == 1 && p.constName(c.Args[0]) == "false"
		r.Check(known && inbound, "handleInbound: seen(false) guarded by known remote", p.Pos(c.Pos()), "remoteCandidate != nil", "liveness refreshed without a known remote candidate")
		// cut-set: every path to the refresh crosses the success edge of one of
		// the two handlers, or the edge into the indication (default) case
		g := p.CFG(hi)
		loc, _ := g.Locate(c)
		crossed := 0
		allowed := func(e *Edge) bool {
			if e.Cond == nil {
				return false
			}
			for _, ft := range p.FactsOfCond(e.Cond, e.Val) {
				if ft.Op == "truth" && ft.Val && p.atomIsCallAny(hi, ft.X, "ice.Agent.handleInboundResponse") {
					return true
				}
				// remoteCandidate, ok = handleInboundRequest(...); ok
				if ft.Op == "truth" && ft.Val {
					if cc, idx, ok := p.ResolveCall(hi, ft.X); ok && p.CalleeName(cc) == "ice.Agent.handleInboundRequest" && idx == 1 {
						return true
					}
				}
				// class is neither response nor request: the indication case
				if ft.Op == "==" && !ft.Val && p.constName(ft.Y) == "ClassRequest" && strings.HasSuffix(stripVarLines(p.Canon(ft.X)), ".Type.Class") {
					return true
				}
			}
			return false
		}
		reach := g.Reach([]*Block{g.Entry}, func(e *Edge) bool {
			if allowed(e) {
				crossed++
				return false
			}
			return true
		})
		r.Check(!reach[loc.B] && crossed >= 3, "handleInbound: refresh only after validation", p.Pos(c.Pos()), "every path to seen(false) crosses a handler's success edge or the indication case",
			"the liveness timestamp can be refreshed on a path that did not pass the response/request handler successfully: unauthenticated or rejected STUN keeps a dead peer 'alive'")
	}
	if nSeen == 0 {
		r.Fail("handleInbound: seen(false)", p.Pos(hi.Body.Pos()), "liveness is never refreshed on authenticated STUN")
	}
	// no other refresh on the STUN path
	for _, name := range []string{"Agent.handleInboundRequest", "Agent.handleInboundResponse", "controllingSelector.HandleSuccessResponse", "controlledSelector.HandleSuccessResponse", "controllingSelector.HandleBindingRequest", "controlledSelector.HandleBindingRequest"} {
		if f := p.Fn(name); f != nil {
			for _, c := range p.CallsTo(f, true, "ice.Candidate.seen", "ice.candidateBase.seen", "ice.candidateBase.setLastReceived") {
				r.Fail(name+": liveness refresh", p.Pos(c.Pos()), "liveness refreshed inside a handler, i.e. possibly before/without full validation")
			}
		}
	}

	// before the loop task: decoding stage of the receive path
	if f := p.Fn("candidateBase.handleInboundSTUNMessage"); r.Anchor("candidateBase.handleInboundSTUNMessage", f != nil) {
		var lr *types.Var
		if _, st := p.StructType("candidateBase"); st != nil {
			for i := 0; i < st.NumFields(); i++ {
				if st.Field(i).Name() == "lastReceived" {
					lr = st.Field(i)
				}
			}
		}
		bad := ""
		if lr == nil {
			bad = "candidateBase.lastReceived not found"
		}
		nCalls := 0
		walkBody(f, func(x ast.Node) bool {
			c, ok := x.(*ast.CallExpr)
			if !ok || lr == nil {
				return true
			}
			if o := p.Callee(c); o != nil {
				if g := p.ByObj[o]; g != nil && g.Body != nil {
					nCalls++
					if p.Effects(g).WritesT[lr] {
						bad = "it calls " + g.Name + ", which refreshes a last-received time"
					}
				}
			}
			return true
		})
		if lr != nil && p.Effects(f).Writes[lr] {
			bad = "it stores a last-received time itself"
		}
		r.Check(bad == "", "decode stage: no liveness refresh before the message is handed to handleInbound", p.Pos(f.Body.Pos()), fmt.Sprintf("%d resolved callees, none writes candidateBase.lastReceived", nCalls), "in handleInboundSTUNMessage "+bad+" before the message was decoded, filtered and authenticated: any STUN-looking datagram from a cached source (wrong USERNAME, broken MESSAGE-INTEGRITY, error response) keeps a dead peer 'alive'")
	}

	// ---- R2.9 the USERNAME test is an exact comparison ---------------------------------------------------------------
	r.Rule("R2.9", "AssertUsername reports success only where the decoded USERNAME attribute, as a whole, equals the expected string: every nil result is dominated by a successful decode and by that one equality (no prefix, fragment-wise or case-insensitive acceptance).", 1)
	if f := p.Fn("stun.AssertUsername"); r.Anchor("stun.AssertUsername", f != nil) {
		exp := p.paramObj(f, 1)
		ok, n := true, 0
		walkBody(f, func(x ast.Node) bool {
			rs, isR := x.(*ast.ReturnStmt)
			if !isR || len(rs.Results) != 1 || !p.isNilExpr(rs.Results[0]) {
				return true
			}
			n++
			facts := p.DominatingFactList(f, rs)
			decoded := factListHas(facts, func(ft Fact) bool {
				if ft.Op != "==" || !ft.Val || ft.Y == nil || !p.isNilExpr(ft.Y) {
					return false
				}
				c, _, okC := p.ResolveCall(f, ft.X)
				return okC && strings.HasSuffix(p.CalleeName(c), "Username.GetFrom")
			})
			whole := factListHas(facts, func(ft Fact) bool {
				if ft.Op != "==" || !ft.Val || ft.Y == nil {
					return false
				}
				side := func(a, b ast.Expr) bool {
					if !p.isObj(a, exp) {
						return false
					}
					// the other side: the decoded attribute converted to a string, nothing else
					cv, isC := unparen(b).(*ast.CallExpr)
					if !isC || p.ConvTarget(cv) != "string" || len(cv.Args) != 1 {
						return false
					}
					id, isID := unparen(cv.Args[0]).(*ast.Ident)
					return isID && typeStr(p.TypeOf(id)) == "stun.Username"
				}
				return side(ft.X, ft.Y) || side(ft.Y, ft.X)
			})
			if !decoded || !whole {
				ok = false
			}
			return true
		})
		r.Check(ok && n > 0, "AssertUsername: success only on exact equality", p.Pos(f.Body.Pos()), "return nil dominated by GetFrom == nil and string(username) == expected", "AssertUsername can report success without the whole USERNAME attribute being equal to the expected value: requests with another USERNAME (a suffix, another generation's ufrag) pass the only USERNAME gate of the request handler")
	}

	// ---- R2.6 Restart ends the generation ------------------------------------------------------
	r.Rule("R2.6", "Restart replaces both credential pairs, resets gathering state, checklist, pair index and outstanding transactions with fresh empty values, clears the selection, deletes all candidates and re-creates the selector; every mutable collection field of Agent that is written after construction is covered by Restart.", 12)
	checkRestartWipe(p, r)

	// ---- R2.7 who may reach the handlers ---------------------------------------------------------
	r.Rule("R2.7", "handleInbound is entered only from the candidate receive path inside a loop task; the selector's response/request handlers only from the two authenticated inbound handlers.", 3)
	for _, e := range p.Callers(hi) {
		ok := e.Caller.Name == "candidateBase.handleInboundSTUNMessage$1"
		r.Check(ok, "caller of handleInbound: "+e.Caller.Name, p.Pos(e.Site.Pos()), "the receive path's loop task", "handleInbound called from an unexpected place")
	}
	checkCallers := func(method string, allowed map[string]bool) {
		for _, f := range p.AllFuncs {
			for _, c := range p.CallsTo(f, false, "ice.pairCandidateSelector."+method, "ice.controllingSelector."+method, "ice.controlledSelector."+method, "ice.liteSelector."+method) {
				r.Check(allowed[f.Name], "caller of "+method+": "+f.Name, p.Pos(c.Pos()), "authenticated inbound handler", method+" is invoked from "+f.Name+", bypassing the authentication in the inbound handlers")
			}
		}
	}
	checkCallers("HandleSuccessResponse", map[string]bool{"Agent.handleInboundResponse": true})
	checkCallers("HandleBindingRequest", map[string]bool{"Agent.handleInboundRequest": true})

	// ---- R2.8 outstanding means outstanding -----------------------------------------------------
	r.Rule("R2.8", "handleInboundBindingSuccess expires old requests before the lookup, reports a match only for an entry whose transaction id equals the argument, and removes that entry (a duplicate response finds nothing); the expiry filter keeps an entry iff its age is below the maximum.", 4)
	if f := p.Fn("Agent.handleInboundBindingSuccess"); r.Anchor("Agent.handleInboundBindingSuccess", f != nil) {
		t := p.NewTable(f)
		t.Event = func(n ast.Node, _ *TEnv) []string {
			var out []string
			if as, ok := n.(*ast.AssignStmt); ok && len(as.Lhs) == 1 && p.IsField(as.Lhs[0], "Agent.pendingBindingRequests") {
				out = append(out, "remove")
			}
			for _, c := range p.NodeCalls(n) {
				if p.CalleeName(c) == "ice.Agent.invalidatePendingBindingRequests" {
					out = append(out, "expire")
				}
			}
			return out
		}
		t.Run()
		sawMatch := false
		for _, pa := range t.Paths {
			ev := strings.Join(pa.Events, ",")
			matched := false
			for _, d := range pa.Hist {
				if d.Atom.Kind == "ord" && d.Val == "EQ" && (p.MentionsField(d.Atom.X, "bindingRequest.transactionID") || p.MentionsField(d.Atom.Y, "bindingRequest.transactionID")) {
					matched = true
				}
			}
			res := len(pa.Results) > 0 && pa.Results[0] == "true"
			if res {
				sawMatch = true
			}
			r.Check(strings.HasPrefix(ev, "expire"), "handleInboundBindingSuccess: expiry first", pa.EndPos, "expired entries are dropped before the lookup", "the lookup runs on entries that were not filtered for expiry first ("+ev+"): a response to a long-expired transaction still matches")
			r.Check(res == matched && (!res || ev == "expire,remove"), "handleInboundBindingSuccess: match semantics", pa.EndPos, "true iff an entry with the same transaction id exists, which is removed", fmt.Sprintf("returns %v with id-equal=%v and effects [%s]", res, matched, ev))
		}
		if !sawMatch {
			r.Fail("handleInboundBindingSuccess: match semantics", p.Pos(f.Body.Pos()), "no path reports a match")
		}
	}
	if f := p.Fn("Agent.invalidatePendingBindingRequests"); r.Anchor("Agent.invalidatePendingBindingRequests", f != nil) {
		t := p.NewTable(f)
		t.Event = func(n ast.Node, _ *TEnv) []string {
			for _, c := range p.NodeCalls(n) {
				if p.CalleeName(c) == "builtin.append" {
					return []string{"keep"}
				}
			}
			return nil
		}
		t.Run()
		for _, pa := range t.Paths {
			for _, d := range pa.Hist {
				if d.Atom.Kind != "ord" || !(p.MentionsObj(d.Atom.X, "ice.maxBindingRequestTimeout") || p.MentionsObj(d.Atom.Y, "ice.maxBindingRequestTimeout")) {
					continue
				}
				mask := d.Val
				if p.MentionsObj(d.Atom.X, "ice.maxBindingRequestTimeout") {
					mask = flipMask(mask)
				}
				keep := len(pa.Events) > 0
				want := mask == "LT"
				r.Check(keep == want, "expiry filter: age "+mask+" max", pa.EndPos, "kept iff age < max", fmt.Sprintf("an entry with age %s max is kept=%v", mask, keep))
			}
		}
	}
}

func orQ(s string) string {
	if s == "" {
		return "(not assigned)"
	}
	return s
}

func isStringLit(p *Prog, e ast.Expr, s string) bool {
	c, ok := p.ConstVal(e)
	return ok && c == fmt.Sprintf("%q", s)
}

// concatParts flattens a + b + c.
func (p *Prog) concatParts(e ast.Expr) []ast.Expr {
	e = unparen(e)
	if b, ok := e.(*ast.BinaryExpr); ok && b.Op.String() == "+" {
		return append(p.concatParts(b.X), p.concatParts(b.Y)...)
	}
	return []ast.Expr{e}
}

// integrityKeyField: for stun.MessageIntegrity([]byte(a.f)).Check(m) returns "Agent.f".
func (p *Prog) integrityKeyField(c *ast.CallExpr) string {
	sel, ok := unparen(c.Fun).(*ast.SelectorExpr)
	if !ok {
		return "?"
	}
	res := "?"
	ast.Inspect(sel.X, func(n ast.Node) bool {
		if s, ok := n.(*ast.SelectorExpr); ok {
			if fv := p.FieldOf(s); fv != nil {
				res = p.FieldName(fv)
				return false
			}
		}
		return true
	})
	return res
}

func (p *Prog) mentionsObj(n ast.Node, o types.Object) bool {
	found := false
	ast.Inspect(n, func(x ast.Node) bool {
		if id, ok := x.(*ast.Ident); ok && p.ObjOf(id) == o {
			found = true
		}
		return !found
	})
	return found
}

// checkRestartWipe: Restart ends the generation (shared by C02 R2.6 and C06 R6.5).
func checkRestartWipe(p *Prog, r *Report) {
	rs := p.Fn("Agent.Restart$1")
	if r.Anchor("Restart task", rs != nil) {
		want := map[string]string{"Agent.localUfrag": "param", "Agent.localPwd": "param", "Agent.remoteUfrag": `""`, "Agent.remotePwd": `""`,
			"Agent.gatheringState": "GatheringStateNew", "Agent.checklist": "fresh", "Agent.pairsByID": "fresh", "Agent.pendingBindingRequests": "fresh"}
		got := map[string]string{}
		collect := func(f *Func) {
			walkBody(f, func(n ast.Node) bool {
				as, ok := n.(*ast.AssignStmt)
				if !ok || len(as.Lhs) != len(as.Rhs) {
					return true
				}
				for i, l := range as.Lhs {
					fv := p.FieldOf(l)
					if fv == nil {
						continue
					}
					v := "?"
					switch x := unparen(as.Rhs[i]).(type) {
					case *ast.Ident:
						if _, isVar := p.ObjOf(x).(*types.Var); isVar {
							v = "param"
						} else if c := p.constName(x); c != "" {
							v = c
						}
					case *ast.BasicLit:
						v = x.Value
					}
					if _, dup := got[p.FieldName(fv)]; !dup {
						got[p.FieldName(fv)] = v
					}
				}
				return true
			})
		}
		collect(rs)
		// helpers called from the task (one level) may carry some of the resets
		walkBody(rs, func(n ast.Node) bool {
			if c, ok := n.(*ast.CallExpr); ok {
				if o := p.Callee(c); o != nil {
					if h := p.ByObj[o]; h != nil && h.Body != nil && h != rs {
						collect(h)
					}
				}
			}
			return true
		})
		entry := Loc{p.CFG(rs).Entry, 0}
		for f, w := range want {
			if w == "fresh" {
				r.Check(p.resetsOnAllPaths(rs, entry, f, 2), "Restart resets "+f, p.Pos(rs.Body.Pos()), "fresh empty value on every path (directly or through a helper)", "a path through the Restart task does not reset "+f+" to a fresh empty value: state of the previous generation survives (for the pending transactions: a late answer to a check of the old session is accepted in the new one)")
				continue
			}
			r.Check(got[f] == w, "Restart resets "+f, p.Pos(rs.Body.Pos()), "= "+w, "Restart sets "+f+" to "+orQ(got[f])+", expected "+w+": state of the previous generation survives")
		}
		for _, need := range []string{"ice.Agent.deleteAllCandidates", "ice.Agent.setSelector", "ice.Agent.removeUfragFromMux"} {
			need := need
			r.Check(p.callOnAllPaths(rs, entry, func(c *ast.CallExpr) bool { return p.CalleeName(c) == need }, 2), "Restart calls "+strings.TrimPrefix(need, "ice.Agent."), p.Pos(rs.Body.Pos()), "on every path", "a path through the Restart task does not call "+need)
		}
		unsel := p.callOnAllPaths(rs, entry, func(c *ast.CallExpr) bool {
			return p.CalleeName(c) == "ice.Agent.setSelectedPair" && len(c.Args) == 1 && p.isNilExpr(c.Args[0])
		}, 2)
		r.Check(unsel, "Restart clears the selection", p.Pos(rs.Body.Pos()), "setSelectedPair(nil)", "Restart leaves the previous generation's selected pair in place")
		// coverage of mutable collection fields
		_, ast_ := p.StructType("Agent")
		eff := p.Effects(rs)
		r.Except("R2.6: Agent.startedCandidates (entries leave via candidate close -> unregister), Agent.lastKnownInterfaces (interface monitor state, not generation-scoped), Agent.urls/networkTypes/turnTransportProtocols/candidateTypes/addressRewriteRules (configuration)")
		skip := map[string]bool{"startedCandidates": true, "lastKnownInterfaces": true, "urls": true, "networkTypes": true, "turnTransportProtocols": true, "candidateTypes": true, "addressRewriteRules": true}
		for i := 0; ast_ != nil && i < ast_.NumFields(); i++ {
			fv := ast_.Field(i)
			switch fv.Type().Underlying().(type) {
			case *types.Slice, *types.Map:
			default:
				continue
			}
			if skip[fv.Name()] {
				continue
			}
			// written after construction?
			mutable := false
			for wf := range p.WritersOf("Agent." + fv.Name()) {
				if root := wf.Root().Name; root != "createAgentBase" && root != "newAgentWithConfig" && root != "newAgentFromConfig" {
					mutable = true
				}
			}
			if !mutable {
				continue
			}
			r.Check(eff.WritesT[fv], "Restart covers mutable collection Agent."+fv.Name(), p.Pos(rs.Body.Pos()), "reset (directly or through a callee)", "Agent."+fv.Name()+" is mutated during a session but not reset by Restart: residue of the previous generation")
		}
	}

}
