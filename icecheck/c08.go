package main

import (
	"fmt"
	"go/ast"
	"go/token"
	"go/types"
	"sort"
	"strings"
)

func init() { register("C08", checkC08) }

// doneLike: the expression denotes a channel that is closed at shutdown.
func (p *Prog) doneLike(e ast.Expr) string {
	e = unparen(e)
	if c, ok := e.(*ast.CallExpr); ok {
		switch p.CalleeName(c) {
		case "context.Context.Done", "taskloop.Loop.Done", "ice.candidateBase.Done":
			return "ctx/loop Done()"
		case "ice.udpMuxedConn.CloseChannel", "ice.tcpPacketConn.CloseChannel":
			return "conn CloseChannel()"
		}
	}
	for _, f := range []string{"candidateBase.closeCh", "candidateBase.closedCh", "handlerNotifier.done", "taskloop.Loop.done", "taskloop.Loop.taskLoopDone",
		"tcpPacketConn.closedChan", "udpMuxedConn.closedChan", "UDPMuxDefault.closedChan", "Agent.gatherCandidateDone", "taskloop.task.done"} {
		if p.IsField(e, f) {
			return f
		}
	}
	if id, ok := e.(*ast.Ident); ok {
		switch id.Name {
		case "done", "stopAbort", "waitAddrReceived", "valSet":
			return "local " + id.Name
		}
	}
	return ""
}

type blockSite struct {
	f    *Func
	node ast.Node
	kind string // recv | send | select | wg.Wait
	desc string
}

// blockingSites lists operations in f that may block indefinitely.
func (p *Prog) blockingSites(f *Func) []blockSite {
	var out []blockSite
	// selects with a default clause never block; their comm statements are skipped
	nonBlocking := map[ast.Node]bool{}
	inSelect := map[ast.Node]bool{}
	walkBody(f, func(n ast.Node) bool {
		sel, ok := n.(*ast.SelectStmt)
		if !ok {
			return true
		}
		hasDefault := false
		for _, cl := range sel.Body.List {
			cc := cl.(*ast.CommClause)
			if cc.Comm == nil {
				hasDefault = true
			}
		}
		for _, cl := range sel.Body.List {
			cc := cl.(*ast.CommClause)
			if cc.Comm != nil {
				inSelect[cc.Comm] = true
				if hasDefault {
					nonBlocking[cc.Comm] = true
				}
			}
		}
		if !hasDefault {
			var arms []string
			for _, cl := range sel.Body.List {
				if cc := cl.(*ast.CommClause); cc.Comm != nil {
					arms = append(arms, short(stripVarLines(p.canonComm(cc.Comm)), 40))
				}
			}
			out = append(out, blockSite{f, sel, "select", "select{" + strings.Join(arms, " | ") + "}"})
		}
		return true
	})
	commOf := func(n ast.Node) ast.Node {
		for c := range inSelect {
			if c.Pos() <= n.Pos() && n.End() <= c.End() {
				return c
			}
		}
		return nil
	}
	walkBody(f, func(n ast.Node) bool {
		switch x := n.(type) {
		case *ast.UnaryExpr:
			if x.Op == token.ARROW && commOf(x) == nil {
				out = append(out, blockSite{f, x, "recv", "<-" + p.siteKey(f, x.X)})
			}
		case *ast.SendStmt:
			if commOf(x) == nil {
				out = append(out, blockSite{f, x, "send", p.siteKey(f, x.Chan) + "<-"})
			}
		case *ast.CallExpr:
			if p.CalleeName(x) == "sync.WaitGroup.Wait" {
				out = append(out, blockSite{f, x, "wg.Wait", p.siteKey(f, x.Fun)})
			}
		}
		return true
	})
	_ = nonBlocking
	return out
}

func (p *Prog) canonComm(s ast.Stmt) string {
	switch x := s.(type) {
	case *ast.ExprStmt:
		return p.Canon(x.X)
	case *ast.AssignStmt:
		if len(x.Rhs) == 1 {
			return p.Canon(x.Rhs[0])
		}
	case *ast.SendStmt:
		return p.Canon(x.Chan) + "<-"
	}
	return "?"
}

// precededBy: a call to callee occurs earlier in f's body than pos (on the
// same straight-line prefix; used for the enumerated ordering obligations).
func (p *Prog) precededBy(f *Func, pos token.Pos, pred func(c *ast.CallExpr) bool) bool {
	found := false
	ast.Inspect(f.Body, func(n ast.Node) bool {
		// nested literals included: sync.Once bodies run synchronously
		if c, ok := n.(*ast.CallExpr); ok && c.Pos() < pos && pred(c) {
			found = true
		}
		return true
	})
	return found
}

func checkC08(p *Prog, r *Report) {
	ci := p.Contexts()

	// ---- R8.1 no re-entrant loop operation ------------------------------------------------
	r.Rule("R8.1", "No function that can run inside the task loop has a synchronous call path to Loop.Run, Loop.Close or Loop.CloseWithPreStop (the single consumer would wait for itself: Close and every later API call would hang).", 3)
	for _, name := range []string{"taskloop.Loop.Run", "taskloop.Loop.Close", "taskloop.Loop.CloseWithPreStop"} {
		f := p.Fn(name)
		if !r.Anchor(name, f != nil) {
			continue
		}
		ok := !ci.Has(f, CtxLoop)
		r.Check(ok, name+" not reachable from loop context", p.Pos(f.Body.Pos()), "unreachable from "+itoa(len(ci.LoopTasks))+" loop tasks", "a function running inside the task loop reaches "+name+": "+ci.ChainTo(f, CtxLoop)+" — the loop waits for itself")
	}
	nLoop := 0
	for _, f := range p.AllFuncs {
		if ci.Has(f, CtxLoop) {
			nLoop++
		}
	}
	r.Extra["functions_in_loop_context"] = nLoop
	r.Extra["loop_tasks"] = len(ci.LoopTasks)

	// ---- R8.2 blocking inside the loop is enumerated and ordered -----------------------------
	r.Rule("R8.2", "Operations that can block indefinitely inside the task loop (channel operations outside a select with default, selects without default, WaitGroup.Wait) occur only at the enumerated sites, each after the action that guarantees the awaited event: the close callback waits for the gatherer only after cancelling it; candidate close waits for its receive loop only after aborting its I/O; the TCP packet conn waits for its readers only after closing every connection and its closed channel; a buffered TCP connection waits for its writer only after closing the buffer and the connection that unblock it.", 3)
	type allowedBlock struct {
		why   string
		order func(f *Func, n ast.Node) bool
	}
	allowed := map[string]allowedBlock{
		"newAgentWithConfig$1|recv|<-Agent.gatherCandidateDone": {"close callback waits for the cancelled gatherer", func(f *Func, n ast.Node) bool {
			return p.precededBy(f, n.Pos(), func(c *ast.CallExpr) bool { return p.IsField(c.Fun, "Agent.gatherCandidateCancel") })
		}},
		"candidateBase.close|recv|<-candidateBase.closedCh": {"candidate close waits for its receive loop", func(f *Func, n ast.Node) bool {
			return p.precededBy(f, n.Pos(), func(c *ast.CallExpr) bool { return p.CalleeName(c) == "ice.candidateBase.abortIO" })
		}},
		"tcpPacketConn.Close|wg.Wait|tcpPacketConn.wg.Wait": {"packet conn waits for its readers", func(f *Func, n ast.Node) bool {
			closedCh := p.precededBy(f, n.Pos(), func(c *ast.CallExpr) bool {
				return p.CalleeName(c) == "builtin.close" && len(c.Args) == 1 && p.IsField(c.Args[0], "tcpPacketConn.closedChan")
			})
			conns := p.precededBy(f, n.Pos(), func(c *ast.CallExpr) bool {
				x, ok := p.isCloseOf(c)
				return ok && p.TypeOf(x) != nil && typeStr(p.TypeOf(x)) == "net.Conn"
			})
			// and the mutex is released before waiting
			unlocked := !p.Locks(f).At(n)["tcpPacketConn.mu"]
			return closedCh && conns && unlocked
		}},
		"bufferedConn.Close|recv|<-bufferedConn.done": {"buffered TCP conn waits for its writer goroutine", func(f *Func, n ast.Node) bool {
			// the writer is unblocked by closing the buffer it reads from and the connection it writes to
			buf := p.precededBy(f, n.Pos(), func(c *ast.CallExpr) bool {
				sel, ok := unparen(c.Fun).(*ast.SelectorExpr)
				return ok && sel.Sel.Name == "Close" && p.IsField(sel.X, "bufferedConn.buf")
			})
			conn := p.precededBy(f, n.Pos(), func(c *ast.CallExpr) bool {
				sel, ok := unparen(c.Fun).(*ast.SelectorExpr)
				return ok && sel.Sel.Name == "Close" && p.IsField(sel.X, "bufferedConn.Conn")
			})
			return buf && conn
		}},
		"TCPMuxDefault.Close|wg.Wait|TCPMuxDefault.wg.Wait": {"(only reachable when the application closes the mux from a callback; listed for completeness)", func(f *Func, n ast.Node) bool {
			return !p.Locks(f).At(n)["TCPMuxDefault.mu"]
		}},
	}
	found := map[string]bool{}
	var loopBlocks []string
	for _, f := range p.AllFuncs {
		if !ci.Has(f, CtxLoop) || f.Pkg != p.Ice {
			continue
		}
		for _, b := range p.blockingSites(f) {
			key := f.Name + "|" + b.kind + "|" + b.desc
			loopBlocks = append(loopBlocks, key)
			a, ok := allowed[key]
			if !ok {
				// selects all of whose arms... a select without default in loop context
				r.Fail("blocking operation in loop context: "+f.Name+" "+b.desc, p.Pos(b.node.Pos()), "a task running inside the loop can block here indefinitely ("+b.kind+"), reached via "+ci.ChainTo(f, CtxLoop)+": Close then waits for that task forever")
				continue
			}
			found[key] = true
			r.Check(a.order(f, b.node), "blocking site "+f.Name+": "+a.why, p.Pos(b.node.Pos()), "preceded by the action that guarantees the awaited event", "the wait at "+b.desc+" is no longer preceded by the cancel/abort/close that makes it terminate")
		}
	}
	sort.Strings(loopBlocks)
	r.Extra["blocking_sites_in_loop_context"] = loopBlocks
	for _, must := range []string{"newAgentWithConfig$1|recv|<-Agent.gatherCandidateDone", "candidateBase.close|recv|<-candidateBase.closedCh", "tcpPacketConn.Close|wg.Wait|tcpPacketConn.wg.Wait"} {
		if !found[must] {
			r.Fail("blocking site "+must, "", "enumerated wait no longer present in loop context: the corresponding goroutine is not waited for at shutdown (goroutine leak after Close)")
		}
	}

	// ---- R8.15 the abort reaches the socket -------------------------------------------------------------------
	r.Rule("R8.15", "The abort that Close issues for a write blocked on a shared UDP mux socket is forwarded unconditionally: the handle forwards to the connection it wraps whenever that supports aborting, and the muxed connection forwards to the mux on every path — no bookkeeping of its own decides that there is nothing to abort (rule shared with C13 R13.4).", 2)
	checkAbortForwarding(p, r)

	// ---- R8.16 closing an active TCP connection always wakes its reader -----------------------------------------
	r.Rule("R8.16", "activeTCPConn.Close marks the connection closed and closes both packet buffers on every path — no error of the socket's own Close (already closed by the I/O goroutine after a failed write) makes it return first: the buffered reader is what the candidate's receive loop is parked in, and the candidate's close waits for that loop.", 3)
	if f := p.Fn("activeTCPConn.Close"); r.Anchor("activeTCPConn.Close", f != nil) {
		for _, fld := range []string{"activeTCPConn.readBuffer", "activeTCPConn.writeBuffer"} {
			var call *ast.CallExpr
			walkBody(f, func(x ast.Node) bool {
				if cc, ok := x.(*ast.CallExpr); ok {
					if sel, ok := unparen(cc.Fun).(*ast.SelectorExpr); ok && sel.Sel.Name == "Close" && p.IsField(sel.X, fld) {
						call = cc
					}
				}
				return true
			})
			ok := call != nil && p.calledOnEveryPath(f, call)
			r.Check(ok, "activeTCPConn.Close closes "+fld+" on every path", p.Pos(f.Body.Pos()), "closed before every return", "a path through Close returns without closing "+fld+": the receive loop of the candidate stays parked in the buffered read, candidateBase.close waits for it forever and Agent.Close (Restart, the Failed wipe) never returns")
		}
		stored := false
		walkBody(f, func(x ast.Node) bool {
			if cc, ok := x.(*ast.CallExpr); ok && p.isMethodOnField(cc, "activeTCPConn.closed", "Store") && len(cc.Args) == 1 {
				if v, _ := p.ConstVal(cc.Args[0]); v == "true" && p.calledOnEveryPath(f, cc) {
					stored = true
				}
			}
			return true
		})
		r.Check(stored, "activeTCPConn.Close marks the connection closed on every path", p.Pos(f.Body.Pos()), "closed.Store(true)", "Close can return without marking the connection closed: the dial / I/O goroutine keeps running")
	}

	// ---- R8.3 close sequence ------------------------------------------------------------------
	r.Rule("R8.3", "Agent.close marks the loop closed, then aborts the I/O of started candidates (as the loop's pre-stop action), then waits for the loop; the abort closes closeCh, expires deadlines, aborts a blocked shared write and closes the conn exactly once; the loop's close callback cancels and awaits gathering, drops mux entries, deletes candidates, releases starters and the reader buffer, closes mDNS and reports Closed.", 4)
	closers := p.agentClosers()
	r.Anchor("Agent.close", len(closers) > 0)
	for _, f := range closers {
		ok := false
		for _, c := range p.CallsTo(f, false, "taskloop.Loop.CloseWithPreStop") {
			if len(c.Args) == 1 {
				if sel, isSel := unparen(c.Args[0]).(*ast.SelectorExpr); isSel && sel.Sel.Name == "abortStartedCandidateIO" {
					ok = true
				}
			}
		}
		direct := len(p.CallsTo(f, false, "ice.Agent.abortStartedCandidateIO")) > 0
		what := "Agent.close: abort as pre-stop of the loop close"
		if f.Name != "Agent.close" {
			what = f.Name + ": abort as pre-stop of the loop close"
		}
		r.Check(ok && !direct, what, p.Pos(f.Body.Pos()), "loop.CloseWithPreStop(a.abortStartedCandidateIO)", "the I/O abort is not run as the loop's pre-stop action (after the loop is marked closed, before waiting): tasks admitted during the abort can start candidates that are never aborted, and Close hangs on their blocked socket I/O")
	}
	if f := p.Fn("candidateBase.abortIO"); r.Anchor("candidateBase.abortIO", f != nil) {
		var seq []string
		inOnce := false
		walkBody(f, func(n ast.Node) bool {
			if c, ok := n.(*ast.CallExpr); ok && p.isMethodOnField(c, "candidateBase.closeOnce", "Do") {
				inOnce = true
			}
			return true
		})
		for _, l := range f.Lits {
			walkBody(l, func(n ast.Node) bool {
				if c, ok := n.(*ast.CallExpr); ok {
					switch p.CalleeName(c) {
					case "builtin.close":
						if p.IsField(c.Args[0], "candidateBase.closeCh") {
							seq = append(seq, "close(closeCh)")
						}
					case "net.PacketConn.SetDeadline":
						seq = append(seq, "deadline")
					case "ice.writeAborter.abortWrite":
						seq = append(seq, "abortWrite")
					case "net.PacketConn.Close":
						seq = append(seq, "conn.Close")
					}
				}
				return true
			})
		}
		got := strings.Join(seq, ",")
		r.Check(inOnce && got == "close(closeCh),deadline,abortWrite,conn.Close", "abortIO sequence", p.Pos(f.Body.Pos()), got+" inside closeOnce", "abortIO does ["+got+"] (once="+boolStr(inOnce)+"); expected close(closeCh), SetDeadline(now), abortWrite, conn.Close inside closeOnce: a blocked read or write is not unblocked at Close")
	}
	if f := p.Fn("Agent.abortStartedCandidateIO"); r.Anchor("Agent.abortStartedCandidateIO", f != nil) {
		// abortIO is called without holding the registry mutex
		bad := false
		for _, c := range p.CallsTo(f, false, "ice.candidateBase.abortIO") {
			if p.Locks(f).At(c)["Agent.startedCandidatesMu"] {
				bad = true
			}
		}
		r.Check(!bad && len(p.CallsTo(f, false, "ice.candidateBase.abortIO")) > 0, "abortStartedCandidateIO: abort outside the registry lock", p.Pos(f.Body.Pos()), "snapshot under the mutex, abort after unlocking", "abortIO is called with startedCandidatesMu held (or not at all): a candidate closing concurrently deadlocks against Close")
	}
	if oc := p.Fn("newAgentWithConfig$1"); r.Anchor("loop close callback", oc != nil) {
		var seq []string
		walkBody(oc, func(n ast.Node) bool {
			switch x := n.(type) {
			case *ast.CallExpr:
				switch {
				case p.IsField(x.Fun, "Agent.gatherCandidateCancel"):
					seq = append(seq, "cancel-gather")
				case p.IsField(x.Fun, "Agent.startedFn"):
					seq = append(seq, "startedFn")
				case p.CalleeName(x) == "ice.Agent.removeUfragFromMux":
					seq = append(seq, "removeUfrag")
				case p.CalleeName(x) == "ice.Agent.deleteAllCandidates":
					seq = append(seq, "deleteAll")
				case p.CalleeName(x) == "packetio.Buffer.Close":
					seq = append(seq, "buf.Close")
				case p.CalleeName(x) == "ice.Agent.closeMulticastConn":
					seq = append(seq, "mdns")
				case p.CalleeName(x) == "ice.Agent.updateConnectionState":
					seq = append(seq, "state="+strings.TrimPrefix(p.constName(x.Args[0]), "ConnectionState"))
				}
			case *ast.UnaryExpr:
				if x.Op == token.ARROW && p.IsField(x.X, "Agent.gatherCandidateDone") {
					seq = append(seq, "await-gather")
				}
			}
			return true
		})
		got := strings.Join(seq, ",")
		r.Check(got == "cancel-gather,await-gather,removeUfrag,deleteAll,startedFn,buf.Close,mdns,state=Closed", "close callback sequence", p.Pos(oc.Body.Pos()), got, "the loop's close callback does ["+got+"]; expected cancel-gather, await-gather, removeUfrag, deleteAll, startedFn, buf.Close, mdns, state=Closed")
	}

	// ---- R8.4 API entries observe closure --------------------------------------------------------
	r.Rule("R8.4", "Every exported Agent/Conn method that waits (channel receive or select) outside the loop either selects on the loop's / its context's done channel as well, or waits only for a channel closed by its own task after loop.Run reported success; exported methods do not drop loop.Run's error.", 30)
	nAPI := 0
	for _, f := range p.AllFuncs {
		if f.Decl == nil || f.Decl.Recv == nil || f.Pkg != p.Ice {
			continue
		}
		rt := recvTypeName(f.Decl.Recv.List[0].Type)
		if rt != "Agent" && rt != "Conn" {
			continue
		}
		exported := isExportedName(f.Decl.Name.Name)
		if !exported && !ci.Has(f, CtxAPI) {
			continue // not on an API caller's goroutine
		}
		if exported {
			nAPI++
		}
		sites := p.blockingSites(f)
		if len(sites) == 0 {
			if exported {
				r.Trivial("API entry "+f.Name, p.Pos(f.Body.Pos()), "no indefinite wait")
			}
			continue
		}
		for _, b := range sites {
			ok, why := false, ""
			switch b.kind {
			case "select":
				sel := b.node.(*ast.SelectStmt)
				for _, cl := range sel.Body.List {
					cc := cl.(*ast.CommClause)
					var ch ast.Expr
					switch s := cc.Comm.(type) {
					case *ast.ExprStmt:
						if u, isU := unparen(s.X).(*ast.UnaryExpr); isU {
							ch = u.X
						}
					case *ast.AssignStmt:
						if u, isU := unparen(s.Rhs[0]).(*ast.UnaryExpr); isU {
							ch = u.X
						}
					}
					if ch != nil {
						if c, isC := unparen(ch).(*ast.CallExpr); isC {
							// the caller's own context says nothing about the agent's closure
							if p.CalleeName(c) == "taskloop.Loop.Done" {
								ok, why = true, "selects on the loop's Done()"
							}
						}
					}
				}
			case "recv":
				u := b.node.(*ast.UnaryExpr)
				facts, _ := p.FactsAtCall(f, u)
				if _, ran := p.HasCallEqNil(facts, f, "taskloop.Loop.Run", 0, true); ran {
					ok, why = true, "only after loop.Run returned nil (its task closed the channel)"
				}
				// err == nil tested on a named result
				if !ok && facts.Has(func(ft Fact) bool {
					id, isID := unparen(ft.X).(*ast.Ident)
					return ft.Op == "==" && ft.Val && p.isNilExpr(ft.Y) && isID && isErrorType(p.TypeOf(id))
				}) {
					ok, why = true, "only after the task ran (err == nil)"
				}
				if !ok && p.doneLike(u.X) == "ctx/loop Done()" {
					ok, why = true, "waits for the loop itself"
				}
				if !ok {
					// unconditional receive after a successful Run in the same function
					for _, c := range p.CallsTo(f, false, "taskloop.Loop.Run") {
						if c.Pos() < u.Pos() {
							if id, isID := unparen(u.X).(*ast.Ident); isID {
								// the received channel is closed by a defer at the top of the submitted task
								closedInTask := false
								for _, l := range f.Lits {
									walkBody(l, func(n ast.Node) bool {
										if d, isD := n.(*ast.DeferStmt); isD && p.CalleeName(d.Call) == "builtin.close" && len(d.Call.Args) == 1 {
											if cid, ok := unparen(d.Call.Args[0]).(*ast.Ident); ok && p.ObjOf(cid) == p.ObjOf(id) {
												closedInTask = true
											}
										}
										return true
									})
								}
								errReturn := false
								walkBody(f, func(n ast.Node) bool {
									if rs, isR := n.(*ast.ReturnStmt); isR && rs.Pos() < u.Pos() && rs.Pos() > c.Pos() {
										errReturn = true
									}
									return true
								})
								if closedInTask && errReturn {
									ok, why = true, "Run's error returns before the wait; the task closes the channel in a defer"
								}
							}
						}
					}
				}
			case "wg.Wait", "send":
				why = "unexpected wait"
			}
			r.Check(ok, "API wait in "+f.Name+": "+b.desc, p.Pos(b.node.Pos()), why, "this wait on the caller's goroutine is not tied to the loop's closure: after Close it never returns")
		}
	}
	r.Extra["exported_agent_conn_methods"] = nAPI
	if nAPI < 30 {
		r.Fail("API inventory", "", fmt.Sprintf("only %d exported Agent/Conn methods found", nAPI))
	}
	// Conn.Read / Conn.Write test the closed flag first (C07 checks Write)
	if f := p.Fn("Conn.Read"); f != nil {
		for _, c := range p.CallsTo(f, false, "packetio.Buffer.Read") {
			facts, _ := p.FactsAtCall(f, c)
			_, ok := p.HasCallEqNil(facts, f, "taskloop.Loop.Err", 0, true)
			r.Check(ok, "Conn.Read observes closure", p.Pos(c.Pos()), "loop.Err() == nil before reading", "Read after Close does not report the closed error")
		}
	}

	// ---- R8.5 goroutine inventory --------------------------------------------------------------------
	r.Rule("R8.5", "Every goroutine the library starts either runs to completion or loops with an exit that is taken when a shutdown signal fires (context / loop done, a closed-channel receive, a closed flag, or the error of I/O on a connection that shutdown closes).", 30)
	var inventory []string
	nGo := 0
	for _, f := range p.AllFuncs {
		if f.Pkg != p.Ice && !strings.Contains(f.Pkg.PkgPath, "taskloop") {
			continue
		}
		walkBody(f, func(n ast.Node) bool {
			g, ok := n.(*ast.GoStmt)
			if !ok {
				return true
			}
			nGo++
			var targets []*Func
			for _, e := range p.CG().Out[f] {
				if e.Call == g.Call && e.Go && e.Kind != "arg" {
					targets = append(targets, e.Callee)
				}
			}
			if len(targets) == 0 {
				r.Unknown("goroutine at "+f.Name, p.Pos(g.Pos()), "body of the go statement could not be resolved")
				return true
			}
			for _, tgt := range targets {
				class, ok := p.classifyGoroutine(tgt)
				inventory = append(inventory, f.Name+" -> "+tgt.Name+": "+class)
				r.Check(ok, "goroutine "+f.Name+" -> "+tgt.Name, p.Pos(g.Pos()), class, "goroutine with an unbounded loop and no exit tied to a shutdown signal: it outlives Close ("+class+")")
			}
			return true
		})
	}
	sort.Strings(inventory)
	r.Extra["goroutine_inventory"] = inventory
	r.Extra["go_statements"] = nGo

	// ---- R8.8 graceful close waits for the handler goroutines -------------------------------------
	r.Rule("R8.8", "handlerNotifier.Close(graceful=true) waits for the notifier goroutines on every path, including when the notifier was already closed by an earlier non-graceful Close; Agent.close passes the graceful flag to all three notifiers, and Close reaches it as the plain, GracefulClose as the graceful close.", 2)
	checkNotifierGracefulWait(p, r)

	// ---- R8.6 abortable candidates are registered -------------------------------------------------
	r.Rule("R8.6", "A candidate registers itself for the close-time I/O abort before its receive loop is started, and unregisters when it is closed.", 2)
	if f := p.Fn("candidateBase.start"); r.Anchor("candidateBase.start", f != nil) {
		var regPos, goPos token.Pos
		walkBody(f, func(n ast.Node) bool {
			switch x := n.(type) {
			case *ast.CallExpr:
				if p.CalleeName(x) == "ice.Agent.registerStartedCandidate" {
					regPos = x.Pos()
				}
			case *ast.GoStmt:
				goPos = x.Pos()
			}
			return true
		})
		r.Check(regPos.IsValid() && goPos.IsValid() && regPos < goPos, "candidate registered before its receive loop starts", p.Pos(f.Body.Pos()), "registerStartedCandidate precedes go recvLoop", "a started candidate is not (yet) registered when its receive loop runs: Close cannot abort its blocked I/O")
	}
	if f := p.Fn("candidateBase.close"); r.Anchor("candidateBase.close", f != nil) {
		r.Check(len(p.CallsTo(f, false, "ice.Agent.unregisterStartedCandidate")) == 1, "candidate unregistered on close", p.Pos(f.Body.Pos()), "unregisterStartedCandidate", "closed candidates stay in the abort registry")
	}

	// ---- R8.7 awaited channels are always closed ----------------------------------------------------
	r.Rule("R8.7", "Each channel awaited at shutdown is closed by a defer covering every exit of its producer: the gather cycle's done channel, the candidate receive loop's closed channel.", 2)
	deferCloses := func(f *Func, match func(e ast.Expr) bool) bool {
		ok := false
		for i, s := range f.Body.List {
			if d, isD := s.(*ast.DeferStmt); isD && p.CalleeName(d.Call) == "builtin.close" && len(d.Call.Args) == 1 && match(d.Call.Args[0]) {
				// no return before the defer
				early := false
				for _, s2 := range f.Body.List[:i] {
					ast.Inspect(s2, func(x ast.Node) bool {
						if _, isR := x.(*ast.ReturnStmt); isR {
							early = true
						}
						return true
					})
				}
				ok = !early
			}
		}
		return ok
	}
	if f := p.Fn("Agent.gatherCandidates"); r.Anchor("Agent.gatherCandidates", f != nil) {
		done := p.paramObj(f, 1)
		r.Check(deferCloses(f, func(e ast.Expr) bool { id, ok := unparen(e).(*ast.Ident); return ok && p.ObjOf(id) == done }), "gather cycle closes its done channel on every exit", p.Pos(f.Body.Pos()), "defer close(done) first", "the gather goroutine can exit without closing its done channel: the loop's close callback (and thus Close) waits forever")
	}
	if f := p.Fn("candidateBase.recvLoop"); r.Anchor("candidateBase.recvLoop", f != nil) {
		r.Check(deferCloses(f, func(e ast.Expr) bool { return p.IsField(e, "candidateBase.closedCh") }), "receive loop closes closedCh on every exit", p.Pos(f.Body.Pos()), "defer close(c.closedCh) before any return", "the receive loop can exit without closing closedCh: candidate close (inside the loop) waits forever")
	}

	// ---- R8.9 the candidate receive loop ends on every read error --------------------------------------
	r.Rule("R8.9", "candidateBase.recvLoop reads again only after a successful read: every read error (the deadline kick of abortIO included) ends the loop, so close() never waits for a reader that swallowed its wake-up.", 1)
	if f := p.Fn("candidateBase.recvLoop"); r.Anchor("candidateBase.recvLoop", f != nil) {
		isRead := func(c *ast.CallExpr) bool {
			switch p.CalleeName(c) {
			case "net.PacketConn.ReadFrom", "ice.AddrPortReaderWriter.ReadFromAddrPort":
				return true
			}
			return false
		}
		n := 0
		walkBody(f, func(x ast.Node) bool {
			if c, ok := x.(*ast.CallExpr); ok && isRead(c) {
				n++
			}
			return true
		})
		bad := p.rereadWithoutSuccess(f, isRead)
		pos := p.Pos(f.Body.Pos())
		if bad != nil {
			pos = p.Pos(bad.Pos())
		}
		r.Check(bad == nil && n > 0, "recvLoop: a read error ends the loop", pos, "the read repeats only after err == nil", "the receive loop can read again after a failed read: the immediate deadline that abortIO uses to wake a blocked reader is swallowed, the loop never ends and Close / Restart / Failed wait for it forever")
	}

	// ---- R8.10 relay teardown hook ---------------------------------------------------------------------
	r.Rule("R8.10", "Closing a relay candidate runs its onClose hook (TURN client and control socket, whose goroutines would otherwise outlive the agent) on every path, whatever the base close returned.", 1)
	checkRelayCloseHook(p, r)

	// ---- R8.11 exhaustive clean-up / migration loops ----
	r.Rule("R8.11", "The loops that must treat every element of a collection do so: no early exit, and no path through an iteration that skips the operation (every started candidate's I/O is aborted at close).", 1)
	checkForAllLoops(p, r, "C08")

	r.Rule("R8.14", "After Close, Conn.Write and Conn.WriteToPair return the closed error without touching a socket: the write is reached only where loop.Err() was nil (shared with C07 R7.1).", 2)
	checkWritesRequireOpenAgent(p, r)

	r.Rule("R8.13", "No mutex that the close-time abort path acquires (abortIO: expire the deadlines, abort a shared write, close the conn — and everything they reach) is held across a read or write on a stream connection, which can block for as long as the peer does not read or write: the abort would wait for that mutex and Close would never return.", 3)
	checkNoStreamIOUnderAbortLocks(p, r)

	r.Rule("R8.12", "The handle of the running gathering cycle (its cancel function and its done channel) is stored only where a cycle is started and at construction: nothing forgets a cycle that was cancelled but has not finished, so the close callback cancels and awaits the last cycle started, whatever happened in between (Restart only cancels).", 2)
	checkCycleHandleWriters(p, r)
}

// checkCycleHandleWriters: shared by C08 (R8.12) and, through checkGatherCycleControl, C11 / C18.
func checkCycleHandleWriters(p *Prog, r *Report) {
	for _, fld := range []string{"Agent.gatherCandidateDone", "Agent.gatherCandidateCancel"} {
		ws := p.WritersOf(fld)
		okAll, n := true, 0
		var bad []string
		for f := range ws {
			n++
			root := f.Root().Name
			if f.Name == "Agent.GatherCandidates$1" || root == "createAgentBase" || root == "newAgentWithConfig" || root == "newAgentFromConfig" {
				continue
			}
			okAll = false
			bad = append(bad, f.Name)
		}
		sort.Strings(bad)
		r.Check(okAll && n > 0, "writers of "+fld, "agent.go", "the cycle start (GatherCandidates task) and construction only", fld+" is also written in "+strings.Join(bad, ", ")+": a cycle that was cancelled but is still running is no longer tracked — Close / GracefulClose return while its goroutines keep running, holding sockets and calling the application's Net and filter callbacks")
	}
}

// classifyGoroutine decides how the goroutine body terminates.
func (p *Prog) classifyGoroutine(f *Func) (string, bool) {
	var loops []*ast.ForStmt
	var rangeChan []*ast.RangeStmt
	walkBody(f, func(n ast.Node) bool {
		switch x := n.(type) {
		case *ast.ForStmt:
			loops = append(loops, x)
		case *ast.RangeStmt:
			if t := p.TypeOf(x.X); t != nil {
				if _, isChan := t.Underlying().(*types.Chan); isChan {
					rangeChan = append(rangeChan, x)
				}
			}
		}
		return true
	})
	// follow into directly called helper methods that contain the loop (one level)
	if len(loops) == 0 {
		for _, e := range p.CG().Out[f] {
			if e.Go || e.Kind == "arg" || e.Callee.Pkg != f.Pkg {
				continue
			}
			inner := false
			walkBody(e.Callee, func(n ast.Node) bool {
				if fs, ok := n.(*ast.ForStmt); ok && fs.Cond == nil {
					inner = true
				}
				return true
			})
			if inner {
				c, ok := p.classifyGoroutine(e.Callee)
				return "via " + e.Callee.Name + ": " + c, ok
			}
		}
		return "runs to completion (no unbounded loop)", true
	}
	var classes []string
	for _, fs := range loops {
		if fs.Cond != nil {
			c := stripVarLines(p.Canon(fs.Cond))
			if strings.Contains(c, "closed") {
				classes = append(classes, "loop condition on the closed flag ("+short(c, 50)+")")
				continue
			}
			if fs.Init != nil || fs.Post != nil {
				continue // counted loop
			}
			// loop on another condition: needs an exit as well
		}
		witness := ""
		ast.Inspect(fs.Body, func(n ast.Node) bool {
			if _, isLit := n.(*ast.FuncLit); isLit {
				return false
			}
			var exit ast.Node
			switch x := n.(type) {
			case *ast.ReturnStmt:
				exit = x
			case *ast.BranchStmt:
				if x.Tok == token.BREAK {
					exit = x
				}
			}
			if exit == nil || witness != "" {
				return true
			}
			for _, ft := range p.DominatingFacts(f, exit) {
				switch ft.Op {
				case "comm":
					var ch ast.Expr
					switch s := ft.Stmt.(type) {
					case *ast.ExprStmt:
						if u, ok := unparen(s.X).(*ast.UnaryExpr); ok {
							ch = u.X
						}
					case *ast.AssignStmt:
						if u, ok := unparen(s.Rhs[0]).(*ast.UnaryExpr); ok {
							ch = u.X
						}
					}
					if ch != nil {
						if d := p.doneLike(ch); d != "" {
							witness = "exits on receive from " + d
						}
					}
				case "==":
					if ft.Val {
						if c, ok := unparen(ft.X).(*ast.CallExpr); ok && p.CalleeName(c) == "builtin.len" && p.constName(ft.Y) == "0" {
							witness = "drainer: exits when its queue " + stripVarLines(p.Canon(c.Args[0])) + " is empty (enqueues stop at close)"
						}
					}
					if !ft.Val && p.isNilExpr(ft.Y) {
						if c, _, ok := p.ResolveCall(f, ft.X); ok {
							witness = "exits on error of " + p.CalleeName(c)
						} else if id, ok := unparen(ft.X).(*ast.Ident); ok && isErrorType(p.TypeOf(id)) {
							witness = "exits on I/O error"
						}
					}
				case "truth":
					c := stripVarLines(p.Canon(ft.X))
					if ft.Val && (strings.Contains(c, "IsClosed") || strings.Contains(c, "errors.Is")) {
						witness = "exits when " + short(c, 50)
					}
				}
			}
			return true
		})
		if witness == "" {
			return "unbounded loop at " + p.Pos(fs.Pos()) + " without a shutdown-tied exit", false
		}
		classes = append(classes, witness)
	}
	if len(classes) == 0 {
		return "bounded loops only", true
	}
	return strings.Join(dedupStrings(classes), "; "), true
}

// checkNotifierGracefulWait is shared by C08 (R8.8) and C11 (R11.4).
func checkNotifierGracefulWait(p *Prog, r *Report) {
	f := p.Fn("handlerNotifier.Close")
	if !r.Anchor("handlerNotifier.Close", f != nil) {
		return
	}
	g := p.CFG(f)
	graceful := p.paramObj(f, 0)
	isWait := func(n ast.Node) bool {
		found := false
		if _, isRA := n.(*RangeAssign); isRA {
			return false
		}
		ast.Inspect(n, func(x ast.Node) bool {
			if c, ok := x.(*ast.CallExpr); ok && p.CalleeName(c) == "sync.WaitGroup.Wait" && p.MentionsField(c, "handlerNotifier.notifiers") {
				found = true
			}
			return true
		})
		return found
	}
	path, escapes := g.PathAvoiding(Loc{g.Entry, 0}, isWait, func(b *Block) bool { return b == g.Exit }, func(e *Edge) bool {
		if e.Cond == nil || e.Cond.Op != "truth" {
			return true
		}
		if id, ok := unparen(e.Cond.X).(*ast.Ident); ok && p.ObjOf(id) == graceful && !e.Val {
			return false // only graceful paths
		}
		return true
	})
	r.Check(!escapes, "notifier Close: graceful close always waits", p.Pos(f.Body.Pos()), "every graceful path passes notifiers.Wait()",
		"a graceful close can return without waiting for the handler goroutines ("+g.describePath(p, path)+"): after an earlier plain Close, GracefulClose returns while a handler is still running and before Closed was delivered")
	checkCloseModes(p, r)
	// every function that closes the agent's loop closes the three notifiers with its caller's graceful
	// flag, or (the flag spelled out per entry point) gracefully exactly in GracefulClose
	for _, cl := range p.agentClosers() {
		n := 0
		for _, c := range p.CallsTo(cl, false, "ice.handlerNotifier.Close") {
			if len(c.Args) != 1 {
				continue
			}
			if id, ok := unparen(c.Args[0]).(*ast.Ident); ok && len(cl.Type.Params.List) > 0 && p.ObjOf(id) == p.paramObj(cl, 0) {
				n++
			} else if v, isConst := p.ConstVal(c.Args[0]); isConst && cl.Name != "Agent.close" && (v == "true") == (cl.Name == "Agent.GracefulClose") {
				n++
			}
		}
		what := "Agent.close passes graceful to the three notifiers"
		if cl.Name != "Agent.close" {
			what = cl.Name + " closes the three notifiers in its own mode"
		}
		r.Check(n == 3, what, p.Pos(cl.Body.Pos()), "3 calls", itoa(n)+" of the three notifiers are closed with the caller's graceful flag")
	}
}

// checkCloseModes: Close is the plain close and GracefulClose the graceful one — whoever reaches the shared
// Agent.close passes the constant of its own mode (part of checkNotifierGracefulWait, C08 R8.8 / C11 R11.4).
func checkCloseModes(p *Prog, r *Report) {
	cl := p.Fn("Agent.close")
	if cl == nil {
		return // spelled out per entry point: decided with the closers themselves
	}
	n := 0
	for _, e := range p.Callers(cl) {
		if e.Call == nil || len(e.Call.Args) != 1 {
			continue
		}
		n++
		v, isConst := p.ConstVal(e.Call.Args[0])
		want := ""
		switch e.Caller.Name {
		case "Agent.Close":
			want = "false"
		case "Agent.GracefulClose":
			want = "true"
		}
		r.Check(isConst && want != "" && v == want, "close mode of "+e.Caller.Name, p.Pos(e.Call.Pos()), "Close is plain, GracefulClose is graceful", e.Caller.Name+" closes the agent with graceful="+stripVarLines(p.Canon(e.Call.Args[0]))+": a plain Close that waits for the handlers deadlocks when called from a callback; a GracefulClose that does not wait returns while a handler is still running")
	}
	if n < 2 {
		r.Fail("callers of Agent.close", p.Pos(cl.Body.Pos()), "fewer than the two entry points call Agent.close (rule instance lost)")
	}
}

// agentClosers: the functions that close the agent's task loop (Agent.close; or, when it is
// spelled out per entry point, Close and GracefulClose).
func (p *Prog) agentClosers() []*Func {
	var out []*Func
	for _, f := range p.AllFuncs {
		if f.Pkg != p.Ice || f.Body == nil {
			continue
		}
		for _, c := range p.CallsTo(f, false, "taskloop.Loop.CloseWithPreStop", "taskloop.Loop.Close") {
			if sel, ok := unparen(c.Fun).(*ast.SelectorExpr); ok && p.IsField(sel.X, "Agent.loop") {
				out = append(out, f)
				break
			}
		}
	}
	sort.Slice(out, func(i, j int) bool { return out[i].Name < out[j].Name })
	return out
}

func isErrorType(t types.Type) bool {
	return t != nil && types.Identical(t, types.Universe.Lookup("error").Type())
}

// checkNoStreamIOUnderAbortLocks (R8.13).
func checkNoStreamIOUnderAbortLocks(p *Prog, r *Report) {
	root := p.Fn("candidateBase.abortIO")
	if !r.Anchor("candidateBase.abortIO", root != nil) {
		return
	}
	cg := p.CG()
	sync := func(e *CallEdge) bool { return !e.Go }
	reach := cg.Reachable([]*Func{root}, sync)
	abortLocks := map[string]string{} // mutex -> a function of the abort path that takes it
	for f := range reach {
		if f.Body == nil {
			continue
		}
		f := f
		walkBody(f, func(n ast.Node) bool {
			if c, ok := n.(*ast.CallExpr); ok {
				if k, op := p.lockKey(c); op == "lock" && k != "" {
					if _, dup := abortLocks[k]; !dup || f.Name < abortLocks[k] {
						abortLocks[k] = f.Name
					}
				}
			}
			return true
		})
	}
	var names []string
	for k, v := range abortLocks {
		names = append(names, k+" ("+v+")")
	}
	sort.Strings(names)
	r.Extra["abort_path_mutexes"] = names
	r.Check(len(abortLocks) >= 2, "mutexes taken on the abort path", p.Pos(root.Body.Pos()), strings.Join(names, ", "), "fewer than two mutexes found on the abort path: the call graph no longer resolves the deadline / close implementations")

	// direct stream I/O: Read / Write on a net.Conn-like value, or the framing helpers over one
	isStreamIO := func(c *ast.CallExpr) bool {
		sel, ok := unparen(c.Fun).(*ast.SelectorExpr)
		if !ok || (sel.Sel.Name != "Read" && sel.Sel.Name != "Write") {
			return false
		}
		t := p.TypeOf(sel.X)
		if t == nil {
			return false
		}
		return hasMethod(t, "SetReadDeadline") && hasMethod(t, "RemoteAddr") // a net.Conn (stream), not a packet conn
	}
	direct := map[*Func]bool{}
	for _, f := range p.AllFuncs {
		if f.Body == nil || f.Pkg != p.Ice {
			continue
		}
		f := f
		walkBody(f, func(n ast.Node) bool {
			if c, ok := n.(*ast.CallExpr); ok && isStreamIO(c) {
				direct[f] = true
			}
			return true
		})
		for _, c := range p.CallsIn(f, false, func(n string, _ *ast.CallExpr) bool {
			return n == "io.ReadFull" || n == "io.ReadAtLeast" || n == "io.Copy"
		}) {
			if len(c.Args) > 0 {
				if t := p.TypeOf(c.Args[0]); t != nil && hasMethod(t, "SetReadDeadline") {
					direct[f] = true
				}
			}
		}
	}
	// functions that perform stream I/O synchronously (fixpoint over non-go call edges)
	does := map[*Func]bool{}
	for f := range direct {
		does[f] = true
	}
	for changed := true; changed; {
		changed = false
		for f, es := range cg.Out {
			if does[f] {
				continue
			}
			for _, e := range es {
				if !e.Go && e.Kind != "arg" && does[e.Callee] {
					does[f], changed = true, true
					break
				}
			}
		}
	}
	r.Check(len(direct) >= 3, "stream I/O sites", "tcp_packet_conn.go", fmt.Sprintf("%d functions read or write a stream connection directly", len(direct)), "fewer than three functions with stream I/O found (rule instance lost)")
	nSites := 0
	for _, f := range p.AllFuncs {
		if f.Body == nil || f.Pkg != p.Ice {
			continue
		}
		f := f
		walkBody(f, func(n ast.Node) bool {
			c, ok := n.(*ast.CallExpr)
			if !ok {
				return true
			}
			blocking := isStreamIO(c)
			if !blocking {
				for _, e := range cg.Out[f] {
					if e.Call == c && !e.Go && e.Kind != "arg" && does[e.Callee] {
						blocking = true
					}
				}
			}
			if !blocking {
				return true
			}
			nSites++
			held := p.HeldAt(f, c)
			var bad []string
			for k := range held {
				if _, isAbort := abortLocks[k]; isAbort {
					bad = append(bad, k)
				}
			}
			sort.Strings(bad)
			if len(bad) > 0 {
				r.Fail("stream I/O under an abort-path mutex in "+f.Name, p.Pos(c.Pos()), f.Name+" performs (or calls something that performs) a read/write on a stream connection while holding "+strings.Join(bad, ", ")+", which "+abortLocks[bad[0]]+" needs on the close-time abort path: a write blocked because the peer stopped reading keeps the mutex, the abort waits for it, and Close / GracefulClose never return")
			}
			return true
		})
	}
	r.Check(nSites >= 3, "stream I/O call sites examined", "tcp_packet_conn.go", fmt.Sprintf("%d call sites, none under an abort-path mutex", nSites), "fewer than three call sites examined")
}

func hasMethod(t types.Type, name string) bool {
	ms := types.NewMethodSet(t)
	if ms.Lookup(nil, name) != nil {
		return true
	}
	if _, isPtr := t.(*types.Pointer); !isPtr {
		if _, isIface := t.Underlying().(*types.Interface); !isIface {
			return types.NewMethodSet(types.NewPointer(t)).Lookup(nil, name) != nil
		}
	}
	for i := 0; i < ms.Len(); i++ {
		if ms.At(i).Obj().Name() == name {
			return true
		}
	}
	return false
}

// siteKey names the channel / wait group of a blocking operation by the field
// it is (Struct.field), whatever the variable through which it is reached is
// called; anything else is rendered by role.
func (p *Prog) siteKey(f *Func, e ast.Expr) string {
	e = unparen(e)
	if fv := p.FieldOf(e); fv != nil {
		return p.FieldName(fv)
	}
	if sel, ok := e.(*ast.SelectorExpr); ok {
		if fv := p.FieldOf(sel.X); fv != nil {
			return p.FieldName(fv) + "." + sel.Sel.Name
		}
	}
	return p.RoleCanon(f, e)
}
