package main

import (
	"go/ast"
	"go/token"
	"go/types"
	"sort"
	"strings"
)

func init() { register("C06", checkC06) }

// dedupLoopDone: facts contain the "range done" fact of a loop over a value
// read from field (e.g. Agent.localCandidates) whose body returns when an
// element Equal()s the candidate cand.
func (p *Prog) dedupLoopDone(f *Func, facts FactSet, field string, cand types.Object) bool {
	fromFieldExpr := func(e ast.Expr) bool {
		if p.MentionsField(e, field) {
			return true
		}
		if id, ok := unparen(e).(*ast.Ident); ok {
			for _, d := range p.DefsOf(f, p.ObjOf(id)) {
				if d.Rhs != nil && p.MentionsField(d.Rhs, field) {
					return true
				}
			}
		}
		return false
	}
	return facts.Has(func(ft Fact) bool {
		// the same search written with the standard helper: !slices.ContainsFunc(set, func(x) bool { return x.Equal(cand) })
		if ft.Op == "truth" && !ft.Val {
			if c, _, ok := p.ResolveCall(f, ft.X); ok && p.CalleeName(c) == "slices.ContainsFunc" && len(c.Args) == 2 && fromFieldExpr(c.Args[0]) {
				if lit, ok := unparen(c.Args[1]).(*ast.FuncLit); ok && len(lit.Body.List) == 1 {
					if rs, ok := lit.Body.List[0].(*ast.ReturnStmt); ok && len(rs.Results) == 1 {
						if ec, ok := unparen(rs.Results[0]).(*ast.CallExpr); ok && p.CalleeName(ec) == "ice.Candidate.Equal" && len(ec.Args) == 1 {
							if id, ok := unparen(ec.Args[0]).(*ast.Ident); ok && p.ObjOf(id) == cand {
								return true
							}
						}
					}
				}
			}
		}
		if ft.Op != "range" || ft.Val {
			return false
		}
		rs, ok := ft.Stmt.(*ast.RangeStmt)
		if !ok {
			return false
		}
		// range expression derives from the field
		fromField := p.MentionsField(rs.X, field)
		if id, ok := unparen(rs.X).(*ast.Ident); ok && !fromField {
			for _, d := range p.DefsOf(f, p.ObjOf(id)) {
				if d.Rhs != nil && p.MentionsField(d.Rhs, field) {
					fromField = true
				}
			}
		}
		if !fromField {
			return false
		}
		// body: if x.Equal(cand) { ... return }
		found := false
		ast.Inspect(rs.Body, func(n ast.Node) bool {
			is, ok := n.(*ast.IfStmt)
			if !ok {
				return true
			}
			c, ok := unparen(is.Cond).(*ast.CallExpr)
			if !ok || p.CalleeName(c) != "ice.Candidate.Equal" || len(c.Args) != 1 {
				return true
			}
			if id, ok := unparen(c.Args[0]).(*ast.Ident); !ok || p.ObjOf(id) != cand {
				return true
			}
			for _, s := range is.Body.List {
				if _, ok := s.(*ast.ReturnStmt); ok {
					found = true
				}
			}
			return true
		})
		return found
	})
}

func checkC06(p *Prog, r *Report) {
	ap := p.Fn("Agent.addPair")
	arc := p.Fn("Agent.addRemoteCandidate")
	if !r.Anchor("Agent.addPair", ap != nil) || !r.Anchor("Agent.addRemoteCandidate", arc != nil) {
		return
	}

	// ---- R6.1 pair creation -----------------------------------------------------------------
	r.Rule("R6.1", "Every caller of addPair either holds findPair(local, remote) == nil for the same operands or pairs a candidate that was just created / just passed the Equal-dedup loop; addPair alone appends to the checklist, fills the pair index and advances the id counter, all with the same pair and a fresh id.", 9)
	for _, e := range p.Callers(ap) {
		f := e.Caller
		c := e.Call
		pos := p.Pos(c.Pos())
		facts, _ := p.FactsAtCall(f, c)
		ok, how := false, ""
		// (a) findPair(l, r) == nil with the same operands
		if fc, found := p.HasCallEqNil(facts, f, "ice.Agent.findPair", 0, true); found && len(fc.Args) == 2 && len(c.Args) == 2 &&
			p.Canon(fc.Args[0]) == p.Canon(c.Args[0]) && p.Canon(fc.Args[1]) == p.Canon(c.Args[1]) {
			ok, how = true, "findPair(same operands) == nil"
		}
		// (b) fresh candidate: created in this function, or passed the dedup loop
		if !ok {
			for i, a := range c.Args {
				id, isID := unparen(a).(*ast.Ident)
				if !isID {
					continue
				}
				o := p.ObjOf(id)
				if d, single := p.SingleDef(f, o); single {
					if cc, isCall := unparen(d.Rhs).(*ast.CallExpr); isCall && strings.HasPrefix(p.CalleeName(cc), "ice.NewCandidate") {
						ok, how = true, "candidate created in this function"
					}
				}
				field := "Agent.localCandidates"
				if i == 1 {
					field = "Agent.remoteCandidates"
				}
				if p.dedupLoopDone(f, facts, field, o) {
					// ... and nothing between the dedup loop and this call can
					// have listed pairs for it (e.g. prflx supersession re-pointing pairs)
					var loopEnd token.Pos
					for _, ft := range facts {
						if ft.Op == "range" && !ft.Val && ft.Stmt.End() < c.Pos() && ft.Stmt.End() > loopEnd {
							loopEnd = ft.Stmt.End()
						}
					}
					relist := ""
					walkBody(f, func(n ast.Node) bool {
						cc, isCall := n.(*ast.CallExpr)
						if !isCall || cc == c || cc.Pos() < loopEnd || cc.Pos() > c.Pos() {
							return true
						}
						for fv := range p.CallWrites(f, cc) {
							if p.FieldName(fv) == "Agent.checklist" {
								relist = p.CalleeName(cc)
							}
						}
						return true
					})
					if relist == "" {
						ok, how = true, "candidate passed the Equal-dedup loop over "+field+" and no pair can have been listed for it since"
					} else {
						how = "candidate passed the dedup loop but " + relist + " may already have listed pairs for it"
					}
				}
			}
		}
		r.Check(ok, "addPair call in "+f.Name, pos, how, "a pair is created without checking that (local, remote) is not listed yet and without the candidate being provably new ("+how+"): the same pair can be listed twice under two ids")
	}
	for _, fld := range []string{"Agent.checklist", "Agent.pairsByID", "Agent.nextPairID"} {
		allowed := map[string]bool{"Agent.addPair": true}
		if fld != "Agent.nextPairID" {
			allowed["Agent.Restart$1"], allowed["Agent.updateConnectionState"], allowed["Agent.replaceRemoteInPairs"] = true, true, true
		}
		for f, nodes := range p.WritersOf(fld) {
			if f.Root().Name == "createAgentBase" {
				continue
			}
			okW := allowed[f.Name]
			if !okW && fld != "Agent.nextPairID" {
				// a reset helper of the two wipe sites: only fresh empty values, only called from them
				okW = true
				for _, n := range nodes {
					okW = okW && p.resetNode(n, fld, 0)
				}
				cs := p.Callers(f)
				okW = okW && len(cs) > 0
				for _, e := range cs {
					okW = okW && (e.Caller.Name == "Agent.Restart$1" || e.Caller.Name == "Agent.updateConnectionState")
				}
			}
			r.Check(okW, "writer of "+fld+": "+f.Name, p.Pos(nodes[0].Pos()), "bookkeeping function (or a reset helper of Restart / Failed)", fld+" is modified in "+f.Name+", outside the pair bookkeeping functions")
		}
	}
	{
		// shape of addPair
		var seq []string
		walkBody(ap, func(n ast.Node) bool {
			switch x := n.(type) {
			case *ast.IncDecStmt:
				if p.IsField(x.X, "Agent.nextPairID") && x.Tok == token.INC {
					seq = append(seq, "id++")
				}
			case *ast.AssignStmt:
				if len(x.Lhs) == 1 && len(x.Rhs) == 1 {
					switch {
					case p.IsField(x.Lhs[0], "CandidatePair.id") && p.IsField(x.Rhs[0], "Agent.nextPairID"):
						seq = append(seq, "p.id=next")
					case p.IsField(x.Lhs[0], "Agent.checklist"):
						if c, ok := unparen(x.Rhs[0]).(*ast.CallExpr); ok && p.CalleeName(c) == "builtin.append" && len(c.Args) == 2 && p.IsField(c.Args[0], "Agent.checklist") {
							seq = append(seq, "append("+identName(c.Args[1])+")")
						}
					default:
						if ix, ok := unparen(x.Lhs[0]).(*ast.IndexExpr); ok && p.IsField(ix.X, "Agent.pairsByID") && p.IsField(ix.Index, "CandidatePair.id") {
							seq = append(seq, "index["+identName(x.Rhs[0])+"]")
						}
					}
				}
			}
			return true
		})
		got := strings.Join(seq, ",")
		okShape := len(seq) == 4 && seq[0] == "id++" && seq[1] == "p.id=next" && strings.HasPrefix(seq[2], "append(") && strings.HasPrefix(seq[3], "index[") &&
			seq[2][7:len(seq[2])-1] == seq[3][6:len(seq[3])-1]
		r.Check(okShape, "addPair: fresh id, listed and indexed", p.Pos(ap.Body.Pos()), got, "addPair does ["+got+"]; expected: advance the counter, give the pair that id, append it, index it under its id")
	}

	// ---- R6.2 remote insertion ---------------------------------------------------------------
	r.Rule("R6.2", "The only insertion into the remote candidate set is in addRemoteCandidate, dominated by the remote IP filter and the Equal-dedup loop; its callers are the public add (after the TCP-active refusal), the mDNS resolver and the authenticated peer-reflexive path.", 6)
	for f, nodes := range p.WritersOf("Agent.remoteCandidates") {
		if f.Root().Name == "createAgentBase" {
			continue
		}
		ok := f == arc || f.Name == "Agent.deleteAllCandidates"
		r.Check(ok, "writer of remoteCandidates: "+f.Name, p.Pos(nodes[0].Pos()), "insertion / wipe", "remote candidates are modified in "+f.Name)
	}
	candParam := p.paramObj(arc, 0)
	for _, n := range p.StoresTo(arc, "Agent.remoteCandidates") {
		facts, _ := p.FactsAtCall(arc, n)
		// structural dominance: the field-based effect summary cannot see that
		// the intervening calls do not change the candidate's own address
		_, filt := p.HasCallTruth(p.DominatingFacts(arc, n), arc, "ice.Agent.shouldAcceptRemoteCandidate", 0, true)
		dedup := p.dedupLoopDone(arc, facts, "Agent.remoteCandidates", candParam)
		r.Check(filt, "remote insertion: IP filter", p.Pos(n.Pos()), "dominated by shouldAcceptRemoteCandidate(cand)", "a remote candidate is stored without passing the remote IP filter")
		r.Check(dedup, "remote insertion: dedup", p.Pos(n.Pos()), "after the Equal-dedup loop", "a remote candidate is stored without the duplicate check")
		// key is the candidate's own network type
		if as, ok := n.(*ast.AssignStmt); ok {
			if ix, ok := unparen(as.Lhs[0]).(*ast.IndexExpr); ok {
				c, isCall := unparen(ix.Index).(*ast.CallExpr)
				r.Check(isCall && p.CalleeName(c) == "ice.Candidate.NetworkType" && p.mentionsObj(c, candParam), "remote insertion: keyed by the candidate's network type", p.Pos(n.Pos()), "remoteCandidates[cand.NetworkType()]", "the candidate is filed under a network type other than its own")
			}
		}
	}
	allowedCallers := map[string]bool{"Agent.AddRemoteCandidate$1$1": true, "Agent.resolveAndAddMulticastCandidate$1": true, "Agent.handleInboundRequest": true}
	for _, e := range p.Callers(arc) {
		r.Check(allowedCallers[e.Caller.Name], "caller of addRemoteCandidate: "+e.Caller.Name, p.Pos(e.Site.Pos()), "documented insertion path", "new insertion path for remote candidates")
	}
	if f := p.Fn("Agent.AddRemoteCandidate"); r.Anchor("Agent.AddRemoteCandidate", f != nil) {
		// the goroutines / resolver are started only after the TCP-active refusal
		n := 0
		walkBody(f, func(x ast.Node) bool {
			g, ok := x.(*ast.GoStmt)
			if !ok {
				return true
			}
			n++
			facts, _ := p.FactsAtCall(f, g)
			ok2 := facts.Has(func(ft Fact) bool {
				return ft.Op == "==" && !ft.Val && p.constName(ft.Y) == "TCPTypeActive"
			})
			r.Check(ok2, "AddRemoteCandidate: TCP-active candidates refused", p.Pos(g.Pos()), "dominated by TCPType() != active", "a TCP-active remote candidate can be inserted")
			return true
		})
		if n == 0 {
			r.Fail("AddRemoteCandidate: insertion paths", p.Pos(f.Body.Pos()), "no insertion path found")
		}
	}
	if f := p.Fn("Agent.shouldAcceptRemoteCandidate"); r.Anchor("Agent.shouldAcceptRemoteCandidate", f != nil) {
		t := p.NewTable(f)
		t.Run()
		for _, sp := range t.Semantic(func(a *TAtom) (string, bool) {
			switch a.Kind {
			case "enum":
				if p.IsField(a.X, "Agent.remoteIPFilter") {
					return "filter", false
				}
				if p.atomIsCall(f, a.X, "ice.parseAddr") {
					return "parse", false
				}
			case "bool":
				if c, ok := unparen(a.X).(*ast.CallExpr); ok && p.IsField(c.Fun, "Agent.remoteIPFilter") {
					return "keep", false
				}
			}
			return "", false
		}) {
			if len(sp.Unclassified) > 0 {
				r.Fail("shouldAcceptRemoteCandidate", sp.EndPos, "acceptance depends on "+stripVarLines(strings.Join(sp.Unclassified, ",")))
				continue
			}
			want := sp.Vals["filter"] == "==nil" || (sp.Vals["parse"] == "==nil" && sp.Vals["keep"] == "true")
			got := len(sp.Results) == 1 && sp.Results[0] == "true"
			r.Check(got == want, "shouldAcceptRemoteCandidate row "+rowKey(sp, "filter", "parse", "keep"), sp.EndPos, boolStr(want), "accepts="+boolStr(got)+", expected "+boolStr(want))
		}
	}

	// ---- R6.3 same network type ---------------------------------------------------------------
	r.Rule("R6.3", "Pairs are formed between candidates of the same network type: the candidate set paired against is indexed by the other candidate's NetworkType(), and a peer-reflexive candidate takes its transport from the local candidate it was seen on.", 3)
	checkPairedSet := func(f *Func, field string, cand types.Object, what string) {
		if f == nil {
			return
		}
		n := 0
		walkBody(f, func(x ast.Node) bool {
			ix, ok := x.(*ast.IndexExpr)
			if !ok || !p.IsField(ix.X, field) {
				return true
			}
			n++
			c, isCall := unparen(ix.Index).(*ast.CallExpr)
			r.Check(isCall && p.CalleeName(c) == "ice.Candidate.NetworkType" && p.mentionsObj(c, cand), what+": "+field+" indexed by the candidate's network type", p.Pos(ix.Pos()), "[cand.NetworkType()]", "candidates of another network type are paired with it")
			return true
		})
		if n == 0 {
			r.Fail(what+": "+field, p.Pos(f.Body.Pos()), "no lookup of the opposite candidate set by network type")
		}
	}
	checkPairedSet(arc, "Agent.localCandidates", candParam, "addRemoteCandidate")
	if ac := p.Fn("Agent.addCandidate$1"); r.Anchor("addCandidate task", ac != nil) {
		checkPairedSet(ac, "Agent.remoteCandidates", p.paramObj(ac.Parent, 1), "addCandidate")
	}
	if f := p.Fn("Agent.handleInboundRequest"); f != nil {
		ok := false
		for _, c := range p.CallsTo(f, false, "ice.determineNetworkType") {
			if len(c.Args) == 2 && p.mentionsObj(c.Args[0], p.paramObj(f, 1)) && strings.Contains(p.Canon(c.Args[0]), "NetworkType") {
				ok = true
			}
		}
		r.Check(ok, "peer-reflexive candidate takes the local candidate's transport", p.Pos(f.Body.Pos()), "determineNetworkType(local.NetworkType().NetworkShort(), ...)", "the prflx candidate's transport is not derived from the local candidate")
	}

	// ---- R6.4 supersession preserves identity ---------------------------------------------------
	r.Rule("R6.4", "replacePairRemote carries every field of CandidatePair over to the replacement (id, state, nomination flags, counters, timestamps) except the remote itself; replaceRemoteInPairs puts the replacement into the same checklist slot and index entry, keeps the old priority, retargets the nominated-pair holder and re-points the selection only if that pair was selected.", 4)
	if f := p.Fn("replacePairRemote"); r.Anchor("replacePairRemote", f != nil) {
		covered, st := p.replacePairCoverage(f)
		r.Except("R6.4: CandidatePair.priorityOverride / hasPriorityOverride are set by replaceRemoteInPairs through setPriorityOverride(old priority)")
		var missing []string
		for i := 0; st != nil && i < st.NumFields(); i++ {
			n := st.Field(i).Name()
			if n == "priorityOverride" || n == "hasPriorityOverride" {
				continue
			}
			if !covered[n] {
				missing = append(missing, n)
			}
		}
		sort.Strings(missing)
		r.Check(len(missing) == 0 && st != nil, "replacePairRemote copies every field", p.Pos(f.Body.Pos()), itoa(len(covered))+" fields carried over", "fields of CandidatePair not carried over to the replacement pair: "+strings.Join(missing, ", ")+" — the superseded pair loses that part of its identity")
	}
	if f := p.Fn("Agent.replaceRemoteInPairs"); f != nil {
		// every pair that references the superseded candidate is migrated: the loop over the checklist ends only by exhaustion
		n := 0
		walkBody(f, func(x ast.Node) bool {
			rs, ok := x.(*ast.RangeStmt)
			if !ok || !p.IsField(rs.X, "Agent.checklist") {
				return true
			}
			n++
			early := false
			ast.Inspect(rs.Body, func(y ast.Node) bool {
				switch z := y.(type) {
				case *ast.ReturnStmt:
					early = true
				case *ast.BranchStmt:
					if z.Tok == token.BREAK || z.Tok == token.GOTO {
						early = true
					}
				case *ast.FuncLit:
					return false
				}
				return true
			})
			r.Check(!early, "replaceRemoteInPairs migrates every affected pair", p.Pos(rs.Pos()), "the loop over the checklist has no early exit", "the migration stops after the first pair: a peer-reflexive remote is paired with every local candidate, so the other pairs keep a remote that is no longer current and a duplicate pair with a fresh ID is added for the same transport addresses")
			return true
		})
		if n == 0 {
			r.Fail("replaceRemoteInPairs migrates every affected pair", p.Pos(f.Body.Pos()), "no loop over the checklist")
		}
	}
	if f := p.Fn("Agent.replaceRemoteInPairs"); r.Anchor("Agent.replaceRemoteInPairs", f != nil) {
		has := map[string]bool{}
		// the replacement pair: the local that holds the result of replacePairRemote
		repl := p.localByDef(f, func(rhs ast.Expr) bool {
			c, ok := unparen(rhs).(*ast.CallExpr)
			return ok && p.CalleeName(c) == "ice.replacePairRemote"
		})
		isRepl := func(e ast.Expr) bool {
			if repl != nil && p.isObj(e, repl) {
				return true
			}
			c, ok := unparen(e).(*ast.CallExpr)
			return ok && p.CalleeName(c) == "ice.replacePairRemote"
		}
		var slot ast.Node
		walkBody(f, func(n ast.Node) bool {
			switch x := n.(type) {
			case *ast.AssignStmt:
				if len(x.Lhs) == 1 && len(x.Rhs) == 1 {
					if ix, ok := unparen(x.Lhs[0]).(*ast.IndexExpr); ok {
						switch {
						case p.IsField(ix.X, "Agent.checklist") && isRepl(x.Rhs[0]):
							has["slot"] = true
							slot = x
						case p.IsField(ix.X, "Agent.pairsByID") && p.IsField(ix.Index, "CandidatePair.id") && isRepl(x.Rhs[0]):
							has["index"] = true
						}
					}
				}
			case *ast.CallExpr:
				switch p.CalleeName(x) {
				case "ice.CandidatePair.setPriorityOverride":
					if c, _, ok := p.ResolveCall(f, x.Args[0]); ok && p.CalleeName(c) == "ice.CandidatePair.priority" {
						has["priority"] = true
					}
				case "ice.Agent.retargetKnownPairHolders":
					has["retarget"] = true
				}
			}
			return true
		})
		var missing []string
		for _, k := range []string{"slot", "index", "priority", "retarget"} {
			if !has[k] {
				missing = append(missing, k)
			}
		}
		// the rewrite applies to pairs whose remote is the superseded candidate
		guard := false
		if slot != nil {
			old := p.paramObj(f, 0)
			// the superseded candidate by role: an operand of this function (a parameter, or a field of a parameter
			// struct) that is not the candidate handed to replacePairRemote as the new remote
			newRemote := ""
			for _, rc := range p.CallsTo(f, false, "ice.replacePairRemote") {
				if len(rc.Args) == 2 {
					newRemote = p.Canon(rc.Args[1])
				}
			}
			isOld := func(e ast.Expr) bool {
				if e == nil {
					return false
				}
				if p.isObj(e, old) {
					return true
				}
				root := unparen(e)
				if sel, ok := root.(*ast.SelectorExpr); ok {
					root = unparen(sel.X)
				} else {
					return false
				}
				id, ok := root.(*ast.Ident)
				if !ok || newRemote == "" || p.Canon(e) == newRemote || typeStr(p.TypeOf(e)) != "ice.Candidate" {
					return false
				}
				for i := 0; ; i++ {
					o := p.paramObj(f, i)
					if o == nil {
						return false
					}
					if p.ObjOf(id) == o {
						return true
					}
				}
			}
			guard = factListHas(p.DominatingFactList(f, slot), func(ft Fact) bool {
				if ft.Op != "==" || !ft.Val {
					return false
				}
				return (p.IsField(ft.X, "CandidatePair.Remote") && isOld(ft.Y)) || (ft.Y != nil && p.IsField(ft.Y, "CandidatePair.Remote") && isOld(ft.X))
			})
		}
		r.Check(len(missing) == 0 && guard, "replaceRemoteInPairs keeps slot, id, priority and holders", p.Pos(f.Body.Pos()), "same slot, same index entry, old priority, holders retargeted", "missing: "+strings.Join(missing, ", ")+" guard on pair.Remote == old: "+boolStr(guard))
	}
	if f := p.Fn("Agent.retargetKnownPairHolders"); r.Anchor("Agent.retargetKnownPairHolders", f != nil) {
		n := len(p.StoresTo(f, "controllingSelector.nominatedPair"))
		r.Check(n >= 2, "retargetKnownPairHolders covers plain and lite controlling selectors", p.Pos(f.Body.Pos()), itoa(n)+" retarget sites", "the nominated-pair holder is not retargeted for both selector wrappers")
	}
	if f := p.Fn("Agent.replaceRedundantPeerReflexiveCandidates"); r.Anchor("Agent.replaceRedundantPeerReflexiveCandidates", f != nil) {
		ok := len(p.CallsTo(f, false, "ice.Agent.replaceRemoteInPairs")) == 1 && len(p.CallsTo(f, false, "ice.Agent.replaceRemoteInLocalCaches")) == 1 && len(p.CallsTo(f, false, "ice.copyCandidateActivity")) == 1
		r.Check(ok, "supersession updates pairs, caches and activity", p.Pos(f.Body.Pos()), "all three", "supersession no longer rewrites pairs / source caches / liveness of the superseded candidate")
	}

	// ---- R6.5 wipe completeness --------------------------------------------------------------------
	r.Rule("R6.5", "Restart and the Failed transition leave no pairs, candidates, selection or outstanding transactions behind: both reset checklist, pair index and pending transactions to fresh empty values, clear the selection and delete all candidates.", 14)
	checkRestartWipe(p, r)
	if ucs := p.Fn("Agent.updateConnectionState"); r.Anchor("Agent.updateConnectionState", ucs != nil) {
		checkFailedWipe(p, r, ucs)
	}
	if f := p.Fn("Agent.deleteAllCandidates"); r.Anchor("Agent.deleteAllCandidates", f != nil) {
		for _, fld := range []string{"Agent.localCandidates", "Agent.remoteCandidates"} {
			del := false
			for _, n := range p.StoresTo(f, fld) {
				if c, ok := n.(*ast.CallExpr); ok && p.CalleeName(c) == "builtin.delete" {
					del = true
				}
			}
			del = del || p.resetsOnAllPaths(f, Loc{p.CFG(f).Entry, 0}, fld, 1)
			r.Check(del, "deleteAllCandidates empties "+fld, p.Pos(f.Body.Pos()), "every key deleted", fld+" is not emptied")
		}
	}

	// ---- R6.6 selected is listed ----------------------------------------------------------------------
	r.Rule("R6.6", "Every non-nil pair handed to setSelectedPair comes from the checklist: a findPair/addPair result, or the replacement just stored into the checklist.", 5)
	ssp := p.Fn("Agent.setSelectedPair")
	for _, e := range p.Callers(ssp) {
		if len(e.Call.Args) != 1 || p.isNilExpr(e.Call.Args[0]) {
			continue
		}
		f := e.Caller
		arg := e.Call.Args[0]
		ok, how := p.pairIsListed(f, arg, 0)
		r.Check(ok, "selected pair is listed: "+f.Name, p.Pos(e.Site.Pos()), how, "the pair selected in "+f.Name+" does not provably come from the checklist ("+how+")")
	}

	// ---- R6.7 exhaustive clean-up / migration loops ----
	r.Rule("R6.7", "The loops that must treat every element of a collection do so: no early exit, and no path through an iteration that skips the operation (every local candidate's source cache follows a superseded remote).", 1)
	checkForAllLoops(p, r, "C06")

	// ---- R6.8 lookups and wipes stay within / cover the network type --------------------------------------
	r.Rule("R6.8", "findRemoteCandidate looks only in the remote-candidate set of the network type it was asked for (an inbound check is attributed to a remote candidate of the local candidate's own network type, or to none — never to one of another transport); deleteAllCandidates removes every network type's entry from both maps on every path through its loops, whatever closing the candidates returned.", 3)
	if f := p.Fn("Agent.findRemoteCandidate"); r.Anchor("Agent.findRemoteCandidate", f != nil) {
		nt := p.paramObj(f, 0)
		ok, n := true, 0
		why := ""
		walkBody(f, func(x ast.Node) bool {
			sel, isS := x.(*ast.SelectorExpr)
			if !isS || !p.IsField(sel, "Agent.remoteCandidates") {
				return true
			}
			n++
			return true
		})
		walkBody(f, func(x ast.Node) bool {
			switch y := x.(type) {
			case *ast.RangeStmt:
				if p.IsField(y.X, "Agent.remoteCandidates") {
					ok, why = false, "it ranges over the sets of all network types"
				}
			case *ast.IndexExpr:
				if p.IsField(y.X, "Agent.remoteCandidates") && !p.isObj(y.Index, nt) {
					ok, why = false, "it indexes the table with "+stripVarLines(p.Canon(y.Index))
				}
			}
			return true
		})
		r.Check(ok && n > 0, "findRemoteCandidate searches only the requested network type", p.Pos(f.Body.Pos()), "remoteCandidates[networkType]", why+": an inbound check over one transport is attributed to a remote candidate of another, and a pair of mismatched network types enters the checklist")
	}
	if f := p.Fn("Agent.deleteAllCandidates"); f != nil {
		for _, fld := range []string{"Agent.localCandidates", "Agent.remoteCandidates"} {
			fld := fld
			// either the map is emptied wholesale on every path ...
			if p.resetsOnAllPaths(f, Loc{p.CFG(f).Entry, 0}, fld, 1) {
				r.Trivial("deleteAllCandidates forgets every network type of "+fld, p.Pos(f.Body.Pos()), "the map is cleared / replaced on every path")
				continue
			}
			// ... or every iteration of the loop over it deletes its key
			found := false
			walkBody(f, func(x ast.Node) bool {
				rs, isR := x.(*ast.RangeStmt)
				if !isR || !p.IsField(rs.X, fld) {
					return true
				}
				found = true
				skips := p.iterationSkips(f, rs, func(nd ast.Node) bool {
					return p.nodeHasCall(nd, func(c *ast.CallExpr) bool {
						return p.CalleeName(c) == "builtin.delete" && len(c.Args) == 2 && p.IsField(c.Args[0], fld)
					})
				}, nil)
				r.Check(!skips, "deleteAllCandidates forgets every network type of "+fld, p.Pos(rs.Pos()), "delete(map, type) on every path through the loop body", "a path through the loop (e.g. after a close error) keeps the network type's candidates listed: Restart / Failed leave candidates of the previous generation behind and new remote candidates are paired with them")
				return true
			})
			if !found {
				r.Fail("deleteAllCandidates forgets every network type of "+fld, p.Pos(f.Body.Pos()), "the map is neither ranged over with a delete per key nor cleared on every path")
			}
		}
	}
	// ---- R6.10 one spelling per transport address -------------------------------------------------------------------
	r.Rule("R6.10", "The address string of a peer-reflexive remote candidate is the canonical (unmapped) form of the source address, canonicalAddr(...).String(): transport-address equality compares these strings, so an IPv4-mapped source must not be stored as '::ffff:a.b.c.d' next to the signalled 'a.b.c.d' (two candidates and two pairs for one transport address).", 1)
	if f := p.Fn("Agent.handleInboundRequest"); r.Anchor("Agent.handleInboundRequest", f != nil) {
		n, ok := 0, true
		var rec func(g *Func)
		rec = func(g *Func) {
			walkBody(g, func(x ast.Node) bool {
				var val ast.Expr
				switch y := x.(type) {
				case *ast.KeyValueExpr:
					if p.keyIsField(y.Key, "CandidatePeerReflexiveConfig.Address") {
						val = y.Value
					}
				case *ast.AssignStmt:
					for i, l := range y.Lhs {
						if p.IsField(l, "CandidatePeerReflexiveConfig.Address") && len(y.Lhs) == len(y.Rhs) {
							val = y.Rhs[i]
						}
					}
				}
				if val == nil {
					return true
				}
				n++
				canon := false
				for _, cn := range p.callsFeeding(g, val, 0, map[types.Object]bool{}) {
					if cn == "ice.canonicalAddr" {
						canon = true
					}
				}
				if !canon {
					ok = false
				}
				return true
			})
			for _, l := range g.Lits {
				rec(l)
			}
		}
		rec(f)
		r.Check(ok && n > 0, "peer-reflexive candidate address is canonical", p.Pos(f.Body.Pos()), "Address: canonicalAddr(remote.Addr()).String()", "the peer-reflexive candidate's address string is not derived from canonicalAddr: for an IPv4-in-IPv6 source it differs from the signalled candidate's spelling, the prflx candidate is not superseded and the transport-address pair is listed twice under two ids")
	}

	// ---- R6.12 a pair id always addresses the listed pair ----------------------------------------------------------
	r.Rule("R6.12", "WriteToPair resolves its pair id through the agent's pair index inside the task loop on every call and writes only to what it found there in state Succeeded (rule of C07 R7.1): no second index (a cache of the last pair, a copy held by the Conn) that Restart, the Failed wipe or a peer-reflexive supersession do not maintain can stand in for the listed pair.", 8)
	if cw, wtp := p.Fn("Conn.Write"), p.Fn("Conn.WriteToPair"); r.Anchor("Conn.Write", cw != nil) && r.Anchor("Conn.WriteToPair", wtp != nil) {
		checkWritePath(p, r, cw, wtp)
	}

	// ---- R6.11 a cancelled gather cycle contributes nothing ----------------------------------------------------------
	r.Rule("R6.11", "A task that a function submits to the loop on behalf of a gather cycle (the function has a context parameter other than the loop) and that writes agent state re-checks that context inside the task before it touches anything: taskloop.Run can accept the task after the cycle was cancelled by Restart (both cases of its select ready), so a check made before submitting does not keep a cancelled cycle's candidate or state out of the new generation.", 2)
	checkCycleTasksRecheck(p, r)

	// ---- R6.9 nothing is sent for a generation that was just wiped -----------------------------------------------
	r.Rule("R6.9", "In the check tick, a round that fails the agent (initial checking deadline) ends there: the selector is not asked to contact candidates after the Failed wipe in the same task, so no request of the wiped generation is recorded as outstanding (table shared with C04 R4.5).", 6)
	checkTickDiscipline(p, r)
}

// pairIsListed: e derives from findPair/addPair, a checklist element, the
// identity-preserving replacement stored in the checklist, or a parameter
// whose every call-site argument does.
func (p *Prog) pairIsListed(f *Func, e ast.Expr, depth int) (bool, string) {
	id, ok := unparen(e).(*ast.Ident)
	if !ok {
		return false, "not a variable"
	}
	o := p.ObjOf(id)
	// parameter?
	for fn := f; fn != nil; fn = fn.Parent {
		if fn.Type == nil || fn.Type.Params == nil {
			continue
		}
		idx := 0
		for _, fl := range fn.Type.Params.List {
			for _, n := range fl.Names {
				if p.ObjOf(n) == o {
					if depth > 2 {
						return false, "parameter chain too deep"
					}
					all := true
					cnt := 0
					// a parameter that is re-assigned inside the function must also
					// be re-assigned from listed pairs only
					for _, d := range p.DefsOf(fn, o) {
						c, isCall := unparen(d.Rhs).(*ast.CallExpr)
						if d.Rhs == nil || !isCall || (p.CalleeName(c) != "ice.Agent.findPair" && p.CalleeName(c) != "ice.Agent.addPair") {
							return false, "parameter re-assigned from something that is not a checklist lookup"
						}
					}
					for _, ce := range p.Callers(fn) {
						if ce.Call == nil || len(ce.Call.Args) <= idx {
							continue
						}
						cnt++
						if ok, _ := p.pairIsListed(ce.Caller, ce.Call.Args[idx], depth+1); !ok {
							all = false
						}
					}
					return all && cnt > 0, "parameter: every call site passes a listed pair"
				}
				idx++
			}
		}
	}
	n := 0
	for _, d := range p.DefsOf(f, o) {
		if d.Rhs == nil {
			if _, isRange := d.Node.(*ast.RangeStmt); isRange {
				rs := d.Node.(*ast.RangeStmt)
				if p.IsField(rs.X, "Agent.checklist") {
					n++
					continue
				}
			}
			if d.Zero {
				continue
			}
			return false, "definition without a value"
		}
		n++
		c, isCall := unparen(d.Rhs).(*ast.CallExpr)
		if !isCall {
			return false, "assigned from " + stripVarLines(p.Canon(d.Rhs))
		}
		switch p.CalleeName(c) {
		case "ice.Agent.findPair", "ice.Agent.addPair":
		case "ice.replacePairRemote":
			stored := false
			walkBody(f, func(x ast.Node) bool {
				if as, ok := x.(*ast.AssignStmt); ok && len(as.Lhs) == 1 {
					if ix, ok := unparen(as.Lhs[0]).(*ast.IndexExpr); ok && p.IsField(ix.X, "Agent.checklist") && identName(as.Rhs[0]) == id.Name {
						stored = true
					}
				}
				return true
			})
			if !stored {
				return false, "replacement not stored into the checklist"
			}
		default:
			return false, "assigned from " + p.CalleeName(c)
		}
	}
	return n > 0, "findPair / addPair / checklist element"
}

// replacePairCoverage: the fields of CandidatePair that replacePairRemote
// carries over from the same field of the superseded pair (shared by C06 R6.4
// and C07 R7.4).
func (p *Prog) replacePairCoverage(f *Func) (map[string]bool, *types.Struct) {
	_, st := p.StructType("CandidatePair")
	covered := map[string]bool{}
	walkBody(f, func(n ast.Node) bool {
		switch x := n.(type) {
		case *ast.AssignStmt:
			for i, l := range x.Lhs {
				if fv := p.FieldOf(l); fv != nil && i < len(x.Rhs) {
					if rf := p.FieldOf(x.Rhs[i]); rf == fv {
						covered[fv.Name()] = true
					}
				}
			}
		case *ast.CallExpr:
			// atomic.StoreX(&replacement.f, atomic.LoadX(&pair.f)) / replacement.f.Store(pair.f.Load()) / copyAtomicValue(&replacement.f, &pair.f)
			var fs []*types.Var
			ast.Inspect(x, func(y ast.Node) bool {
				if sel, ok := y.(*ast.SelectorExpr); ok {
					if fv := p.FieldOf(sel); fv != nil && p.FieldName(fv) == "CandidatePair."+fv.Name() {
						fs = append(fs, fv)
					}
				}
				return true
			})
			if len(fs) == 2 && fs[0] == fs[1] {
				covered[fs[0].Name()] = true
			}
			// the same through a named value: v := pair.f.Load(); [if v != nil] replacement.f.Store(v)
			if len(fs) == 1 && len(x.Args) >= 1 {
				if id, ok := unparen(x.Args[len(x.Args)-1]).(*ast.Ident); ok {
					if v, isVar := p.ObjOf(id).(*types.Var); isVar && !v.IsField() {
						if d, okD := p.SingleDef(f, v); okD && d.Rhs != nil && d.Index == 0 {
							if dc, isC := unparen(d.Rhs).(*ast.CallExpr); isC {
								var src []*types.Var
								ast.Inspect(dc, func(y ast.Node) bool {
									if sel, ok := y.(*ast.SelectorExpr); ok {
										if fv := p.FieldOf(sel); fv != nil && p.FieldName(fv) == "CandidatePair."+fv.Name() {
											src = append(src, fv)
										}
									}
									return true
								})
								if len(src) == 1 && src[0] == fs[0] {
									covered[fs[0].Name()] = true
								}
							}
						}
					}
				}
			}
			if p.CalleeName(x) == "ice.newCandidatePair" && len(x.Args) == 3 {
				if p.IsField(x.Args[0], "CandidatePair.Local") {
					covered["Local"] = true
				}
				if p.IsField(x.Args[2], "CandidatePair.iceRoleControlling") {
					covered["iceRoleControlling"] = true
				}
				covered["Remote"] = true // replaced on purpose
			}
		}
		return true
	})
	return covered, st
}

// checkFailedWipe: everything the Failed transition must forget is forgotten on
// every path of the Failed branch, directly or through a helper (shared by C06 R6.5 and C01 R1.11).
func checkFailedWipe(p *Prog, r *Report, ucs *Func) {
	starts := p.branchStarts(ucs, func(ft Fact) bool {
		return ft.Op == "==" && ft.Val && p.constName(ft.Y) == "ConnectionStateFailed"
	})
	if len(starts) == 0 {
		r.Fail("Failed branch of updateConnectionState", p.Pos(ucs.Body.Pos()), "no branch taken on newState == ConnectionStateFailed found")
		return
	}
	for _, fld := range []string{"Agent.checklist", "Agent.pairsByID", "Agent.pendingBindingRequests"} {
		ok := true
		for _, b := range starts {
			ok = ok && p.resetsOnAllPaths(ucs, Loc{b, 0}, fld, 2)
		}
		r.Check(ok, "Failed resets "+fld, p.Pos(ucs.Body.Pos()), "fresh empty value on every path of the Failed branch", fld+" is not reset when the agent fails: residue of the failed generation stays reachable")
	}
	for _, need := range []string{"ice.Agent.deleteAllCandidates", "ice.Agent.removeUfragFromMux", "ice.Agent.setSelectedPair"} {
		need := need
		ok := true
		for _, b := range starts {
			ok = ok && p.callOnAllPaths(ucs, Loc{b, 0}, func(c *ast.CallExpr) bool {
				if p.CalleeName(c) != need {
					return false
				}
				return need != "ice.Agent.setSelectedPair" || (len(c.Args) == 1 && p.isNilExpr(c.Args[0]))
			}, 2)
		}
		r.Check(ok, "Failed calls "+strings.TrimPrefix(need, "ice.Agent."), p.Pos(ucs.Body.Pos()), "on every path of the Failed branch", "a path of the Failed transition does not call "+need)
	}
}

// generationScoped: the state a gather cycle contributes to and Restart resets.
var generationScoped = map[string]bool{
	"Agent.localCandidates": true, "Agent.remoteCandidates": true, "Agent.checklist": true, "Agent.pairsByID": true,
	"Agent.pendingBindingRequests": true, "Agent.gatheringState": true, "Agent.selectedPair": true,
	"handlerNotifier.candidates": true,
}

// checkCycleTasksRecheck (R6.11).
func checkCycleTasksRecheck(p *Prog, r *Report) {
	n := 0
	for _, f := range p.AllFuncs {
		if f.Pkg != p.Ice || f.Body == nil || f.Decl == nil || f.Type.Params == nil {
			continue
		}
		// the cycle context: a context.Context parameter, or a context.Context field of a parameter struct
		params := map[types.Object]bool{}
		hasCtx := false
		for _, fl := range f.Type.Params.List {
			t := p.TypeOf(fl.Type)
			isCtx := typeStr(t) == "context.Context"
			if !isCtx && t != nil {
				if st, ok := Deref0(t).Underlying().(*types.Struct); ok {
					for i := 0; i < st.NumFields(); i++ {
						if typeStr(st.Field(i).Type()) == "context.Context" {
							isCtx = true
						}
					}
				}
			}
			if !isCtx {
				continue
			}
			for _, nm := range fl.Names {
				if nm.Name != "_" {
					params[p.ObjOf(nm)] = true
					hasCtx = true
				}
			}
		}
		if !hasCtx {
			continue
		}
		isCycleCtx := func(e ast.Expr) bool {
			e = unparen(e)
			if typeStr(p.TypeOf(e)) != "context.Context" {
				return false
			}
			if sel, ok := e.(*ast.SelectorExpr); ok {
				e = unparen(sel.X)
			}
			id, ok := e.(*ast.Ident)
			return ok && params[p.ObjOf(id)]
		}
		for _, c := range p.CallsTo(f, false, "taskloop.Loop.Run") {
			if len(c.Args) != 2 {
				continue
			}
			sel, ok := unparen(c.Fun).(*ast.SelectorExpr)
			if !ok || !p.IsField(sel.X, "Agent.loop") {
				continue
			}
			lit, ok := unparen(c.Args[1]).(*ast.FuncLit)
			if !ok {
				continue
			}
			task := p.ByLit[lit]
			if task == nil {
				continue
			}
			// only tasks that write the state of the generation
			writes := false
			for fv := range p.Effects(task).WritesT {
				if generationScoped[p.FieldName(fv)] {
					writes = true
				}
			}
			if !writes {
				continue
			}
			n++
			g := p.CFG(task)
			isRecheckNode := func(nd ast.Node) bool {
				found := false
				for _, cc := range p.NodeCalls(nd) {
					if p.CalleeName(cc) == "context.Context.Err" {
						if s2, ok := unparen(cc.Fun).(*ast.SelectorExpr); ok && isCycleCtx(s2.X) {
							found = true
						}
					}
				}
				return found
			}
			// every node of the task that does anything else is reached only over the edge "ctx.Err() == nil"
			bad := ""
			for _, b := range g.Blocks {
				for _, nd := range b.Nodes {
					if isRecheckNode(nd) || bad != "" {
						continue
					}
					// only what changes the state of the generation (directly, or through a callee) needs the
					// re-check: the tables Restart wipes, the gathering state, and the candidate event stream
					writesAgent := false
					for _, cc := range p.NodeCalls(nd) {
						for fv := range p.CallWrites(task, cc) {
							if generationScoped[p.FieldName(fv)] {
								writesAgent = true
							}
						}
					}
					if as, isAs := nd.(*ast.AssignStmt); isAs {
						for _, l := range as.Lhs {
							for _, fv := range p.lhsFields(l) {
								if generationScoped[p.FieldName(fv)] {
									writesAgent = true
								}
							}
						}
					}
					if !writesAgent {
						continue
					}
					ok := factListHas(p.DominatingFactList(task, nd), func(ft Fact) bool {
						if ft.Op != "==" || !ft.Val || !p.isNilExpr(ft.Y) {
							return false
						}
						cc, _, okC := p.ResolveCall(task, ft.X)
						if !okC || p.CalleeName(cc) != "context.Context.Err" {
							return false
						}
						s2, okS := unparen(cc.Fun).(*ast.SelectorExpr)
						return okS && isCycleCtx(s2.X)
					})
					if !ok {
						bad = p.Pos(nd.Pos())
					}
				}
			}
			r.Check(bad == "", "cycle task of "+f.Name+" re-checks its cycle inside the task", p.Pos(c.Pos()), "every change of agent state in the task is dominated by ctx.Err() == nil, tested inside the task", "the statement at "+bad+" runs without the task having re-checked the cycle's context: a cycle cancelled by Restart between the caller's check and the loop accepting the task still changes the new generation")
		}
	}
	if n < 2 {
		r.Fail("cycle tasks", "agent.go", "fewer than 2 loop tasks submitted on behalf of a gather cycle found (rule instance lost)")
	}
}
