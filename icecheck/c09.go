package main

import (
	"fmt"
	"go/ast"
	"go/types"
	"sort"
	"strings"
)

func init() { register("C09", checkC09) }

// c09Assumptions: exits that reading shows unreachable for a live resource
// through the public API. Each is applied at its source (the summary of the
// named function) and must be used at least once, otherwise it is stale.
// Exits are named by RoleCanon: locals appear as what they are (receiver,
// parameter position, "callee#result"), so renaming them or naming the
// condition first does not make an assumption stale.
func c09Assumptions(o *Own) {
	o.Assume["candidateBase.start: return under [(recv.conn != nil)]"] = "start is only called on freshly constructed candidates (R9.6 decides this: every caller passes the result of a NewCandidate* call made in the same function), whose conn is nil"
	o.Assume["Agent.addRelayCandidates: return under [!ice.Agent.resolveRelayAddresses#1]"] = "resolveRelayAddresses fails only if the relay's own local address does not parse or a replace-mode rule matched with an empty mapping; rule mappings are validated non-empty per family at construction and IPv6 TURN is skipped"
	o.Assume["Agent.addRelayCandidates: return under [((param1.conn == nil) || (param1.address == nil))]"] = "ep.conn is the allocation just returned with a nil error and ep.address its LocalAddr IP"
	o.Assume["Agent.createRelayCandidate: return under [(ice.NewCandidateRelay#1 != nil)]|nClose"] = "NewCandidateRelay fails only on an unparsable address; the address is net.IP.String() of the relayed or mapped address and the network is the constant udp"
}

// c09Scope: the functions whose acquisitions belong to gathering — everything
// reachable (calls, goroutines, function values) from the gathering pass and
// from the active-TCP admission, as far as it is agent code (methods of Agent,
// package-level functions, the active-TCP connection and their literals), plus
// the multi-mux fan-out that collects one connection per mux. The muxes' own
// internals are C12/C13/C15 territory.
func c09Scope(p *Prog) []*Func {
	var roots []*Func
	for _, n := range []string{"Agent.gatherCandidatesInternal", "Agent.addRemotePassiveTCPCandidate"} {
		if f := p.Fn(n); f != nil {
			roots = append(roots, f)
		}
	}
	reach := p.CG().Reachable(roots, func(e *CallEdge) bool { return true })
	in := map[*Func]bool{}
	for _, r := range roots {
		in[r] = true
	}
	for f := range reach {
		in[f] = true
	}
	if f := p.Fn("MultiTCPMuxDefault.GetAllConns"); f != nil {
		in[f] = true
	}
	agentCode := func(f *Func) bool {
		root := f.Root()
		if root.Pkg != p.Ice || root.Decl == nil {
			return false
		}
		if root.Name == "MultiTCPMuxDefault.GetAllConns" {
			return true
		}
		if root.Decl.Recv == nil {
			return true
		}
		switch recvTypeName(root.Decl.Recv.List[0].Type) {
		case "Agent", "activeTCPConn":
			return true
		}
		return false
	}
	var fs []*Func
	for _, f := range p.AllFuncs {
		if f.Body != nil && (in[f] || in[f.Root()]) && agentCode(f) {
			fs = append(fs, f)
		}
	}
	return fs
}

func outcomeKinds(outs []*ownOutcome) string {
	m := map[string]bool{}
	for _, x := range outs {
		s := x.Kind
		if x.Kind == "handed" || x.Kind == "released" {
			s += " (" + x.Why + ")"
		}
		m[s] = true
	}
	var ks []string
	for k := range m {
		ks = append(ks, k)
	}
	sort.Strings(ks)
	return strings.Join(ks, "; ")
}

func checkC09(p *Prog, r *Report) {
	o := p.NewOwn()
	c09Assumptions(o)

	// ---- R9.1 release or hand over on every path -------------------------------------------
	r.Rule("R9.1", "Every socket, mux connection reference, TURN client and relay allocation acquired in the gathering code is, on every path from its acquisition, closed (directly, through closeConnAndLog, a release closure or a deferred call), handed over (stored in a started candidate, moved into a container that a later loop consumes completely, captured by the candidate's onClose), or returned to a caller that is itself checked; a path that leaves the function — or overwrites the last reference — while the obligation is open is a leak. Calls into pion/ice functions are replaced by their computed ownership summaries (e.g. addCandidate takes the connection iff it returns nil).", 17)
	roots := o.Roots(c09Scope(p), nil)
	for _, rt := range roots {
		o.Run(rt)
		leaks := 0
		consumed := false
		for _, x := range rt.Outs {
			switch x.Kind {
			case "owned":
				leaks++
				r.Fail(rt.Desc()+" leaks at "+x.Why, x.Pos, "the resource acquired at "+p.Pos(rt.Node.Pos())+" is neither closed nor handed over on this path: the socket stays open after the candidate (or the gathering cycle) is gone")
			case "released", "handed", "returned":
				consumed = true
			}
		}
		if leaks == 0 {
			if !consumed {
				r.Unknown(rt.Desc(), p.Pos(rt.Node.Pos()), "no path consumes the resource")
				continue
			}
			r.OK(rt.Desc(), p.Pos(rt.Node.Pos()), outcomeKinds(rt.Outs))
		}
	}

	// ---- R9.2 ownership contracts of the hand-over functions ----------------------------------------
	r.Rule("R9.2", "The functions the gatherers hand a connection to have the contract the call sites rely on: addCandidate consumes the connection (closes it for a duplicate, stores it in the started candidate otherwise) exactly when it returns nil and leaves it untouched when it returns an error; closeConnAndLog always closes a non-nil connection; candidateBase.start always stores it; createRelayCandidate behaves like addCandidate; addRelayCandidates consumes the allocation and the onClose obligations on every path.", 6)
	contract := func(fn string, binds func(g *Func) []ownBind, allowOwnedOnErr bool, what string) {
		g := p.Fn(fn)
		if !r.Anchor(fn, g != nil) {
			return
		}
		outs := o.summary(g, binds(g))
		ok := len(outs) > 0
		var bad []string
		sawConsume := false
		for _, x := range outs {
			switch x.Kind {
			case "released", "handed":
				sawConsume = true
				if allowOwnedOnErr && x.Err == "nonnil" {
					bad = append(bad, "consumed although an error is returned ("+x.Why+")")
				}
			case "owned":
				if !(allowOwnedOnErr && x.Err == "nonnil") {
					bad = append(bad, "left open with result "+x.Err+" at "+x.Why)
				}
			case "returned":
				bad = append(bad, "returned")
			}
		}
		if !sawConsume {
			bad = append(bad, "never consumed")
		}
		ok = ok && len(bad) == 0
		r.Check(ok, "contract of "+fn+" for "+what, p.Pos(g.Body.Pos()), outcomeKinds(outs), strings.Join(bad, "; ")+": the call sites release the connection exactly when this function reports an error")
	}
	param := func(idx int, path string, kind byte) func(g *Func) []ownBind {
		return func(g *Func) []ownBind {
			k, _ := o.paramKey(g, idx)
			return []ownBind{{k + path, kind}}
		}
	}
	contract("Agent.addCandidate", param(2, "", 'v'), true, "candidateConn")
	contract("closeConnAndLog", param(0, "", 'v'), false, "c")
	contract("candidateBase.start", param(1, "", 'v'), false, "conn")
	contract("Agent.createRelayCandidate", param(1, ".conn", 'v'), true, "ep.conn")
	contract("Agent.addRelayCandidates", func(g *Func) []ownBind {
		k, _ := o.paramKey(g, 1)
		return []ownBind{{k + ".conn", 'v'}, {k + ".closeConn", 'f'}}
	}, false, "ep.conn / ep.closeConn")
	contract("Agent.addRelayCandidates", param(1, ".onClose", 'f'), false, "ep.onClose")

	// ---- R9.3 removal closes ------------------------------------------------------------------------
	r.Rule("R9.3", "Candidate removal closes what the candidate owns: deleteAllCandidates calls close() on every element of both candidate maps; it runs at exactly the three wipe sites (Restart, entering Failed, the loop's close hook); candidateBase.close reaches abortIO, whose once-body closes the candidate's conn on every path; CandidateRelay.close additionally invokes onClose (TURN client and its local socket) on every path and clears it; no other type overrides close.", 9)
	if f := p.Fn("Agent.deleteAllCandidates"); r.Anchor("Agent.deleteAllCandidates", f != nil) {
		g := p.CFG(f)
		seen := map[string]bool{}
		walkBody(f, func(n ast.Node) bool {
			outer, ok := n.(*ast.RangeStmt)
			if !ok {
				return true
			}
			fld := ""
			for _, name := range []string{"Agent.localCandidates", "Agent.remoteCandidates"} {
				if p.IsField(outer.X, name) {
					fld = name
				}
			}
			if fld == "" {
				return true
			}
			// inner loop over the map's value, closing each element unconditionally
			okInner := false
			ast.Inspect(outer.Body, func(m ast.Node) bool {
				inner, ok := m.(*ast.RangeStmt)
				if !ok || inner.Value == nil || outer.Value == nil {
					return true
				}
				xv, ok1 := unparen(inner.X).(*ast.Ident)
				ov, ok2 := outer.Value.(*ast.Ident)
				ev, ok3 := inner.Value.(*ast.Ident)
				if !ok1 || !ok2 || !ok3 || p.ObjOf(xv) != p.ObjOf(ov) {
					return true
				}
				// every path through the body passes close() on the element
				var ra ast.Node
				for _, b := range g.Blocks {
					for _, nd := range b.Nodes {
						if x, ok := nd.(*RangeAssign); ok && x.Stmt == inner {
							ra = x
						}
					}
				}
				if ra == nil {
					return true
				}
				loc, _ := g.Locate(ra)
				isClose := func(nd ast.Node) bool {
					return p.nodeHasCall(nd, func(c *ast.CallExpr) bool {
						if p.CalleeName(c) != "ice.Candidate.close" {
							return false
						}
						sel, ok := unparen(c.Fun).(*ast.SelectorExpr)
						if !ok {
							return false
						}
						id, ok := unparen(sel.X).(*ast.Ident)
						return ok && p.ObjOf(id) == p.ObjOf(ev)
					})
				}
				head := loc.B.Preds[0].From
				_, escapes := g.PathAvoiding(Loc{loc.B, loc.I + 1}, isClose, func(b *Block) bool { return b == head || b == g.Exit }, nil)
				if !escapes {
					okInner = true
				}
				return true
			})
			seen[fld] = okInner
			r.Check(okInner, "deleteAllCandidates closes every element of "+fld, p.Pos(outer.Pos()), "close() on each element on every path through the loop body", "some candidate of "+fld+" is removed without close(): its socket stays open")
			return true
		})
		for _, name := range []string{"Agent.localCandidates", "Agent.remoteCandidates"} {
			if _, ok := seen[name]; !ok {
				r.Fail("deleteAllCandidates closes every element of "+name, p.Pos(f.Body.Pos()), "the map is not ranged over")
			}
		}
		// the three wipe sites
		want := map[string]bool{"Agent.Restart$1": false, "Agent.updateConnectionState": false}
		hook := false
		for _, e := range p.Callers(f) {
			name := e.Caller.Name
			switch {
			case name == "Agent.Restart$1":
				want[name] = true
				r.OK("wipe site "+name, p.Pos(e.Site.Pos()), "Restart task")
			case name == "Agent.updateConnectionState":
				want[name] = true
				facts, _ := p.FactsAtCall(e.Caller, e.Site)
				failed := facts.Has(func(ft Fact) bool { return ft.Op == "==" && ft.Val && p.constName(ft.Y) == "ConnectionStateFailed" })
				r.Check(failed, "wipe site "+name, p.Pos(e.Site.Pos()), "on entering Failed", "deleteAllCandidates in updateConnectionState is no longer tied to entering Failed")
			case p.isLoopCloseHook(e.Caller):
				hook = true
				r.OK("wipe site "+name+" (loop close hook)", p.Pos(e.Site.Pos()), "taskloop.New(onClose)")
			default:
				r.Fail("wipe site "+name, p.Pos(e.Site.Pos()), "deleteAllCandidates is called from an unexpected place")
			}
		}
		for k, v := range want {
			if !v {
				r.Fail("wipe site "+k, p.Pos(f.Body.Pos()), k+" no longer deletes the candidates")
			}
		}
		if !hook {
			r.Fail("wipe site loop close hook", p.Pos(f.Body.Pos()), "the task loop's close hook no longer deletes the candidates: Close leaves every socket open")
		}
	}
	if f := p.Fn("candidateBase.close"); r.Anchor("candidateBase.close", f != nil) {
		cs := p.CallsTo(f, false, "ice.candidateBase.abortIO")
		ok := len(cs) == 1
		if ok {
			// only the never-started test may skip it
			loc, _ := p.CFG(f).Locate(cs[0])
			for _, e := range p.CFG(f).DominatingEdges(loc) {
				for _, ft := range p.FactsOfCond(e.Cond, e.Val) {
					c, isCall := unparen(ft.X).(*ast.CallExpr)
					if !(ft.Op == "==" && !ft.Val && p.isNilExpr(ft.Y) && isCall && p.CalleeName(c) == "ice.candidateBase.Done") {
						ok = false
					}
				}
			}
		}
		r.Check(ok, "candidateBase.close reaches abortIO", p.Pos(f.Body.Pos()), "abortIO unless never started", "close does not (always) abort and close the candidate's connection")
	}
	if f := p.Fn("candidateBase.abortIO"); r.Anchor("candidateBase.abortIO", f != nil) {
		var lit *Func
		for _, l := range f.Lits {
			lit = l
		}
		ok := false
		inOnce := false
		walkBody(f, func(n ast.Node) bool {
			if c, isC := n.(*ast.CallExpr); isC && p.isMethodOnField(c, "candidateBase.closeOnce", "Do") {
				inOnce = true
			}
			return true
		})
		if lit != nil {
			g := p.CFG(lit)
			isClose := func(nd ast.Node) bool {
				return p.nodeHasCall(nd, func(c *ast.CallExpr) bool {
					if p.CalleeName(c) != "net.PacketConn.Close" {
						return false
					}
					sel, ok := unparen(c.Fun).(*ast.SelectorExpr)
					return ok && p.IsField(sel.X, "candidateBase.conn")
				})
			}
			_, escapes := g.PathAvoiding(Loc{g.Entry, 0}, isClose, func(b *Block) bool { return b == g.Exit }, nil)
			ok = !escapes
		}
		r.Check(ok && inOnce, "abortIO closes the candidate's conn on every path, once", p.Pos(f.Body.Pos()), "c.conn.Close() inside closeOnce on every path", "a path through abortIO's once-body does not close c.conn (or the close is no longer once-guarded)")
	}
	checkRelayCloseHook(p, r)
	if f := p.Fn("CandidateRelay.close"); f != nil {
		base := len(p.CallsTo(f, false, "ice.candidateBase.close")) == 1
		r.Check(base, "CandidateRelay.close closes the base candidate", p.Pos(f.Body.Pos()), "candidateBase.close()", "the relayed connection is not closed")
		cleared := false
		for _, st := range p.StoresTo(f, "CandidateRelay.onClose") {
			if as, ok := st.(*ast.AssignStmt); ok && len(as.Rhs) == 1 && p.isNilExpr(as.Rhs[0]) {
				cleared = true
			}
		}
		r.Check(cleared, "CandidateRelay.close clears onClose", p.Pos(f.Body.Pos()), "onClose = nil after the call", "onClose can run twice")
	}
	// who overrides close
	for _, f := range p.AllFuncs {
		if f.Decl == nil || f.Decl.Recv == nil || f.Decl.Name.Name != "close" || f.Pkg != p.Ice {
			continue
		}
		rv := f.Obj.Type().(*types.Signature).Recv()
		cand, _ := p.Ice.Types.Scope().Lookup("Candidate").(*types.TypeName)
		if cand == nil {
			continue
		}
		if iface, _ := cand.Type().Underlying().(*types.Interface); iface == nil || !types.Implements(rv.Type(), iface) {
			if f.Name != "candidateBase.close" {
				continue
			}
		}
		ok := f.Name == "candidateBase.close" || f.Name == "CandidateRelay.close"
		r.Check(ok, "close implementation "+f.Name, p.Pos(f.Body.Pos()), "known implementation", "a new close() override is not covered by the removal rules")
	}

	// ---- R9.4 mux references ---------------------------------------------------------------------------
	r.Rule("R9.4", "removeUfragFromMux unregisters the agent's ufrag from every mux field of Agent (each guarded only by its nil test, keyed by the current local ufrag) and runs at all three wipe sites before the candidates are deleted — in Restart before the ufrag is replaced.", 7)
	if f := p.Fn("Agent.removeUfragFromMux"); r.Anchor("Agent.removeUfragFromMux", f != nil) {
		_, ast_ := p.StructType("Agent")
		handled := map[string]bool{}
		for _, c := range p.CallsIn(f, false, func(string, *ast.CallExpr) bool { return true }) {
			sel, ok := unparen(c.Fun).(*ast.SelectorExpr)
			if !ok || sel.Sel.Name != "RemoveConnByUfrag" {
				continue
			}
			fv := p.FieldOf(sel.X)
			if fv == nil {
				continue
			}
			okArg := len(c.Args) == 1 && p.IsField(c.Args[0], "Agent.localUfrag")
			loc, _ := p.CFG(f).Locate(c)
			okGuard := true
			for _, e := range p.CFG(f).DominatingEdges(loc) {
				for _, ft := range p.FactsOfCond(e.Cond, e.Val) {
					if !(ft.Op == "==" && !ft.Val && p.isNilExpr(ft.Y) && p.FieldOf(ft.X) == fv) {
						okGuard = false
					}
				}
			}
			handled[fv.Name()] = true
			r.Check(okArg && okGuard, "removeUfragFromMux handles Agent."+fv.Name(), p.Pos(c.Pos()), "RemoveConnByUfrag(a.localUfrag) unless nil", fmt.Sprintf("argument is the local ufrag=%v, guarded only by the nil test=%v", okArg, okGuard))
		}
		if ast_ != nil {
			for i := 0; i < ast_.NumFields(); i++ {
				fld := ast_.Field(i)
				obj, _, _ := types.LookupFieldOrMethod(fld.Type(), true, p.Ice.Types, "RemoveConnByUfrag")
				if _, isFn := obj.(*types.Func); isFn && !handled[fld.Name()] {
					r.Fail("removeUfragFromMux handles Agent."+fld.Name(), p.Pos(f.Body.Pos()), "mux field Agent."+fld.Name()+" is not unregistered: its per-ufrag connection outlives the generation")
				}
			}
		}
		da := p.Fn("Agent.deleteAllCandidates")
		for _, e := range p.Callers(da) {
			pre := p.MustPrecede(e.Caller, e.Site, func(n ast.Node) bool {
				return p.nodeHasCall(n, func(c *ast.CallExpr) bool { return p.CalleeName(c) == "ice.Agent.removeUfragFromMux" })
			})
			r.Check(pre, "mux references dropped before deleting candidates in "+e.Caller.Name, p.Pos(e.Site.Pos()), "removeUfragFromMux() precedes", "the wipe site deletes the candidates without unregistering the ufrag from the muxes")
		}
		if rs := p.Fn("Agent.Restart$1"); rs != nil {
			for _, st := range p.StoresTo(rs, "Agent.localUfrag") {
				pre := p.MustPrecede(rs, st, func(n ast.Node) bool {
					return p.nodeHasCall(n, func(c *ast.CallExpr) bool { return p.CalleeName(c) == "ice.Agent.removeUfragFromMux" })
				})
				r.Check(pre, "Restart unregisters the old ufrag before replacing it", p.Pos(st.Pos()), "removeUfragFromMux() before localUfrag = ufrag", "the muxes are asked to remove the new ufrag: the old generation's mux connections stay registered")
			}
		}
	}

	// ---- R9.5 cycle wind-down before the wipe ------------------------------------------------------------
	r.Rule("R9.5", "The close hook cancels the gathering cycle and waits for it to end before deleting the candidates; Restart cancels it before deleting them (a gatherer that finishes later hands its socket to addCandidate, which refuses it on the cancelled context — R9.2 — so the gatherer closes it).", 2)
	for _, e := range p.Callers(p.Fn("Agent.deleteAllCandidates")) {
		if e.Caller.Name == "Agent.updateConnectionState" {
			continue
		}
		cancel := p.MustPrecede(e.Caller, e.Site, func(n ast.Node) bool {
			return p.nodeHasCall(n, func(c *ast.CallExpr) bool { return p.IsField(c.Fun, "Agent.gatherCandidateCancel") })
		})
		r.Check(cancel, "gathering cancelled before the wipe in "+e.Caller.Name, p.Pos(e.Site.Pos()), "gatherCandidateCancel() precedes", "candidates are deleted while the gathering cycle keeps running: sockets it adds afterwards are never closed")
		if p.isLoopCloseHook(e.Caller) {
			wait := p.MustPrecede(e.Caller, e.Site, func(n ast.Node) bool {
				found := false
				ast.Inspect(n, func(x ast.Node) bool {
					if u, ok := x.(*ast.UnaryExpr); ok && u.Op.String() == "<-" && p.IsField(u.X, "Agent.gatherCandidateDone") {
						found = true
					}
					return true
				})
				return found
			}) || p.waitsUnlessNil(e.Caller, e.Site)
			r.Check(wait, "close hook waits for the gathering cycle", p.Pos(e.Site.Pos()), "<-gatherCandidateDone (unless nil) precedes", "Close deletes the candidates before the gatherers have ended")
		}
	}

	// ---- R9.6 start only on fresh candidates -----------------------------------------------------------------
	r.Rule("R9.6", "Candidate.start is called only from addCandidate's task and addRemotePassiveTCPCandidate, and every candidate that reaches them is the result of a NewCandidate* constructor call in the calling function (so its conn is nil and start cannot refuse the connection).", 8)
	for _, f := range p.AllFuncs {
		for _, c := range p.CallsTo(f, false, "ice.Candidate.start", "ice.candidateBase.start") {
			ok := f.Name == "Agent.addCandidate$1" || f.Name == "Agent.addRemotePassiveTCPCandidate"
			r.Check(ok, "caller of start: "+f.Name, p.Pos(c.Pos()), "hand-over function", "start is called from "+f.Name+": the started-candidate assumption of R9.1 no longer holds")
			if f.Name == "Agent.addRemotePassiveTCPCandidate" {
				sel, _ := unparen(c.Fun).(*ast.SelectorExpr)
				src := p.Provenance(f, sel.X)
				okp, bad := onlySource(src, "call:ice.NewCandidate")
				r.Check(okp, "started candidate is fresh in "+f.Name, p.Pos(c.Pos()), strings.Join(src, ","), "the started candidate may come from "+bad)
			}
		}
	}
	if ac := p.Fn("Agent.addCandidate"); r.Anchor("Agent.addCandidate", ac != nil) {
		for _, e := range p.Callers(ac) {
			if e.Call == nil || len(e.Call.Args) < 3 {
				continue
			}
			src := p.Provenance(e.Caller, e.Call.Args[1])
			okp, bad := onlySource(src, "call:ice.NewCandidate")
			r.Check(okp, "candidate handed to addCandidate is fresh in "+e.Caller.Name, p.Pos(e.Site.Pos()), strings.Join(src, ","), "the candidate may come from "+bad+": it could already be started, in which case start drops the connection")
		}
	}

	// ---- R9.7 fan-out muxes forward to every underlying mux ------------------------------------------------------
	r.Rule("R9.7", "A multi mux forwards RemoveConnByUfrag and Close to every underlying mux: the loop over its muxes has no exit other than exhaustion and calls the method on each element, so no underlying mux keeps the generation's connection registered (or stays open).", 4)
	for _, ty := range []string{"MultiUDPMuxDefault", "MultiTCPMuxDefault"} {
		for _, m := range []string{"RemoveConnByUfrag", "Close"} {
			f := p.Fn(ty + "." + m)
			if !r.Anchor(ty+"."+m, f != nil) {
				continue
			}
			ok, why := false, "no loop over the underlying muxes"
			walkBody(f, func(n ast.Node) bool {
				rs, isR := n.(*ast.RangeStmt)
				if !isR || !p.IsField(rs.X, ty+".muxes") || rs.Value == nil {
					return true
				}
				ev, isID := rs.Value.(*ast.Ident)
				if !isID {
					return true
				}
				g := p.CFG(f)
				var ra ast.Node
				for _, b := range g.Blocks {
					for _, nd := range b.Nodes {
						if x, ok := nd.(*RangeAssign); ok && x.Stmt == rs {
							ra = x
						}
					}
				}
				if ra == nil {
					return true
				}
				loc, _ := g.Locate(ra)
				head := loc.B.Preds[0].From
				isFwd := func(nd ast.Node) bool {
					return p.nodeHasCall(nd, func(c *ast.CallExpr) bool {
						sel, ok := unparen(c.Fun).(*ast.SelectorExpr)
						return ok && sel.Sel.Name == m && p.isObj(sel.X, p.ObjOf(ev))
					})
				}
				// every path through the body reaches the loop head again, having forwarded
				_, skips := g.PathAvoiding(Loc{loc.B, loc.I + 1}, isFwd, func(b *Block) bool { return b == head || b == g.Exit }, nil)
				// and the body never leaves the loop early
				early := false
				ast.Inspect(rs.Body, func(x ast.Node) bool {
					switch y := x.(type) {
					case *ast.ReturnStmt:
						early = true
					case *ast.BranchStmt:
						if y.Tok.String() == "break" || y.Tok.String() == "goto" {
							early = true
						}
					case *ast.FuncLit:
						return false
					}
					return true
				})
				ok = !skips && !early
				why = fmt.Sprintf("an element can be skipped=%v, the loop can be left early=%v", skips, early)
				return true
			})
			r.Check(ok, ty+"."+m+" reaches every underlying mux", p.Pos(f.Body.Pos()), "for each mux: mux."+m+"(...)", why+": an underlying mux keeps the ufrag's connection (or stays open)")
		}
	}

	// assumptions must be in use
	r.curRule = "R9.1"
	var keys []string
	for k := range o.Assume {
		keys = append(keys, k)
	}
	sort.Strings(keys)
	for _, k := range keys {
		r.Except("R9.1 assumes infeasible: " + k + " — " + o.Assume[k])
		if o.AssumeUsed[k] == 0 {
			r.Fail("assumption in use: "+k, "", "the recorded assumption matches no exit on the current tree (stale)")
		}
	}
	for _, u := range o.Undecided {
		r.Unknown("ownership analysis", "", u)
	}
	// ---- R9.8 a superseded cycle's socket is not adopted by the next generation --------------------------------
	r.Rule("R9.8", "The task that takes a gathered socket into the agent re-checks the gather cycle's context inside the task (rule of C06 R6.11): the socket of a cycle that Restart superseded is released on that path (decided by R9.1), not started as a candidate of the new generation, where it would stay open until the next wipe.", 2)
	checkCycleTasksRecheck(p, r)
	r.Assume("connections wrapped by turn.NewSTUNConn, tls.Client, dtls.Client(WithOptions) and fakenet.PacketConn are closed by closing the wrapper (read in those packages)")
	r.Assume("taskloop.Loop.Run returns nil iff the task ran to completion (decided by C10 R10.1)")
}

// isLoopCloseHook: f is the function literal passed to taskloop.New.
func (p *Prog) isLoopCloseHook(f *Func) bool {
	if f.Lit == nil || f.Parent == nil {
		return false
	}
	found := false
	walkBody(f.Parent, func(n ast.Node) bool {
		if c, ok := n.(*ast.CallExpr); ok && p.CalleeName(c) == "taskloop.New" {
			for _, a := range c.Args {
				if unparen(a) == ast.Expr(f.Lit) {
					found = true
				}
			}
		}
		return true
	})
	return found
}

// waitsUnlessNil: before site, f receives from Agent.gatherCandidateDone on
// every path on which the field is non-nil.
func (p *Prog) waitsUnlessNil(f *Func, site ast.Node) bool {
	g := p.CFG(f)
	loc, ok := g.Locate(site)
	if !ok {
		return false
	}
	isWait := func(n ast.Node) bool {
		found := false
		ast.Inspect(n, func(x ast.Node) bool {
			if u, ok := x.(*ast.UnaryExpr); ok && u.Op.String() == "<-" && p.IsField(u.X, "Agent.gatherCandidateDone") {
				found = true
			}
			return true
		})
		return found
	}
	// paths that avoid the wait must pass the edge gatherCandidateDone == nil
	_, escapes := g.PathAvoiding(Loc{g.Entry, 0}, isWait, func(b *Block) bool { return b == loc.B }, func(e *Edge) bool {
		for _, ft := range p.FactsOfCond(e.Cond, e.Val) {
			if ft.Op == "==" && ft.Val && p.isNilExpr(ft.Y) && p.IsField(ft.X, "Agent.gatherCandidateDone") {
				return false
			}
		}
		return true
	})
	return !escapes
}

// checkRelayCloseHook: CandidateRelay.close invokes onClose on every path
// (shared by C09 R9.3 and C08 R8.10).
func checkRelayCloseHook(p *Prog, r *Report) {
	f := p.Fn("CandidateRelay.close")
	if !r.Anchor("CandidateRelay.close", f != nil) {
		return
	}
	o := p.NewOwn()
	rk, _ := o.recvKey(f)
	outs := o.summary(f, []ownBind{{rk + ".onClose", 'f'}})
	ok := len(outs) > 0
	for _, x := range outs {
		if x.Kind != "released" {
			ok = false
		}
	}
	r.Check(ok, "CandidateRelay.close invokes onClose on every path", p.Pos(f.Body.Pos()), outcomeKinds(outs), "a path through CandidateRelay.close skips onClose: the TURN client and the local socket carrying the allocation are never closed ("+outcomeKinds(outs)+")")
}
