package main

import (
	"go/ast"
	"go/types"
	"strings"
)

func init() { register("C07", checkC07) }

// resultVarOfCall: e is a local variable whose every non-zero definition is
// result #idx of a call to callee; returns the calls.
func (p *Prog) allDefsAreResultOf(f *Func, e ast.Expr, callee string, idx int) ([]*ast.CallExpr, bool) {
	id, ok := unparen(e).(*ast.Ident)
	if !ok {
		if c, ok := unparen(e).(*ast.CallExpr); ok && p.CalleeName(c) == callee {
			return []*ast.CallExpr{c}, true
		}
		return nil, false
	}
	o := p.ObjOf(id)
	var calls []*ast.CallExpr
	var owner *Func
	for fn := f; fn != nil; fn = fn.Parent {
		if len(p.DefsOf(fn, o)) > 0 {
			owner = fn
			break
		}
	}
	if owner == nil {
		return nil, false
	}
	n := 0
	for _, d := range p.DefsOf(owner, o) {
		if d.Zero {
			continue
		}
		n++
		c, ok := unparen(d.Rhs).(*ast.CallExpr)
		if !ok || p.CalleeName(c) != callee || d.Index != idx {
			return nil, false
		}
		calls = append(calls, c)
	}
	return calls, n > 0
}

func checkC07(p *Prog, r *Report) {
	cw := p.Fn("Conn.Write")
	wtp := p.Fn("Conn.WriteToPair")
	hip := p.Fn("candidateBase.handleInboundPacket")
	if !r.Anchor("Conn.Write", cw != nil) || !r.Anchor("Conn.WriteToPair", wtp != nil) || !r.Anchor("candidateBase.handleInboundPacket", hip != nil) {
		return
	}

	// ---- R7.1 write path -------------------------------------------------------------
	r.Rule("R7.1", "Conn.Write / WriteToPair hand the payload to a pair's socket only when the agent is not closed, the payload is not STUN, and the pair is the selected pair, else the best pair in state Succeeded (WriteToPair: the pair registered under the id, in state Succeeded); otherwise an error is returned. CandidatePair.Write sends from the pair's local candidate to the pair's remote.", 8)
	checkWritePath(p, r, cw, wtp)

	// ---- R7.2 read path ---------------------------------------------------------------------
	r.Rule("R7.2", "Only the candidate receive path writes into the application reader's buffer; that write is dominated by !stun.IsMessage and every path to it crosses a positive source validation (the per-candidate cache hit, or validateNonSTUNTraffic finding a remote candidate on the local candidate's transport). The cache is filled only after such a validation.", 6)
	nBuf := 0
	for _, f := range p.AllFuncs {
		if f.Pkg != p.Ice {
			continue
		}
		for _, c := range p.CallsTo(f, false, "packetio.Buffer.Write") {
			sel, _ := unparen(c.Fun).(*ast.SelectorExpr)
			if sel == nil || !p.IsField(sel.X, "Agent.buf") {
				continue
			}
			nBuf++
			if !r.Check(f == hip, "writer of the reader buffer: "+f.Name, p.Pos(c.Pos()), "the receive path", "application-reader buffer written from "+f.Name+", bypassing source validation") {
				continue
			}
			facts, _ := p.FactsAtCall(f, c)
			_, notStun := p.HasCallTruth(facts, f, "stun.IsMessage", 0, false)
			r.Check(notStun, "receive path: STUN never reaches the reader", p.Pos(c.Pos()), "dominated by !stun.IsMessage(buf)", "STUN traffic can be delivered to the application reader")
			g := p.CFG(f)
			loc, _ := g.Locate(c)
			crossed := 0
			reach := g.Reach([]*Block{g.Entry}, func(e *Edge) bool {
				if e.Cond == nil {
					return true
				}
				for _, ft := range p.FactsOfCond(e.Cond, e.Val) {
					if ft.Op == "truth" && ft.Val {
						if cc, idx, ok := p.ResolveCall(f, ft.X); ok {
							switch p.CalleeName(cc) {
							case "ice.candidateBase.validateSTUNTrafficCache":
								crossed++
								return false
							case "ice.Agent.validateNonSTUNTraffic":
								if idx == 1 {
									crossed++
									return false
								}
							}
						}
					}
				}
				return true
			})
			r.Check(!reach[loc.B] && crossed >= 2, "receive path: source validated on every path", p.Pos(c.Pos()), "every path crosses a cache hit or a positive validateNonSTUNTraffic", "a datagram can reach the reader without its source having been validated against the remote candidates")
		}
	}
	if nBuf == 0 {
		r.Fail("writer of the reader buffer", p.Pos(hip.Body.Pos()), "nothing writes into the reader buffer")
	}
	// the cache
	for f, nodes := range p.WritersOf("candidateBase.remoteCandidateCaches") {
		ok := f.Name == "candidateBase.addRemoteCandidateCache" || f.Name == "candidateBase.replaceRemoteCandidateCacheValues$1"
		r.Check(ok, "writer of the source cache: "+f.Name, p.Pos(nodes[0].Pos()), "cache helper", "the validated-source cache is filled from "+f.Name)
	}
	if arc := p.Fn("candidateBase.addRemoteCandidateCache"); r.Anchor("candidateBase.addRemoteCandidateCache", arc != nil) {
		for _, e := range p.Callers(arc) {
			ok := e.Caller == hip
			if ok {
				facts, _ := p.FactsAtCall(hip, e.Call)
				_, ok = p.HasCallTruth(facts, hip, "ice.Agent.validateNonSTUNTraffic", 1, true)
			}
			r.Check(ok, "source cache filled after validation: "+e.Caller.Name, p.Pos(e.Site.Pos()), "dominated by a positive validateNonSTUNTraffic", "an address enters the validated-source cache without validation")
		}
	}
	if f := p.Fn("Agent.validateNonSTUNTraffic"); r.Anchor("Agent.validateNonSTUNTraffic", f != nil) {
		// every return: (x, x != nil) with x assigned only from findRemoteCandidate(local.NetworkType(), remote)
		pLocal, pRemote := p.paramObj(f, 0), p.paramObj(f, 1)
		nRet := 0
		walkBody(f, func(n ast.Node) bool {
			rs, ok := n.(*ast.ReturnStmt)
			if !ok || len(rs.Results) != 2 {
				return true
			}
			nRet++
			calls, ok := p.allDefsAreResultOf(f, rs.Results[0], "ice.Agent.findRemoteCandidate", 0)
			good := ok
			for _, c := range calls {
				if len(c.Args) != 2 {
					good = false
					continue
				}
				nt, ok := unparen(c.Args[0]).(*ast.CallExpr)
				if !ok || p.CalleeName(nt) != "ice.Candidate.NetworkType" || !p.mentionsObj(nt, pLocal) {
					good = false
				}
				if id, ok := unparen(c.Args[1]).(*ast.Ident); !ok || p.ObjOf(id) != pRemote {
					good = false
				}
			}
			// second result: x != nil
			second := false
			if b, ok := unparen(rs.Results[1]).(*ast.BinaryExpr); ok && b.Op.String() == "!=" && p.isNilExpr(b.Y) && p.Canon(b.X) == p.Canon(rs.Results[0]) {
				second = true
			}
			if c, _ := p.ConstVal(rs.Results[1]); c == "false" {
				second, good = true, true
			}
			r.Check(good && second, "validateNonSTUNTraffic: valid only for a remote candidate on the local candidate's transport", p.Pos(rs.Pos()), "(c, c != nil) with c = findRemoteCandidate(local.NetworkType(), remote)",
				"a source is reported valid without being a known remote candidate looked up under the receiving candidate's own network type (e.g. matched by address only)")
			return true
		})
		if nRet == 0 {
			r.Fail("validateNonSTUNTraffic returns", p.Pos(f.Body.Pos()), "no return found")
		}
	}
	if f := p.Fn("Agent.findRemoteCandidate"); r.Anchor("Agent.findRemoteCandidate", f != nil) {
		ok := false
		walkBody(f, func(n ast.Node) bool {
			if ix, ok2 := n.(*ast.IndexExpr); ok2 && p.IsField(ix.X, "Agent.remoteCandidates") {
				if id, ok3 := unparen(ix.Index).(*ast.Ident); ok3 && p.ObjOf(id) == p.paramObj(f, 0) {
					ok = true
				}
			}
			return true
		})
		eq := len(p.CallsTo(f, false, "ice.addrPortEqual")) == 1
		r.Check(ok && eq, "findRemoteCandidate: per-transport lookup by address", p.Pos(f.Body.Pos()), "remoteCandidates[networkType], addrPortEqual", "remote candidates are not looked up within the given network type by transport address")
	}

	// ---- R7.3 counters -----------------------------------------------------------------------------
	r.Rule("R7.3", "Byte and packet counters take the n returned by the corresponding socket/buffer operation (never the requested length) and only count n > 0.", 4)
	counterSite := func(f *Func, counter ast.Node, arg ast.Expr, srcCallee string, needPos bool, what string) {
		calls, ok := p.allDefsAreResultOf(f, stripConv(p, arg), srcCallee, 0)
		_ = calls
		pos := true
		if needPos {
			facts, _ := p.FactsAtCall(f, counter)
			pos = facts.Has(func(ft Fact) bool {
				c, _ := p.ConstVal(ft.X)
				return ft.Op == "<" && ft.Val && c == "0" && p.Canon(ft.Y) == p.Canon(stripConv(p, arg))
			})
		}
		r.Check(ok && pos, what, p.Pos(counter.Pos()), "counts the n returned by "+srcCallee, "the counter is fed with "+stripVarLines(p.Canon(arg))+" (from the operation's result: "+boolStr(ok)+", guarded by n > 0: "+boolStr(pos)+"): it diverges from the bytes actually accepted on errors or short operations")
	}
	for _, c := range p.CallsIn(cw, false, func(n string, c *ast.CallExpr) bool { return p.isMethodOnField(c, "Conn.bytesSent", "Add") }) {
		counterSite(cw, c, c.Args[0], "ice.CandidatePair.Write", true, "Conn.Write: bytesSent")
	}
	for _, f := range []*Func{cw, wtp} {
		for _, c := range p.CallsTo(f, false, "ice.CandidatePair.UpdatePacketSent") {
			counterSite(f, c, c.Args[0], "ice.CandidatePair.Write", true, f.Name+": pair sent counters")
		}
	}
	if f := p.Fn("Conn.Read"); r.Anchor("Conn.Read", f != nil) {
		n := 0
		for _, c := range p.CallsIn(f, false, func(n string, c *ast.CallExpr) bool { return p.isMethodOnField(c, "Conn.bytesReceived", "Add") }) {
			n++
			counterSite(f, c, c.Args[0], "packetio.Buffer.Read", false, "Conn.Read: bytesReceived")
		}
		if n == 0 {
			r.Fail("Conn.Read: bytesReceived", p.Pos(f.Body.Pos()), "received bytes are not counted")
		}
	}
	for _, c := range p.CallsTo(hip, false, "ice.CandidatePair.UpdatePacketReceived") {
		counterSite(hip, c, c.Args[0], "packetio.Buffer.Write", true, "receive path: pair received counters")
		sel, _ := unparen(c.Fun).(*ast.SelectorExpr)
		okSel := false
		if sel != nil {
			if cc, _, ok := p.ResolveCall(hip, sel.X); ok && p.CalleeName(cc) == "ice.Agent.getSelectedPair" {
				okSel = true
			}
		}
		r.Check(okSel, "receive path: counted on the selected pair", p.Pos(c.Pos()), "getSelectedPair()", "received data is counted on a pair other than the selected one")
	}
	for _, name := range []string{"CandidatePair.UpdatePacketSent", "CandidatePair.UpdatePacketReceived"} {
		if f := p.Fn(name); r.Anchor(name, f != nil) {
			param := p.paramObj(f, 0)
			ok := false
			walkBody(f, func(n ast.Node) bool {
				if c, ok2 := n.(*ast.CallExpr); ok2 && strings.HasPrefix(p.CalleeName(c), "sync/atomic.AddUint64") && len(c.Args) == 2 {
					if p.mentionsObj(c.Args[1], param) {
						ok = true
					}
				}
				return true
			})
			r.Check(ok, name+": adds its argument to the byte counter", p.Pos(f.Body.Pos()), "AddUint64(&bytes, uint64(n))", "the byte counter is not advanced by the reported n")
		}
	}

	// ---- R7.4 counters survive supersession ---------------------------------------------------------
	r.Rule("R7.4", "When a signalled candidate supersedes a peer-reflexive one, the replacement pair takes over every packet, byte and STUN counter and timestamp from the same counter of the superseded pair: a selected pair's tallies stay equal to what was written and read.", 1)
	if f := p.Fn("replacePairRemote"); r.Anchor("replacePairRemote", f != nil) {
		covered, st := p.replacePairCoverage(f)
		var missing []string
		for i := 0; st != nil && i < st.NumFields(); i++ {
			fld := st.Field(i)
			n := fld.Name()
			// the statistics: everything numeric or time-valued that the pair updates while in use
			t := typeStr(fld.Type())
			isStat := strings.HasPrefix(n, "packets") || strings.HasPrefix(n, "bytes") || strings.HasPrefix(n, "requests") || strings.HasPrefix(n, "responses") ||
				strings.Contains(t, "atomic.Value") || strings.HasSuffix(n, "RoundTripTime") || strings.HasPrefix(n, "lastPacket")
			if isStat && !covered[n] {
				missing = append(missing, n)
			}
		}
		r.Check(len(missing) == 0 && st != nil, "replacePairRemote carries every counter over from the same counter", p.Pos(f.Body.Pos()), "same-field copies", "not carried over from the same field: "+strings.Join(missing, ", ")+" — after the peer-reflexive candidate is replaced the pair's statistics no longer match the traffic")
	}

	// ---- R7.5 one key form for the validated-source cache ----------------------------------------------
	r.Rule("R7.5", "The per-candidate cache of validated source addresses is read and written under one key form (toAddrPortKey of the address, or the key handed out by the cache's own Range): a lookup under a differently built key never hits, and a stale entry under one survives supersession.", 2)
	{
		n := 0
		for _, f := range p.AllFuncs {
			walkBody(f, func(x ast.Node) bool {
				c, ok := x.(*ast.CallExpr)
				if !ok {
					return true
				}
				sel, ok := unparen(c.Fun).(*ast.SelectorExpr)
				if !ok || !p.IsField(sel.X, "candidateBase.remoteCandidateCaches") {
					return true
				}
				switch sel.Sel.Name {
				case "Load", "Store", "Delete", "LoadOrStore", "LoadAndDelete", "CompareAndSwap", "Swap":
				default:
					return true
				}
				if len(c.Args) == 0 {
					return true
				}
				n++
				key := c.Args[0]
				ok = false
				if kc, _, isC := p.ResolveCall(f, key); isC && p.CalleeName(kc) == "ice.toAddrPortKey" {
					ok = true
				}
				if id, isID := unparen(key).(*ast.Ident); isID && f.Lit != nil && f.Type != nil && f.Type.Params != nil {
					// the key parameter of the Range callback
					if p.ObjOf(id) == p.paramObj(f, 0) {
						ok = true
					}
				}
				r.Check(ok, "source cache key in "+f.Name+" ("+sel.Sel.Name+")", p.Pos(c.Pos()), "toAddrPortKey(addr)", "the validated-source cache is accessed under "+stripVarLines(p.Canon(key))+" here")
				return true
			})
		}
		if n < 2 {
			r.Fail("source cache keys", "candidate_base.go", "cache accesses not found (rule instance lost)")
		}
	}

	// ---- R7.6 queued datagrams keep their contents ----------------------------------------------------------
	r.Rule("R7.6", "On the ICE-TCP receive path each de-framed datagram is queued as a private copy, never as a slice of the reader's reused buffer (shared with C14 R14.9): what the application reads is what the peer sent, also under a backlog.", 1)
	checkQueuedPacketsOwnTheirBytes(p, r)
	// ---- R7.7 ICE-TCP data leaves on the pair's own connection -------------------------------------------------
	r.Rule("R7.7", "On a passive ICE-TCP candidate the payload handed to the pair's local socket for the pair's remote address is framed onto the TCP connection registered under exactly that address (rule of C15 R15.13): with no such connection the write fails, it is never redirected to another peer's connection.", 1)
	checkTCPReplyGoesToItsPeer(p, r)
}

// constNameOrVar renders an error sentinel or variable name.
func (p *Prog) constNameOrVar(e ast.Expr) string {
	if c := p.constName(e); c != "" {
		return c
	}
	if id, ok := unparen(e).(*ast.Ident); ok {
		if _, isVar := p.ObjOf(id).(*types.Var); isVar {
			return id.Name
		}
	}
	return stripVarLines(p.Canon(e))
}

// stripConv removes conversions: uint64(n) -> n.
func stripConv(p *Prog, e ast.Expr) ast.Expr {
	for {
		c, ok := unparen(e).(*ast.CallExpr)
		if !ok || len(c.Args) != 1 {
			return unparen(e)
		}
		if tv, ok := p.Info.Types[c.Fun]; !ok || !tv.IsType() {
			return unparen(e)
		}
		e = c.Args[0]
	}
}

// checkWritesRequireOpenAgent: every data write of Conn is made only where loop.Err() was nil
// (shared by C07 R7.1, where it is part of the write-path rule, and C08 R8.14).
func checkWritesRequireOpenAgent(p *Prog, r *Report) {
	for _, name := range []string{"Conn.Write", "Conn.WriteToPair"} {
		f := p.Fn(name)
		if !r.Anchor(name, f != nil) {
			continue
		}
		writes := p.CallsTo(f, false, "ice.CandidatePair.Write")
		ok := len(writes) > 0
		for _, w := range writes {
			facts, _ := p.FactsAtCall(f, w)
			_, open := p.HasCallEqNil(facts, f, "taskloop.Loop.Err", 0, true)
			if !open {
				open = factListHas(p.DominatingFactList(f, w), func(ft Fact) bool {
					if ft.Op != "==" || !ft.Val || ft.Y == nil || !p.isNilExpr(ft.Y) {
						return false
					}
					_, okC := p.exprIsCallTo(f, ft.X, "taskloop.Loop.Err", 0)
					return okC
				})
			}
			if !open {
				ok = false
			}
		}
		r.Check(ok, name+": a closed agent refuses the write", p.Pos(f.Body.Pos()), "the socket write is dominated by loop.Err() == nil", "a write on a closed agent reaches the candidate's socket instead of returning the closed error: a later API call does not 'return promptly and without effect' (with a plain UDP candidate it even reports success)")
	}
}

// writeToPairDirectForm: the write w is dominated by pair != nil and S == Succeeded, where
// every value of pair is pairsByID[<id parameter>] and every value of S is pair.state, both
// assigned in a closure handed to the task loop.
func (p *Prog) writeToPairDirectForm(f *Func, w *ast.CallExpr, pairID *ast.Ident, facts FactSet, nonNil bool) bool {
	if !nonNil {
		return false
	}
	pairObj := p.ObjOf(pairID)
	inLoop := func(fn *Func) bool {
		for _, e := range p.Callers(fn) {
			if e.Kind == "arg" && e.Via == "taskloop.Loop.Run" {
				return true
			}
		}
		return false
	}
	// all non-zero definitions of o, in f and its closures, satisfy pred and sit in a loop closure
	allDefs := func(o types.Object, pred func(rhs ast.Expr) bool) bool {
		n := 0
		seen := map[ast.Node]bool{}
		for _, fn := range append([]*Func{f}, f.Lits...) {
			for _, d := range p.DefsOf(fn, o) {
				if d.Zero || (d.Rhs != nil && p.isNilExpr(d.Rhs)) || seen[d.Node] {
					continue
				}
				seen[d.Node] = true
				if d.Rhs == nil || d.Index != 0 || !pred(d.Rhs) || !inLoop(p.EnclosingFunc(d.Node.Pos())) {
					return false
				}
				n++
			}
		}
		return n > 0
	}
	if !allDefs(pairObj, func(rhs ast.Expr) bool {
		ix, ok := unparen(rhs).(*ast.IndexExpr)
		if !ok || !p.IsField(ix.X, "Agent.pairsByID") {
			return false
		}
		kid, ok := unparen(ix.Index).(*ast.Ident)
		return ok && p.ObjOf(kid) == p.paramObj(f, 0)
	}) {
		return false
	}
	return facts.Has(func(ft Fact) bool {
		if ft.Op != "==" || !ft.Val || p.constName(ft.Y) != "CandidatePairStateSucceeded" {
			return false
		}
		id, ok := unparen(ft.X).(*ast.Ident)
		if !ok {
			return false
		}
		return allDefs(p.ObjOf(id), func(rhs ast.Expr) bool {
			sel, ok := unparen(rhs).(*ast.SelectorExpr)
			if !ok || !p.IsField(sel, "CandidatePair.state") {
				return false
			}
			x, ok := unparen(sel.X).(*ast.Ident)
			return ok && p.ObjOf(x) == pairObj
		})
	})
}

// checkWritePath: C07 R7.1, shared with C06 R6.12.
func checkWritePath(p *Prog, r *Report, cw, wtp *Func) {
	for _, f := range []*Func{cw, wtp} {
		writes := p.CallsTo(f, false, "ice.CandidatePair.Write")
		if len(writes) != 1 {
			r.Fail(f.Name+": single socket write", p.Pos(f.Body.Pos()), itoa(len(writes))+" pair.Write calls")
			continue
		}
		w := writes[0]
		facts, _ := p.FactsAtCall(f, w)
		_, open := p.HasCallEqNil(facts, f, "taskloop.Loop.Err", 0, true)
		if !open {
			// "the test was passed on the way here" (the error variable may have been re-used since)
			open = factListHas(p.DominatingFactList(f, w), func(ft Fact) bool {
				if ft.Op != "==" || !ft.Val || ft.Y == nil || !p.isNilExpr(ft.Y) {
					return false
				}
				_, ok := p.exprIsCallTo(f, ft.X, "taskloop.Loop.Err", 0)
				return ok
			})
		}
		_, notStun := p.HasCallTruth(facts, f, "stun.IsMessage", 0, false)
		r.Check(open, f.Name+": write requires an open agent", p.Pos(w.Pos()), "dominated by loop.Err() == nil", "data can be written after Close without the closed error")
		r.Check(notStun, f.Name+": STUN payloads refused", p.Pos(w.Pos()), "dominated by !stun.IsMessage(packet)", "payloads that parse as STUN are written to the peer")
		// the argument of IsMessage is the payload parameter, as is what is written
		pkt := p.paramObj(f, len(f.Type.Params.List)-1)
		if f == wtp {
			pkt = p.paramObj(f, 1)
		}
		okArg := len(w.Args) == 1 && p.mentionsObj(w.Args[0], pkt)
		for _, c := range p.CallsTo(f, false, "stun.IsMessage") {
			if len(c.Args) != 1 || !p.mentionsObj(c.Args[0], pkt) {
				okArg = false
			}
		}
		r.Check(okArg, f.Name+": the tested payload is the written payload", p.Pos(w.Pos()), "same parameter", "the STUN test and the socket write use different buffers")
		sel, _ := unparen(w.Fun).(*ast.SelectorExpr)
		if sel == nil {
			continue
		}
		pairID, _ := unparen(sel.X).(*ast.Ident)
		if pairID == nil {
			r.Unknown(f.Name+": written pair", p.Pos(w.Pos()), "receiver of Write is not a variable")
			continue
		}
		nonNil := facts.Has(func(ft Fact) bool {
			id, ok := unparen(ft.X).(*ast.Ident)
			return ft.Op == "==" && !ft.Val && p.isNilExpr(ft.Y) && ok && p.ObjOf(id) == p.ObjOf(pairID)
		})
		if f == cw {
			r.Check(nonNil, "Conn.Write: no pair, no write", p.Pos(w.Pos()), "dominated by pair != nil", "with no validated pair the write does not fail")
			// provenance: selected pair, or best valid pair computed inside the loop
			good := true
			var why []string
			// definitions of the written pair, looked through plain copies of locals that are assigned in this
			// function itself (result temporaries of an extracted lookup)
			var defs []VarDef
			var expand func(o types.Object, depth int)
			seenV := map[types.Object]bool{}
			expand = func(o types.Object, depth int) {
				if o == nil || seenV[o] || depth > 4 {
					return
				}
				seenV[o] = true
				for _, d := range p.DefsOf(f, o) {
					if d.Rhs != nil && d.Index == 0 {
						if id, ok := unparen(d.Rhs).(*ast.Ident); ok {
							if v, isVar := p.ObjOf(id).(*types.Var); isVar && !v.IsField() {
								assigned := false
								for _, dd := range p.DefsOf(f, v) {
									if dd.Rhs != nil {
										assigned = true
									}
								}
								if assigned {
									expand(v, depth+1)
									continue
								}
							}
						}
					}
					defs = append(defs, d)
				}
			}
			expand(p.ObjOf(pairID), 0)
			for _, d := range defs {
				if d.Rhs == nil || p.isNilExpr(d.Rhs) {
					continue
				}
				if c, ok := unparen(d.Rhs).(*ast.CallExpr); ok && p.CalleeName(c) == "ice.Agent.getSelectedPair" {
					continue
				}
				if calls, ok := p.allDefsAreResultOf(f, d.Rhs, "ice.Agent.getBestValidCandidatePair", 0); ok {
					// computed inside a loop task
					for _, c := range calls {
						fn := p.EnclosingFunc(c.Pos())
						inLoop := false
						for _, e := range p.Callers(fn) {
							if e.Kind == "arg" && e.Via == "taskloop.Loop.Run" {
								inLoop = true
							}
						}
						if !inLoop {
							good = false
							why = append(why, "best valid pair computed outside the task loop")
						}
					}
					continue
				}
				good = false
				why = append(why, "pair assigned from "+stripVarLines(p.Canon(d.Rhs)))
			}
			r.Check(good, "Conn.Write: pair is the selected pair or the best validated pair", p.Pos(w.Pos()), "getSelectedPair() / getBestValidCandidatePair() in the loop", strings.Join(why, "; "))
		} else {
			_, noErr := facts, false
			// the variable through which the lookup closure reports "no such pair"
			lookupErrObj := p.localByDef(f, func(rhs ast.Expr) bool { return p.MentionsObj(rhs, "ice.ErrCandidatePairNotFound") })
			noErr = facts.Has(func(ft Fact) bool {
				return ft.Op == "==" && ft.Val && p.isNilExpr(ft.Y) && p.isObj(ft.X, lookupErrObj)
			})
			if lookupErrObj == nil && p.writeToPairDirectForm(f, w, pairID, facts, nonNil) {
				// the other spelling: the lookup only snapshots the pair and its state under the loop,
				// and the caller itself rejects a missing pair and a state other than Succeeded
				r.OK("WriteToPair: lookup succeeded", p.Pos(w.Pos()), "dominated by pair != nil and the state read under the loop == Succeeded")
				continue
			}
			r.Check(noErr, "WriteToPair: lookup succeeded", p.Pos(w.Pos()), "dominated by lookupErr == nil", "the write is reachable although the pair lookup reported an error")
			// the lookup closure
			var lit *Func
			for _, l := range f.Lits {
				lit = l
			}
			if r.Anchor("WriteToPair lookup closure", lit != nil) {
				t := p.NewTable(lit)
				t.Event = func(n ast.Node, _ *TEnv) []string {
					as, ok := n.(*ast.AssignStmt)
					if !ok || len(as.Lhs) != 1 {
						return nil
					}
					id, ok := as.Lhs[0].(*ast.Ident)
					if !ok {
						return nil
					}
					// roles by type: the error result and the pair result of the lookup
					switch {
					case isErrorType(p.TypeOf(id)):
						return []string{"err=" + p.constNameOrVar(as.Rhs[0])}
					case typeStr(p.TypeOf(id)) == "*ice.CandidatePair":
						if ix, ok := unparen(as.Rhs[0]).(*ast.IndexExpr); ok && p.IsField(ix.X, "Agent.pairsByID") {
							if kid, ok := unparen(ix.Index).(*ast.Ident); ok && p.ObjOf(kid) == p.paramObj(f, 0) {
								return []string{"pair=pairsByID[id]"}
							}
						}
						return []string{"pair=?"}
					}
					return nil
				}
				t.Run()
				sawState := false
				defer func() {
					if !sawState {
						// (the deferred check runs when this function returns: the rule is still the current one)
						r.Fail("WriteToPair lookup: state test", p.Pos(lit.Body.Pos()), "the lookup never rejects a pair that is not in state Succeeded")
					}
				}()
				for _, pa := range t.Paths {
					isNil, state := "", ""
					for _, d := range pa.Hist {
						if d.Atom.Kind == "enum" && p.IsField(d.Atom.X, "CandidatePair.state") {
							state = d.Val
						} else if d.Atom.Kind == "enum" {
							isNil = d.Val
						}
					}
					want := "pair=pairsByID[id]"
					switch {
					case isNil == "==nil":
						want += ",err=ErrCandidatePairNotFound"
					case state == "!=CandidatePairStateSucceeded":
						sawState = true
						want += ",err=ErrCandidatePairNotSucceeded"
					}
					got := strings.Join(pa.Events, ",")
					r.Check(got == want, "WriteToPair lookup row pair"+isNil+" state"+state, pa.EndPos, "-> "+want, "the lookup does ["+got+"], required ["+want+"]: only the registered pair in state Succeeded may be written to")
				}
			}
		}
	}
	if f := p.Fn("Agent.getBestValidCandidatePair"); r.Anchor("Agent.getBestValidCandidatePair", f != nil) {
		n := 0
		// the result variable(s): whatever the function returns
		results := map[types.Object]bool{}
		walkBody(f, func(x ast.Node) bool {
			if rs, ok := x.(*ast.ReturnStmt); ok {
				for _, e := range rs.Results {
					if id, ok := unparen(e).(*ast.Ident); ok {
						if o := p.ObjOf(id); o != nil {
							results[o] = true
						}
					}
				}
			}
			return true
		})
		walkBody(f, func(x ast.Node) bool {
			as, ok := x.(*ast.AssignStmt)
			if !ok || len(as.Lhs) != 1 || len(as.Rhs) != 1 || p.isNilExpr(as.Rhs[0]) {
				return true
			}
			if id, ok := as.Lhs[0].(*ast.Ident); !ok || !results[p.ObjOf(id)] {
				return true
			}
			n++
			facts, _ := p.FactsAtCall(f, as)
			ok2 := p.hasFieldEq(facts, "CandidatePair.state", "CandidatePairStateSucceeded", true)
			r.Check(ok2, "getBestValidCandidatePair: only Succeeded pairs", p.Pos(as.Pos()), "assignment dominated by state == Succeeded", "a pair that is not Succeeded can become the 'best valid' pair used for data before selection")
			return true
		})
		if n == 0 {
			r.Fail("getBestValidCandidatePair: only Succeeded pairs", p.Pos(f.Body.Pos()), "no candidate assignment found")
		}
	}
	if f := p.Fn("CandidatePair.Write"); r.Anchor("CandidatePair.Write", f != nil) {
		ok := false
		for _, c := range p.CallsTo(f, false, "ice.Candidate.writeTo") {
			sel, _ := unparen(c.Fun).(*ast.SelectorExpr)
			if sel != nil && p.IsField(sel.X, "CandidatePair.Local") && len(c.Args) == 2 && p.IsField(c.Args[1], "CandidatePair.Remote") {
				ok = true
			}
		}
		r.Check(ok, "CandidatePair.Write: local socket to the pair's remote", p.Pos(f.Body.Pos()), "p.Local.writeTo(b, p.Remote)", "data does not leave through the pair's local candidate towards the pair's remote")
	}
}
