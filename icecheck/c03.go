package main

import (
	"fmt"
	"go/ast"
	"go/types"
	"sort"
	"strings"
)

func init() { register("C03", checkC03) }

// selPaths extracts the semantic decision paths of a selector function.
func selPaths(p *Prog, r *Report, name string) (*Func, []*SemPath) {
	f := p.Fn(name)
	if !r.Anchor(name, f != nil) {
		return nil, nil
	}
	t := p.NewTable(f)
	t.Event = selectorEvents(p, f)
	t.Run()
	for _, pr := range t.Problems {
		r.Unknown(name+": table extraction", p.Pos(f.Body.Pos()), pr)
	}
	sps := t.Semantic(classifySelectorAtom(p, f))
	var bad []string
	for _, sp := range sps {
		bad = append(bad, sp.Unclassified...)
	}
	if len(bad) > 0 {
		bad = dedupStrings(bad)
		sort.Strings(bad)
		r.Fail(name+": conditions", p.Pos(f.Body.Pos()), "the function's behaviour depends on conditions the checker does not know: "+stripVarLines(strings.Join(bad, "; ")))
		return f, nil
	}
	return f, sps
}

func evIndex(sp *SemPath, e string) int {
	for i, x := range sp.Events {
		if x == e {
			return i
		}
	}
	return -1
}

func checkC03(p *Prog, r *Report) {
	ssp := p.Fn("Agent.setSelectedPair")
	if !r.Anchor("Agent.setSelectedPair", ssp != nil) {
		return
	}

	// ---- R3.2 single writer ---------------------------------------------------------
	r.Rule("R3.2", "Agent.selectedPair is stored only by setSelectedPair.", 1)
	for f, nodes := range p.WritersOf("Agent.selectedPair") {
		r.Check(f == ssp, "writer of selectedPair: "+f.Name, p.Pos(nodes[0].Pos()), "the select anchor", "the selected pair is stored outside setSelectedPair: no Connected transition, no notification, no guards")
	}

	// ---- R3.1 guarded selection sites ------------------------------------------------
	r.Rule("R3.1", "Every caller of setSelectedPair with a possibly non-nil argument is one of the documented sites and selects only under its guards: controlling success (transaction match, symmetric, pair known, marked Succeeded, USE-CANDIDATE transaction); controlled success (same, and a deferred nomination); controlled request (USE-CANDIDATE or decoded nomination, accepted, pair Succeeded, switch predicate); application handler (handler set and returned true); prflx supersession (re-point of the currently selected pair only).", 8)
	allowed := map[string]bool{"Agent.Restart$1": true, "Agent.updateConnectionState": true, "controllingSelector.HandleSuccessResponse": true,
		"controlledSelector.HandleSuccessResponse": true, "controlledSelector.HandleBindingRequest": true,
		"Agent.handleBindingRequestWithCustomHandler": true, "Agent.replaceRemoteInPairs": true}
	for _, e := range p.Callers(ssp) {
		name := e.Caller.Name
		if len(e.Call.Args) == 1 && p.isNilExpr(e.Call.Args[0]) {
			// clearing the selection is not a selection, wherever it is done (the wipe sites or a helper of theirs)
			r.Trivial("selection site "+name+" (nil)", p.Pos(e.Site.Pos()), "clears the selection")
			continue
		}
		if !allowed[name] {
			r.Fail("selection site "+name, p.Pos(e.Site.Pos()), "new caller of setSelectedPair outside the documented selection sites")
			continue
		}
		switch name {
		case "Agent.Restart$1", "Agent.updateConnectionState":
			r.Fail("selection site "+name, p.Pos(e.Site.Pos()), "a wipe site selects a non-nil pair")
		case "Agent.handleBindingRequestWithCustomHandler":
			facts, _ := p.FactsAtCall(e.Caller, e.Call)
			set := facts.Has(func(ft Fact) bool {
				return ft.Op == "==" && !ft.Val && p.isNilExpr(ft.Y) && p.IsField(ft.X, "Agent.userBindingRequestHandler")
			})
			approved := facts.Has(func(ft Fact) bool {
				if ft.Op != "truth" || !ft.Val {
					return false
				}
				c, _, ok := p.ResolveCall(e.Caller, ft.X)
				return ok && p.IsField(c.Fun, "Agent.userBindingRequestHandler")
			})
			r.Check(set && approved, "selection site "+name, p.Pos(e.Site.Pos()), "application handler set and returned true (exempt by the property)", "custom-handler selection without the handler's approval")
		case "Agent.replaceRemoteInPairs":
			facts, _ := p.FactsAtCall(e.Caller, e.Call)
			same := facts.Has(func(ft Fact) bool {
				if ft.Op != "==" || !ft.Val {
					return false
				}
				return p.atomIsCall(e.Caller, ft.X, "ice.Agent.getSelectedPair") || p.atomIsCall(e.Caller, ft.Y, "ice.Agent.getSelectedPair")
			})
			repl := false
			if c, _, ok := p.ResolveCall(e.Caller, e.Call.Args[0]); ok && p.CalleeName(c) == "ice.replacePairRemote" {
				repl = true
			}
			r.Check(same && repl, "selection site "+name, p.Pos(e.Site.Pos()), "re-points the currently selected pair to its replacement", "supersession selects a pair that was not the selected one, or something other than the identity-preserving replacement")
		default:
			r.OK("selection site "+name+" (table below)", p.Pos(e.Site.Pos()), "guards decided on the extracted decision tree")
		}
	}
	// controlling success
	if _, sps := selPaths(p, r, "controllingSelector.HandleSuccessResponse"); sps != nil {
		n := 0
		for _, sp := range sps {
			if !sp.Has("select") {
				continue
			}
			n++
			ok := sp.Vals["txn"] == "true" && sp.Vals["symmetric"] == "true" && sp.Vals["pair"] == "!=nil" && sp.Vals["useCandTxn"] == "true"
			st := evIndex(sp, "state=Succeeded")
			ok = ok && st >= 0 && st < evIndex(sp, "select")
			r.Check(ok, "controlling success: select path "+rowKey(sp, "valueTxn", "selected"), sp.EndPos, "txn matched, symmetric, pair known, validated, USE-CANDIDATE transaction",
				"a pair is selected on the path "+sp.String()+" without: matched transaction, symmetric response, known pair, Succeeded mark and a USE-CANDIDATE transaction")
		}
		if n == 0 {
			r.Fail("controlling success: select path", "selection.go", "the controlling selector never selects")
		}
		// validation itself requires the gates
		for _, sp := range sps {
			if sp.Has("state=Succeeded") {
				ok := sp.Vals["txn"] == "true" && sp.Vals["symmetric"] == "true"
				if !ok {
					r.Fail("controlling success: validation gate", sp.EndPos, "pair marked Succeeded without transaction match and symmetry: "+sp.String())
				}
			}
		}
	}
	// controlled success (deferred nomination)
	checkControlledDeferredTable(p, r)
	// controlled request
	_, reqPaths := selPaths(p, r, "controlledSelector.HandleBindingRequest")
	if reqPaths != nil {
		n := 0
		for _, sp := range reqPaths {
			nominated := sp.Vals["useCand"] == "true" || (sp.Vals["hasNomAttr"] == "true" && sp.Vals["nomDecode"] == "==nil")
			valid := sp.Vals["state"] == "==CandidatePairStateSucceeded" || (sp.Vals["lite"] == "true" && sp.Has("state=Succeeded"))
			if sp.Has("select") {
				n++
				ok := nominated && sp.Vals["accept"] == "true" && valid && sp.Vals["switch"] == "true"
				r.Check(ok, "controlled request: select path "+rowKey(sp, "useCand", "nomDecode", "lite", "pair"), sp.EndPos, "nominated, accepted, valid, switch predicate",
					"a pair is selected on "+sp.String()+" without an authenticated nomination on that pair, acceptance, validity (own check succeeded / lite) and the switch predicate")
			}
			// R3.3: the deferred flag
			if sp.Has("defer=true") {
				ok := nominated && sp.Vals["accept"] == "true" && sp.Vals["state"] == "!=CandidatePairStateSucceeded"
				r.Check(ok, "controlled request: deferred nomination "+rowKey(sp, "useCand", "nomDecode", "pair"), sp.EndPos, "only an accepted nomination on a not-yet-valid pair is deferred",
					"nominateOnBindingSuccess is set on "+sp.String()+" without an accepted nomination")
			}
			if sp.Has("state=Succeeded") && sp.Vals["lite"] != "true" {
				r.Fail("controlled request: validity without a check", sp.EndPos, "a full agent marks the pair Succeeded from a request alone")
			}
		}
		if n == 0 {
			r.Fail("controlled request: select path", "selection.go", "an authenticated nomination on a valid pair never selects")
		}
	}

	if f := p.Fn("controlledSelector.HandleBindingRequest"); f != nil {
		checkNominationValueProvenance(p, r, f, "ice.controlledSelector.shouldSwitchSelectedPair")
		checkNominationValueProvenance(p, r, f, "ice.controlledSelector.shouldAcceptNomination")
	}

	// ---- R3.3 writers of the deferred flag -----------------------------------------------
	r.Rule("R3.3", "pair.nominateOnBindingSuccess becomes true only in the controlled request handler under an accepted nomination (and is copied by the identity-preserving pair replacement).", 2)
	for f, nodes := range p.WritersOf("CandidatePair.nominateOnBindingSuccess") {
		ok := f.Name == "controlledSelector.HandleBindingRequest" || f.Name == "replacePairRemote"
		r.Check(ok, "writer of nominateOnBindingSuccess: "+f.Name, p.Pos(nodes[0].Pos()), "request handler / identity-preserving copy", "the deferred-nomination flag is written in "+f.Name)
	}

	// ---- R3.4 who sends USE-CANDIDATE --------------------------------------------------------
	r.Rule("R3.4", "USE-CANDIDATE is attached only by the controlling selector's nomination and by the renomination sender (which only a controlling agent reaches); no controlledSelector method reaches either.", 3)
	uc := map[string]bool{"controllingSelector.nominatePair": true, "Agent.sendNominationRequest": true}
	nUC := 0
	for _, f := range p.AllFuncs {
		if f.Pkg != p.Ice {
			continue
		}
		for _, c := range p.CallsTo(f, false, "ice.UseCandidate") {
			nUC++
			r.Check(uc[f.Name], "USE-CANDIDATE attached in "+f.Name, p.Pos(c.Pos()), "controlling-only builder", "USE-CANDIDATE is attached in "+f.Name+", which is not a controlling-only request builder")
		}
		walkBody(f, func(n ast.Node) bool {
			if cl, ok := n.(*ast.CompositeLit); ok && typeStr(p.TypeOf(cl)) == "ice.UseCandidateAttr" {
				r.Check(f.Name == "UseCandidate", "USE-CANDIDATE literal in "+f.Name, p.Pos(cl.Pos()), "the constructor", "USE-CANDIDATE attribute constructed directly in "+f.Name)
			}
			return true
		})
	}
	if nUC == 0 {
		r.Fail("USE-CANDIDATE attached", "selection.go", "nothing attaches USE-CANDIDATE: nomination impossible")
	}
	var controlled []*Func
	for _, f := range p.AllFuncs {
		if strings.HasPrefix(f.Name, "controlledSelector.") && f.Decl != nil {
			controlled = append(controlled, f)
		}
	}
	via := p.CG().Reachable(controlled, func(e *CallEdge) bool {
		return !e.Go && e.Kind != "iface" || (e.Kind == "iface" && !strings.HasPrefix(e.Callee.Name, "controllingSelector."))
	})
	for name := range uc {
		if f := p.Fn(name); f != nil {
			_, reach := via[f]
			r.Check(!reach, "controlled selector cannot reach "+name, p.Pos(f.Body.Pos()), "unreachable from controlledSelector methods", "a controlled-selector method reaches "+name+": "+Chain(via, f))
		}
	}

	// ---- R3.5 priority guard ---------------------------------------------------------------------
	r.Rule("R3.5", "The controlled side's switch predicate never moves the selection to a pair of lower or equal priority on a plain USE-CANDIDATE when priorities must be checked (full agent, or lite agent configured to check): shouldSwitchSelectedPair is the specified table, and needsToCheckPriorityOnNominated is '!lite || enableUseCandidateCheckPriority'.", 7)
	checkSwitchPredicate(p, r)
	if f := p.Fn("Agent.needsToCheckPriorityOnNominated"); r.Anchor("Agent.needsToCheckPriorityOnNominated", f != nil) {
		t := p.NewTable(f)
		t.Run()
		for _, sp := range t.Semantic(func(a *TAtom) (string, bool) {
			switch {
			case p.IsField(a.X, "Agent.lite"):
				return "lite", false
			case p.IsField(a.X, "Agent.enableUseCandidateCheckPriority"):
				return "enable", false
			}
			return "", false
		}) {
			if len(sp.Unclassified) > 0 {
				r.Fail("needsToCheckPriorityOnNominated", sp.EndPos, "depends on "+strings.Join(sp.Unclassified, ","))
				continue
			}
			want := sp.Vals["lite"] == "false" || sp.Vals["enable"] == "true"
			got := len(sp.Results) == 1 && sp.Results[0] == "true"
			r.Check(got == want, "needsToCheckPriorityOnNominated row "+rowKey(sp, "lite", "enable"), sp.EndPos, boolStr(want), "returns "+boolStr(got)+", expected "+boolStr(want))
		}
	}

	// ---- R3.6 lite never originates checks -----------------------------------------------------------
	r.Rule("R3.6", "A lite agent in the controlled role never originates Binding requests: the triggered check is guarded by !lite, and the lite selector's tick in the controlled role only validates the selected pair (no path to sendBindingRequest).", 3)
	if reqPaths != nil {
		bad := 0
		for _, sp := range reqPaths {
			if sp.Has("ping") && sp.Vals["lite"] != "false" {
				bad++
				r.Fail("controlled request: triggered check on a lite agent", sp.EndPos, "a triggered check is sent on "+sp.String()+" without the !lite guard")
			}
		}
		if bad == 0 {
			r.OK("controlled request: triggered check requires !lite", "selection.go", "every path with a triggered check decided lite=false")
		}
	}
	if f := p.Fn("liteSelector.ContactCandidates"); r.Anchor("liteSelector.ContactCandidates", f != nil) {
		t := p.NewTable(f)
		t.Event = func(n ast.Node, _ *TEnv) []string {
			var out []string
			for _, c := range p.NodeCalls(n) {
				switch p.CalleeName(c) {
				case "ice.pairCandidateSelector.ContactCandidates":
					out = append(out, "delegate")
				case "ice.Agent.validateSelectedPair":
					out = append(out, "validate")
				default:
					if nm := p.CalleeName(c); strings.HasPrefix(nm, "ice.") {
						out = append(out, nm)
					}
				}
			}
			return out
		}
		t.Run()
		for _, pa := range t.Paths {
			inner := ""
			for _, d := range pa.Hist {
				if d.Atom.Kind == "enum" && strings.HasPrefix(d.Val, "==") {
					inner = d.Val[2:]
				}
				// _, ok := s.pairCandidateSelector.(*T); ok
				if d.Atom.Kind == "bool" && d.Val == "true" {
					if id, ok := unparen(d.Atom.X).(*ast.Ident); ok {
						if o := p.ObjOf(id); o != nil {
							if def, ok := p.SingleDef(f, o); ok {
								if ta, ok := unparen(def.Rhs).(*ast.TypeAssertExpr); ok && ta.Type != nil {
									inner = typeStr(p.TypeOf(ta.Type))
								}
							}
						}
					}
				}
			}
			ev := strings.Join(pa.Events, ",")
			switch {
			case strings.Contains(inner, "controllingSelector"):
				r.Check(ev == "delegate", "lite tick, controlling inner selector", pa.EndPos, "falls back to the full controlling selector (both peers lite)", "does "+ev)
			case strings.Contains(inner, "controlledSelector"):
				r.Check(ev == "validate", "lite tick, controlled inner selector", pa.EndPos, "validates the selected pair only", "a lite controlled agent's tick does "+ev+": it must not contact candidates")
			default:
				r.Check(ev == "", "lite tick, other", pa.EndPos, "nothing", "does "+ev)
			}
		}
		if vs, sbr := p.Fn("Agent.validateSelectedPair"), p.Fn("Agent.sendBindingRequest"); vs != nil && sbr != nil {
			via := p.CG().Reachable([]*Func{vs}, func(e *CallEdge) bool { return !e.Go })
			_, reach := via[sbr]
			r.Check(!reach, "validateSelectedPair sends no checks", p.Pos(vs.Body.Pos()), "sendBindingRequest unreachable", "validateSelectedPair reaches sendBindingRequest: "+Chain(via, sbr))
		}
	}

	// ---- R3.7 the role test and the nomination send are one task ------------------------------------------
	r.Rule("R3.7", "Every send of a nomination request (USE-CANDIDATE) happens in a controlling selector's method or is dominated, inside the same task-loop function, by the test that the agent is controlling: the role cannot change between the test and the send.", 1)
	{
		ci := p.Contexts()
		n := 0
		for _, f := range p.AllFuncs {
			for _, c := range p.CallsTo(f, false, "ice.Agent.sendNominationRequest") {
				n++
				if strings.HasPrefix(f.Root().Name, "controllingSelector.") {
					r.OK("nomination sent by "+f.Name, p.Pos(c.Pos()), "controlling selector")
					continue
				}
				guarded := factListHas(p.DominatingFactList(f, c), func(ft Fact) bool {
					return ft.Op == "truth" && ft.Val && p.isMethodOnField(ft.X, "Agent.isControlling", "Load")
				})
				inLoop := ci.Has(f, CtxLoop) && !ci.Has(f, CtxAPI)
				r.Check(guarded && inLoop, "nomination sent by "+f.Name, p.Pos(c.Pos()), "isControlling tested in the same loop task", fmt.Sprintf("role tested in this function=%v, function runs only inside the task loop=%v: a role conflict handled between the test and the send lets a controlled agent emit USE-CANDIDATE", guarded, inLoop))
			}
		}
		if n == 0 {
			r.Fail("nomination senders", "", "no caller of sendNominationRequest found")
		}
	}
	// ---- R3.8 answers of an earlier session select nothing ------------------------------------------------
	r.Rule("R3.8", "The table of outstanding transactions is emptied on every path of the Restart task and of the Failed transition (shared with C01 R1.11): a late success response to a nomination sent before the restart finds no transaction, so it cannot mark a pair of the new session Succeeded and select it.", 2)
	checkPendingWipe(p, r)
	// ---- R3.10 the priorities compared are the RFC pair priorities ----------------------------------------------------
	r.Rule("R3.10", "The priority guard on re-selection compares CandidatePair.priority values, which are the RFC 8445 pair priority computed in 64 bits from the two candidate priorities (rule of C17 R17.4): a low word computed in 32 bits wraps for candidate priorities of 2^31 and above — which a peer may signal — and inverts the order the guard relies on.", 6)
	checkPairPriorityFormula(p, r)
	// ---- R3.9 a lite agent keeps its lite selector ------------------------------------------------------------
	r.Rule("R3.9", "The agent's selector is installed only by setSelector, whose table wraps the role's selector in the lite selector whenever the agent is lite (shared with C05 R5.4): a lite agent that switches role after a conflict still never originates Binding requests.", 2)
	checkSetSelectorTable(p, r)
}

// checkSwitchPredicate compares shouldSwitchSelectedPair with the specified
// table (shared by C03 R3.5 and C20 R20.2).
func checkSwitchPredicate(p *Prog, r *Report) {
	ssp := p.Fn("controlledSelector.shouldSwitchSelectedPair")
	if !r.Anchor("controlledSelector.shouldSwitchSelectedPair", ssp != nil) {
		return
	}
	pPair, pSel, pVal := p.paramObj(ssp, 0), p.paramObj(ssp, 1), p.paramObj(ssp, 2)
	isObj := func(e ast.Expr, o any) bool {
		id, ok := unparen(e).(*ast.Ident)
		return ok && p.ObjOf(id) == o
	}
	t := p.NewTable(ssp)
	t.Run()
	sem := t.Semantic(func(a *TAtom) (string, bool) {
		switch a.Kind {
		case "enum":
			if isObj(a.X, pSel) {
				return "selected", false
			}
			if isObj(a.X, pVal) {
				return "value", false
			}
		case "bool":
			if p.atomIsCall(ssp, a.X, "ice.Agent.needsToCheckPriorityOnNominated") {
				return "needs", false
			}
		case "ord":
			if (isObj(a.X, pPair) && isObj(a.Y, pSel)) || (isObj(a.Y, pPair) && isObj(a.X, pSel)) {
				return "same", false
			}
			prioOf := func(e ast.Expr) any {
				c, ok := unparen(e).(*ast.CallExpr)
				if !ok || p.CalleeName(c) != "ice.CandidatePair.priority" {
					return nil
				}
				sel, _ := unparen(c.Fun).(*ast.SelectorExpr)
				if sel == nil {
					return nil
				}
				if id, ok := unparen(sel.X).(*ast.Ident); ok {
					return p.ObjOf(id)
				}
				return nil
			}
			if prioOf(a.X) == pSel && prioOf(a.Y) == pPair {
				return "prio", false
			}
			if prioOf(a.X) == pPair && prioOf(a.Y) == pSel {
				return "prio", true
			}
		}
		return "", false
	})
	for _, sp := range sem {
		if len(sp.Unclassified) > 0 {
			r.Fail("shouldSwitchSelectedPair", sp.EndPos, "the switch decision depends on an unexpected condition "+stripVarLines(strings.Join(sp.Unclassified, ",")))
			continue
		}
		got := len(sp.Results) == 1 && sp.Results[0] == "true"
		for _, ord := range []string{"LT", "EQ", "GT"} {
			if m, ok := sp.Vals["prio"]; ok && !strings.Contains(m, ord) {
				continue
			}
			want := false
			switch {
			case sp.Vals["selected"] == "==nil":
				want = true
			case sp.Vals["same"] == "EQ":
				want = false
			case sp.Vals["value"] == "!=nil":
				want = true
			case sp.Vals["needs"] == "false":
				want = true
			case sp.Vals["prio"] != "":
				want = ord == "LT"
			default:
				r.Fail("shouldSwitchSelectedPair row "+sp.String(), sp.EndPos, "path decides without consulting the conditions of the specified table")
				continue
			}
			key := "shouldSwitchSelectedPair row sel" + sp.Vals["selected"] + " same=" + sp.Vals["same"] + " value" + sp.Vals["value"] + " needs=" + sp.Vals["needs"]
			if sp.Vals["prio"] != "" {
				key += " prio(selected,new)=" + ord
			}
			r.Check(got == want, key, sp.EndPos, "switch="+boolStr(want), "the code answers switch="+boolStr(got)+", the property requires "+boolStr(want))
			if sp.Vals["prio"] == "" {
				break
			}
		}
	}
}

// checkNominationValueProvenance: the *uint32 nomination value used by f is
// non-nil only as &nomination.Value under a successful decode of the agent's
// nomination attribute (a malformed attribute must not look like a value).
func checkNominationValueProvenance(p *Prog, r *Report, f *Func, consumer string) {
	for _, c := range p.CallsTo(f, false, consumer) {
		var arg ast.Expr
		for _, a := range c.Args {
			if t := p.TypeOf(a); t != nil && typeStr(t) == "*uint32" {
				arg = a
			}
		}
		id, ok := unparen(arg).(*ast.Ident)
		if !ok {
			r.Unknown(f.Name+": nomination value passed to "+consumer, p.Pos(c.Pos()), "value is not a local variable")
			continue
		}
		good, n := true, 0
		why := ""
		for _, d := range p.leafDefs(f, p.ObjOf(id), 0, map[types.Object]bool{}) {
			if d.Zero || d.Rhs == nil || p.isNilExpr(d.Rhs) {
				continue
			}
			n++
			u, ok := unparen(d.Rhs).(*ast.UnaryExpr)
			if !ok || u.Op.String() != "&" || !p.IsField(u.X, "NominationAttribute.Value") {
				good, why = false, "assigned from "+stripVarLines(p.Canon(d.Rhs))
				continue
			}
			facts, _ := p.FactsAtCall(f, d.Node)
			if _, dec := p.HasCallEqNil(facts, f, "ice.NominationAttribute.GetFromWithType", 0, true); !dec {
				good, why = false, "assigned without a successful decode of the attribute"
			}
		}
		r.Check(good && n > 0, f.Name+": nomination value handed to "+consumer[strings.LastIndex(consumer, ".")+1:]+" is a decoded value", p.Pos(c.Pos()),
			"non-nil only as &nomination.Value under GetFromWithType == nil", "the nomination value is "+why+": a malformed or absent attribute is treated as a nomination value (bypassing the priority check / the last-nomination filter)")
	}
}

// leafDefs: the definitions of a local followed through plain copies of other
// locals (x := y; a, b = c, d), so that a value handed through temporaries is
// traced to the expressions that produced it.
func (p *Prog) leafDefs(f *Func, o types.Object, depth int, seen map[types.Object]bool) []VarDef {
	if o == nil || seen[o] || depth > 5 {
		return nil
	}
	seen[o] = true
	var out []VarDef
	for _, d := range p.DefsOf(f, o) {
		if d.Rhs != nil && d.Index == 0 {
			if id, ok := unparen(d.Rhs).(*ast.Ident); ok {
				if v, isVar := p.ObjOf(id).(*types.Var); isVar && !v.IsField() && v.Pkg() != nil && v.Parent() != v.Pkg().Scope() {
					out = append(out, p.leafDefs(f, v, depth+1, seen)...)
					continue
				}
			}
		}
		out = append(out, d)
	}
	return out
}

// checkControlledDeferredTable: the decision table of the controlled agent's success-response
// handler (shared by C03 R3.1 and C20 R20.7).
func checkControlledDeferredTable(p *Prog, r *Report) {
	if _, sps := selPaths(p, r, "controlledSelector.HandleSuccessResponse"); sps != nil {
		n := 0
		for _, sp := range sps {
			reach := sp.Vals["txn"] == "true" && sp.Vals["symmetric"] == "true" && sp.Vals["pair"] == "!=nil"
			if sp.Has("state=Succeeded") && !reach {
				r.Fail("controlled success: validation gate", sp.EndPos, "pair marked Succeeded without transaction match and symmetry: "+sp.String())
			}
			if !reach {
				if sp.Has("select") {
					r.Fail("controlled success: select path", sp.EndPos, "selects without transaction match / symmetry / known pair")
				}
				continue
			}
			// pinned table of the deferred path (documented behaviour; the
			// nomination-value blindness is C20's known finding)
			want := false
			if sp.Vals["deferred"] == "true" {
				switch {
				case sp.Vals["selected"] == "==nil":
					want = true
				case sp.Vals["samePair"] == "EQ":
					want = false
				case sp.Vals["needsPrio"] == "false":
					want = true
				case sp.Vals["prio"] != "":
					want = !maskHas(sp.Vals["prio"], "GT")
				}
			}
			got := sp.Has("select")
			if got {
				n++
				st := evIndex(sp, "state=Succeeded")
				if st < 0 || st > evIndex(sp, "select") {
					r.Fail("controlled success: validated before selected", sp.EndPos, "selection precedes the Succeeded mark")
				}
			}
			r.Check(got == want, "controlled success row "+rowKey(sp, "deferred", "selected", "samePair", "needsPrio", "prio"), sp.EndPos, "select="+boolStr(want),
				"the code selects="+boolStr(got)+" here; documented: only a deferred nomination selects, never a lower-priority pair when priorities must be checked")
		}
		if n == 0 {
			r.Fail("controlled success: select path", "selection.go", "a deferred nomination is never applied")
		}
	}
}
