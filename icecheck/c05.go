package main

import (
	"fmt"
	"go/ast"
	"go/token"
	"sort"
	"strings"
)

func init() { register("C05", checkC05) }

// C05 Role conflicts resolve by tie-breaker into opposite roles.
func checkC05(p *Prog, r *Report) {
	hrc := p.Fn("Agent.handleRoleConflict")
	hir := p.Fn("Agent.handleInboundRequest")
	if hrc == nil && hir != nil {
		// under another name: the one function the request handler calls that can change the role flag
		var cands []*Func
		seen := map[*Func]bool{}
		for _, e := range p.CG().Out[hir] {
			if e.Callee != nil && e.Callee.Pkg == p.Ice && !e.Go && !seen[e.Callee] && p.WritesField(e.Callee, "Agent.isControlling") {
				seen[e.Callee] = true
				cands = append(cands, e.Callee)
			}
		}
		if len(cands) == 1 {
			hrc = cands[0]
		}
	}
	// ---- R5.6 a role switch ends the handling of the request (whatever the functions are called) ------------
	r.Rule("R5.6", "Wherever the role flag is switched while a request is being handled (in the function that does it, after inlining of new helpers), nothing that treats the request as a connectivity check can follow: no HandleBindingRequest, no success response, no selection after the switch.", 1)
	nSwitch := 0
	for _, f := range p.AllFuncs {
		if f.Pkg != p.Ice || f.Body == nil {
			continue
		}
		g := p.CFG(f)
		walkBody(f, func(n ast.Node) bool {
			c, ok := n.(*ast.CallExpr)
			if !ok || !p.isMethodOnField(c, "Agent.isControlling", "Store") {
				return true
			}
			// only switches (the stored value depends on the current one), not initialisation
			if !p.MentionsField(c.Args[0], "Agent.isControlling") {
				return true
			}
			nSwitch++
			loc, okL := g.Locate(c)
			if !okL {
				r.Unknown("role switch in "+f.Name, p.Pos(c.Pos()), "switch not located in the CFG")
				return true
			}
			bad := ""
			for _, nd := range g.NodesAfter(loc) {
				for _, c2 := range p.NodeCalls(nd) {
					switch nm := p.CalleeName(c2); nm {
					case "ice.pairCandidateSelector.HandleBindingRequest", "ice.Agent.sendBindingSuccess", "ice.Agent.setSelectedPair":
						bad = nm + " at " + p.Pos(c2.Pos())
					}
				}
			}
			r.Check(bad == "", "after a role switch in "+f.Name, p.Pos(c.Pos()), "no check processing follows", "after switching role the request continues into "+bad+": the conflicting request is answered and processed as a connectivity check by the agent that just changed role")
			return true
		})
	}
	if nSwitch == 0 {
		r.Fail("role switch", "agent.go", "no role switch found (rule instance lost)")
	}
	// ---- R5.8 the tie-breaker decides in one place ---------------------------------------------------------------
	r.Rule("R5.8", "The agent's tie-breaker is compared with a remote value only in the conflict handler, which runs after the request was authenticated; everywhere else it is only handed to the attribute builders of outgoing requests. No other code (a pre-filter for 'looped back' requests, a shortcut in the dispatcher) decides anything from the tie-breaker, so a genuine same-role peer with an equal or special tie-breaker still gets the RFC 8445 §7.3.1.1 treatment.", 1)
	{
		n := 0
		for _, f := range p.AllFuncs {
			if f.Pkg != p.Ice || f.Body == nil {
				continue
			}
			f := f
			walkBody(f, func(x ast.Node) bool {
				sel, ok := x.(*ast.SelectorExpr)
				if !ok || !p.IsField(sel, "Agent.tieBreaker") {
					return true
				}
				n++
				return true
			})
			// comparisons that involve the tie-breaker
			walkBody(f, func(x ast.Node) bool {
				be, ok := x.(*ast.BinaryExpr)
				if !ok {
					return true
				}
				switch be.Op {
				case token.EQL, token.NEQ, token.LSS, token.GTR, token.LEQ, token.GEQ:
				default:
					return true
				}
				if !p.MentionsField(be, "Agent.tieBreaker") {
					return true
				}
				okSite := hrc != nil && (f == hrc || f.Root() == hrc)
				r.Check(okSite, "tie-breaker compared in "+f.Name, p.Pos(be.Pos()), "only in the conflict handler", "the tie-breaker is compared in "+f.Name+", outside the conflict handler: requests are filtered or roles decided by the tie-breaker before authentication / outside the RFC table (for instance a same-role peer with an equal tie-breaker is silently dropped instead of answered with 487 or yielded to)")
				return true
			})
		}
		if n < 4 {
			r.Fail("uses of the tie-breaker", "agent.go", "fewer than 4 uses of Agent.tieBreaker found (rule instance lost)")
		}
	}

	// ---- R5.7 only the tie-breakers switch a role ---------------------------------------------------------
	r.Rule("R5.7", "A role switch (a store to the role flag whose value depends on the current flag) is decided by the tie-breakers: on every path to it the function has consulted the agent's tie-breaker. No other event — an error response, a timeout, a nomination — flips the role, so which agent ends up controlling depends on the two tie-breaker values and not on the order in which messages arrive.", 1)
	for _, f := range p.AllFuncs {
		if f.Pkg != p.Ice || f.Body == nil {
			continue
		}
		f := f
		walkBody(f, func(n ast.Node) bool {
			c, ok := n.(*ast.CallExpr)
			if !ok || !p.isMethodOnField(c, "Agent.isControlling", "Store") || !p.MentionsField(c.Args[0], "Agent.isControlling") {
				return true
			}
			decided := p.MustPrecede(f, c, func(nd ast.Node) bool {
				return p.MentionsField(nd, "Agent.tieBreaker")
			})
			r.Check(decided, "role switch in "+f.Name+" is decided by the tie-breakers", p.Pos(c.Pos()), "the agent's tie-breaker is consulted on every path to the switch", "the role is switched in "+f.Name+" without the tie-breakers having been compared: the final roles depend on message order (for instance a late 487 flips an agent that already switched back), not on the tie-breaker values")
			return true
		})
	}
	if !r.Anchor("Agent.handleRoleConflict", hrc != nil) || !r.Anchor("Agent.handleInboundRequest", hir != nil) {
		return
	}

	// ---- R5.1 decision table -------------------------------------------
	r.Rule("R5.1", "handleRoleConflict, as a decision table over {receiver is controlling, order(local tie-breaker, remote tie-breaker) in LT/EQ/GT}, is RFC 8445 §7.3.1.1: controlling∧(EQ|GT) and controlled∧LT reply 487 and keep the role; otherwise switch role and send nothing. The function touches the 64-bit values through comparisons only, so the 6 rows cover all 2^128 pairs.", 6)
	t := p.NewTable(hrc)
	t.Event = func(n ast.Node, _ *TEnv) []string {
		var out []string
		for _, c := range p.NodeCalls(n) {
			switch p.CalleeName(c) {
			case "ice.Agent.sendSTUN":
				out = append(out, "send")
			case "ice.Agent.sendBindingSuccess":
				out = append(out, "success-response")
			case "ice.Agent.setSelectedPair":
				out = append(out, "select")
			case "ice.Agent.setSelector":
				out = append(out, "setSelector")
			case "stun.Build":
				if p.MentionsObj(c, "stun.BindingError") && p.MentionsObj(c, "stun.CodeRoleConflict") {
					out = append(out, "build487")
				} else {
					out = append(out, "build-other")
				}
			}
			if p.isMethodOnField(c, "Agent.isControlling", "Store") && len(c.Args) == 1 {
				if x, ok := isNot(c.Args[0]); ok && p.isMethodOnField(x, "Agent.isControlling", "Load") {
					out = append(out, "flip-role")
				} else {
					out = append(out, "store-role(?)")
				}
			}
		}
		return out
	}
	t.Run()
	res := t.Compare(TableSpec{
		Vars: []SemVar{{"controlling", []string{"true", "false"}}, {"tb", []string{"LT", "EQ", "GT"}}, {"builderr", []string{"nil"}}},
		Classify: func(a *TAtom) (string, bool) {
			switch a.Kind {
			case "bool":
				if p.isMethodOnField(a.X, "Agent.isControlling", "Load") {
					return "controlling", false
				}
			case "ord":
				if p.IsField(a.X, "Agent.tieBreaker") && p.IsField(a.Y, "AttrControl.Tiebreaker") {
					return "tb", false
				}
				if p.IsField(a.Y, "Agent.tieBreaker") && p.IsField(a.X, "AttrControl.Tiebreaker") {
					return "tb", true
				}
			case "enum":
				if p.atomIsCall(hrc, a.X, "stun.Build") {
					return "builderr", false
				}
			}
			return "", false
		},
		Oracle: func(v map[string]string) string {
			ctrl := v["controlling"] == "true"
			if (ctrl && v["tb"] != "LT") || (!ctrl && v["tb"] == "LT") {
				return "build487,send"
			}
			return "flip-role,setSelector"
		},
		Outcome: func(pa *TPath) string { return strings.Join(pa.Events, ",") },
	})
	for _, s := range res.Samples {
		r.OK("handleRoleConflict row "+s, p.Pos(hrc.Body.Pos()), "matches RFC 8445 §7.3.1.1")
	}
	for _, m := range res.Mismatches {
		r.Fail("handleRoleConflict decision table", p.Pos(hrc.Body.Pos()), m)
	}
	r.Extra["R5.1_rows"] = res.Rows
	r.Extra["R5.1_paths"] = res.Paths
	r.Extra["R5.1_exhaustive_over"] = "all orderings of the two 64-bit tie-breakers x both roles (6 rows = 2^128 x 2 inputs)"

	// on the builder-failure rows nothing but the (failed) build may happen
	for _, pa := range t.Paths {
		for _, d := range pa.Hist {
			if d.Atom.Kind == "enum" && p.atomIsCall(hrc, d.Atom.X, "stun.Build") && d.Val == "!=nil" {
				ok := true
				for _, e := range pa.Events {
					if e != "build487" {
						ok = false
					}
				}
				r.Check(ok, "handleRoleConflict build-failure row", pa.EndPos, "only the failed build happens", "effects on the stun.Build failure path: "+strings.Join(pa.Events, ","))
			}
		}
	}

	// ---- R5.2 detection and no-check treatment -----------------------------
	r.Rule("R5.2", "In the request handler the conflict handler is reached only for an authenticated request whose control attribute decoded and carries the receiver's own role; after it the request is not treated as a check: the handler returns (nil,false) without HandleBindingRequest / sendBindingSuccess, and handleRoleConflict cannot reach a success response or a selection.", 4)
	calls := p.CallsTo(hir, false, "ice."+hrc.Name)
	if len(calls) == 0 {
		r.Fail("handleInboundRequest: call of handleRoleConflict", p.Pos(hir.Body.Pos()), "role conflicts are never handled")
	}
	for _, c := range calls {
		pos := p.Pos(c.Pos())
		facts, ok := p.FactsAtCall(hir, c)
		if !ok {
			r.Unknown("handleRoleConflict call site", pos, "call not found in CFG")
			continue
		}
		_, decoded := p.HasCallEqNil(facts, hir, "ice.AttrControl.GetFrom", 0, true)
		r.Check(decoded, "conflict test: control attribute decoded", pos, "guard AttrControl.GetFrom(msg) == nil holds", "handleRoleConflict reachable without a successfully decoded ICE-CONTROLLING/ICE-CONTROLLED attribute; facts: "+strings.Join(facts.Strings(), "; "))
		sameRole := facts.Has(func(f Fact) bool {
			if f.Op != "==" || !f.Val {
				return false
			}
			a, b := f.X, f.Y
			isRole := func(e ast.Expr) bool { return p.atomIsCall(hir, e, "ice.Agent.role") }
			return (p.IsField(a, "AttrControl.Role") && isRole(b)) || (p.IsField(b, "AttrControl.Role") && isRole(a))
		})
		r.Check(sameRole, "conflict test: same role", pos, "guard attr.Role == a.role() holds", "handleRoleConflict reachable without the test that the sender claims the receiver's own role")
		_, u := p.HasCallEqNil(facts, hir, "stun.AssertUsername", 0, true)
		_, m := p.HasCallEqNil(facts, hir, "stun.MessageIntegrity.Check", 0, true)
		r.Check(u && m, "conflict test: authenticated", pos, "username and integrity guards hold", "role conflict handled for an unauthenticated request")
		// no further guard: every authenticated same-role request is a conflict
		var extra []string
		for _, ft := range facts {
			switch {
			case ft.Op == "assigned" || ft.Op == "range" || ft.Op == "comm" || ft.Op == "default":
			case ft.Op == "==" && p.isNilExpr(ft.Y) && (p.atomIsCallAny(hir, ft.X, "ice.AttrControl.GetFrom", "stun.AssertUsername", "stun.MessageIntegrity.Check")):
			case ft.Op == "==" && (p.IsField(ft.X, "AttrControl.Role") || p.IsField(ft.Y, "AttrControl.Role")):
			case p.flagIsExactly(hir, ft):
				// a flag that is true exactly when facts listed here hold (e.g. the result of a boolean helper) adds nothing
			default:
				extra = append(extra, stripVarLines(ft.String()))
			}
		}
		sort.Strings(extra)
		r.Check(len(extra) == 0, "conflict test: no additional guard", pos, "the conflict handler is reached for every authenticated same-role request",
			"the conflict handler is additionally guarded by "+strings.Join(extra, "; ")+": same-role requests outside that condition are processed as ordinary connectivity checks")

		// what can run after the conflict handler inside the request handler
		loc, _ := p.CFG(hir).Locate(c)
		clean := true
		for _, n := range p.CFG(hir).NodesAfter(loc) {
			for _, c2 := range p.NodeCalls(n) {
				switch nm := p.CalleeName(c2); nm {
				case "ice.pairCandidateSelector.HandleBindingRequest", "ice.Agent.sendBindingSuccess", "ice.Agent.setSelectedPair":
					clean = false
					r.Fail("after handleRoleConflict", p.Pos(c2.Pos()), "the conflicting request continues into "+nm+": it is treated as a connectivity check")
				}
			}
			if rs, ok := n.(*ast.ReturnStmt); ok {
				if len(rs.Results) == 2 {
					if cv, _ := p.ConstVal(rs.Results[1]); cv != "false" || !p.isNilExpr(rs.Results[0]) {
						clean = false
						r.Fail("after handleRoleConflict", p.Pos(rs.Pos()), "returns "+p.Canon(rs.Results[0])+","+p.Canon(rs.Results[1])+" instead of (nil,false): the caller refreshes liveness / continues as for a valid check")
					}
				}
			}
		}
		if clean {
			r.OK("after handleRoleConflict", pos, "every continuation returns (nil,false) without reply or selector")
		}
	}
	// handleRoleConflict must not reach success responses / selection
	via := p.CG().Reachable([]*Func{hrc}, func(e *CallEdge) bool { return !e.Go })
	bad := false
	for _, name := range []string{"Agent.sendBindingSuccess", "Agent.setSelectedPair", "Agent.addPair"} {
		if f := p.Fn(name); f != nil {
			if _, ok := via[f]; ok {
				bad = true
				r.Fail("handleRoleConflict reaches "+name, p.Pos(hrc.Body.Pos()), Chain(via, f))
			}
		}
	}
	if !bad {
		r.OK("handleRoleConflict reaches no reply/selection", p.Pos(hrc.Body.Pos()), "call-graph closure checked")
	}

	// AttrControl.GetFrom maps the attribute to the role it names
	gf := p.Fn("AttrControl.GetFrom")
	if r.Anchor("AttrControl.GetFrom", gf != nil) {
		t2 := p.NewTable(gf)
		t2.Event = func(n ast.Node, env *TEnv) []string {
			var out []string
			if as, ok := n.(*ast.AssignStmt); ok && len(as.Lhs) == 1 && p.IsField(as.Lhs[0], "AttrControl.Role") {
				out = append(out, "Role="+env.ConstName(p, as.Rhs[0]))
			}
			for _, c := range p.NodeCalls(n) {
				if p.CalleeName(c) == "ice.tiebreaker.GetFromAs" && len(c.Args) == 2 {
					out = append(out, "decode("+env.ConstName(p, c.Args[1])+")")
				}
			}
			return out
		}
		t2.Run()
		res2 := t2.Compare(TableSpec{
			Vars: []SemVar{{"hasControlling", []string{"true", "false"}}, {"hasControlled", []string{"true", "false"}}},
			Classify: func(a *TAtom) (string, bool) {
				if c, ok := unparen(a.X).(*ast.CallExpr); ok && a.Kind == "bool" && p.CalleeName(c) == "stun.Message.Contains" && len(c.Args) == 1 {
					switch p.constName(c.Args[0]) {
					case "AttrICEControlling":
						return "hasControlling", false
					case "AttrICEControlled":
						return "hasControlled", false
					}
				}
				return "", false
			},
			Oracle: func(v map[string]string) string {
				switch {
				case v["hasControlling"] == "true":
					return "Role=Controlling,decode(AttrICEControlling)"
				case v["hasControlled"] == "true":
					return "Role=Controlled,decode(AttrICEControlled)"
				}
				return "->ErrAttributeNotFound"
			},
			Outcome: func(pa *TPath) string {
				if len(pa.Events) == 0 && len(pa.Results) == 1 {
					return "->" + pa.Results[0][strings.LastIndex(pa.Results[0], ".")+1:]
				}
				return strings.Join(pa.Events, ",")
			},
		})
		for _, s := range res2.Samples {
			r.OK("AttrControl.GetFrom row "+s, p.Pos(gf.Body.Pos()), "attribute maps to the role it names")
		}
		for _, m := range res2.Mismatches {
			r.Fail("AttrControl.GetFrom decision table", p.Pos(gf.Body.Pos()), m)
		}
	}

	// ---- R5.3 emitted role attribute follows the role --------------------
	r.Rule("R5.3", "Every Binding request builder of the controlling selector (and the nomination sender) carries ICE-CONTROLLING, every builder of the controlled selector carries ICE-CONTROLLED, both with the agent's own tie-breaker.", 4)
	for _, f := range p.AllFuncs {
		want := ""
		switch {
		case strings.HasPrefix(f.Name, "controllingSelector."), f.Name == "Agent.sendNominationRequest":
			want = "ice.AttrControlling"
		case strings.HasPrefix(f.Name, "controlledSelector."):
			want = "ice.AttrControlled"
		default:
			continue
		}
		if len(p.CallsTo(f, false, "stun.Build")) == 0 {
			continue
		}
		var got []string
		tbOK := true
		walkBody(f, func(n ast.Node) bool {
			if c, ok := n.(*ast.CallExpr); ok {
				switch ct := p.ConvTarget(c); ct {
				case "ice.AttrControlling", "ice.AttrControlled":
					got = append(got, ct)
					if len(c.Args) != 1 || !p.IsField(c.Args[0], "Agent.tieBreaker") {
						tbOK = false
					}
				}
			}
			return true
		})
		ok := len(got) == 1 && got[0] == want && tbOK
		r.Check(ok, "request builder "+f.Name, p.Pos(f.Body.Pos()), "carries "+want+"(agent tie-breaker)",
			"builder carries "+strings.Join(got, ",")+" (tie-breaker from Agent.tieBreaker: "+boolStr(tbOK)+"), expected exactly "+want)
	}

	// ---- R5.4 a role switch replaces the selector ---------------------------------------------------------
	r.Rule("R5.4", "setSelector installs, on every path, a freshly built selector whose kind follows the role flag (controlling -> controllingSelector, otherwise controlledSelector), wrapped for a lite agent, started before it is installed; nothing else decides which selector is used.", 1)
	checkSetSelectorTable(p, r)

	// ---- R5.5 the role flag is used only inside the loop ----
	r.Rule("R5.5", "The controlling/controlled flag is read and written only by code that runs inside the task loop or during construction: no exported entry point tests the role before queueing the task that depends on it.", 5)
	checkRoleFlagConfined(p, r)
}

func boolStr(b bool) string {
	if b {
		return "yes"
	}
	return "no"
}

// checkSetSelectorTable: setSelector's decision table and who may install a selector
// (C05 R5.4, shared with C03 R3.9).
func checkSetSelectorTable(p *Prog, r *Report) {
	if f := p.Fn("Agent.setSelector"); r.Anchor("Agent.setSelector", f != nil) {
		// the role flag read directly, or through a local / parameter temporary that holds its value
		isRoleLoad := func(e ast.Expr) bool {
			c, _, ok := p.ResolveCall(f, e)
			return ok && p.isMethodOnField(c, "Agent.isControlling", "Load")
		}
		t := p.NewTable(f)
		t.Event = func(n ast.Node, _ *TEnv) []string {
			var out []string
			ast.Inspect(n, func(x ast.Node) bool {
				if cl, ok := x.(*ast.CompositeLit); ok {
					switch typeStr(p.TypeOf(cl)) {
					case "ice.controllingSelector":
						out = append(out, "new:controlling")
					case "ice.controlledSelector":
						out = append(out, "new:controlled")
					case "ice.liteSelector":
						out = append(out, "wrap:lite")
					}
				}
				return true
			})
			for _, c := range p.NodeCalls(n) {
				if strings.HasSuffix(p.CalleeName(c), "pairCandidateSelector.Start") {
					out = append(out, "start")
				}
			}
			if as, ok := n.(*ast.AssignStmt); ok {
				for _, l := range as.Lhs {
					if p.IsField(l, "Agent.selector") {
						out = append(out, "install")
					}
				}
			}
			return out
		}
		t.Run()
		bad := ""
		for _, pa := range t.Paths {
			role, lite := "", ""
			for _, d := range pa.Hist {
				switch {
				case p.isMethodOnField(d.Atom.X, "Agent.isControlling", "Load") || isRoleLoad(d.Atom.X):
					role = d.Val
				case p.IsField(d.Atom.X, "Agent.lite"):
					lite = d.Val
				default:
					bad = "the selector choice depends on " + stripVarLines(d.Atom.Key)
				}
			}
			want := "new:controlled"
			if role == "true" {
				want = "new:controlling"
			}
			if lite == "true" {
				want += ",wrap:lite"
			}
			want += ",start,install"
			if got := strings.Join(pa.Events, ","); got != want || role == "" || lite == "" {
				bad = fmt.Sprintf("controlling=%s lite=%s does [%s], required [%s]", role, lite, got, want)
			}
		}
		r.Check(bad == "" && len(t.Paths) == 4, "setSelector decision table", p.Pos(f.Body.Pos()), "4 rows", bad+": after a lost tie-break the agent keeps behaving in its old role (wrong control attribute, nominations ignored)")
	}

	// nothing else installs a selector: a role switch goes through setSelector (and so through the lite wrapper)
	for f, nodes := range p.WritersOf("Agent.selector") {
		okW := f.Name == "Agent.setSelector" || f.Root().Name == "createAgentBase"
		r.Check(okW, "writer of Agent.selector: "+f.Name, p.Pos(nodes[0].Pos()), "setSelector only", "Agent.selector is installed in "+f.Name+", bypassing setSelector: a lite agent that switches role gets a bare selector without the lite wrapper and starts originating Binding requests")
	}
}
