package main

// Effect summaries: which struct fields a function may write / read,
// transitively over the call graph (synchronous edges only).

import (
	"go/ast"
	"go/token"
	"go/types"
	"sort"
	"strings"
)

type Effects struct {
	Writes, Reads   map[*types.Var]bool // direct
	WritesT, ReadsT map[*types.Var]bool // transitive
}

var syncWriteMethods = map[string]bool{"Store": true, "Add": true, "Swap": true, "CompareAndSwap": true,
	"Delete": true, "LoadOrStore": true, "LoadAndDelete": true, "Clear": true, "And": true, "Or": true,
	"CompareAndDelete": true}
var syncReadMethods = map[string]bool{"Load": true, "Range": true}

func isSyncPkg(path string) bool {
	return path == "sync" || path == "sync/atomic" || strings.HasSuffix(path, "/internal/atomic")
}

// baseField returns the field ultimately written when assigning to lhs
// (x.f, x.f[i], x.f.g -> f or g respectively, *x.f).
func (p *Prog) lhsFields(lhs ast.Expr) []*types.Var {
	lhs = unparen(lhs)
	switch x := lhs.(type) {
	case *ast.SelectorExpr:
		if f := p.FieldOf(x); f != nil {
			return []*types.Var{f}
		}
	case *ast.IndexExpr:
		return p.lhsFields(x.X)
	case *ast.StarExpr:
		return p.lhsFields(x.X)
	case *ast.SliceExpr:
		return p.lhsFields(x.X)
	}
	return nil
}

func (p *Prog) directEffects(f *Func) *Effects {
	e := &Effects{Writes: map[*types.Var]bool{}, Reads: map[*types.Var]bool{}}
	lhsSet := map[ast.Expr]bool{}
	walkBody(f, func(n ast.Node) bool {
		switch x := n.(type) {
		case *ast.AssignStmt:
			for _, l := range x.Lhs {
				for _, fv := range p.lhsFields(l) {
					e.Writes[fv] = true
				}
				if x.Tok == token.ASSIGN || x.Tok == token.DEFINE {
					lhsSet[unparen(l)] = true
				}
			}
		case *ast.IncDecStmt:
			for _, fv := range p.lhsFields(x.X) {
				e.Writes[fv] = true
			}
		case *ast.CallExpr:
			name := p.CalleeName(x)
			switch name {
			case "builtin.delete", "builtin.clear":
				if len(x.Args) > 0 {
					for _, fv := range p.lhsFields(x.Args[0]) {
						e.Writes[fv] = true
					}
				}
			case "builtin.copy":
				if len(x.Args) > 0 {
					for _, fv := range p.lhsFields(x.Args[0]) {
						e.Writes[fv] = true
					}
				}
			}
			if m := p.Callee(x); m != nil && m.Pkg() != nil && isSyncPkg(m.Pkg().Path()) {
				if sel, ok := unparen(x.Fun).(*ast.SelectorExpr); ok && p.Info.Selections[sel] != nil {
					// method on a sync-typed value: x.f.Store(...)
					if fv := p.FieldOf(sel.X); fv != nil {
						if syncWriteMethods[m.Name()] {
							e.Writes[fv] = true
						}
						if syncReadMethods[m.Name()] || syncWriteMethods[m.Name()] {
							e.Reads[fv] = true
						}
					}
				} else if len(x.Args) > 0 {
					// atomic.StoreInt64(&x.f, v)
					if u, ok := unparen(x.Args[0]).(*ast.UnaryExpr); ok && u.Op == token.AND {
						if fv := p.FieldOf(u.X); fv != nil {
							if strings.HasPrefix(m.Name(), "Load") {
								e.Reads[fv] = true
							} else {
								e.Writes[fv] = true
								e.Reads[fv] = true
							}
						}
					}
				}
			}
		case *ast.SelectorExpr:
			if fv := p.FieldOf(x); fv != nil && !lhsSet[x] {
				e.Reads[fv] = true
			}
		case *ast.UnaryExpr:
			if x.Op == token.ARROW {
				// channel receive from a field: a read
			}
		}
		return true
	})
	return e
}

// Effects returns the (transitively closed) effect summary of f.
func (p *Prog) Effects(f *Func) *Effects {
	if p.effects == nil {
		p.computeEffects()
	}
	return p.effects[f]
}

func (p *Prog) computeEffects() {
	g := p.CG()
	p.effects = map[*Func]*Effects{}
	for _, f := range p.AllFuncs {
		e := p.directEffects(f)
		e.WritesT = map[*types.Var]bool{}
		e.ReadsT = map[*types.Var]bool{}
		for k := range e.Writes {
			e.WritesT[k] = true
		}
		for k := range e.Reads {
			e.ReadsT[k] = true
		}
		p.effects[f] = e
	}
	for changed := true; changed; {
		changed = false
		for _, f := range p.AllFuncs {
			e := p.effects[f]
			for _, ce := range g.Out[f] {
				if ce.Go {
					continue
				}
				ce2 := p.effects[ce.Callee]
				for k := range ce2.WritesT {
					if !e.WritesT[k] {
						e.WritesT[k] = true
						changed = true
					}
				}
				for k := range ce2.ReadsT {
					if !e.ReadsT[k] {
						e.ReadsT[k] = true
						changed = true
					}
				}
			}
		}
	}
}

// CallWrites returns the fields that executing the call may write
// (callee bodies resolved through the call graph, plus function-literal and
// method-value arguments that the callee may invoke).
func (p *Prog) CallWrites(f *Func, call *ast.CallExpr) map[*types.Var]bool {
	out := map[*types.Var]bool{}
	g := p.CG()
	for _, ce := range g.Out[f] {
		if ce.Call != call || ce.Go {
			continue
		}
		for k := range p.Effects(ce.Callee).WritesT {
			out[k] = true
		}
	}
	// direct sync/atomic writes performed by the call expression itself
	if m := p.Callee(call); m != nil && m.Pkg() != nil && isSyncPkg(m.Pkg().Path()) {
		if sel, ok := unparen(call.Fun).(*ast.SelectorExpr); ok && p.Info.Selections[sel] != nil {
			if fv := p.FieldOf(sel.X); fv != nil && syncWriteMethods[m.Name()] {
				out[fv] = true
			}
		} else if len(call.Args) > 0 && !strings.HasPrefix(m.Name(), "Load") {
			if u, ok := unparen(call.Args[0]).(*ast.UnaryExpr); ok && u.Op == token.AND {
				if fv := p.FieldOf(u.X); fv != nil {
					out[fv] = true
				}
			}
		}
	}
	return out
}

// CallReads: fields a call's result may depend on.
func (p *Prog) CallReads(f *Func, call *ast.CallExpr) map[*types.Var]bool {
	out := map[*types.Var]bool{}
	for _, ce := range p.CG().Out[f] {
		if ce.Call != call || ce.Go {
			continue
		}
		for k := range p.Effects(ce.Callee).ReadsT {
			out[k] = true
		}
	}
	if m := p.Callee(call); m != nil && m.Pkg() != nil && isSyncPkg(m.Pkg().Path()) {
		if sel, ok := unparen(call.Fun).(*ast.SelectorExpr); ok {
			if fv := p.FieldOf(sel.X); fv != nil {
				out[fv] = true
			}
		}
	}
	return out
}

func (p *Prog) fieldSetNames(m map[*types.Var]bool) []string {
	var out []string
	for k := range m {
		out = append(out, p.FieldName(k))
	}
	sort.Strings(out)
	return out
}

// WritesField reports whether f may (transitively) write "Struct.field".
func (p *Prog) WritesField(f *Func, name string) bool {
	for k := range p.Effects(f).WritesT {
		if p.FieldName(k) == name {
			return true
		}
	}
	return false
}
