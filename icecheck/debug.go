package main

import (
	"fmt"
	"go/ast"
	"os"
	"strings"
)

// debugFacts prints the must-facts before every call in a function
// (development aid: ICECHECK_DEBUG=facts:<Func>).
func init() {
	register("_debug", func(p *Prog, r *Report) {
		spec := os.Getenv("ICECHECK_DEBUG")
		switch {
		case strings.HasPrefix(spec, "facts:"):
			f := p.Fn(strings.TrimPrefix(spec, "facts:"))
			if f == nil {
				fmt.Println("no such func")
				return
			}
			fa := p.Facts(f)
			walkBody(f, func(n ast.Node) bool {
				if c, ok := n.(*ast.CallExpr); ok {
					s, _ := fa.AtNode(c)
					fmt.Printf("%s %s\n    %s\n", p.Pos(c.Pos()), short(p.Canon(c), 90), strings.Join(s.Strings(), "\n    "))
				}
				return true
			})
		case strings.HasPrefix(spec, "own:"):
			// own:<file-substring> — acquisition roots and their outcomes
			sub := strings.TrimPrefix(spec, "own:")
			var fs []*Func
			for _, f := range p.AllFuncs {
				if f.Body != nil && strings.Contains(p.Pos(f.Body.Pos()), sub) {
					fs = append(fs, f)
				}
			}
			o := p.NewOwn()
			c09Assumptions(o)
			for _, rt := range o.Roots(fs, nil) {
				o.Run(rt)
				fmt.Printf("%s  %s  [%s]\n", p.Pos(rt.Node.Pos()), rt.Desc(), rt.Key)
				for _, x := range rt.Outs {
					fmt.Printf("      %-9s err=%-6s %s  @%s\n", x.Kind, x.Err, x.Why, x.Pos)
				}
			}
			fmt.Println("states:", o.States, "undecided:", o.Undecided)
		case strings.HasPrefix(spec, "table:"):
			f := p.Fn(strings.TrimPrefix(spec, "table:"))
			t := p.NewTable(f)
			t.Event = func(n ast.Node, _ *TEnv) []string {
				var out []string
				for _, c := range p.NodeCalls(n) {
					out = append(out, p.CalleeName(c))
				}
				return out
			}
			t.Run()
			for _, pa := range t.Paths {
				fmt.Println(strings.Join(pa.HistKeys(), " ; "), " ==> ", pa.Outcome())
			}
			fmt.Println(t.Problems)
		case strings.HasPrefix(spec, "sem:"):
			f := p.Fn(strings.TrimPrefix(spec, "sem:"))
			t := p.NewTable(f)
			t.Event = selectorEvents(p, f)
			t.Run()
			for _, sp := range t.Semantic(classifySelectorAtom(p, f)) {
				fmt.Println(sp.String(), " UNCLASSIFIED:", sp.Unclassified)
			}
			fmt.Println(len(t.Paths), "paths", t.Problems)
		case strings.HasPrefix(spec, "cfg:"):
			f := p.Fn(strings.TrimPrefix(spec, "cfg:"))
			g := p.CFG(f)
			for _, b := range g.Blocks {
				fmt.Printf("b%d %s\n", b.ID, b.Kind)
				for _, n := range b.Nodes {
					fmt.Printf("    %s %T\n", p.Pos(n.Pos()), n)
				}
				for _, e := range b.Succs {
					c := ""
					if e.Cond != nil {
						c = fmt.Sprintf(" [%s %v]", e.Cond.Op, e.Val)
					}
					fmt.Printf("    -> b%d%s\n", e.To.ID, c)
				}
			}
		case strings.HasPrefix(spec, "callers:"):
			f := p.Fn(strings.TrimPrefix(spec, "callers:"))
			for _, e := range p.Callers(f) {
				fmt.Printf("%s %s kind=%s go=%v via=%s\n", e.Caller.Name, p.Pos(e.Site.Pos()), e.Kind, e.Go, e.Via)
			}
		case strings.HasPrefix(spec, "callees:"):
			f := p.Fn(strings.TrimPrefix(spec, "callees:"))
			for _, e := range p.CG().Out[f] {
				fmt.Printf("%s %s kind=%s go=%v via=%s\n", e.Callee.Name, p.Pos(e.Site.Pos()), e.Kind, e.Go, e.Via)
			}
		case spec == "funcs":
			for _, f := range p.AllFuncs {
				fmt.Println(f.Name)
			}
		}
	})
}
