package main

// Linear forms: an arithmetic expression is folded into sum(coeff * term)
// with constant folding only ((1<<24)*x, x<<24 and x*16777216 are the same
// form). Conversions are transparent but their target widths are recorded so
// that rules can require widening before a multiplication.

import (
	"fmt"
	"go/ast"
	"go/constant"
	"go/token"
	"go/types"
	"math/big"
	"sort"
	"strings"
)

type LinForm struct {
	Terms map[string]*big.Int // canonical term -> coefficient ("" = constant term)
	Exprs map[string]ast.Expr
	OK    bool
	Why   string
}

func (l *LinForm) String() string {
	var ks []string
	for k := range l.Terms {
		ks = append(ks, k)
	}
	sort.Strings(ks)
	var out []string
	for _, k := range ks {
		if l.Terms[k].Sign() == 0 {
			continue
		}
		if k == "" {
			out = append(out, l.Terms[k].String())
		} else {
			out = append(out, l.Terms[k].String()+"*"+k)
		}
	}
	return strings.Join(out, " + ")
}

func (p *Prog) constBig(e ast.Expr) (*big.Int, bool) {
	tv, ok := p.Info.Types[e]
	if !ok || tv.Value == nil {
		return nil, false
	}
	v := constant.ToInt(tv.Value)
	if v.Kind() != constant.Int {
		return nil, false
	}
	b, ok := new(big.Int).SetString(v.ExactString(), 10)
	return b, ok
}

// Linear folds e. termKey renders a non-arithmetic leaf (default: Canon).
func (p *Prog) Linear(e ast.Expr, termKey func(ast.Expr) string) *LinForm {
	l := &LinForm{Terms: map[string]*big.Int{}, Exprs: map[string]ast.Expr{}, OK: true}
	if termKey == nil {
		termKey = p.Canon
	}
	var walk func(e ast.Expr, coeff *big.Int)
	depth := 0
	add := func(k string, c *big.Int, e ast.Expr) {
		if l.Terms[k] == nil {
			l.Terms[k] = new(big.Int)
		}
		l.Terms[k].Add(l.Terms[k], c)
		if e != nil {
			l.Exprs[k] = e
		}
	}
	walk = func(e ast.Expr, coeff *big.Int) {
		e = unparen(e)
		if c, ok := p.constBig(e); ok {
			add("", new(big.Int).Mul(coeff, c), nil)
			return
		}
		switch x := e.(type) {
		case *ast.BinaryExpr:
			switch x.Op {
			case token.ADD:
				walk(x.X, coeff)
				walk(x.Y, coeff)
				return
			case token.SUB:
				walk(x.X, coeff)
				walk(x.Y, new(big.Int).Neg(coeff))
				return
			case token.MUL:
				if c, ok := p.constBig(x.X); ok {
					walk(x.Y, new(big.Int).Mul(coeff, c))
					return
				}
				if c, ok := p.constBig(x.Y); ok {
					walk(x.X, new(big.Int).Mul(coeff, c))
					return
				}
			case token.SHL:
				if c, ok := p.constBig(x.Y); ok && c.IsInt64() && c.Int64() < 128 {
					walk(x.X, new(big.Int).Mul(coeff, new(big.Int).Lsh(big.NewInt(1), uint(c.Int64()))))
					return
				}
			}
			l.OK = false
			l.Why = fmt.Sprintf("non-linear operator %s in %s", x.Op, p.Canon(x))
			return
		case *ast.CallExpr:
			if tv, ok := p.Info.Types[x.Fun]; ok && tv.IsType() && len(x.Args) == 1 {
				// conversion: transparent
				walk(x.Args[0], coeff)
				return
			}
		case *ast.Ident:
			// a local defined once stands for its defining expression (named intermediates)
			if v, ok := p.ObjOf(x).(*types.Var); ok && !v.IsField() && v.Pkg() != nil && v.Parent() != v.Pkg().Scope() && depth < 6 {
				if fn := p.enclosingFunc(x.Pos()); fn != nil && fn.Root().Body != nil && v.Pos() >= fn.Root().Body.Pos() {
					if d, okD := p.SingleDef(fn, v); okD && d.Rhs != nil && d.Index == 0 {
						if _, isCall := unparen(d.Rhs).(*ast.CallExpr); !isCall || isConversion(p, d.Rhs) {
							depth++
							walk(d.Rhs, coeff)
							depth--
							return
						}
					}
				}
			}
		}
		add(termKey(e), coeff, e)
	}
	walk(e, big.NewInt(1))
	return l
}

// isUnsigned reports whether t is an unsigned integer type.
func isUnsigned(t types.Type) bool {
	if t == nil {
		return false
	}
	b, ok := t.Underlying().(*types.Basic)
	return ok && b.Info()&types.IsUnsigned != 0
}

func bitSize(t types.Type) int {
	if t == nil {
		return 0
	}
	b, ok := t.Underlying().(*types.Basic)
	if !ok {
		return 0
	}
	switch b.Kind() {
	case types.Uint8, types.Int8:
		return 8
	case types.Uint16, types.Int16:
		return 16
	case types.Uint32, types.Int32:
		return 32
	case types.Uint64, types.Int64, types.Uint, types.Int, types.Uintptr:
		return 64
	}
	return 0
}

func isConversion(p *Prog, e ast.Expr) bool {
	c, ok := unparen(e).(*ast.CallExpr)
	if !ok {
		return false
	}
	tv, ok := p.Info.Types[c.Fun]
	return ok && tv.IsType()
}
