package main

func init() {
	addMutants(
		Mutant{ID: "C16-marshal-rerender-address", Prop: "C16", File: "candidate_base.go",
			Old: "		removeZoneIDFromAddress(c.Address()),", New: "		net.ParseIP(removeZoneIDFromAddress(c.Address())).String(),",
			Expect: "R16.3", Note: "Marshal writes the canonical spelling of the literal, Address() keeps the original"},
		Mutant{ID: "C16-unmarshal-lowercase-address", Prop: "C16", File: "candidate_base.go",
			Old: "	address = removeZoneIDFromAddress(address)\n", New: "	address = strings.ToLower(removeZoneIDFromAddress(address))\n",
			Expect: "R16.3", Note: "Unmarshal normalises the case of the address token"},
		Mutant{ID: "C16-benign-zone-cut-index", Prop: "C16", File: "candidate_base.go", Benign: true,
			Old: "	if before, _, ok := strings.Cut(addr, \"%\"); ok {\n		return before\n	}\n\n	return addr", New: "	if i := strings.IndexByte(addr, '%'); i >= 0 {\n		return addr[:i]\n	}\n\n	return addr",
			Note: "zone cut by slicing"},
		Mutant{ID: "C14-shortbuffer-keeps-reading", Prop: "C14", File: "tcp_packet_conn.go",
			Old: "		n, err := readStreamingPacket(conn, buf)\n		if err != nil {\n			t.params.Logger.Warnf(\"Failed to read streaming packet: %s\", err)", New: "		n, err := readStreamingPacket(conn, buf)\n		if errors.Is(err, io.ErrShortBuffer) {\n			continue\n		}\n		if err != nil {\n			t.params.Logger.Warnf(\"Failed to read streaming packet: %s\", err)",
			Expect: "R14.5", Note: "oversized frame skipped by errors.Is test: body bytes are parsed as frames"},
		Mutant{ID: "C08-buffered-wait-before-conn-close", Prop: "C08", File: "tcp_packet_conn.go",
			Old: "	err := bc.Conn.Close()\n	// Closing the buffer and the connection unblocks the writer; wait for it so\n	// that no goroutine outlives Close.\n	<-bc.done\n\n	return err", New: "	<-bc.done\n\n	return bc.Conn.Close()",
			Expect: "R8.2", Note: "Close waits for the writer before closing the connection the writer may be blocked on: the loop hangs in deleteAllCandidates"},
		Mutant{ID: "C16-raddr-needs-port", Prop: "C16", File: "candidate_base.go",
			Old: "	if r := c.RelatedAddress(); r != nil && r.Address != \"\" {", New: "	if r := c.RelatedAddress(); r != nil && r.Address != \"\" && r.Port != 0 {",
			Expect: "R16.4", Note: "the F18 defect re-introduced: hidden related address 0.0.0.0:0 is dropped"},
		Mutant{ID: "C16-raddr-not-loopback", Prop: "C16", File: "candidate_base.go",
			Old: "	if r := c.RelatedAddress(); r != nil && r.Address != \"\" {", New: "	if r := c.RelatedAddress(); r != nil && r.Address != \"\" && r.Port < 65536 {",
			Expect: "R16.4", Note: "another veto on writing the related address"},
		Mutant{ID: "C16-marshal-drops-priority", Prop: "C16", File: "candidate_base.go",
			Old: "		c.Priority(),\n		removeZoneIDFromAddress(c.Address()),", New: "		uint32(0),\n		removeZoneIDFromAddress(c.Address()),",
			Expect: "R16.5", Note: "priority not written"},
		Mutant{ID: "C16-extensions-skip-empty-value", Prop: "C16", File: "candidate_base.go",
			Old: "	for i := range exts {\n		if value != \"\" {\n			value += \" \"\n		}\n", New: "	for i := range exts {\n		if exts[i].Value == \"\" {\n			continue\n		}\n		if value != \"\" {\n			value += \" \"\n		}\n",
			Expect: "R16.5", Note: "extensions with an empty value are dropped"},
	)
}
