package main

// Loader and program index: resolves every function, method and function
// literal of the analysed packages through go/types, so that rules name
// constructs by resolved object and never by text position.

import (
	"fmt"
	"go/ast"
	"go/token"
	"go/types"
	"os"
	"path/filepath"
	"sort"
	"strings"

	"golang.org/x/tools/go/packages"
	"golang.org/x/tools/go/types/typeutil"
)

const icePath = "github.com/pion/ice/v4"

// Func is one analysable function body: a declared function/method or a
// function literal (closure).
type Func struct {
	Name   string // e.g. "Agent.updateConnectionState", "taskloop.Loop.Run", "Agent.Restart$1"
	Obj    *types.Func
	Decl   *ast.FuncDecl
	Lit    *ast.FuncLit
	Body   *ast.BlockStmt
	Type   *ast.FuncType
	Pkg    *packages.Package
	Parent *Func // enclosing function for literals
	Lits   []*Func
	cfg    *CFG
}

func (f *Func) String() string { return f.Name }

// Root returns the outermost declared function containing f.
func (f *Func) Root() *Func {
	for f.Parent != nil {
		f = f.Parent
	}
	return f
}

// Prog is the loaded, type-checked program.
type Prog struct {
	srcCache         map[string][]byte
	synthIdent       map[*ast.Ident]bool // identifiers created by the normaliser (no source text of their own)
	verbatimVisiting map[types.Object]bool
	Fset             *token.FileSet
	Pkgs             []*packages.Package // root packages (non-test)
	Ice              *packages.Package
	Info             *types.Info // merged over root packages
	Funcs            map[string]*Func
	ByObj            map[*types.Func]*Func
	ByLit            map[*ast.FuncLit]*Func
	AllFuncs         []*Func // deterministic order
	Files            map[*ast.File]*packages.Package
	RepoDir          string
	Config           string // build configuration label
	NumPkgsInClosure int
	Overlay          map[string][]byte // file contents the program was loaded with instead of the files on disk
	InlineNotes      []string          // what the helper inliner did (inline.go)
	Normalized       int               // spellings mapped to the engines' form at load time (normalize.go)

	// lazily built
	cg         *CallGraph
	effects    map[*Func]*Effects
	defs       map[*Func]map[types.Object][]ast.Node
	ifaceUsed  map[*types.TypeName]bool
	synthNil   *ast.Ident
	synthRange map[*ast.RangeStmt]bool // range statements synthesised by normalizeAST
}

// Load type-checks ./... of dir. overlay maps absolute file names to
// replacement contents (used by the checker self-validation only).
func Load(dir string, env []string, overlay map[string][]byte, patterns ...string) (*Prog, error) {
	if len(patterns) == 0 {
		patterns = []string{"./..."}
	}
	cfg := &packages.Config{
		Mode: packages.NeedName | packages.NeedFiles | packages.NeedCompiledGoFiles |
			packages.NeedImports | packages.NeedDeps | packages.NeedTypes |
			packages.NeedSyntax | packages.NeedTypesInfo | packages.NeedTypesSizes | packages.NeedModule,
		Dir:     dir,
		Env:     append(os.Environ(), env...),
		Tests:   false,
		Overlay: overlay,
	}
	pkgs, err := packages.Load(cfg, patterns...)
	if err != nil {
		return nil, fmt.Errorf("load: %w", err)
	}
	if len(pkgs) == 0 {
		return nil, fmt.Errorf("load: no packages matched in %s", dir)
	}
	p := &Prog{
		Funcs: map[string]*Func{}, ByObj: map[*types.Func]*Func{}, ByLit: map[*ast.FuncLit]*Func{},
		Files: map[*ast.File]*packages.Package{}, RepoDir: dir, Overlay: overlay,
		Info: &types.Info{
			Types: map[ast.Expr]types.TypeAndValue{}, Defs: map[*ast.Ident]types.Object{},
			Uses: map[*ast.Ident]types.Object{}, Selections: map[*ast.SelectorExpr]*types.Selection{},
			Implicits: map[ast.Node]types.Object{}, Scopes: map[ast.Node]*types.Scope{},
			Instances: map[*ast.Ident]types.Instance{},
		},
	}
	sort.Slice(pkgs, func(i, j int) bool { return pkgs[i].PkgPath < pkgs[j].PkgPath })
	var errs []string
	seen := map[string]bool{}
	packages.Visit(pkgs, nil, func(pk *packages.Package) { seen[pk.PkgPath] = true })
	p.NumPkgsInClosure = len(seen)
	for _, pk := range pkgs {
		if !strings.HasPrefix(pk.PkgPath, icePath) {
			continue
		}
		for _, e := range pk.Errors {
			// an in-memory transformation (helper inlining) may remove the last use of an import: that is
			// not an error of the program under analysis, and the type information is complete all the same
			if overlay != nil && strings.Contains(e.Msg, "imported") && strings.Contains(e.Msg, "not used") {
				continue
			}
			errs = append(errs, e.Error())
		}
		if pk.TypesInfo == nil || pk.Types == nil {
			errs = append(errs, "no type information for "+pk.PkgPath)
			continue
		}
		p.Pkgs = append(p.Pkgs, pk)
		if pk.PkgPath == icePath {
			p.Ice = pk
		}
		p.Fset = pk.Fset
		for k, v := range pk.TypesInfo.Types {
			p.Info.Types[k] = v
		}
		for k, v := range pk.TypesInfo.Defs {
			p.Info.Defs[k] = v
		}
		for k, v := range pk.TypesInfo.Uses {
			p.Info.Uses[k] = v
		}
		for k, v := range pk.TypesInfo.Selections {
			p.Info.Selections[k] = v
		}
		for k, v := range pk.TypesInfo.Implicits {
			p.Info.Implicits[k] = v
		}
		for k, v := range pk.TypesInfo.Scopes {
			p.Info.Scopes[k] = v
		}
		for k, v := range pk.TypesInfo.Instances {
			p.Info.Instances[k] = v
		}
	}
	if len(errs) > 0 {
		return nil, fmt.Errorf("type-check errors (%d): %s", len(errs), strings.Join(errs[:min(len(errs), 5)], "; "))
	}
	if p.Ice == nil {
		return nil, fmt.Errorf("package %s not found among %d packages", icePath, len(pkgs))
	}
	for _, pk := range p.Pkgs {
		for _, f := range pk.Syntax {
			p.Files[f] = pk
		}
	}
	p.Normalized = p.normalizeAST()
	for _, pk := range p.Pkgs {
		for _, f := range pk.Syntax {
			p.indexFile(pk, f)
		}
	}
	sort.Slice(p.AllFuncs, func(i, j int) bool { return p.AllFuncs[i].Name < p.AllFuncs[j].Name })
	return p, nil
}

func (p *Prog) pkgPrefix(pk *packages.Package) string {
	if pk.PkgPath == icePath {
		return ""
	}
	return pk.Name + "."
}

func (p *Prog) indexFile(pk *packages.Package, file *ast.File) {
	for _, d := range file.Decls {
		fd, ok := d.(*ast.FuncDecl)
		if !ok || fd.Body == nil {
			continue
		}
		obj, _ := p.Info.Defs[fd.Name].(*types.Func)
		name := p.pkgPrefix(pk)
		if fd.Recv != nil && len(fd.Recv.List) > 0 {
			name += recvTypeName(fd.Recv.List[0].Type) + "."
		}
		name += fd.Name.Name
		fn := &Func{Name: name, Obj: obj, Decl: fd, Body: fd.Body, Type: fd.Type, Pkg: pk}
		p.addFunc(fn)
		p.indexLits(fn, fd.Body)
	}
	// function literals in package-level var initialisers
	for _, d := range file.Decls {
		gd, ok := d.(*ast.GenDecl)
		if !ok {
			continue
		}
		for _, s := range gd.Specs {
			vs, ok := s.(*ast.ValueSpec)
			if !ok {
				continue
			}
			for i, v := range vs.Values {
				nm := "_"
				if i < len(vs.Names) {
					nm = vs.Names[i].Name
				}
				holder := &Func{Name: p.pkgPrefix(pk) + "var:" + nm, Pkg: pk}
				p.indexLits(holder, v)
			}
		}
	}
}

func (p *Prog) addFunc(fn *Func) {
	if _, dup := p.Funcs[fn.Name]; dup {
		// methods of generic or same-named types in different files: disambiguate
		for i := 2; ; i++ {
			n := fmt.Sprintf("%s#%d", fn.Name, i)
			if _, ok := p.Funcs[n]; !ok {
				fn.Name = n
				break
			}
		}
	}
	p.Funcs[fn.Name] = fn
	if fn.Obj != nil {
		p.ByObj[fn.Obj] = fn
	}
	if fn.Lit != nil {
		p.ByLit[fn.Lit] = fn
	}
	p.AllFuncs = append(p.AllFuncs, fn)
}

// indexLits registers the function literals directly nested in n (not those
// nested in deeper literals, which are registered recursively).
func (p *Prog) indexLits(parent *Func, n ast.Node) {
	if n == nil {
		return
	}
	ast.Inspect(n, func(x ast.Node) bool {
		lit, ok := x.(*ast.FuncLit)
		if !ok {
			return true
		}
		fn := &Func{
			Name: fmt.Sprintf("%s$%d", parent.Name, len(parent.Lits)+1),
			Lit:  lit, Body: lit.Body, Type: lit.Type, Pkg: parent.Pkg,
		}
		if parent.Body != nil {
			fn.Parent = parent
		}
		parent.Lits = append(parent.Lits, fn)
		p.addFunc(fn)
		p.indexLits(fn, lit.Body)
		return false
	})
}

func recvTypeName(e ast.Expr) string {
	switch t := e.(type) {
	case *ast.StarExpr:
		return recvTypeName(t.X)
	case *ast.Ident:
		return t.Name
	case *ast.IndexExpr:
		return recvTypeName(t.X)
	case *ast.IndexListExpr:
		return recvTypeName(t.X)
	case *ast.ParenExpr:
		return recvTypeName(t.X)
	}
	return "?"
}

// Fn returns the named function or nil.
func (p *Prog) Fn(name string) *Func { return p.Funcs[name] }

// Pos renders a position relative to the repository root.
func (p *Prog) Pos(pos token.Pos) string {
	if !pos.IsValid() {
		return "-"
	}
	ps := p.Fset.Position(pos)
	rel, err := filepath.Rel(p.RepoDir, ps.Filename)
	if err != nil || strings.HasPrefix(rel, "..") {
		rel = ps.Filename
	}
	return fmt.Sprintf("%s:%d", rel, ps.Line)
}

func (p *Prog) TypeOf(e ast.Expr) types.Type {
	if tv, ok := p.Info.Types[e]; ok {
		return tv.Type
	}
	if id, ok := e.(*ast.Ident); ok {
		if o := p.ObjOf(id); o != nil {
			return o.Type()
		}
	}
	return nil
}

func (p *Prog) ObjOf(id *ast.Ident) types.Object {
	if o := p.Info.Uses[id]; o != nil {
		return o
	}
	return p.Info.Defs[id]
}

// Callee resolves the static callee (function, method, or interface method)
// of a call, or nil for calls through function values and conversions.
func (p *Prog) Callee(call *ast.CallExpr) *types.Func {
	if f, ok := typeutil.Callee(p.Info, call).(*types.Func); ok {
		return f
	}
	return nil
}

// CalleeName returns a stable qualified name for the callee:
// "pkgpath.Func", "pkgpath.Type.Method" (pointer-ness dropped) or "".
func (p *Prog) CalleeName(call *ast.CallExpr) string {
	return objQualName(typeutil.Callee(p.Info, call))
}

func objQualName(o types.Object) string {
	switch f := o.(type) {
	case *types.Func:
		sig, _ := f.Type().(*types.Signature)
		pk := ""
		if f.Pkg() != nil {
			pk = shortPkg(f.Pkg().Path())
		}
		if sig != nil && sig.Recv() != nil {
			return pk + "." + typeBaseName(sig.Recv().Type()) + "." + f.Name()
		}
		return pk + "." + f.Name()
	case *types.Builtin:
		return "builtin." + f.Name()
	case *types.Var:
		if f.Pkg() != nil && f.Parent() == f.Pkg().Scope() {
			return shortPkg(f.Pkg().Path()) + "." + f.Name()
		}
	case *types.Const:
		if f.Pkg() != nil {
			return shortPkg(f.Pkg().Path()) + "." + f.Name()
		}
	}
	return ""
}

// shortPkg maps a package path to the short name used in rule tables.
func shortPkg(path string) string {
	switch {
	case path == icePath:
		return "ice"
	case strings.HasPrefix(path, icePath+"/internal/"):
		return strings.TrimPrefix(path, icePath+"/internal/")
	case strings.HasPrefix(path, "github.com/pion/"):
		s := strings.TrimPrefix(path, "github.com/pion/")
		parts := strings.Split(s, "/")
		// stun/v3 -> stun ; transport/v4/packetio -> packetio
		last := parts[len(parts)-1]
		if len(last) >= 2 && last[0] == 'v' && last[1] >= '0' && last[1] <= '9' && len(parts) >= 2 {
			last = parts[len(parts)-2]
		}
		return last
	}
	return path
}

func typeBaseName(t types.Type) string {
	for {
		switch x := t.(type) {
		case *types.Pointer:
			t = x.Elem()
			continue
		case *types.Named:
			return x.Obj().Name()
		case *types.Alias:
			return x.Obj().Name()
		}
		return t.String()
	}
}

// namedOf strips pointers and returns the named type, if any.
func namedOf(t types.Type) *types.Named {
	for {
		switch x := t.(type) {
		case *types.Pointer:
			t = x.Elem()
			continue
		case *types.Alias:
			t = types.Unalias(x)
			continue
		case *types.Named:
			return x
		}
		return nil
	}
}

// FieldOf returns the struct field selected by e (x.f), or nil.
func (p *Prog) FieldOf(e ast.Expr) *types.Var {
	e = unparen(e)
	sel, ok := e.(*ast.SelectorExpr)
	if !ok {
		return nil
	}
	if s := p.Info.Selections[sel]; s != nil && s.Kind() == types.FieldVal {
		if v, ok := s.Obj().(*types.Var); ok {
			return v
		}
	}
	return nil
}

// FieldName renders a field as "Struct.field" using the struct that declares it.
func (p *Prog) FieldName(v *types.Var) string {
	if v == nil {
		return ""
	}
	if s, ok := p.fieldOwner()[v]; ok {
		return s + "." + v.Name()
	}
	return "?." + v.Name()
}

var fieldOwnerCache map[*Prog]map[*types.Var]string

func (p *Prog) fieldOwner() map[*types.Var]string {
	if fieldOwnerCache == nil {
		fieldOwnerCache = map[*Prog]map[*types.Var]string{}
	}
	if m, ok := fieldOwnerCache[p]; ok {
		return m
	}
	m := map[*types.Var]string{}
	for _, pk := range p.Pkgs {
		sc := pk.Types.Scope()
		for _, n := range sc.Names() {
			tn, ok := sc.Lookup(n).(*types.TypeName)
			if !ok {
				continue
			}
			st, ok := tn.Type().Underlying().(*types.Struct)
			if !ok {
				continue
			}
			pre := p.pkgPrefix(pk)
			for i := 0; i < st.NumFields(); i++ {
				m[st.Field(i)] = pre + tn.Name()
			}
		}
	}
	fieldOwnerCache[p] = m
	return m
}

// IsField reports whether e selects the field "Struct.field".
func (p *Prog) IsField(e ast.Expr, name string) bool {
	v := p.FieldOf(e)
	return v != nil && p.FieldName(v) == name
}

// StructType returns the named struct type of the ice package (or "pkg.T").
func (p *Prog) StructType(name string) (*types.Named, *types.Struct) {
	pk := p.Ice
	if i := strings.Index(name, "."); i >= 0 {
		for _, q := range p.Pkgs {
			if q.Name == name[:i] {
				pk = q
			}
		}
		name = name[i+1:]
	}
	tn, ok := pk.Types.Scope().Lookup(name).(*types.TypeName)
	if !ok {
		return nil, nil
	}
	n, _ := tn.Type().(*types.Named)
	st, _ := tn.Type().Underlying().(*types.Struct)
	return n, st
}

func unparen(e ast.Expr) ast.Expr {
	for {
		pe, ok := e.(*ast.ParenExpr)
		if !ok {
			return e
		}
		e = pe.X
	}
}

// ConstVal returns the constant value of e as a string, if e is constant.
func (p *Prog) ConstVal(e ast.Expr) (string, bool) {
	if tv, ok := p.Info.Types[e]; ok && tv.Value != nil {
		return tv.Value.ExactString(), true
	}
	return "", false
}

// EnclosingFunc finds the innermost Func whose body contains pos.
func (p *Prog) EnclosingFunc(pos token.Pos) *Func {
	var best *Func
	for _, f := range p.AllFuncs {
		if f.Body == nil || pos < f.Body.Pos() || pos >= f.Body.End() {
			continue
		}
		if best == nil || (f.Body.Pos() >= best.Body.Pos() && f.Body.End() <= best.Body.End()) {
			best = f
		}
	}
	return best
}

// walkBody visits the nodes of f's own body, not descending into nested
// function literals (they are Funcs of their own).
func walkBody(f *Func, visit func(n ast.Node) bool) {
	if f.Body == nil {
		return
	}
	ast.Inspect(f.Body, func(n ast.Node) bool {
		if n == nil {
			return true
		}
		if lit, ok := n.(*ast.FuncLit); ok && lit != f.Lit {
			return false
		}
		return visit(n)
	})
}

// CallsIn lists the call expressions in f's own body (optionally including
// nested literals) whose callee name satisfies match.
func (p *Prog) CallsIn(f *Func, deep bool, match func(name string, call *ast.CallExpr) bool) []*ast.CallExpr {
	var out []*ast.CallExpr
	var rec func(g *Func)
	rec = func(g *Func) {
		walkBody(g, func(n ast.Node) bool {
			if c, ok := n.(*ast.CallExpr); ok {
				if match(p.CalleeName(c), c) {
					out = append(out, c)
				}
			}
			return true
		})
		if deep {
			for _, l := range g.Lits {
				rec(l)
			}
		}
	}
	rec(f)
	return out
}

func (p *Prog) CallsTo(f *Func, deep bool, names ...string) []*ast.CallExpr {
	return p.CallsIn(f, deep, func(n string, _ *ast.CallExpr) bool {
		for _, x := range names {
			if n == x {
				return true
			}
		}
		return false
	})
}
