package main

import (
	"fmt"
	"go/ast"
	"go/token"
	"go/types"
	"strings"
)

func init() { register("C11", checkC11) }

const notifierMu = "handlerNotifier.(embedded mutex)"

type streamSummary struct {
	name           string
	enq, drain     *Func
	queue, running *types.Var
	handler        *types.Var
	problems       []string
	protocol       []string
}

func (p *Prog) summarizeStream(enq *Func) *streamSummary {
	s := &streamSummary{name: enq.Name, enq: enq}
	add := func(f string, a ...any) { s.problems = append(s.problems, fmt.Sprintf(f, a...)) }
	if len(enq.Lits) != 1 {
		add("expected exactly one drainer closure, found %d", len(enq.Lits))
		return s
	}
	s.drain = enq.Lits[0]
	// queue: the field appended to in the enqueue function
	walkBody(enq, func(n ast.Node) bool {
		if as, ok := n.(*ast.AssignStmt); ok && len(as.Lhs) == 1 && len(as.Rhs) == 1 {
			if c, ok := unparen(as.Rhs[0]).(*ast.CallExpr); ok && p.CalleeName(c) == "builtin.append" {
				if fv := p.FieldOf(as.Lhs[0]); fv != nil {
					s.queue = fv
				}
			}
			if fv := p.FieldOf(as.Lhs[0]); fv != nil && p.constName(as.Rhs[0]) == "true" {
				s.running = fv
			}
		}
		return true
	})
	walkBody(s.drain, func(n ast.Node) bool {
		if c, ok := n.(*ast.CallExpr); ok {
			if fv := p.FieldOf(c.Fun); fv != nil && isFuncType(fv.Type()) {
				s.handler = fv
			}
		}
		return true
	})
	if s.queue == nil || s.running == nil || s.handler == nil {
		add("could not identify queue/running/handler fields")
		return s
	}
	q, run := "handlerNotifier."+s.queue.Name(), "handlerNotifier."+s.running.Name()

	// ---- enqueue side ----
	le := p.Locks(enq)
	var appendNode, goNode ast.Node
	walkBody(enq, func(n ast.Node) bool {
		switch x := n.(type) {
		case *ast.AssignStmt:
			if len(x.Lhs) == 1 && p.IsField(x.Lhs[0], q) {
				appendNode = x
				c := unparen(x.Rhs[0]).(*ast.CallExpr)
				if len(c.Args) != 2 || !p.IsField(c.Args[0], q) {
					add("enqueue does not append at the tail of its own queue")
				} else if id, ok := unparen(c.Args[1]).(*ast.Ident); !ok || p.ObjOf(id) != p.paramObj(enq, 0) {
					add("enqueue appends something other than the event it was given")
				}
			}
		case *ast.GoStmt:
			goNode = x
		}
		return true
	})
	if appendNode == nil || goNode == nil {
		add("append or go statement missing")
		return s
	}
	if !le.At(appendNode)[notifierMu] {
		add("queue appended without the notifier mutex")
	}
	if !le.At(goNode)[notifierMu] {
		add("drainer started outside the critical section that set the running flag")
	}
	if !le.deferred[notifierMu] {
		add("enqueue does not hold the mutex until it returns (no deferred unlock)")
	}
	// done test dominates the append
	doneTested := false
	for _, ft := range p.DominatingFacts(enq, appendNode) {
		if ft.Op == "default" {
			if sel, ok := ft.Stmt.(*ast.SelectStmt); ok {
				for _, cl := range sel.Body.List {
					cc := cl.(*ast.CommClause)
					if es, ok := cc.Comm.(*ast.ExprStmt); ok {
						if u, ok := unparen(es.X).(*ast.UnaryExpr); ok && p.IsField(u.X, "handlerNotifier.done") {
							for _, st := range cc.Body {
								if _, isRet := st.(*ast.ReturnStmt); isRet {
									doneTested = le.At(cc.Comm)[notifierMu]
								}
							}
						}
					}
				}
			}
		}
	}
	if !doneTested {
		add("events are appended without first testing (under the mutex) that the notifier is not closed")
	}
	// go notify() dominated by !running; running=true and Add(1) precede it in that branch
	notRunning := false
	for _, ft := range p.DominatingFacts(enq, goNode) {
		if ft.Op == "truth" && !ft.Val && p.IsField(ft.X, run) {
			notRunning = true
		}
	}
	if !notRunning {
		add("a drainer is started without testing that none is running")
	}
	setTrue, added := false, false
	walkBody(enq, func(n ast.Node) bool {
		switch x := n.(type) {
		case *ast.AssignStmt:
			if len(x.Lhs) == 1 && p.IsField(x.Lhs[0], run) && p.constName(x.Rhs[0]) == "true" && x.Pos() < goNode.Pos() {
				for _, ft := range p.DominatingFacts(enq, x) {
					if ft.Op == "truth" && !ft.Val && p.IsField(ft.X, run) {
						setTrue = true
					}
				}
			}
		case *ast.CallExpr:
			if p.CalleeName(x) == "sync.WaitGroup.Add" && p.MentionsField(x, "handlerNotifier.notifiers") && x.Pos() < goNode.Pos() {
				if c, _ := p.ConstVal(x.Args[0]); c == "1" {
					added = true
				}
			}
		}
		return true
	})
	if !setTrue {
		add("the running flag is not set before the drainer starts")
	}
	if !added {
		add("the drainer is not added to the notifiers WaitGroup before it starts")
	}
	if g, ok := goNode.(*ast.GoStmt); ok {
		tg := p.funcValueTargets(p.CG(), enq, g.Call.Fun, 0)
		if len(tg) != 1 || tg[0] != s.drain {
			add("the go statement does not start this stream's drainer")
		}
	}
	// the append precedes the start test (so the new event is seen by the drainer)
	if appendNode.Pos() > goNode.Pos() {
		add("the event is appended after the drainer was started")
	}

	// ---- drainer side ----
	ld := p.Locks(s.drain)
	if len(s.drain.Body.List) == 0 {
		add("empty drainer")
		return s
	}
	if d, ok := s.drain.Body.List[0].(*ast.DeferStmt); !ok || p.CalleeName(d.Call) != "sync.WaitGroup.Done" || !p.MentionsField(d.Call, "handlerNotifier.notifiers") {
		add("drainer does not start with defer notifiers.Done()")
	}
	popHead, reslice, handlerUnlocked, clearOK := false, false, false, false
	walkBody(s.drain, func(n ast.Node) bool {
		switch x := n.(type) {
		case *ast.AssignStmt:
			if len(x.Lhs) != 1 || len(x.Rhs) != 1 {
				return true
			}
			if ix, ok := unparen(x.Rhs[0]).(*ast.IndexExpr); ok && p.IsField(ix.X, q) {
				if c, _ := p.ConstVal(ix.Index); c == "0" && ld.At(x)[notifierMu] {
					popHead = true
				} else {
					add("dequeue does not take the head of the queue under the mutex")
				}
			}
			if p.IsField(x.Lhs[0], q) {
				// the new queue value, through a named intermediate if there is one (read under the same mutex)
				rhs, defLocked := unparen(x.Rhs[0]), true
				if id, isID := rhs.(*ast.Ident); isID {
					if d, okd := p.SingleDef(s.drain, p.ObjOf(id)); okd && d.Rhs != nil && d.Index == 0 {
						rhs, defLocked = unparen(d.Rhs), ld.At(d.Node)[notifierMu]
					}
				}
				if sl, ok := rhs.(*ast.SliceExpr); ok && p.IsField(sl.X, q) && sl.High == nil {
					if c, _ := p.ConstVal(sl.Low); c == "1" && ld.At(x)[notifierMu] && defLocked {
						reslice = true
					}
				}
				if !reslice {
					add("queue is not advanced by exactly one element under the mutex")
				}
			}
			if p.IsField(x.Lhs[0], run) {
				if p.constName(x.Rhs[0]) != "false" || !ld.At(x)[notifierMu] {
					add("running flag written in the drainer other than 'false under the mutex'")
					return true
				}
				empty := false
				for _, ft := range p.DominatingFacts(s.drain, x) {
					if ft.Op == "==" && ft.Val && p.constName(ft.Y) == "0" {
						if c, ok := unparen(ft.X).(*ast.CallExpr); ok && p.CalleeName(c) == "builtin.len" && p.IsField(c.Args[0], q) {
							empty = true
						}
					}
				}
				// followed by return
				loc, _ := p.CFG(s.drain).Locate(x)
				returns := true
				for _, nn := range p.CFG(s.drain).NodesAfter(loc) {
					if c2, ok := nn.(*ast.ExprStmt); ok {
						if call, ok := c2.X.(*ast.CallExpr); ok && p.FieldOf(call.Fun) == s.handler {
							_ = call
						}
					}
				}
				clearOK = empty && returns
				if !empty {
					add("the running flag is cleared although the queue may be non-empty (events stranded / second drainer)")
				}
			}
		case *ast.CallExpr:
			if fv := p.FieldOf(x.Fun); fv == s.handler {
				if ld.At(x)[notifierMu] {
					add("the application handler is invoked with the notifier mutex held (a handler that calls back into the agent deadlocks)")
				} else {
					handlerUnlocked = true
				}
				// the argument is the popped element
				if len(x.Args) != 1 {
					add("handler arity")
				}
			}
		case *ast.GoStmt:
			add("drainer starts a goroutine per event: handlers can run concurrently")
		}
		return true
	})
	if !popHead {
		add("dequeue does not take index 0")
	}
	if !reslice {
		add("queue not re-sliced from 1")
	}
	if !handlerUnlocked {
		add("handler not invoked outside the mutex")
	}
	if !clearOK {
		add("running flag not cleared under an empty-queue test")
	}
	// running=false only in the drainer
	for f := range p.WritersOf(run) {
		if f != enq && f != s.drain {
			add("running flag written in %s", f.Name)
		}
	}
	for f := range p.WritersOf(q) {
		if f != enq && f != s.drain {
			add("queue written in %s", f.Name)
		}
	}
	s.protocol = []string{fmt.Sprintf("append@tail=%v doneTest=%v startIfNotRunning=%v setRunning=%v wgAdd=%v popHead=%v reslice=%v handlerUnlocked=%v clearOnEmpty=%v",
		appendNode != nil, doneTested, notRunning, setTrue, added, popHead, reslice, handlerUnlocked, clearOK)}
	return s
}

func checkC11(p *Prog, r *Report) {
	streams := []string{"handlerNotifier.EnqueueConnectionState", "handlerNotifier.EnqueueCandidate", "handlerNotifier.EnqueueSelectedCandidatePair"}
	r.Rule("R11.1", "Per callback stream: the queue and the running flag are touched only with the notifier mutex held, events are appended at the tail only after testing (under the mutex) that the notifier is not closed, a drainer is started only if none is running, after setting the flag and registering in the WaitGroup, in the same critical section; the drainer takes the head, advances the queue by one, releases the mutex and only then calls the application handler; it clears the flag only under an empty-queue test and returns; nothing else writes queue or flag.", 3)
	var sums []*streamSummary
	for _, name := range streams {
		f := p.Fn(name)
		if !r.Anchor(name, f != nil) {
			continue
		}
		s := p.summarizeStream(f)
		sums = append(sums, s)
		r.Check(len(s.problems) == 0, "stream "+name, p.Pos(f.Body.Pos()), strings.Join(s.protocol, " "), strings.Join(dedupStrings(s.problems), "; "))
	}
	r.Rule("R11.5", "The three callback streams implement the same protocol (sibling agreement).", 1)
	if len(sums) == 3 {
		same := strings.Join(sums[0].protocol, "") == strings.Join(sums[1].protocol, "") && strings.Join(sums[1].protocol, "") == strings.Join(sums[2].protocol, "")
		// the three use distinct fields
		distinct := sums[0].queue != sums[1].queue && sums[1].queue != sums[2].queue && sums[0].running != sums[1].running && sums[1].running != sums[2].running &&
			sums[0].handler != sums[1].handler && sums[1].handler != sums[2].handler
		r.Check(same && distinct, "sibling streams agree", "agent_handlers.go", "identical protocol summaries over three distinct queue/flag/handler triples", "the three streams differ in protocol or share a queue/flag/handler field")
	}
	// handler wiring
	r.Rule("R11.2", "Each notifier is constructed with the matching agent callback trampoline, and each enqueue entry point is reached only with the matching notifier.", 3)
	if f := p.Fn("newAgentWithConfig"); r.Anchor("newAgentWithConfig", f != nil) {
		want := map[string]string{"connectionStateFunc": "onConnectionStateChange", "candidateFunc": "onCandidate", "candidatePairFunc": "onSelectedCandidatePairChange"}
		got := map[string]string{}
		walkBody(f, func(n ast.Node) bool {
			if kv, ok := n.(*ast.KeyValueExpr); ok {
				if id, ok := kv.Key.(*ast.Ident); ok {
					if _, w := want[id.Name]; w {
						if sel, ok := unparen(kv.Value).(*ast.SelectorExpr); ok {
							got[id.Name] = sel.Sel.Name
						}
					}
				}
			}
			return true
		})
		for k, w := range want {
			r.Check(got[k] == w, "notifier wiring "+k, p.Pos(f.Body.Pos()), w, "notifier field "+k+" is wired to "+got[k]+" instead of "+w)
		}
	}

	// ---- R11.4 close ------------------------------------------------------------------------
	r.Rule("R11.4", "Closing a notifier closes its done channel once, under the mutex; a graceful close waits for the drainers on every path (also after an earlier plain close); GracefulClose is the graceful and Close the plain mode.", 3)
	if f := p.Fn("handlerNotifier.Close"); r.Anchor("handlerNotifier.Close", f != nil) {
		n := 0
		for _, c := range p.CallsTo(f, false, "builtin.close") {
			if p.IsField(c.Args[0], "handlerNotifier.done") {
				n++
				held := p.Locks(f).At(c)[notifierMu]
				// idempotent: dominated by the default branch of a select on done
				idem := false
				for _, ft := range p.DominatingFacts(f, c) {
					if ft.Op == "default" {
						idem = true
					}
				}
				r.Check(held && idem, "notifier Close: close(done) once, under the mutex", p.Pos(c.Pos()), "guarded by select{case <-done: return; default:} with the mutex held", fmt.Sprintf("close(done) with mutex held=%v, guarded against double close=%v", held, idem))
			}
		}
		if n == 0 {
			r.Fail("notifier Close: close(done)", p.Pos(f.Body.Pos()), "the done channel is never closed: events keep being delivered after Close")
		}
		// the mutex is released on every path
		g := p.CFG(f)
		la := p.Locks(f)
		leak := false
		for _, b := range g.Blocks {
			for _, nd := range b.Nodes {
				if rs, ok := nd.(*ast.ReturnStmt); ok && la.At(rs)[notifierMu] && !la.deferred[notifierMu] {
					leak = true
				}
			}
		}
		r.Check(!leak, "notifier Close: mutex released on every return", p.Pos(f.Body.Pos()), "no return with the mutex held", "Close returns with the notifier mutex held")
	}
	checkNotifierGracefulWait(p, r)

	// ---- R11.6 the nil candidate --------------------------------------------------------------
	r.Rule("R11.6", "The nil (end-of-candidates) event has exactly one source, taken only by a live gathering cycle on its Gathering->Complete edge; the cycle reaches it only after all its gatherers were waited for; every candidate event of a gathering cycle is preceded by stamping the cycle's ufrag and guarded by the location-tracking filter.", 5)
	checkCandidateEventSources(p, r, true)
	checkGatherCycleControl(p, r)
	if f := p.Fn("Agent.gatherCandidates"); r.Anchor("Agent.gatherCandidates", f != nil) {
		var seq []string
		async := map[*ast.CallExpr]bool{}
		walkBody(f, func(n ast.Node) bool {
			if g, ok := n.(*ast.GoStmt); ok {
				async[g.Call] = true
			}
			return true
		})
		walkBody(f, func(n ast.Node) bool {
			if c, ok := n.(*ast.CallExpr); ok {
				switch p.CalleeName(c) {
				case "ice.Agent.setGatheringState":
					seq = append(seq, "state:"+strings.TrimPrefix(p.constName(p.argOfType(f, c, "ice.GatheringState")), "GatheringState"))
				case "ice.Agent.gatherCandidatesInternal":
					if async[c] {
						seq = append(seq, "gather(async)")
					} else {
						seq = append(seq, "gather")
					}
				}
			}
			return true
		})
		r.Check(strings.Join(seq, ",") == "state:Gathering,gather,state:Complete", "gather cycle: Gathering, gather, Complete", p.Pos(f.Body.Pos()), strings.Join(seq, ","), "the cycle does ["+strings.Join(seq, ",")+"]: Complete (and the nil candidate) must follow the return of gatherCandidatesInternal")
		// the cycle stops when Gathering was not applied
		stops := false
		for _, c := range p.CallsTo(f, false, "ice.Agent.gatherCandidatesInternal") {
			facts, _ := p.FactsAtCall(f, c)
			if _, ok := p.HasCallTruth(facts, f, "ice.Agent.setGatheringState", 0, true); ok {
				stops = true
			}
		}
		r.Check(stops, "gather cycle: a cancelled cycle gathers nothing", p.Pos(f.Body.Pos()), "gatherCandidatesInternal dominated by 'Gathering applied'", "a cycle cancelled before it started still gathers and publishes candidates")
	}
	if f := p.Fn("Agent.gatherCandidatesInternal"); r.Anchor("Agent.gatherCandidatesInternal", f != nil) {
		// wg.Wait() is the last statement; every go is preceded by wg.Add(1) and ends with wg.Done()
		last := f.Body.List[len(f.Body.List)-1]
		waitLast := false
		if es, ok := last.(*ast.ExprStmt); ok {
			if c, ok := es.X.(*ast.CallExpr); ok && p.CalleeName(c) == "sync.WaitGroup.Wait" {
				waitLast = true
			}
		}
		r.Check(waitLast, "gatherCandidatesInternal waits for all its gatherers", p.Pos(f.Body.Pos()), "wg.Wait() last", "the cycle returns (and reports Complete) before its gatherers finished: candidates can follow the nil candidate")
		nGo, nAdd := 0, 0
		count := func(g *Func) {
			walkBody(g, func(n ast.Node) bool {
				switch x := n.(type) {
				case *ast.GoStmt:
					nGo++
					if lit, ok := unparen(x.Call.Fun).(*ast.FuncLit); ok {
						done := false
						ast.Inspect(lit.Body, func(y ast.Node) bool {
							if c, ok := y.(*ast.CallExpr); ok && p.CalleeName(c) == "sync.WaitGroup.Done" {
								done = true
							}
							return true
						})
						if !done {
							r.Fail("gatherer goroutine tracked", p.Pos(x.Pos()), "a gatherer goroutine does not call wg.Done()")
						}
					}
				case *ast.CallExpr:
					if p.CalleeName(x) == "sync.WaitGroup.Add" {
						nAdd++
					}
				}
				return true
			})
		}
		count(f)
		if g := p.Fn("Agent.gatherServerReflexiveCandidates"); g != nil {
			count(g)
		}
		r.Check(nGo == nAdd && nGo >= 4, "gatherer goroutines are all added to the WaitGroup", p.Pos(f.Body.Pos()), fmt.Sprintf("%d go statements, %d wg.Add", nGo, nAdd), fmt.Sprintf("%d gatherer goroutines but %d wg.Add calls", nGo, nAdd))
	}
	_ = token.ADD

	// ---- R11.7 the cycle waits for everything it started ---------------------------------------------------
	r.Rule("R11.7", "Every gatherer that starts goroutines under a local WaitGroup waits for them on every exit: the Wait is deferred, or every path from an Add to a return passes it — so the cycle reaches Complete (and emits the end-of-candidates event) only after all its candidates (shared with C08 / C09).", 3)
	checkWaitGroupsAwaited(p, r, "Agent.gather")
}

// checkGatherCycleControl: shared by C11 (R11.6) and C18 (R18.3).
func checkGatherCycleControl(p *Prog, r *Report) {
	checkCycleHandleWriters(p, r)
	f := p.Fn("Agent.GatherCandidates$1")
	if !r.Anchor("GatherCandidates task", f != nil) {
		return
	}
	var goStmt *ast.GoStmt
	walkBody(f, func(n ast.Node) bool {
		if g, ok := n.(*ast.GoStmt); ok && p.CalleeName(g.Call) == "ice.Agent.gatherCandidates" {
			goStmt = g
		}
		return true
	})
	if goStmt == nil {
		r.Fail("GatherCandidates starts a cycle", p.Pos(f.Body.Pos()), "no gather goroutine is started")
		return
	}
	facts, _ := p.FactsAtCall(f, goStmt)
	isNew := p.hasFieldEq(facts, "Agent.gatheringState", "GatheringStateNew", true)
	handler := facts.Has(func(ft Fact) bool {
		return ft.Op == "==" && !ft.Val && p.isNilExpr(ft.Y) && p.isMethodOnField(ft.X, "Agent.onCandidateHdlr", "Load")
	})
	r.Check(isNew, "GatherCandidates: refused unless the state is New", p.Pos(goStmt.Pos()), "cycle start dominated by gatheringState == New", "a gathering cycle can be started although the state has left New: overlapping cycles, a second nil candidate")
	r.Check(handler, "GatherCandidates: requires an OnCandidate handler", p.Pos(goStmt.Pos()), "dominated by onCandidateHdlr != nil", "gathering starts without a candidate handler")
	cancelled := p.precededBy(f, goStmt.Pos(), func(c *ast.CallExpr) bool { return p.IsField(c.Fun, "Agent.gatherCandidateCancel") })
	r.Check(cancelled, "GatherCandidates: previous cycle cancelled first", p.Pos(goStmt.Pos()), "a.gatherCandidateCancel() before the new cycle", "a new cycle is started without cancelling the previous gathering routine: a cycle that was accepted but has not yet marked Gathering keeps running alongside the new one (two candidate sets, candidates after the nil candidate)")
	// the new cycle's cancel and done are recorded, and its context is the cancellable one
	rec := map[string]bool{}
	walkBody(f, func(n ast.Node) bool {
		if as, ok := n.(*ast.AssignStmt); ok && len(as.Lhs) == 1 {
			switch {
			case p.IsField(as.Lhs[0], "Agent.gatherCandidateCancel"):
				// the cancel function returned by the context.WithCancel whose context the goroutine runs under
				if id, ok := unparen(as.Rhs[0]).(*ast.Ident); ok {
					if o := p.ObjOf(id); o != nil {
						if d, okD := p.SingleDef(f, o); okD && d.Rhs != nil && d.Index == 1 {
							if c, okC := unparen(d.Rhs).(*ast.CallExpr); okC && p.CalleeName(c) == "context.WithCancel" {
								rec["cancel"] = true
							}
						}
					}
				}
			case p.IsField(as.Lhs[0], "Agent.gatherCandidateDone"):
				rec["done"] = true
			}
		}
		return true
	})
	ctxOK := false
	if len(goStmt.Call.Args) == 2 {
		if c, _, ok := p.ResolveCall(f, goStmt.Call.Args[0]); ok && p.CalleeName(c) == "context.WithCancel" {
			ctxOK = true
		}
		if p.Canon(goStmt.Call.Args[1]) != "" {
			for _, d := range p.DefsOf(f, p.ObjOf(unparen(goStmt.Call.Args[1]).(*ast.Ident))) {
				_ = d
			}
		}
	}
	// a cancelled cycle contributes nothing: what keeps it out is the re-check inside the task (submitting the
	// task under the cycle's context is not enough — taskloop.Run may accept it after the cancellation, F21 —
	// and not necessary either)
	checkCycleTasksRecheck(p, r)
	r.Check(rec["cancel"] && rec["done"] && ctxOK, "GatherCandidates: cycle handle recorded", p.Pos(goStmt.Pos()), "cancel func and done channel stored; goroutine runs under the cancellable context", "the new cycle's cancel function / done channel are not recorded or the goroutine does not run under the cancellable context: Restart and Close cannot stop or await it")
}

// checkCandidateEventSources: the sources of candidate events. The nil
// (end-of-candidates) part is shared by C11 R11.6 and C18 R18.9; the part on
// non-nil events (ufrag stamped, location filter) is C11's only.
func checkCandidateEventSources(p *Prog, r *Report, nonNil bool) {
	nNil, nNonNil := 0, 0
	for _, f := range p.AllFuncs {
		for _, c := range p.CallsTo(f, false, "ice.handlerNotifier.EnqueueCandidate") {
			if len(c.Args) == 1 && p.isNilExpr(c.Args[0]) {
				nNil++
				ok := f.Name == "Agent.setGatheringState$1"
				if ok {
					facts, _ := p.FactsAtCall(f, c)
					live := facts.Has(func(ft Fact) bool {
						if ft.Op != "==" || !ft.Val || !p.isNilExpr(ft.Y) {
							return false
						}
						cc, ok := unparen(ft.X).(*ast.CallExpr)
						return ok && p.CalleeName(cc) == "context.Context.Err"
					})
					edge := facts.Has(func(ft Fact) bool {
						return ft.Op == "==" && !ft.Val && (p.IsField(ft.X, "Agent.gatheringState") || p.IsField(ft.Y, "Agent.gatheringState"))
					})
					complete := facts.Has(func(ft Fact) bool { return ft.Op == "==" && ft.Val && p.constName(ft.Y) == "GatheringStateComplete" })
					r.Check(live && edge && complete, "nil candidate: live cycle, state edge, Complete", p.Pos(c.Pos()), "gatherCtx.Err()==nil, gatheringState != newState, newState == Complete",
						fmt.Sprintf("the end-of-candidates event is emitted without: live cycle (%v), state actually changing (%v), target Complete (%v) — cancelled cycles or repeated calls emit extra nil candidates", live, edge, complete))
				} else {
					r.Fail("nil candidate source in "+f.Name, p.Pos(c.Pos()), "a second source of the end-of-candidates event")
				}
			} else if nonNil {
				nNonNil++
				facts, _ := p.FactsAtCall(f, c)
				filtered := facts.Has(func(ft Fact) bool {
					cc, ok := unparen(ft.X).(*ast.CallExpr)
					return ft.Op == "truth" && !ft.Val && ok && p.CalleeName(cc) == "ice.Candidate.filterForLocationTracking"
				})
				if f.Name == "Agent.addRemotePassiveTCPCandidate" {
					r.Trivial("candidate event in "+f.Name, p.Pos(c.Pos()), "active-TCP candidate, not part of a gathering cycle (exempt)")
					continue
				}
				stamped := p.precededBy(f, c.Pos(), func(x *ast.CallExpr) bool { return p.CalleeName(x) == "ice.Agent.setCandidateExtensions" })
				r.Check(filtered && stamped, "candidate event in "+f.Name, p.Pos(c.Pos()), "ufrag stamped, location-tracking filter applied", fmt.Sprintf("candidate published with ufrag stamped=%v, location filter=%v", stamped, filtered))
			}
		}
	}
	if nNil != 1 {
		r.Fail("nil candidate source", "agent.go", fmt.Sprintf("%d sources of the end-of-candidates event (expected 1)", nNil))
	}
	_ = nNonNil
}

// checkWaitGroupsAwaited: in every function whose (root) name starts with prefix and that
// declares a local sync.WaitGroup, Wait is deferred or follows every Add on every path to the exit.
func checkWaitGroupsAwaited(p *Prog, r *Report, prefix string) {
	n := 0
	for _, f := range p.AllFuncs {
		if f.Body == nil || f.Pkg != p.Ice || !strings.HasPrefix(f.Name, prefix) {
			continue
		}
		// local WaitGroup variables declared in f itself
		var wgs []types.Object
		walkBody(f, func(x ast.Node) bool {
			if vs, ok := x.(*ast.ValueSpec); ok {
				for _, nm := range vs.Names {
					if o := p.ObjOf(nm); o != nil && typeStr(o.Type()) == "sync.WaitGroup" {
						wgs = append(wgs, o)
					}
				}
			}
			return true
		})
		for _, wg := range wgs {
			isOn := func(c *ast.CallExpr, method string) bool {
				if p.CalleeName(c) != "sync.WaitGroup."+method {
					return false
				}
				sel, ok := unparen(c.Fun).(*ast.SelectorExpr)
				return ok && p.isObj(sel.X, wg)
			}
			deferred := false
			var adds []*ast.CallExpr
			walkBody(f, func(x ast.Node) bool {
				switch y := x.(type) {
				case *ast.DeferStmt:
					if isOn(y.Call, "Wait") {
						deferred = true
					}
				case *ast.CallExpr:
					if isOn(y, "Add") {
						adds = append(adds, y)
					}
				}
				return true
			})
			if len(adds) == 0 {
				continue
			}
			n++
			ok := deferred
			if !ok {
				ok = true
				g := p.CFG(f)
				for _, a := range adds {
					loc, found := g.Locate(a)
					if !found {
						ok = false
						continue
					}
					if _, escapes := g.PathAvoiding(Loc{loc.B, loc.I + 1}, func(nd ast.Node) bool {
						if _, isDefer := nd.(*ast.DeferStmt); isDefer {
							return false
						}
						return p.nodeHasCall(nd, func(c *ast.CallExpr) bool { return isOn(c, "Wait") })
					}, func(b *Block) bool { return b == g.Exit }, nil); escapes {
						ok = false
					}
				}
			}
			r.Check(ok, f.Name+": goroutines started under "+wg.Name()+" are awaited", p.Pos(wg.Pos()), "defer Wait, or Wait on every path after Add", "a path leaves "+f.Name+" after goroutines were started under its WaitGroup without waiting for them: the gathering cycle completes (nil candidate, sockets considered released) while an allocation of the same cycle is still in flight")
		}
	}
	if n == 0 {
		r.Fail("gatherers with a WaitGroup", "", "no gatherer with a local WaitGroup found (rule instance lost)")
	}
}
