package main

import (
	"fmt"
	"go/ast"
	"go/token"
	"go/types"
	"strings"
)

func init() { register("C15", checkC15) }

func checkC15(p *Prog, r *Report) {
	hc := p.Fn("TCPMuxDefault.handleConn")
	addConn := p.Fn("tcpPacketConn.AddConn")
	if !r.Anchor("TCPMuxDefault.handleConn", hc != nil) || !r.Anchor("tcpPacketConn.AddConn", addConn != nil) {
		return
	}
	o := p.NewOwn()

	// ---- R15.1 accepted connection closed or attached ---------------------------------------------
	r.Rule("R15.1", "An accepted TCP connection is, on every path through handleConn, either closed or attached to a packet connection (AddConn stores it exactly when it returns nil); an attached connection is closed when it is removed (read error) and when the packet connection closes.", 5)
	{
		k, _ := o.paramKey(hc, 0)
		outs := o.summary(hc, []ownBind{{k, 'v'}})
		closes, attached := 0, false
		for _, x := range outs {
			switch x.Kind {
			case "owned", "returned":
				r.Fail("handleConn: accepted connection leaks at "+x.Why, x.Pos, "a path leaves handleConn with the accepted connection neither closed nor attached: a hostile or slow client keeps a descriptor (and nothing ever closes it)")
			case "released":
				closes++
			case "handed":
				attached = true
			}
		}
		nRej := 0
		for _, c := range p.CallsTo(hc, false, "ice.TCPMuxDefault.closeAndLogError") {
			_ = c
			nRej++
		}
		r.Check(closes > 0 && attached, "handleConn: closed or attached on every path", p.Pos(hc.Body.Pos()), fmt.Sprintf("%s; %d closeAndLogError sites", outcomeKinds(outs), nRej), fmt.Sprintf("outcomes: %s", outcomeKinds(outs)))

		ak, _ := o.paramKey(addConn, 0)
		aouts := o.summary(addConn, []ownBind{{ak, 'v'}})
		ok := len(aouts) > 0
		var bad []string
		for _, x := range aouts {
			switch {
			case x.Kind == "handed" && x.Err != "nonnil":
			case x.Kind == "owned" && x.Err == "nonnil":
			default:
				ok = false
				bad = append(bad, x.Kind+"/"+x.Err+" "+x.Why)
			}
		}
		r.Check(ok, "contract of AddConn", p.Pos(addConn.Body.Pos()), outcomeKinds(aouts), "AddConn does not take the connection exactly when it returns nil: "+strings.Join(bad, "; "))
	}
	if f := p.Fn("tcpPacketConn.removeConn"); r.Anchor("tcpPacketConn.removeConn", f != nil) {
		k, _ := o.paramKey(f, 0)
		outs := o.summary(f, []ownBind{{k, 'v'}})
		ok := len(outs) > 0
		for _, x := range outs {
			if x.Kind != "released" {
				ok = false
			}
		}
		del := len(p.CallsTo(f, false, "builtin.delete")) == 1
		r.Check(ok && del, "removeConn closes and unregisters the connection", p.Pos(f.Body.Pos()), outcomeKinds(outs), "removeConn leaves the TCP connection open or registered")
	}
	if f := p.Fn("tcpPacketConn.startReading"); r.Anchor("tcpPacketConn.startReading", f != nil) {
		// every exit of the read loop passes removeConn(conn)
		g := p.CFG(f)
		isRemove := func(n ast.Node) bool {
			return p.nodeHasCall(n, func(c *ast.CallExpr) bool { return p.CalleeName(c) == "ice.tcpPacketConn.removeConn" })
		}
		_, escapes := g.PathAvoiding(Loc{g.Entry, 0}, isRemove, func(b *Block) bool { return b == g.Exit }, nil)
		r.Check(!escapes, "startReading removes the connection on exit", p.Pos(f.Body.Pos()), "removeConn on every exit", "the reader can end without closing its TCP connection")
	}
	if f := p.Fn("tcpPacketConn.Close"); r.Anchor("tcpPacketConn.Close", f != nil) {
		ok := false
		walkBody(f, func(n ast.Node) bool {
			rs, isR := n.(*ast.RangeStmt)
			if !isR || !p.IsField(rs.X, "tcpPacketConn.conns") || rs.Value == nil {
				return true
			}
			for _, c := range p.NodeCallsDeep(rs.Body) {
				if x, isClose := p.isCloseOf(c); isClose && p.Canon(x) == p.Canon(rs.Value) {
					ok = true
				}
			}
			return true
		})
		r.Check(ok, "tcpPacketConn.Close closes every attached connection", p.Pos(f.Body.Pos()), "range conns { close }", "closing the packet connection leaves attached TCP connections open")
	}

	// ---- R15.2 first frame decides --------------------------------------------------------------------
	r.Rule("R15.2", "Attachment is dominated by: the first frame was read (with the read deadline armed before, whenever the configured timeout is positive, and cleared after), it decodes as STUN, its method is Binding and it carries USERNAME; the packet connection is looked up / created under the ufrag before ':' of that USERNAME, the family of the peer's address and the connection's own local IP; connections created here are provisional; the first frame is handed to AddConn and delivered, with the peer's address, before the reader starts.", 10)
	adds := p.CallsTo(hc, false, "ice.tcpPacketConn.AddConn")
	if r.Check(len(adds) == 1, "handleConn: one attachment site", p.Pos(hc.Body.Pos()), "single AddConn", itoa(len(adds))+" AddConn calls") {
		ac := adds[0]
		facts := p.DominatingFactList(hc, ac)
		type need struct {
			name string
			pred func(ft Fact) bool
		}
		errNil := func(callee string) func(ft Fact) bool {
			return func(ft Fact) bool {
				return ft.Op == "==" && ft.Val && p.isNilExpr(ft.Y) && p.atomIsCall(hc, ft.X, callee)
			}
		}
		needs := []need{
			{"first frame read", errNil("ice.readStreamingPacket")},
			{"decodes as STUN", errNil("stun.Message.Decode")},
			{"method is Binding", func(ft Fact) bool {
				return ft.Op == "==" && ft.Val && p.constName(ft.Y) == "MethodBinding" && strings.HasSuffix(stripVarLines(p.Canon(ft.X)), ".Type.Method")
			}},
			{"USERNAME present", errNil("stun.Message.Get")},
			{"peer address splits", errNil("net.SplitHostPort")},
		}
		for _, nd := range needs {
			r.Check(factListHas(facts, nd.pred), "attachment requires: "+nd.name, p.Pos(ac.Pos()), "dominates AddConn", "a connection is attached although '"+nd.name+"' was not established: hostile clients get a packet connection without a valid first STUN Binding frame")
		}
		// USERNAME is what msg.Get was asked for
		for _, c := range p.CallsTo(hc, false, "stun.Message.Get") {
			r.Check(len(c.Args) == 1 && p.constName(c.Args[0]) == "AttrUsername", "first-frame attribute is USERNAME", p.Pos(c.Pos()), "msg.Get(stun.AttrUsername)", "the routing attribute is not USERNAME")
		}
		// first frame handed over
		if len(ac.Args) == 2 {
			src := p.Provenance(hc, ac.Args[1])
			okb := false
			for _, s := range src {
				if strings.Contains(s, "make") || strings.HasPrefix(s, "expr:$buf") {
					okb = true
				}
			}
			rd := p.CallsTo(hc, false, "ice.readStreamingPacket")
			same := len(rd) == 1 && len(rd[0].Args) == 2 && rootIdent(rd[0].Args[1]) != nil && rootIdent(ac.Args[1]) != nil && p.ObjOf(rootIdent(rd[0].Args[1])) == p.ObjOf(rootIdent(ac.Args[1]))
			_ = okb
			r.Check(same && p.isConnParam(hc, ac.Args[0]), "first frame and connection handed to AddConn", p.Pos(ac.Pos()), "AddConn(conn, buf) with the buffer the frame was read into", "AddConn does not receive the accepted connection together with the frame that was read from it: the first Binding request is lost")
		}
		// the frame is read from the very connection that is attached (no read-ahead wrapper in between)
		for _, rc := range p.CallsTo(hc, false, "ice.readStreamingPacket") {
			r.Check(len(rc.Args) == 2 && p.isConnParam(hc, rc.Args[0]), "first frame read from the accepted connection itself", p.Pos(rc.Pos()), "readStreamingPacket(conn, buf)", "the first frame is read through something other than the accepted connection while the connection itself is attached: bytes a wrapper read ahead (pipelined frames) are lost and the stream is mis-framed")
		}
		// deadline armed before the read whenever the timeout is positive, cleared before attaching
		rd := p.CallsTo(hc, false, "ice.readStreamingPacket")
		if len(rd) == 1 {
			g := p.CFG(hc)
			loc, _ := g.Locate(rd[0])
			isArm := func(n ast.Node) bool {
				return p.nodeHasCall(n, func(c *ast.CallExpr) bool {
					if p.CalleeName(c) != "net.Conn.SetReadDeadline" || len(c.Args) != 1 {
						return false
					}
					return p.MentionsField(c.Args[0], "TCPMuxParams.FirstStunBindTimeout") && p.mentionsCall(c.Args[0], "time.Now")
				})
			}
			_, escapes := g.PathAvoiding(Loc{g.Entry, 0}, isArm, func(b *Block) bool { return b == loc.B }, func(e *Edge) bool {
				// the only way round is the timeout not being positive
				for _, ft := range p.FactsOfCond(e.Cond, e.Val) {
					if ft.Op == "<" && !ft.Val && p.constName(ft.X) == "0" && p.IsField(ft.Y, "TCPMuxParams.FirstStunBindTimeout") {
						return false
					}
				}
				return true
			})
			r.Check(!escapes, "read deadline armed before the first read", p.Pos(rd[0].Pos()), "SetReadDeadline(now+FirstStunBindTimeout) unless the timeout is not positive", "the first read can block forever: a client that connects and stays silent keeps its connection and a goroutine")
			cleared := p.MustPrecede(hc, ac, func(n ast.Node) bool {
				return p.nodeHasCall(n, func(c *ast.CallExpr) bool {
					if p.CalleeName(c) != "net.Conn.SetReadDeadline" || len(c.Args) != 1 {
						return false
					}
					cl, ok := unparen(c.Args[0]).(*ast.CompositeLit)
					return ok && len(cl.Elts) == 0
				})
			})
			r.Check(cleared, "read deadline cleared before attaching", p.Pos(ac.Pos()), "SetReadDeadline(time.Time{}) precedes AddConn", "the first-frame deadline stays armed on an attached connection: it fails after the timeout")
		}
		if nm := p.Fn("NewTCPMuxDefault"); r.Anchor("NewTCPMuxDefault", nm != nil) {
			def := func(field string) bool {
				ok := false
				for _, st := range p.StoresTo(nm, field) {
					facts, _ := p.FactsAtCall(nm, st)
					if facts.Has(func(ft Fact) bool {
						return ft.Op == "==" && ft.Val && p.constName(ft.Y) == "0" && p.MentionsField(ft.X, field)
					}) {
						if as, isA := st.(*ast.AssignStmt); isA && len(as.Rhs) == 1 {
							if lf := p.Linear(as.Rhs[0], nil); lf.OK && len(lf.Terms) == 1 && lf.Terms[""] != nil && lf.Terms[""].Sign() > 0 {
								ok = true
							}
						}
					}
				}
				return ok
			}
			r.Check(def("TCPMuxParams.FirstStunBindTimeout"), "first-frame timeout defaults to a positive duration", p.Pos(nm.Body.Pos()), "0 -> positive constant", "an unset FirstStunBindTimeout stays 0: no deadline on the first read")
			r.Check(def("TCPMuxParams.AliveDurationForConnFromStun"), "provisional lifetime defaults to a positive duration", p.Pos(nm.Body.Pos()), "0 -> positive constant", "an unset AliveDurationForConnFromStun stays 0: provisional connections never expire")
		}
		// routing keys
		for _, name := range []string{"ice.TCPMuxDefault.getConn", "ice.TCPMuxDefault.createConn"} {
			for _, c := range p.CallsTo(hc, false, name) {
				if len(c.Args) < 3 {
					continue
				}
				us := p.Provenance(hc, c.Args[0])
				okU := false
				if id, ok := unparen(c.Args[0]).(*ast.Ident); ok {
					if d, ok := p.SingleDef(hc, p.ObjOf(id)); ok && d.Rhs != nil {
						okU = p.isSplitFirst(hc, d.Rhs, "stun.Message.Get")
					}
				}
				r.Check(okU, "handleConn "+name[strings.LastIndex(name, ".")+1:]+": ufrag is the USERNAME text before ':'", p.Pos(c.Pos()), strings.Join(us, ","), "the routing key is not strings.Split(string(username), \":\")[0]")
				// family: net.ParseIP(host).To4() == nil with host split from conn.RemoteAddr()
				okF := false
				if id, ok := unparen(c.Args[1]).(*ast.Ident); ok {
					if d, ok := p.SingleDef(hc, p.ObjOf(id)); ok && d.Rhs != nil {
						ast.Inspect(d.Rhs, func(n ast.Node) bool {
							pc, ok := n.(*ast.CallExpr)
							if !ok || p.CalleeName(pc) != "net.ParseIP" || len(pc.Args) != 1 {
								return true
							}
							if sc, idx, ok := p.ResolveCall(hc, pc.Args[0]); ok && idx == 0 && p.CalleeName(sc) == "net.SplitHostPort" && len(sc.Args) == 1 {
								ast.Inspect(sc.Args[0], func(m ast.Node) bool {
									if rc, ok := m.(*ast.CallExpr); ok && p.CalleeName(rc) == "net.Conn.RemoteAddr" {
										if sel, ok := unparen(rc.Fun).(*ast.SelectorExpr); ok && p.isConnParam(hc, sel.X) {
											okF = true
										}
									}
									return true
								})
							}
							return true
						})
					}
				}
				r.Check(okF, "handleConn "+name[strings.LastIndex(name, ".")+1:]+": family from the peer address", p.Pos(c.Pos()), "ParseIP(host of conn.RemoteAddr())", "the address family does not come from the connection's remote address")
				okL := false
				if sel, ok := unparen(c.Args[2]).(*ast.SelectorExpr); ok && sel.Sel.Name == "IP" {
					if id, ok := unparen(sel.X).(*ast.Ident); ok {
						if d, ok := p.SingleDef(hc, p.ObjOf(id)); ok && d.Rhs != nil {
							if ta, ok := unparen(d.Rhs).(*ast.TypeAssertExpr); ok {
								if lc, ok := unparen(ta.X).(*ast.CallExpr); ok && p.CalleeName(lc) == "net.Conn.LocalAddr" {
									if ls, ok := unparen(lc.Fun).(*ast.SelectorExpr); ok && p.isConnParam(hc, ls.X) {
										okL = true
									}
								}
							}
						}
					}
				}
				r.Check(okL, "handleConn "+name[strings.LastIndex(name, ".")+1:]+": local key from the connection's local address", p.Pos(c.Pos()), "conn.LocalAddr().(*net.TCPAddr).IP", "the local IP key does not come from conn.LocalAddr()")
				if strings.HasSuffix(name, "createConn") && len(c.Args) == 4 {
					v, _ := p.ConstVal(c.Args[3])
					r.Check(v == "true", "connections created from a first frame are provisional", p.Pos(c.Pos()), "createConn(..., true)", "a packet connection created for an unknown ufrag is not given a lifetime: unknown-ufrag floods accumulate forever")
				}
			}
		}
	}
	// delivery of the first frame precedes the reader, with the peer's address
	if lit := p.Fn("tcpPacketConn.AddConn$1"); r.Anchor("tcpPacketConn.AddConn$1", lit != nil) {
		srs := p.CallsTo(lit, false, "ice.tcpPacketConn.startReading")
		if r.Check(len(srs) == 1, "AddConn starts one reader", p.Pos(lit.Body.Pos()), "startReading(conn)", itoa(len(srs))+" readers") {
			g := p.CFG(lit)
			loc, _ := g.Locate(srs[0])
			isSend := func(n ast.Node) bool {
				found := false
				ast.Inspect(n, func(x ast.Node) bool {
					if s, ok := x.(*ast.SendStmt); ok && p.IsField(s.Chan, "tcpPacketConn.recvChan") {
						if cl := p.LitOf(lit, s.Value); cl != nil && p.LitField(cl, "Data") != nil && p.LitField(cl, "RAddr") != nil {
							first, raddr := p.LitField(cl, "Data"), p.LitField(cl, "RAddr")
							if id, ok := unparen(first).(*ast.Ident); ok && p.ObjOf(id) == p.paramObj(addConn, 1) {
								if c, ok := unparen(raddr).(*ast.CallExpr); ok && p.CalleeName(c) == "net.Conn.RemoteAddr" {
									found = true
								}
							}
						}
					}
					return true
				})
				return found
			}
			// a path to the reader that does not deliver must have found no first frame
			_, escapes := g.PathAvoiding(Loc{g.Entry, 0}, func(n ast.Node) bool { return false }, func(b *Block) bool { return b == loc.B }, func(e *Edge) bool {
				if e.Cond != nil && e.Cond.Op == "comm" {
					return !isSend(e.Cond.Stmt) // the delivering case is the barrier
				}
				for _, ft := range p.FactsOfCond(e.Cond, e.Val) {
					if ft.Op == "==" && ft.Val && p.isNilExpr(ft.Y) {
						if id, ok := unparen(ft.X).(*ast.Ident); ok && p.ObjOf(id) == p.paramObj(addConn, 1) {
							return false
						}
					}
				}
				return true
			})
			r.Check(!escapes, "first frame delivered before the reader starts", p.Pos(srs[0].Pos()), "recvChan <- {firstPacketData, conn.RemoteAddr()} precedes startReading", "the reader can start (and deliver later packets) before the first frame was delivered, or the first frame is dropped: the Binding request that opened the connection is lost or reordered")
		}
	}

	// ---- R15.3 goroutines are tracked; Close waits -----------------------------------------------------------
	r.Rule("R15.3", "Every goroutine started by the TCP mux and its packet connections is joined by its owner's Close: counted in a WaitGroup that Close waits on after releasing its mutex, or closing a done channel that Close receives from; TCPMuxDefault.Close marks the mux closed, closes every packet connection of both tables, resets the tables and closes the listener; tcpPacketConn.Close closes its channel once.", 8)
	for _, f := range p.AllFuncs {
		if f.Body == nil || f.Pkg != p.Ice {
			continue
		}
		// the TCP mux, its packet connections and their buffered connections (by owner type, not by file)
		root := f.Root()
		owner := ""
		if root.Decl != nil && root.Decl.Recv != nil {
			owner = recvTypeName(root.Decl.Recv.List[0].Type)
		}
		switch {
		case owner == "TCPMuxDefault" || owner == "tcpPacketConn" || owner == "bufferedConn":
		case root.Name == "NewTCPMuxDefault" || root.Name == "newTCPPacketConn" || root.Name == "newBufferedConn":
		default:
			continue
		}
		walkBody(f, func(n ast.Node) bool {
			gs, ok := n.(*ast.GoStmt)
			if !ok {
				return true
			}
			construct := "goroutine in " + f.Name + ": " + short(stripVarLines(p.Canon(gs.Call.Fun)), 40)
			// the goroutine's body: a literal, or the function it calls
			var body *ast.BlockStmt
			if fl, ok := unparen(gs.Call.Fun).(*ast.FuncLit); ok {
				body = fl.Body
			} else if callee := p.Callee(gs.Call); callee != nil {
				if cf := p.ByObj[callee]; cf != nil {
					body = cf.Body
				}
			}
			// (a) body starts with defer X.wg.Done(), and X.wg.Add precedes the go statement
			wgKey := ""
			doneField := ""
			if body != nil && len(body.List) > 0 {
				if d, ok := body.List[0].(*ast.DeferStmt); ok {
					switch p.CalleeName(d.Call) {
					case "sync.WaitGroup.Done":
						if sel, ok := unparen(d.Call.Fun).(*ast.SelectorExpr); ok {
							wgKey = stripVarLines(p.Canon(sel.X))
						}
					case "builtin.close":
						// (b) body starts with defer close(x.done) and the owner's Close receives from that field
						if len(d.Call.Args) == 1 {
							if fv := p.FieldOf(d.Call.Args[0]); fv != nil {
								doneField = p.FieldName(fv)
							}
						}
					}
				}
			}
			added := false
			if wgKey != "" {
				added = p.precededBy(f, gs.Pos(), func(c *ast.CallExpr) bool {
					if p.CalleeName(c) != "sync.WaitGroup.Add" {
						return false
					}
					sel, ok := unparen(c.Fun).(*ast.SelectorExpr)
					return ok && stripVarLines(p.Canon(sel.X)) == wgKey
				})
			}
			if doneField != "" {
				owner := doneField[:strings.Index(doneField, ".")]
				if cf := p.Fn(owner + ".Close"); cf != nil {
					walkBody(cf, func(x ast.Node) bool {
						if u, ok := x.(*ast.UnaryExpr); ok && u.Op == token.ARROW && p.IsField(u.X, doneField) {
							added = true
							wgKey = doneField
						}
						return true
					})
				}
			}
			r.Check(wgKey != "" && added, construct, p.Pos(gs.Pos()), "counted in a WaitGroup (Add before, deferred Done first) or signalling a done channel its owner's Close receives from", "the goroutine is neither counted in a WaitGroup nor joined through a done channel: Close can return while it is still running")
			return true
		})
	}
	if f := p.Fn("TCPMuxDefault.Close"); r.Anchor("TCPMuxDefault.Close", f != nil) {
		var closedSet, listener, wait, unlock ast.Node
		resets := map[string]bool{}
		closesConns := map[string]bool{}
		walkBody(f, func(n ast.Node) bool {
			switch x := n.(type) {
			case *ast.AssignStmt:
				for i, l := range x.Lhs {
					if p.IsField(l, "TCPMuxDefault.closed") && i < len(x.Rhs) {
						if v, _ := p.ConstVal(x.Rhs[i]); v == "true" {
							closedSet = x
						}
					}
					for _, fld := range []string{"TCPMuxDefault.connsIPv4", "TCPMuxDefault.connsIPv6"} {
						if p.IsField(l, fld) && i < len(x.Rhs) {
							if cl, ok := unparen(x.Rhs[i]).(*ast.CompositeLit); ok && len(cl.Elts) == 0 {
								resets[fld] = true
							}
						}
					}
				}
			case *ast.RangeStmt:
				for _, fld := range []string{"TCPMuxDefault.connsIPv4", "TCPMuxDefault.connsIPv6"} {
					if p.IsField(x.X, fld) {
						for _, c := range p.NodeCallsDeep(x.Body) {
							if _, isClose := p.isCloseOf(c); isClose {
								closesConns[fld] = true
							}
						}
					}
				}
			case *ast.CallExpr:
				switch p.CalleeName(x) {
				case "net.Listener.Close":
					listener = x
				case "sync.WaitGroup.Wait":
					wait = x
				case "sync.Mutex.Unlock":
					unlock = x
				}
			}
			return true
		})
		// every path through Close performs each step (no early return skips the teardown)
		g := p.CFG(f)
		mustPass := func(pred func(n ast.Node) bool) bool {
			_, escapes := g.PathAvoiding(Loc{g.Entry, 0}, pred, func(b *Block) bool { return b == g.Exit }, nil)
			return !escapes
		}
		steps := []struct {
			name string
			pred func(n ast.Node) bool
		}{
			{"closes the IPv4 packet connections", func(n ast.Node) bool {
				e, ok := n.(ast.Expr)
				return ok && p.IsField(e, "TCPMuxDefault.connsIPv4") && closesConns["TCPMuxDefault.connsIPv4"]
			}},
			{"closes the IPv6 packet connections", func(n ast.Node) bool {
				e, ok := n.(ast.Expr)
				return ok && p.IsField(e, "TCPMuxDefault.connsIPv6") && closesConns["TCPMuxDefault.connsIPv6"]
			}},
			{"closes the listener", func(n ast.Node) bool {
				return p.nodeHasCall(n, func(c *ast.CallExpr) bool { return p.CalleeName(c) == "net.Listener.Close" })
			}},
			{"waits for the goroutines", func(n ast.Node) bool {
				return p.nodeHasCall(n, func(c *ast.CallExpr) bool { return p.CalleeName(c) == "sync.WaitGroup.Wait" })
			}},
			{"marks the mux closed", func(n ast.Node) bool { return n == closedSet && closedSet != nil }},
		}
		for _, st := range steps {
			r.Check(mustPass(st.pred), "every path through Close "+st.name, p.Pos(f.Body.Pos()), "no exit before this step", "a path returns from Close before it "+st.name+": attached TCP connections stay open or goroutines outlive Close")
		}
		r.Check(closedSet != nil, "Close marks the mux closed", p.Pos(f.Body.Pos()), "closed = true", "Close no longer marks the mux closed: GetConnByUfrag keeps handing out connections")
		for _, fld := range []string{"TCPMuxDefault.connsIPv4", "TCPMuxDefault.connsIPv6"} {
			r.Check(closesConns[fld] && resets[fld], "Close closes and forgets "+fld, p.Pos(f.Body.Pos()), "close each, reset table", fmt.Sprintf("closes each=%v resets=%v", closesConns[fld], resets[fld]))
		}
		r.Check(listener != nil, "Close closes the listener", p.Pos(f.Body.Pos()), "Listener.Close()", "the accept loop is never stopped")
		okWait := wait != nil && unlock != nil && unlock.Pos() < wait.Pos() && len(p.HeldAt(f, wait)) == 0
		r.Check(okWait, "Close waits for the goroutines after releasing the mutex", p.Pos(f.Body.Pos()), "mu.Unlock(); wg.Wait()", "Close does not wait for the mux's goroutines, or waits while holding the mutex they need")
	}
	if f := p.Fn("tcpPacketConn.Close"); r.Anchor("tcpPacketConn.Close", f != nil) {
		inOnce := false
		for _, l := range f.Lits {
			for _, c := range p.CallsTo(l, false, "builtin.close") {
				if len(c.Args) == 1 && p.IsField(c.Args[0], "tcpPacketConn.closedChan") {
					inOnce = true
				}
			}
		}
		var wait ast.Node
		for _, c := range p.CallsTo(f, false, "sync.WaitGroup.Wait") {
			wait = c
		}
		okWait := wait != nil && len(p.HeldAt(f, wait)) == 0
		{
			g := p.CFG(f)
			for _, st := range []struct {
				name string
				pred func(n ast.Node) bool
			}{
				{"closes the attached connections", func(n ast.Node) bool { e, ok := n.(ast.Expr); return ok && p.IsField(e, "tcpPacketConn.conns") }},
				{"waits for its readers", func(n ast.Node) bool {
					return p.nodeHasCall(n, func(c *ast.CallExpr) bool { return p.CalleeName(c) == "sync.WaitGroup.Wait" })
				}},
				{"signals closure", func(n ast.Node) bool {
					return p.nodeHasCall(n, func(c *ast.CallExpr) bool { return p.isMethodOnField(c, "tcpPacketConn.closeOnce", "Do") })
				}},
			} {
				_, escapes := g.PathAvoiding(Loc{g.Entry, 0}, st.pred, func(b *Block) bool { return b == g.Exit }, nil)
				r.Check(!escapes, "every path through tcpPacketConn.Close "+st.name, p.Pos(f.Body.Pos()), "no exit before this step", "a path returns from tcpPacketConn.Close before it "+st.name)
			}
		}
		r.Check(inOnce && okWait, "tcpPacketConn.Close signals once and waits for its readers unlocked", p.Pos(f.Body.Pos()), "close(closedChan) in closeOnce; wg.Wait() without the mutex", fmt.Sprintf("closed-channel close once-guarded=%v; waits without mutex=%v", inOnce, okWait))
	}
	if f := p.Fn("TCPMuxDefault.start"); r.Anchor("TCPMuxDefault.start", f != nil) {
		// the accept loop ends when Accept fails (listener closed)
		acc := p.CallsTo(f, false, "net.Listener.Accept")
		ok := len(acc) == 1
		if ok {
			ok = false
			walkBody(f, func(n ast.Node) bool {
				if rs, isR := n.(*ast.ReturnStmt); isR {
					facts, _ := p.FactsAtCall(f, rs)
					if _, e := p.HasCallEqNil(facts, f, "net.Listener.Accept", 1, false); e {
						ok = true
					}
				}
				return true
			})
		}
		r.Check(ok, "accept loop ends when the listener fails", p.Pos(f.Body.Pos()), "return on Accept error", "the accept goroutine does not end when the listener is closed: Close never returns")
	}

	// ---- R15.4 provisional connections expire ------------------------------------------------------------------
	r.Rule("R15.4", "A packet connection created from a first frame gets the configured lifetime and closes itself when it expires; one created through GetConnByUfrag gets none, and claiming an existing connection through GetConnByUfrag stops the timer; the timer is armed only by the constructor and otherwise only ever stopped.", 7)
	if f := p.Fn("TCPMuxDefault.createConn"); r.Anchor("TCPMuxDefault.createConn", f != nil) {
		ok := false
		aliveObj := p.localByDef(f, func(rhs ast.Expr) bool { return p.MentionsField(rhs, "TCPMuxParams.AliveDurationForConnFromStun") })
		fromStun := p.paramObj(f, 3)
		if aliveObj != nil {
			for _, st := range p.DefsOf(f, aliveObj) {
				if st.Rhs != nil && p.MentionsField(st.Rhs, "TCPMuxParams.AliveDurationForConnFromStun") {
					facts, _ := p.FactsAtCall(f, st.Node)
					if facts.Has(func(ft Fact) bool { return ft.Op == "truth" && ft.Val && p.isObj(ft.X, fromStun) }) {
						ok = true
					}
				}
			}
		}
		passed := false
		for _, c := range p.CallsTo(f, false, "ice.newTCPPacketConn") {
			ast.Inspect(c, func(n ast.Node) bool {
				if kv, isKV := n.(*ast.KeyValueExpr); isKV {
					if id, isID := kv.Key.(*ast.Ident); isID && id.Name == "AliveDuration" && p.isObj(kv.Value, aliveObj) {
						passed = true
					}
				}
				return true
			})
		}
		r.Check(ok && passed, "createConn: lifetime iff created from a first frame", p.Pos(f.Body.Pos()), "alive = AliveDurationForConnFromStun only if fromStun; passed to the packet connection", fmt.Sprintf("set under fromStun=%v passed=%v", ok, passed))
	}
	if f := p.Fn("newTCPPacketConn"); r.Anchor("newTCPPacketConn", f != nil) {
		ok := false
		for _, c := range p.CallsTo(f, false, "time.AfterFunc") {
			if len(c.Args) == 2 && p.MentionsField(c.Args[0], "tcpPacketParams.AliveDuration") {
				if fl, isL := unparen(c.Args[1]).(*ast.FuncLit); isL {
					if lit := p.ByLit[fl]; lit != nil && len(p.CallsTo(lit, false, "ice.tcpPacketConn.Close")) == 1 {
						facts, _ := p.FactsAtCall(f, c)
						if facts.Has(func(ft Fact) bool {
							return ft.Op == "<" && ft.Val && p.constName(ft.X) == "0" && p.MentionsField(ft.Y, "tcpPacketParams.AliveDuration")
						}) {
							ok = true
						}
					}
				}
			}
		}
		r.Check(ok, "expiry closes the packet connection", p.Pos(f.Body.Pos()), "AfterFunc(AliveDuration, Close) when positive", "a provisional packet connection does not close itself when its lifetime ends")
	}
	if f := p.Fn("TCPMuxDefault.GetConnByUfrag"); r.Anchor("TCPMuxDefault.GetConnByUfrag", f != nil) {
		ok := false
		for _, c := range p.CallsTo(f, false, "ice.tcpPacketConn.ClearAliveTimer") {
			facts, _ := p.FactsAtCall(f, c)
			if facts.Has(func(ft Fact) bool {
				if ft.Op != "truth" || !ft.Val {
					return false
				}
				gc, idx, isCall := p.ResolveCall(f, ft.X)
				return isCall && idx == 1 && p.CalleeName(gc) == "ice.TCPMuxDefault.getConn"
			}) {
				ok = true
			}
		}
		np := false
		for _, c := range p.CallsTo(f, false, "ice.TCPMuxDefault.createConn") {
			if len(c.Args) == 4 {
				v, _ := p.ConstVal(c.Args[3])
				np = v == "false"
			}
		}
		r.Check(ok && np, "GetConnByUfrag claims: timer stopped for an existing connection, none for a new one", p.Pos(f.Body.Pos()), "ClearAliveTimer() if found; createConn(..., false) otherwise", fmt.Sprintf("timer cleared on found=%v; created without lifetime=%v: a connection the agent is using is closed by the provisional timer", ok, np))
	}
	checkAliveTimerDiscipline(p, r)
	if f := p.Fn("tcpPacketConn.ClearAliveTimer"); r.Anchor("tcpPacketConn.ClearAliveTimer", f != nil) {
		r.Check(len(p.CallsTo(f, false, "time.Timer.Stop")) == 1, "ClearAliveTimer stops the timer", p.Pos(f.Body.Pos()), "aliveTimer.Stop()", "the provisional timer keeps running")
	}

	// ---- R15.5 guarded-by ------------------------------------------------------------------------------------------
	r.Rule("R15.5", "The ufrag tables and the closed flag of the mux are accessed only under the mux mutex; a packet connection's TCP connection table only under its mutex.", 4)
	guards := map[string]string{
		"TCPMuxDefault.connsIPv4": "TCPMuxDefault.mu",
		"TCPMuxDefault.connsIPv6": "TCPMuxDefault.mu",
		"TCPMuxDefault.closed":    "TCPMuxDefault.mu",
		"tcpPacketConn.conns":     "tcpPacketConn.mu",
	}
	for field, mu := range guards {
		sname := field[:strings.Index(field, ".")]
		n, bad := 0, 0
		for fv, accs := range p.fieldAccesses(sname) {
			if p.FieldName(fv) != field {
				continue
			}
			for _, a := range accs {
				root := a.f.Root().Name
				if root == "NewTCPMuxDefault" || root == "newTCPPacketConn" {
					continue
				}
				n++
				if !p.HeldAt(a.f, a.node)[mu] {
					bad++
					r.Fail(field+" guarded by "+mu+": "+a.f.Name, p.Pos(a.node.Pos()), field+" is accessed without holding "+mu)
				}
			}
		}
		if bad == 0 {
			r.Check(n > 0, field+" guarded by "+mu, "", itoa(n)+" accesses, all with the mutex held", "no access found (rule instance lost)")
		}
	}

	// ---- R15.6 no hand-out after close ---------------------------------------------------------------------------------
	r.Rule("R15.6", "GetConnByUfrag creates or returns a packet connection only after testing, under the mux mutex, that the mux is not closed.", 1)
	if f := p.Fn("TCPMuxDefault.GetConnByUfrag"); f != nil {
		n := 0
		walkBody(f, func(nd ast.Node) bool {
			rs, ok := nd.(*ast.ReturnStmt)
			if !ok || len(rs.Results) != 2 || p.isNilExpr(rs.Results[0]) {
				return true
			}
			n++
			facts := p.DominatingFacts(f, rs)
			open := facts.Has(func(ft Fact) bool { return ft.Op == "truth" && !ft.Val && p.IsField(ft.X, "TCPMuxDefault.closed") })
			r.Check(open && p.HeldAt(f, rs)["TCPMuxDefault.mu"], "GetConnByUfrag hands out only while open", p.Pos(rs.Pos()), "dominated by !m.closed under m.mu", "a packet connection is handed out by a closed mux: nothing will ever close it")
			return true
		})
		if n == 0 {
			r.Fail("GetConnByUfrag hands out only while open", p.Pos(f.Body.Pos()), "no successful return found")
		}
	}

	// ---- R15.7 removal ------------------------------------------------------------------------------------------------
	r.Rule("R15.7", "RemoveConnByUfrag unregisters both families of the ufrag and closes every removed packet connection outside the mutex; the close watcher of a packet connection unregisters only the connection it watched.", 4)
	if f := p.Fn("TCPMuxDefault.RemoveConnByUfrag"); r.Anchor("TCPMuxDefault.RemoveConnByUfrag", f != nil) {
		for _, fld := range []string{"TCPMuxDefault.connsIPv4", "TCPMuxDefault.connsIPv6"} {
			del := false
			for _, c := range p.CallsTo(f, false, "builtin.delete") {
				if len(c.Args) == 2 && p.IsField(c.Args[0], fld) {
					del = true
				}
			}
			r.Check(del, "RemoveConnByUfrag unregisters "+fld, p.Pos(f.Body.Pos()), "delete(table, ufrag)", "the "+fld+" entry of the ufrag survives removal")
		}
		okClose := false
		var collected types.Object
		walkBody(f, func(n ast.Node) bool {
			rs, isR := n.(*ast.RangeStmt)
			if !isR {
				return true
			}
			id, isID := unparen(rs.X).(*ast.Ident)
			if !isID || typeStr(p.TypeOf(id)) != "[]*ice.tcpPacketConn" {
				return true
			}
			collected = p.ObjOf(id)
			for _, c := range p.NodeCallsDeep(rs.Body) {
				if _, isClose := p.isCloseOf(c); isClose && len(p.HeldAt(f, c)) == 0 {
					okClose = true
				}
			}
			return true
		})
		n := 0
		for _, c := range p.CallsTo(f, false, "builtin.append") {
			if len(c.Args) >= 1 {
				if p.isObj(c.Args[0], collected) {
					n++
				}
			}
		}
		r.Check(okClose && n == 2, "RemoveConnByUfrag closes every removed packet connection, unlocked", p.Pos(f.Body.Pos()), "collected from both families; closed after Unlock", fmt.Sprintf("closed outside the mutex=%v; families collected=%d", okClose, n))
	}
	if f := p.Fn("TCPMuxDefault.removeConnByUfragAndLocalHost"); r.Anchor("TCPMuxDefault.removeConnByUfragAndLocalHost", f != nil) {
		ok, n := true, 0
		for _, c := range p.CallsTo(f, false, "builtin.delete") {
			n++
			facts := p.DominatingFacts(f, c)
			if !facts.Has(func(ft Fact) bool {
				if ft.Op != "==" || !ft.Val {
					return false
				}
				// one side is the connection the watcher was started for (the *tcpPacketConn parameter), the other the registered one
				var closed types.Object
				for i := 0; ; i++ {
					o := p.paramObj(f, i)
					if o == nil {
						break
					}
					if typeStr(o.Type()) == "*ice.tcpPacketConn" {
						closed = o
					}
				}
				isReg := func(e ast.Expr) bool {
					id, ok := unparen(e).(*ast.Ident)
					return ok && !p.isObj(id, closed) && typeStr(p.TypeOf(id)) == "*ice.tcpPacketConn"
				}
				return closed != nil && ft.Y != nil && ((p.isObj(ft.X, closed) && isReg(ft.Y)) || (p.isObj(ft.Y, closed) && isReg(ft.X)))
			}) {
				ok = false
			}
		}
		r.Check(ok && n >= 2, "close watcher unregisters by identity", p.Pos(f.Body.Pos()), "every delete dominated by conn == closedConn", "a stale watcher removes (and closes) a newer packet connection registered under the same key")
	}

	// ---- R15.8 replies go back over the same TCP connection -----------------------------------------------------------
	r.Rule("R15.8", "The table of attached TCP connections is keyed by the peer address text everywhere (attach, detach, close, reply lookup), and every packet delivered upward carries the peer address of the TCP connection it was read from.", 5)
	for _, op := range p.mapOps("tcpPacketConn.conns") {
		{
			f := op.f
			if op.key == nil {
				continue
			}
			c, isCall := unparen(op.key).(*ast.CallExpr)
			ok := isCall && p.CalleeName(c) == "net.Addr.String"
			if ok {
				sel, _ := unparen(c.Fun).(*ast.SelectorExpr)
				inner, isInner := unparen(sel.X).(*ast.CallExpr)
				switch {
				case isInner && p.CalleeName(inner) == "net.Conn.RemoteAddr":
				case f.Root().Name == "tcpPacketConn.WriteTo":
					id, isID := unparen(sel.X).(*ast.Ident)
					ok = isID && p.ObjOf(id) == p.paramObj(f.Root(), 1)
				default:
					ok = false
				}
			}
			r.Check(ok, "conns key in "+f.Name+" ("+op.kind+")", p.Pos(op.node.Pos()), "peer address text", "the connection table is keyed by something other than the peer's address text here: replies to that peer do not find the connection the request came in on")
		}
	}
	if f := p.Fn("tcpPacketConn.startReading"); f != nil {
		n, ok := 0, true
		for _, c := range p.CallsTo(f, false, "ice.tcpPacketConn.handleRecv") {
			n++
			if len(c.Args) != 1 {
				ok = false
				continue
			}
			cl := p.LitOf(f, c.Args[0])
			if cl == nil || p.LitField(cl, "RAddr") == nil {
				ok = false
				continue
			}
			ra := p.LitField(cl, "RAddr")
			rc, isC := unparen(ra).(*ast.CallExpr)
			if !isC || p.CalleeName(rc) != "net.Conn.RemoteAddr" || !p.isConnParam(f, unparen(rc.Fun).(*ast.SelectorExpr).X) {
				ok = false
			}
		}
		r.Check(ok && n >= 2, "delivered packets carry the peer address of their connection", p.Pos(f.Body.Pos()), "streamingPacket{.., conn.RemoteAddr(), ..}", "a packet is delivered with an address other than the peer of the TCP connection it was read from")
	}
	for _, u := range o.Undecided {
		r.Unknown("ownership analysis", "", u)
	}
	_ = token.NoPos

	// ---- R15.9 exhaustive clean-up / migration loops ----
	r.Rule("R15.9", "The loops that must treat every element of a collection do so: no early exit, and no path through an iteration that skips the operation (removal, close and deadline propagation reach every packet / TCP connection).", 3)
	checkForAllLoops(p, r, "C15")

	// ---- R15.10 one key form for the per-ufrag table ---------------------------------------------------------
	r.Rule("R15.10", "The per-ufrag table of packet connections is keyed by the text of the local IP (ipAddr(ip.String())) at creation, lookup and removal; a removal key that reaches removeConnByUfragAndLocalHost is the key the connection was created under.", 3)
	{
		n := 0
		for _, f := range p.AllFuncs {
			if f.Pkg != p.Ice || f.Body == nil {
				continue
			}
			walkBody(f, func(x ast.Node) bool {
				var key ast.Expr
				var at ast.Node
				switch y := x.(type) {
				case *ast.IndexExpr:
					if typeStr(p.TypeOf(y.X)) == "map[ice.ipAddr]*ice.tcpPacketConn" {
						key, at = y.Index, y
					}
				case *ast.CallExpr:
					if p.CalleeName(y) == "builtin.delete" && len(y.Args) == 2 && typeStr(p.TypeOf(y.Args[0])) == "map[ice.ipAddr]*ice.tcpPacketConn" {
						key, at = y.Args[1], y
					}
				}
				if key == nil {
					return true
				}
				n++
				ok := p.isLocalIPKey(f, key, 0)
				r.Check(ok, "per-ufrag table key in "+f.Name, p.Pos(at.Pos()), "ipAddr(ip.String())", "the table of packet connections is keyed by "+stripVarLines(p.Canon(key))+" here: creation, lookup and removal no longer agree on the key")
				return true
			})
		}
		if n < 3 {
			r.Fail("per-ufrag table keys", "tcp_mux.go", "table accesses not found (rule instance lost)")
		}
	}
	// ---- R15.11 the first frame is read whole ----------------------------------------------------------------
	r.Rule("R15.11", "readStreamingPacket, which reads the first framed STUN message of an accepted connection and every later packet, reads the 2-byte length and the payload with loops that tolerate short reads and stay inside their buffers (the rule of C14 R14.1): a length prefix split over two TCP segments does not make a valid first frame look oversized.", 3)
	if rd := p.Fn("readStreamingPacket"); r.Anchor("readStreamingPacket", rd != nil) {
		if hdr, okH := p.constInt("streamingPacketHeaderLen"); r.Anchor("streamingPacketHeaderLen", okH) {
			checkReadStreamingPacket(p, r, rd, hdr)
		}
	}
	// ---- R15.12 the first message is delivered as it was received ----------------------------------------------
	r.Rule("R15.12", "The first message of an accepted connection, which handleConn hands to the ufrag's packet connection through AddConn, is queued there without a copy: the buffer it was read into is allocated by that call and kept, pooled or reused by nothing else, so a later connection's first frame cannot overwrite it while it waits to be read (rule of C14 R14.10).", 1)
	checkRetainedFirstPacket(p, r)
	// ---- R15.13 a reply goes out on the connection of its peer ---------------------------------------------------
	r.Rule("R15.13", "tcpPacketConn.WriteTo writes to exactly the TCP connection registered under the destination address: the connection is the table entry of rAddr.String() and nothing else (no fallback to 'the only connection'), so a reply never leaves on another client's connection.", 1)
	checkTCPReplyGoesToItsPeer(p, r)
	// ---- R15.14 lookup-or-create is atomic ----------------------------------------------------------------------
	r.Rule("R15.14", "Where the per-ufrag table is looked up and an entry is created on a miss (the first packet of a connection, GetConnByUfrag), the mux mutex is held from the lookup to the creation without being released in between: two concurrent misses cannot both create, so no packet connection is overwritten in the table and orphaned with its TCP connections.", 2)
	checkLookupCreateAtomic(p, r)

	// ---- R15.15 attaching a TCP connection and closing the packet connection exclude each other ---------------
	r.Rule("R15.15", "A TCP connection is entered in tcpPacketConn.conns only in a critical section of the packet connection's mutex that has first tested 'closed' (a receive from closedChan or isClosed()), with no release in between; and closedChan is closed while that mutex is held: Close, which closes every attached connection under the mutex, can therefore not run between the test and the entry — a connection accepted while its ufrag is being removed is refused (and closed by the caller), not attached to a dead packet connection where nobody closes it.", 2)
	checkAttachClosedAtomic(p, r)
}

// checkAttachClosedAtomic (R15.15).
func checkAttachClosedAtomic(p *Prog, r *Report) {
	const mu = "tcpPacketConn.mu"
	closedRecv := func(n ast.Node) bool {
		found := false
		if n == nil {
			return false
		}
		ast.Inspect(n, func(x ast.Node) bool {
			if u, ok := x.(*ast.UnaryExpr); ok && u.Op == token.ARROW && p.IsField(u.X, "tcpPacketConn.closedChan") {
				found = true
			}
			return true
		})
		return found
	}
	stores, closes := 0, 0
	for _, f := range p.AllFuncs {
		if f.Pkg != p.Ice || f.Body == nil {
			continue
		}
		walkBody(f, func(n ast.Node) bool {
			// close(t.closedChan) under the mutex
			if c, ok := n.(*ast.CallExpr); ok {
				if id, ok := unparen(c.Fun).(*ast.Ident); ok && id.Name == "close" && len(c.Args) == 1 && p.IsField(c.Args[0], "tcpPacketConn.closedChan") {
					if _, isBuiltin := p.ObjOf(id).(*types.Builtin); isBuiltin {
						closes++
						r.Check(p.HeldAt(f, c)[mu], "closedChan is closed under the packet connection's mutex in "+f.Name, p.Pos(c.Pos()), mu+" held", "closedChan is closed without "+mu+": AddConn's closed test and its entry in conns no longer exclude Close, so a connection can be attached after Close has swept conns and is never closed")
					}
				}
				return true
			}
			as, ok := n.(*ast.AssignStmt)
			if !ok {
				return true
			}
			for _, l := range as.Lhs {
				ix, ok := unparen(l).(*ast.IndexExpr)
				if !ok || !p.IsField(ix.X, "tcpPacketConn.conns") {
					continue
				}
				stores++
				g := p.CFG(f)
				sl, okS := g.Locate(as)
				held := p.HeldAt(f, as)[mu]
				// blocks that end in a closed test made with the mutex held
				tests := map[*Block]bool{}
				var testLocs []Loc
				for _, b := range g.Blocks {
					for _, e := range b.Succs {
						if e.Cond == nil {
							continue
						}
						var at ast.Node
						switch e.Cond.Op {
						case "comm":
							if closedRecv(e.Cond.Stmt) {
								at = e.Cond.Stmt
							}
						case "truth", "==":
							for _, x := range []ast.Expr{e.Cond.X, e.Cond.Y} {
								if x != nil && (p.mentionsCall(x, "ice.tcpPacketConn.isClosed") || closedRecv(x)) {
									at = x
								}
							}
						}
						if at != nil && p.HeldAt(f, at)[mu] {
							tests[b] = true
							testLocs = append(testLocs, Loc{b, len(b.Nodes)})
						}
					}
				}
				guarded := false
				if okS {
					_, escapes := g.PathAvoiding(Loc{g.Entry, 0}, nil, func(b *Block) bool { return b == sl.B }, func(e *Edge) bool { return !tests[e.From] })
					guarded = !escapes && sl.B != g.Entry
				}
				after := func(from, to Loc) bool {
					if from.B == to.B && from.I < to.I {
						return true
					}
					var succ []*Block
					for _, e := range from.B.Succs {
						succ = append(succ, e.To)
					}
					return g.Reach(succ, nil)[to.B]
				}
				gap := ""
				for _, b := range g.Blocks {
					for i, nd := range b.Nodes {
						if _, isDefer := nd.(*ast.DeferStmt); isDefer {
							continue
						}
						for _, c := range p.NodeCalls(nd) {
							if p.isMethodOnField(c, mu, "Unlock") {
								for _, tl := range testLocs {
									if okS && after(tl, Loc{b, i}) && after(Loc{b, i}, sl) {
										gap = p.Pos(nd.Pos())
									}
								}
							}
						}
					}
				}
				r.Check(held && guarded && gap == "", "attach in "+f.Name+" is one critical section with the closed test", p.Pos(as.Pos()), mu+" held from the closed test to the entry in conns", fmt.Sprintf("the entry in conns is not in one critical section with a closed test (mutex held at the entry: %v; every path tests closed under the mutex: %v; released in between at: %q): Close can sweep conns between the test and the entry, and the connection attached afterwards is never closed, its reader keeps running and its packets are dropped", held, guarded, gap))
			}
			return true
		})
	}
	if stores < 1 || closes < 1 {
		r.Fail("attach / close sites of tcpPacketConn", "tcp_packet_conn.go", fmt.Sprintf("%d stores into conns, %d close(closedChan) found (rule instance lost)", stores, closes))
	}
}

func rootIdent(e ast.Expr) *ast.Ident {
	for {
		switch x := unparen(e).(type) {
		case *ast.Ident:
			return x
		case *ast.SliceExpr:
			e = x.X
		case *ast.IndexExpr:
			e = x.X
		case *ast.SelectorExpr:
			e = x.X
		case *ast.StarExpr:
			e = x.X
		default:
			return nil
		}
	}
}

// isConnParam: e is the function's first parameter.
func (p *Prog) isConnParam(f *Func, e ast.Expr) bool {
	id, ok := unparen(e).(*ast.Ident)
	return ok && p.ObjOf(id) == p.paramObj(f, 0)
}

func (p *Prog) mentionsCall(n ast.Node, callee string) bool {
	found := false
	ast.Inspect(n, func(x ast.Node) bool {
		if c, ok := x.(*ast.CallExpr); ok && p.CalleeName(c) == callee {
			found = true
		}
		return true
	})
	return found
}

// NodeCallsDeep lists all calls under n, including nested literals.
func (p *Prog) NodeCallsDeep(n ast.Node) []*ast.CallExpr {
	var out []*ast.CallExpr
	ast.Inspect(n, func(x ast.Node) bool {
		if c, ok := x.(*ast.CallExpr); ok {
			out = append(out, c)
		}
		return true
	})
	return out
}

// isSplitFirst: e is strings.Split(string(x), ":")[0] with x the result of a call to callee.
func (p *Prog) isSplitFirst(f *Func, e ast.Expr, callee string) bool {
	ix, ok := unparen(e).(*ast.IndexExpr)
	if !ok {
		return false
	}
	if v, _ := p.ConstVal(ix.Index); v != "0" {
		return false
	}
	c, ok := unparen(ix.X).(*ast.CallExpr)
	if !ok || p.CalleeName(c) != "strings.Split" || len(c.Args) != 2 {
		return false
	}
	if v, _ := p.ConstVal(c.Args[1]); v != `":"` {
		return false
	}
	conv, ok := unparen(c.Args[0]).(*ast.CallExpr)
	if !ok || len(conv.Args) != 1 {
		return false
	}
	return p.atomIsCall(f, conv.Args[0], callee)
}

// DefsOfName: definitions of the local variable called name in f.
func (p *Prog) DefsOfName(f *Func, name string) []VarDef {
	var out []VarDef
	seen := map[ast.Node]bool{}
	walkBody(f, func(n ast.Node) bool {
		if id, ok := n.(*ast.Ident); ok && id.Name == name {
			if o := p.ObjOf(id); o != nil {
				for _, d := range p.DefsOf(f, o) {
					if !seen[d.Node] {
						seen[d.Node] = true
						out = append(out, d)
					}
				}
			}
		}
		return true
	})
	return out
}

// isLocalIPKey: e is ipAddr(x.String()) with x a net.IP, a local defined by
// that, or a parameter all of whose call-site arguments are.
func (p *Prog) isLocalIPKey(f *Func, e ast.Expr, depth int) bool {
	if depth > 3 {
		return false
	}
	e = unparen(e)
	if c, ok := e.(*ast.CallExpr); ok {
		if tv, ok := p.Info.Types[c.Fun]; ok && tv.IsType() && typeStr(tv.Type) == "ice.ipAddr" && len(c.Args) == 1 {
			if sc, ok := unparen(c.Args[0]).(*ast.CallExpr); ok && p.CalleeName(sc) == "net.IP.String" {
				return true
			}
		}
		return false
	}
	id, ok := e.(*ast.Ident)
	if !ok {
		return false
	}
	obj := p.ObjOf(id)
	for fn := f; fn != nil; fn = fn.Parent {
		if d, ok := p.SingleDef(fn, obj); ok && d.Rhs != nil {
			return p.isLocalIPKey(fn, d.Rhs, depth+1)
		}
		// parameter: every call site passes such a key
		if fn.Type != nil && fn.Type.Params != nil {
			idx := 0
			for _, fl := range fn.Type.Params.List {
				for _, nm := range fl.Names {
					if p.ObjOf(nm) == obj {
						n, okAll := 0, true
						for _, ce := range p.Callers(fn) {
							if ce.Call == nil || ce.Kind == "arg" || len(ce.Call.Args) <= idx {
								continue
							}
							n++
							if !p.isLocalIPKey(ce.Caller, ce.Call.Args[idx], depth+1) {
								okAll = false
							}
						}
						return okAll && n > 0
					}
					idx++
				}
			}
		}
	}
	return false
}

// checkAliveTimerDiscipline: the provisional timer of a TCP packet connection is
// armed once, by the constructor, and afterwards only ever stopped (shared by
// C15 R15.4 and C13 R13.7).
func checkAliveTimerDiscipline(p *Prog, r *Report) {
	n := 0
	for _, f := range p.AllFuncs {
		walkBody(f, func(nd ast.Node) bool {
			switch x := nd.(type) {
			case *ast.CallExpr:
				sel, ok := unparen(x.Fun).(*ast.SelectorExpr)
				if ok && p.IsField(sel.X, "tcpPacketConn.aliveTimer") {
					n++
					r.Check(sel.Sel.Name == "Stop", "alive timer use in "+f.Name+": "+sel.Sel.Name, p.Pos(x.Pos()), "Stop", "the provisional timer is re-armed ("+sel.Sel.Name+") after creation: a connection already claimed through GetConnByUfrag is closed by the timer underneath its owner")
				}
			case *ast.AssignStmt:
				for _, l := range x.Lhs {
					if p.IsField(l, "tcpPacketConn.aliveTimer") {
						n++
						r.Check(f.Name == "newTCPPacketConn", "alive timer armed in "+f.Name, p.Pos(x.Pos()), "constructor", "the provisional timer is (re)created outside the constructor")
					}
				}
			}
			return true
		})
	}
	if n < 3 {
		r.Fail("alive timer uses", "tcp_packet_conn.go", "fewer alive-timer sites than expected (rule instance lost)")
	}
}

// checkTCPReplyGoesToItsPeer: tcpPacketConn.WriteTo writes to exactly the connection registered under the
// destination address (C15 R15.13, shared with C07 R7.7).
func checkTCPReplyGoesToItsPeer(p *Prog, r *Report) {
	f := p.Fn("tcpPacketConn.WriteTo")
	if !r.Anchor("tcpPacketConn.WriteTo", f != nil) {
		return
	}
	addr := p.paramObj(f, 1)
	writes := p.CallsTo(f, false, "ice.writeStreamingPacket")
	if len(writes) == 0 {
		r.Fail("tcpPacketConn.WriteTo: the framed write", p.Pos(f.Body.Pos()), "no writeStreamingPacket call: the packet is not sent framed")
		return
	}
	for _, w := range writes {
		bad := ""
		// the value is the table entry of the destination address: directly, through locals, or as the result
		// of a locked lookup closure
		var isEntry func(g *Func, e ast.Expr, idx, depth int) (bool, string)
		isEntry = func(g *Func, e ast.Expr, idx, depth int) (bool, string) {
			if depth > 4 {
				return false, "too deeply derived"
			}
			switch x := unparen(e).(type) {
			case *ast.IndexExpr:
				if idx == 0 && p.IsField(x.X, "tcpPacketConn.conns") {
					if kc, isC := unparen(x.Index).(*ast.CallExpr); isC && p.CalleeName(kc) == "net.Addr.String" {
						if sel, okS := unparen(kc.Fun).(*ast.SelectorExpr); okS {
							if kid, isID := unparen(sel.X).(*ast.Ident); isID && p.ObjOf(kid) == addr {
								return true, ""
							}
						}
					}
				}
				return false, "an entry under another key at " + p.Pos(x.Pos())
			case *ast.Ident:
				n := 0
				root := g.Root()
				for _, h := range append([]*Func{root}, root.Lits...) {
					for _, d := range p.DefsOf(h, p.ObjOf(x)) {
						if d.Zero {
							continue
						}
						n++
						if d.Rhs == nil {
							return false, "assigned at " + p.Pos(d.Node.Pos())
						}
						if ok, why := isEntry(h, d.Rhs, d.Index, depth+1); !ok {
							return false, why
						}
					}
				}
				if n == 0 {
					return false, "a value with no definition in WriteTo"
				}
				return true, ""
			case *ast.CallExpr:
				if lit, isLit := unparen(x.Fun).(*ast.FuncLit); isLit {
					lf := p.ByLit[lit]
					if lf == nil {
						return false, "a closure that was not indexed"
					}
					nRet := 0
					okAll, why := true, ""
					walkBody(lf, func(y ast.Node) bool {
						if rs, isR := y.(*ast.ReturnStmt); isR && idx < len(rs.Results) {
							nRet++
							if ok, w := isEntry(lf, rs.Results[idx], 0, depth+1); !ok {
								okAll, why = false, w
							}
						}
						return true
					})
					return okAll && nRet > 0, why
				}
			}
			return false, stripVarLines(p.Canon(e)) + " at " + p.Pos(e.Pos())
		}
		if ok, why := isEntry(f, w.Args[0], 0, 0); !ok {
			bad = "the connection written to can also be " + why + " (not the table entry of the destination address)"
		}
		r.Check(bad == "", "tcpPacketConn.WriteTo writes to the connection of the destination address", p.Pos(w.Pos()), "conns[rAddr.String()] only", bad+": data (and STUN) addressed to one peer is framed onto another peer's TCP connection, and the write is reported as successful")
	}
}

// checkLookupCreateAtomic (R15.14): wherever the per-ufrag table is looked up and, on a miss, an entry is
// created, the mux mutex is held from the lookup to the creation without a gap.
func checkLookupCreateAtomic(p *Prog, r *Report) {
	n := 0
	for _, f := range p.AllFuncs {
		if f.Pkg != p.Ice || f.Body == nil {
			continue
		}
		gets := p.CallsTo(f, false, "ice.TCPMuxDefault.getConn")
		creates := p.CallsTo(f, false, "ice.TCPMuxDefault.createConn")
		if len(gets) == 0 || len(creates) == 0 {
			continue
		}
		g := p.CFG(f)
		after := func(from, to Loc) bool {
			if from.B == to.B && from.I < to.I {
				return true
			}
			var succ []*Block
			for _, e := range from.B.Succs {
				succ = append(succ, e.To)
			}
			return g.Reach(succ, nil)[to.B]
		}
		var unlocks []Loc
		for _, b := range g.Blocks {
			for i, nd := range b.Nodes {
				if _, isDefer := nd.(*ast.DeferStmt); isDefer {
					continue
				}
				for _, c := range p.NodeCalls(nd) {
					if p.isMethodOnField(c, "TCPMuxDefault.mu", "Unlock") {
						unlocks = append(unlocks, Loc{b, i})
					}
				}
			}
		}
		for _, c := range creates {
			n++
			cl, okC := g.Locate(c)
			held := p.Locks(f).At(c)["TCPMuxDefault.mu"]
			gap := ""
			for _, gc := range gets {
				gl, okG := g.Locate(gc)
				if !okC || !okG || !after(gl, cl) {
					continue
				}
				for _, u := range unlocks {
					if after(gl, u) && after(u, cl) {
						gap = p.Pos(u.B.Nodes[u.I].Pos())
					}
				}
			}
			r.Check(held && gap == "", "lookup and creation in "+f.Name+" are one critical section", p.Pos(c.Pos()), "TCPMuxDefault.mu held from getConn to createConn", "the mutex is released between the lookup and the creation (at "+gap+", held at the creation: "+fmt.Sprint(held)+"): two first packets for one ufrag — or a first packet and GetConnByUfrag — can both miss and both create, and the entry created second overwrites the first, whose TCP connections are then orphaned (their first messages lost, replies failing, Close waiting for them)")
		}
	}
	if n < 2 {
		r.Fail("lookup-or-create sites of the per-ufrag table", "tcp_mux.go", fmt.Sprintf("only %d found (rule instance lost)", n))
	}
}
