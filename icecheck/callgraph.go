package main

// Call graph over the AST: static calls, interface dispatch by class
// hierarchy over the analysed packages, function-typed struct fields resolved
// field-sensitively (all values ever stored into the field), local closure
// variables, and function values passed as arguments.

import (
	"go/ast"
	"go/token"
	"go/types"
	"sort"
)

type CallEdge struct {
	Caller, Callee *Func
	Site           ast.Node // *ast.CallExpr, or the argument expression for "arg" edges
	Call           *ast.CallExpr
	Kind           string // static | iface | field | local | lit | arg
	Via            string // for arg edges: qualified name of the function receiving the value
	Go, Defer      bool
}

type CallGraph struct {
	Out map[*Func][]*CallEdge
	In  map[*Func][]*CallEdge
	// Dynamic calls that could not be resolved to any body.
	Unresolved map[*Func][]*ast.CallExpr
	fieldFuncs map[*types.Var][]*Func
	impls      map[*types.Func][]*Func
}

// asyncArgCallees run their function argument on another goroutine.
var asyncArgCallees = map[string]bool{
	"time.AfterFunc": true,
}

func (p *Prog) CG() *CallGraph {
	if p.cg != nil {
		return p.cg
	}
	g := &CallGraph{Out: map[*Func][]*CallEdge{}, In: map[*Func][]*CallEdge{}, Unresolved: map[*Func][]*ast.CallExpr{},
		fieldFuncs: map[*types.Var][]*Func{}, impls: map[*types.Func][]*Func{}}
	p.cg = g
	p.collectFieldFuncs(g)
	for _, f := range p.AllFuncs {
		p.buildEdges(g, f)
	}
	return g
}

// funcValueTargets resolves an expression denoting a function value to bodies.
func (p *Prog) funcValueTargets(g *CallGraph, inFn *Func, e ast.Expr, depth int) []*Func {
	e = unparen(e)
	switch x := e.(type) {
	case *ast.FuncLit:
		if f := p.ByLit[x]; f != nil {
			return []*Func{f}
		}
	case *ast.Ident:
		switch o := p.ObjOf(x).(type) {
		case *types.Func:
			if f := p.ByObj[o]; f != nil {
				return []*Func{f}
			}
		case *types.Var:
			if depth > 3 {
				return nil
			}
			var out []*Func
			for fn := inFn; fn != nil; fn = fn.Parent {
				for _, d := range p.DefsOf(fn, o) {
					if d.Rhs != nil && d.Index == 0 {
						out = append(out, p.funcValueTargets(g, fn, d.Rhs, depth+1)...)
					}
				}
			}
			return out
		}
	case *ast.SelectorExpr:
		if s := p.Info.Selections[x]; s != nil {
			switch s.Kind() {
			case types.MethodVal:
				if fo, ok := s.Obj().(*types.Func); ok {
					return p.methodTargets(g, fo, p.TypeOf(x.X))
				}
			case types.FieldVal:
				if v, ok := s.Obj().(*types.Var); ok {
					return g.fieldFuncs[v]
				}
			}
		} else if fo, ok := p.ObjOf(x.Sel).(*types.Func); ok {
			if f := p.ByObj[fo]; f != nil {
				return []*Func{f}
			}
		}
	}
	return nil
}

// methodTargets resolves a method (possibly of an interface) to bodies.
func (p *Prog) methodTargets(g *CallGraph, m *types.Func, recvType types.Type) []*Func {
	sig, _ := m.Type().(*types.Signature)
	if sig == nil || sig.Recv() == nil {
		if f := p.ByObj[m]; f != nil {
			return []*Func{f}
		}
		return nil
	}
	if _, isIface := sig.Recv().Type().Underlying().(*types.Interface); !isIface {
		if f := p.ByObj[m]; f != nil {
			return []*Func{f}
		}
		return nil
	}
	if t, ok := g.impls[m]; ok {
		return t
	}
	iface, _ := sig.Recv().Type().Underlying().(*types.Interface)
	// The interface the call is made through may be wider than the one that
	// declares the method; use the declaring interface (sound over-approximation).
	var out []*Func
	seen := map[*Func]bool{}
	for _, pk := range p.Pkgs {
		sc := pk.Types.Scope()
		for _, n := range sc.Names() {
			tn, ok := sc.Lookup(n).(*types.TypeName)
			if !ok || tn.IsAlias() {
				continue
			}
			if _, isI := tn.Type().Underlying().(*types.Interface); isI {
				continue
			}
			if !p.usedAsInterface()[tn] {
				continue // never stored behind an interface inside the analysed code
			}
			for _, t := range []types.Type{tn.Type(), types.NewPointer(tn.Type())} {
				if !types.Implements(t, iface) {
					continue
				}
				ms := types.NewMethodSet(t)
				sel := ms.Lookup(m.Pkg(), m.Name())
				if sel == nil {
					continue
				}
				if fo, ok := sel.Obj().(*types.Func); ok {
					if f := p.ByObj[fo]; f != nil && !seen[f] {
						seen[f] = true
						out = append(out, f)
					}
				}
			}
		}
	}
	sort.Slice(out, func(i, j int) bool { return out[i].Name < out[j].Name })
	g.impls[m] = out
	return out
}

func isFuncType(t types.Type) bool {
	if t == nil {
		return false
	}
	_, ok := t.Underlying().(*types.Signature)
	return ok
}

func (p *Prog) collectFieldFuncs(g *CallGraph) {
	add := func(inFn *Func, v *types.Var, rhs ast.Expr) {
		if v == nil || !isFuncType(v.Type()) {
			return
		}
		for _, t := range p.funcValueTargets(g, inFn, rhs, 0) {
			dup := false
			for _, x := range g.fieldFuncs[v] {
				if x == t {
					dup = true
				}
			}
			if !dup {
				g.fieldFuncs[v] = append(g.fieldFuncs[v], t)
			}
		}
	}
	// two rounds so that field-to-field copies (x.f = cfg.OnClose) propagate
	for round := 0; round < 3; round++ {
		for _, f := range p.AllFuncs {
			walkBody(f, func(n ast.Node) bool {
				switch x := n.(type) {
				case *ast.AssignStmt:
					if len(x.Lhs) == len(x.Rhs) {
						for i, l := range x.Lhs {
							add(f, p.FieldOf(l), x.Rhs[i])
						}
					}
				case *ast.CompositeLit:
					st, _ := derefStruct(p.TypeOf(x))
					if st == nil {
						return true
					}
					for i, el := range x.Elts {
						if kv, ok := el.(*ast.KeyValueExpr); ok {
							if id, ok := kv.Key.(*ast.Ident); ok {
								for j := 0; j < st.NumFields(); j++ {
									if st.Field(j).Name() == id.Name {
										add(f, st.Field(j), kv.Value)
									}
								}
							}
						} else if i < st.NumFields() {
							add(f, st.Field(i), el)
						}
					}
				}
				return true
			})
		}
	}
}

func derefStruct(t types.Type) (*types.Struct, bool) {
	if t == nil {
		return nil, false
	}
	if pt, ok := t.Underlying().(*types.Pointer); ok {
		t = pt.Elem()
	}
	st, ok := t.Underlying().(*types.Struct)
	return st, ok
}

func (g *CallGraph) addEdge(e *CallEdge) {
	g.Out[e.Caller] = append(g.Out[e.Caller], e)
	g.In[e.Callee] = append(g.In[e.Callee], e)
}

func (p *Prog) buildEdges(g *CallGraph, f *Func) {
	goCalls := map[*ast.CallExpr]bool{}
	deferCalls := map[*ast.CallExpr]bool{}
	walkBody(f, func(n ast.Node) bool {
		switch x := n.(type) {
		case *ast.GoStmt:
			goCalls[x.Call] = true
		case *ast.DeferStmt:
			deferCalls[x.Call] = true
		}
		return true
	})
	walkBody(f, func(n ast.Node) bool {
		call, ok := n.(*ast.CallExpr)
		if !ok {
			return true
		}
		isGo, isDefer := goCalls[call], deferCalls[call]
		if tv, ok := p.Info.Types[call.Fun]; ok && tv.IsType() {
			return true // conversion
		}
		name := p.CalleeName(call)
		var targets []*Func
		kind := "static"
		if m := p.Callee(call); m != nil {
			var rt types.Type
			if sel, ok := unparen(call.Fun).(*ast.SelectorExpr); ok {
				rt = p.TypeOf(sel.X)
			}
			targets = p.methodTargets(g, m, rt)
			if sig, _ := m.Type().(*types.Signature); sig != nil && sig.Recv() != nil {
				if _, isI := sig.Recv().Type().Underlying().(*types.Interface); isI {
					kind = "iface"
				}
			}
		} else if _, isB := typeutilCalleeBuiltin(p, call); isB {
			// builtin: no edges
		} else {
			targets = p.funcValueTargets(g, f, call.Fun, 0)
			switch unparen(call.Fun).(type) {
			case *ast.FuncLit:
				kind = "lit"
			case *ast.Ident:
				kind = "local"
			default:
				kind = "field"
			}
			if len(targets) == 0 {
				g.Unresolved[f] = append(g.Unresolved[f], call)
			}
		}
		for _, t := range targets {
			g.addEdge(&CallEdge{Caller: f, Callee: t, Site: call, Call: call, Kind: kind, Go: isGo, Defer: isDefer})
		}
		// function values passed as arguments
		for _, a := range call.Args {
			if !isFuncType(p.TypeOf(a)) {
				continue
			}
			for _, t := range p.funcValueTargets(g, f, a, 0) {
				g.addEdge(&CallEdge{Caller: f, Callee: t, Site: a, Call: call, Kind: "arg", Via: name,
					Go: isGo || asyncArgCallees[name], Defer: isDefer})
			}
		}
		return true
	})
}

func typeutilCalleeBuiltin(p *Prog, call *ast.CallExpr) (*types.Builtin, bool) {
	if id, ok := unparen(call.Fun).(*ast.Ident); ok {
		if b, ok := p.ObjOf(id).(*types.Builtin); ok {
			return b, true
		}
	}
	return nil, false
}

// ---- definitions of local variables ----

type VarDef struct {
	Node  ast.Node // AssignStmt, ValueSpec, RangeAssign, Field (param)
	Rhs   ast.Expr // defining expression, nil for params / range / zero values
	Index int      // result index when Rhs is a multi-value call
	Zero  bool     // declared without value
}

func (p *Prog) DefsOf(f *Func, o types.Object) []VarDef {
	if p.defs == nil {
		p.defs = map[*Func]map[types.Object][]ast.Node{}
	}
	var out []VarDef
	walkBody(f, func(n ast.Node) bool {
		switch x := n.(type) {
		case *ast.AssignStmt:
			for i, l := range x.Lhs {
				id, ok := unparen(l).(*ast.Ident)
				if !ok || p.ObjOf(id) != o {
					continue
				}
				d := VarDef{Node: x}
				if len(x.Rhs) == len(x.Lhs) {
					d.Rhs = x.Rhs[i]
				} else if len(x.Rhs) == 1 {
					d.Rhs, d.Index = x.Rhs[0], i
				}
				if x.Tok != token.ASSIGN && x.Tok != token.DEFINE {
					d.Rhs = nil // op-assign
				}
				out = append(out, d)
			}
		case *ast.ValueSpec:
			for i, id := range x.Names {
				if p.ObjOf(id) != o {
					continue
				}
				d := VarDef{Node: x}
				if len(x.Values) == len(x.Names) {
					d.Rhs = x.Values[i]
				} else if len(x.Values) == 1 {
					d.Rhs, d.Index = x.Values[0], i
				} else {
					d.Zero = true
				}
				out = append(out, d)
			}
		case *ast.RangeStmt:
			for _, e := range []ast.Expr{x.Key, x.Value} {
				if id, ok := e.(*ast.Ident); ok && p.ObjOf(id) == o {
					out = append(out, VarDef{Node: x})
				}
			}
		case *ast.IncDecStmt:
			if id, ok := unparen(x.X).(*ast.Ident); ok && p.ObjOf(id) == o {
				out = append(out, VarDef{Node: x})
			}
		case *ast.UnaryExpr:
			// address taken: treat as a possible redefinition
			if x.Op == token.AND {
				if id, ok := unparen(x.X).(*ast.Ident); ok && p.ObjOf(id) == o {
					out = append(out, VarDef{Node: x})
				}
			}
		}
		return true
	})
	// assignments inside nested closures also redefine a captured variable
	var rec func(g *Func)
	rec = func(g *Func) {
		for _, l := range g.Lits {
			walkBody(l, func(n ast.Node) bool {
				if as, ok := n.(*ast.AssignStmt); ok {
					for i, lh := range as.Lhs {
						if id, ok := unparen(lh).(*ast.Ident); ok && p.ObjOf(id) == o && as.Tok != token.DEFINE {
							d := VarDef{Node: as}
							if as.Tok == token.ASSIGN {
								if len(as.Rhs) == len(as.Lhs) {
									d.Rhs = as.Rhs[i]
								} else if len(as.Rhs) == 1 {
									d.Rhs, d.Index = as.Rhs[0], i
								}
							}
							out = append(out, d)
						}
					}
				}
				return true
			})
			rec(l)
		}
	}
	rec(f)
	return out
}

// SingleDef returns the unique defining expression of a local variable, if it
// is assigned exactly once (searching f and its enclosing functions).
func (p *Prog) SingleDef(f *Func, o types.Object) (VarDef, bool) {
	for fn := f; fn != nil; fn = fn.Parent {
		ds := p.DefsOf(fn, o)
		if len(ds) == 1 && ds[0].Rhs != nil {
			return ds[0], true
		}
		if len(ds) > 0 {
			return VarDef{}, false
		}
	}
	return VarDef{}, false
}

// ResolveCall: if e is a call, or a local variable whose single definition is
// a call, return that call and the result index e denotes.
func (p *Prog) ResolveCall(f *Func, e ast.Expr) (*ast.CallExpr, int, bool) {
	e = unparen(e)
	for i := 0; i < 4; i++ {
		switch x := e.(type) {
		case *ast.CallExpr:
			return x, 0, true
		case *ast.Ident:
			o := p.ObjOf(x)
			if o == nil {
				return nil, 0, false
			}
			d, ok := p.SingleDef(f, o)
			if !ok {
				d, ok = p.reachingDef(f, x, o)
			}
			if !ok {
				return nil, 0, false
			}
			if c, ok := unparen(d.Rhs).(*ast.CallExpr); ok {
				return c, d.Index, true
			}
			e = unparen(d.Rhs)
			continue
		}
		break
	}
	return nil, 0, false
}

// ---- reachability helpers ----

// Reachable returns all functions reachable from roots through edges
// accepted by follow.
func (g *CallGraph) Reachable(roots []*Func, follow func(e *CallEdge) bool) map[*Func]*CallEdge {
	via := map[*Func]*CallEdge{}
	var st []*Func
	for _, r := range roots {
		if _, ok := via[r]; !ok {
			via[r] = nil
			st = append(st, r)
		}
	}
	for len(st) > 0 {
		f := st[len(st)-1]
		st = st[:len(st)-1]
		for _, e := range g.Out[f] {
			if follow != nil && !follow(e) {
				continue
			}
			if _, ok := via[e.Callee]; !ok {
				via[e.Callee] = e
				st = append(st, e.Callee)
			}
		}
	}
	return via
}

// Chain renders the call chain from a root to f recorded in via.
func Chain(via map[*Func]*CallEdge, f *Func) string {
	var names []string
	for f != nil {
		names = append([]string{f.Name}, names...)
		e := via[f]
		if e == nil {
			break
		}
		f = e.Caller
		if len(names) > 12 {
			names = append([]string{"..."}, names...)
			break
		}
	}
	s := ""
	for i, n := range names {
		if i > 0 {
			s += " -> "
		}
		s += n
	}
	return s
}

// reachingDef finds the definition of o that reaches the use `use` on every
// path: the latest assignment to o earlier in the same CFG block, or in the
// chain of unique predecessors. Used for re-assigned variables such as err.
func (p *Prog) reachingDef(f *Func, use *ast.Ident, o types.Object) (VarDef, bool) {
	g := p.CFG(f)
	loc, ok := g.Locate(use)
	if !ok {
		return VarDef{}, false
	}
	defIn := func(n ast.Node) (VarDef, bool) {
		switch x := n.(type) {
		case *ast.AssignStmt:
			for i, l := range x.Lhs {
				id, ok := unparen(l).(*ast.Ident)
				if !ok || p.ObjOf(id) != o {
					continue
				}
				d := VarDef{Node: x}
				if len(x.Rhs) == len(x.Lhs) {
					d.Rhs = x.Rhs[i]
				} else if len(x.Rhs) == 1 {
					d.Rhs, d.Index = x.Rhs[0], i
				}
				if x.Tok != token.ASSIGN && x.Tok != token.DEFINE {
					return VarDef{}, false
				}
				return d, d.Rhs != nil
			}
		case *ast.ValueSpec:
			for i, id := range x.Names {
				if p.ObjOf(id) != o {
					continue
				}
				d := VarDef{Node: x}
				if len(x.Values) == len(x.Names) {
					d.Rhs = x.Values[i]
				} else if len(x.Values) == 1 {
					d.Rhs, d.Index = x.Values[0], i
				}
				return d, d.Rhs != nil
			}
		}
		return VarDef{}, false
	}
	mentionsAssign := func(n ast.Node) bool {
		if ra, ok := n.(*RangeAssign); ok {
			for _, e := range []ast.Expr{ra.Stmt.Key, ra.Stmt.Value} {
				if id, ok := e.(*ast.Ident); ok && p.ObjOf(id) == o {
					return true
				}
			}
			return false
		}
		found := false
		ast.Inspect(n, func(x ast.Node) bool {
			switch y := x.(type) {
			case *ast.FuncLit:
				return false
			case *ast.AssignStmt:
				for _, l := range y.Lhs {
					if id, ok := unparen(l).(*ast.Ident); ok && p.ObjOf(id) == o {
						found = true
					}
				}
			}
			return true
		})
		return found
	}
	b, i := loc.B, loc.I-1
	for hops := 0; hops < 6; hops++ {
		for ; i >= 0; i-- {
			n := b.Nodes[i]
			if d, ok := defIn(n); ok {
				return d, true
			}
			if mentionsAssign(n) {
				return VarDef{}, false
			}
		}
		if len(b.Preds) != 1 {
			return VarDef{}, false
		}
		b = b.Preds[0].From
		i = len(b.Nodes) - 1
	}
	return VarDef{}, false
}

// usedAsInterface: named types of the analysed packages whose values are
// converted to an interface type somewhere in the analysed code (rapid type
// analysis refinement of class-hierarchy dispatch): a type that is only ever
// handled concretely (e.g. *Conn, handed to users) is not a dispatch target.
func (p *Prog) usedAsInterface() map[*types.TypeName]bool {
	if p.ifaceUsed != nil {
		return p.ifaceUsed
	}
	used := map[*types.TypeName]bool{}
	p.ifaceUsed = used
	mark := func(dst types.Type, src ast.Expr) {
		if dst == nil || src == nil {
			return
		}
		if _, ok := dst.Underlying().(*types.Interface); !ok {
			return
		}
		st := p.TypeOf(src)
		if st == nil {
			return
		}
		if _, isI := st.Underlying().(*types.Interface); isI {
			return
		}
		if n := namedOf(st); n != nil {
			used[n.Obj()] = true
		}
	}
	for _, pk := range p.Pkgs {
		for _, file := range pk.Syntax {
			var sigStack []*types.Signature
			ast.Inspect(file, func(n ast.Node) bool {
				switch x := n.(type) {
				case *ast.FuncDecl:
					if o, ok := p.Info.Defs[x.Name].(*types.Func); ok {
						sigStack = append(sigStack, o.Type().(*types.Signature))
					}
				case *ast.AssignStmt:
					if len(x.Lhs) == len(x.Rhs) {
						for i := range x.Lhs {
							mark(p.TypeOf(x.Lhs[i]), x.Rhs[i])
						}
					}
				case *ast.ValueSpec:
					if x.Type != nil {
						for _, v := range x.Values {
							mark(p.TypeOf(x.Type), v)
						}
					}
				case *ast.CallExpr:
					if tv, ok := p.Info.Types[x.Fun]; ok && tv.IsType() {
						if len(x.Args) == 1 {
							mark(tv.Type, x.Args[0])
						}
						return true
					}
					if sig, ok := p.TypeOf(x.Fun).(*types.Signature); ok && sig != nil {
						np := sig.Params().Len()
						for i, a := range x.Args {
							var pt types.Type
							switch {
							case sig.Variadic() && i >= np-1:
								if sl, ok := sig.Params().At(np - 1).Type().(*types.Slice); ok {
									pt = sl.Elem()
								}
							case i < np:
								pt = sig.Params().At(i).Type()
							}
							mark(pt, a)
						}
						// method value / receiver conversions are not interface conversions
					}
				case *ast.CompositeLit:
					t := p.TypeOf(x)
					if t == nil {
						return true
					}
					switch u := t.Underlying().(type) {
					case *types.Struct:
						for i, el := range x.Elts {
							if kv, ok := el.(*ast.KeyValueExpr); ok {
								if id, ok := kv.Key.(*ast.Ident); ok {
									for j := 0; j < u.NumFields(); j++ {
										if u.Field(j).Name() == id.Name {
											mark(u.Field(j).Type(), kv.Value)
										}
									}
								}
							} else if i < u.NumFields() {
								mark(u.Field(i).Type(), el)
							}
						}
					case *types.Slice:
						for _, el := range x.Elts {
							mark(u.Elem(), el)
						}
					case *types.Array:
						for _, el := range x.Elts {
							mark(u.Elem(), el)
						}
					case *types.Map:
						for _, el := range x.Elts {
							if kv, ok := el.(*ast.KeyValueExpr); ok {
								mark(u.Elem(), kv.Value)
								mark(u.Key(), kv.Key)
							}
						}
					}
				case *ast.SendStmt:
					if ch, ok := p.TypeOf(x.Chan).Underlying().(*types.Chan); ok {
						mark(ch.Elem(), x.Value)
					}
				}
				return true
			})
			_ = sigStack
		}
	}
	// return statements: result types of the enclosing function
	for _, f := range p.AllFuncs {
		var sig *types.Signature
		if f.Obj != nil {
			sig, _ = f.Obj.Type().(*types.Signature)
		} else if f.Lit != nil {
			sig, _ = p.TypeOf(f.Lit).(*types.Signature)
		}
		if sig == nil {
			continue
		}
		walkBody(f, func(n ast.Node) bool {
			if rs, ok := n.(*ast.ReturnStmt); ok && len(rs.Results) == sig.Results().Len() {
				for i, e := range rs.Results {
					mark(sig.Results().At(i).Type(), e)
				}
			}
			return true
		})
	}
	return used
}
