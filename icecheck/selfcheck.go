package main

// Checker self-validation (thorough tier): every rule family ships with
// source overlays of /repo's current files — each breaking exactly one rule
// instance while still type-checking — that must make the named rule fire,
// and with behaviour-preserving overlays that must stay silent. Overlays are
// applied in memory (go/packages Overlay); nothing is executed and nothing is
// written to /repo. An overlay whose anchor text no longer occurs in the file
// is skipped and reported as stale (never a failure: the tree may have been
// edited legitimately).

import (
	"fmt"
	"os"
	"path/filepath"
	"runtime"
	"strings"
)

type Mutant struct {
	ID     string
	Prop   string
	File   string // relative to the repository root
	Old    string // must occur exactly once in the file
	New    string
	Expect string // rule id expected to report (prefix match); "" for benign overlays
	Benign bool
	Note   string
	More   [][2]string // further (old, new) replacements in the same file, each old occurring exactly once
}

var mutants []Mutant

// verifDirGlobal is set by main (location of known_findings.json).
var verifDirGlobal = "/verif"

func addMutants(ms ...Mutant) { mutants = append(mutants, ms...) }

type mutantOutcome struct {
	M        Mutant
	Stale    bool
	LoadErr  string
	Fired    []string // rule ids with violated/undecided obligations
	Details  []string
	Detected bool
}

func runMutant(m Mutant, repo string) mutantOutcome {
	out := mutantOutcome{M: m}
	path := filepath.Join(repo, m.File)
	b, err := os.ReadFile(path)
	if err != nil || strings.Count(string(b), m.Old) != 1 {
		out.Stale = true
		return out
	}
	src := strings.Replace(string(b), m.Old, m.New, 1)
	for _, e := range m.More {
		if strings.Count(src, e[0]) != 1 {
			out.Stale = true
			return out
		}
		src = strings.Replace(src, e[0], e[1], 1)
	}
	p, err := loadRepo(repo, map[string][]byte{path: []byte(src)})
	if err != nil {
		out.LoadErr = err.Error()
		return out
	}
	r := NewReport(m.Prop, "overlay", 0, p)
	func() {
		defer func() {
			if x := recover(); x != nil {
				r.Fatal = append(r.Fatal, fmt.Sprint("panic: ", x))
			}
		}()
		registry[m.Prop].Run(p, r)
	}()
	// floors
	count := map[string]int{}
	for _, o := range r.Obls {
		count[o.Rule]++
	}
	seen := map[string]bool{}
	known, _ := loadKnown(verifDirGlobal + "/known_findings.json")
	for _, o := range r.Obls {
		if o.Status == Violated && known != nil {
			skip := false
			for _, k := range known.Findings {
				if k.Property == m.Prop && k.Rule == o.Rule && k.Construct == o.Construct {
					skip = true
				}
			}
			if skip {
				continue
			}
		}
		if o.Status == Violated || o.Status == Undecided {
			if !seen[o.Rule] {
				seen[o.Rule] = true
				out.Fired = append(out.Fired, o.Rule)
			}
			if len(out.Details) < 4 {
				out.Details = append(out.Details, fmt.Sprintf("%s %s [%s]: %s", o.Rule, o.Construct, o.Pos, short(o.Detail, 160)))
			}
		}
	}
	for id, fl := range r.Floors {
		if count[id] < fl && !seen[id] {
			seen[id] = true
			out.Fired = append(out.Fired, id)
			out.Details = append(out.Details, fmt.Sprintf("%s: instance floor %d not met (%d)", id, fl, count[id]))
		}
	}
	for _, f := range r.Fatal {
		out.Fired = append(out.Fired, "fatal")
		out.Details = append(out.Details, f)
	}
	for _, f := range out.Fired {
		if m.Expect != "" && strings.HasPrefix(f, m.Expect) {
			out.Detected = true
		}
	}
	// drop per-program caches
	factCache = map[*Func]*FactAnalysis{}
	resetAddrTakenMemo()
	fieldOwnerCache = nil
	runtime.GC()
	return out
}

func selfValidate(id string, p *Prog, r *Report, repo string) {
	r.Rule("SV", "Checker self-validation: each breaking source overlay (still type-checking) must make its rule report; each behaviour-preserving overlay must leave the check silent.", 0)
	fired, total, benignSilent, benignTotal, stale := 0, 0, 0, 0, 0
	for _, m := range mutants {
		if m.Prop != id {
			continue
		}
		o := runMutant(m, repo)
		switch {
		case o.Stale:
			stale++
			r.Trivial("overlay "+m.ID, m.File, "stale: anchor text not found exactly once on the current tree; skipped")
		case o.LoadErr != "":
			r.Trivial("overlay "+m.ID, m.File, "overlay does not type-check on the current tree; skipped: "+short(o.LoadErr, 120))
			stale++
		case m.Benign:
			benignTotal++
			if len(o.Fired) == 0 {
				benignSilent++
				r.OK("benign overlay "+m.ID, m.File, "silent: "+m.Note)
			} else {
				r.Fail("benign overlay "+m.ID, m.File, "false alarm on a behaviour-preserving edit ("+m.Note+"): "+strings.Join(o.Details, " | "))
			}
		default:
			total++
			if o.Detected {
				fired++
				r.OK("breaking overlay "+m.ID, m.File, m.Note+" -> "+strings.Join(o.Details, " | "))
			} else {
				r.Fail("breaking overlay "+m.ID, m.File, "rule "+m.Expect+" is blind to: "+m.Note+" (fired: "+strings.Join(o.Fired, ",")+")")
			}
		}
	}
	r.Extra["overlays_fired"] = fired
	r.Extra["overlays_total"] = total
	r.Extra["benign_overlays_silent"] = benignSilent
	r.Extra["benign_total"] = benignTotal
	r.Extra["overlays_stale"] = stale
}

// devMutants runs the catalogue for one property (or all) and prints a table.
func devMutants(id, repo string) int {
	bad := 0
	for _, m := range mutants {
		if id != "all" && m.Prop != id {
			continue
		}
		o := runMutant(m, repo)
		st := "MISSED"
		switch {
		case o.Stale:
			st = "stale"
		case o.LoadErr != "":
			st = "no-typecheck: " + short(o.LoadErr, 200)
		case m.Benign && len(o.Fired) == 0:
			st = "silent(ok)"
		case m.Benign:
			st = "FALSE-ALARM"
			bad++
		case o.Detected:
			st = "detected"
		default:
			bad++
		}
		fmt.Printf("%-28s %-12s expect=%-6s fired=%v\n", m.ID, st, m.Expect, o.Fired)
		if st == "MISSED" || st == "FALSE-ALARM" {
			for _, d := range o.Details {
				fmt.Println("      ", d)
			}
		}
	}
	return bad
}
