package main

// AST normalisation applied once after loading, before any rule runs. It maps
// spellings of one construct to the form the engines are written for, so that
// a behaviour-preserving change of spelling does not change a verdict:
//
//   * "for { if C { break }; rest }" becomes "for !C { rest }";
//   * the index-loop idiom over an unmodified slice (a local, or a field that nothing in the body can replace),
//       for i := 0; i < len(xs); i++ { x := xs[i]; ... }
//     becomes  for i, x := range xs { ... }  (in memory only); when xs is a
//     snapshot taken by the immediately preceding statement (xs := E with E a
//     side-effect-free expression) the loop ranges over E itself.
//
// The rewrite is applied only where the two forms are equivalent: the index
// and the slice variable are not assigned, incremented or address-taken in the
// body, and the slice variable is a local.

import (
	"go/ast"
	"go/token"
	"go/types"
	"strings"
)

func (p *Prog) normalizeAST() int {
	n := 0
	for f := range p.Files {
		ast.Inspect(f, func(x ast.Node) bool {
			switch b := x.(type) {
			case *ast.BlockStmt:
				n += p.normalizeList(b.List)
			case *ast.CaseClause:
				n += p.normalizeList(b.Body)
			case *ast.CommClause:
				n += p.normalizeList(b.Body)
			}
			return true
		})
	}
	return n
}

// loopWithLeadingBreak: "for { if C { break }; rest }" is "for !C { rest }".
func (p *Prog) loopWithLeadingBreak(fs *ast.ForStmt) bool {
	if fs.Init != nil || fs.Cond != nil || fs.Post != nil || len(fs.Body.List) == 0 {
		return false
	}
	is, ok := fs.Body.List[0].(*ast.IfStmt)
	if !ok || is.Init != nil || is.Else != nil || len(is.Body.List) != 1 {
		return false
	}
	br, ok := is.Body.List[0].(*ast.BranchStmt)
	if !ok || br.Tok != token.BREAK || br.Label != nil {
		return false
	}
	boolT := types.TypeAndValue{Type: types.Typ[types.Bool]}
	var cond ast.Expr
	switch c := unparen(is.Cond).(type) {
	case *ast.UnaryExpr:
		if c.Op == token.NOT {
			cond = c.X
		}
	case *ast.BinaryExpr:
		flip := map[token.Token]token.Token{token.LSS: token.GEQ, token.GEQ: token.LSS, token.GTR: token.LEQ, token.LEQ: token.GTR, token.EQL: token.NEQ, token.NEQ: token.EQL}
		if op, ok := flip[c.Op]; ok {
			nb := &ast.BinaryExpr{X: c.X, OpPos: c.OpPos, Op: op, Y: c.Y}
			p.Info.Types[nb] = boolT
			cond = nb
		}
	}
	if cond == nil {
		nu := &ast.UnaryExpr{OpPos: is.Cond.Pos(), Op: token.NOT, X: is.Cond}
		p.Info.Types[nu] = boolT
		cond = nu
	}
	fs.Cond = cond
	fs.Body = &ast.BlockStmt{Lbrace: fs.Body.Lbrace, List: fs.Body.List[1:], Rbrace: fs.Body.Rbrace}
	return true
}

func (p *Prog) normalizeList(list []ast.Stmt) int {
	n := 0
	for i, st := range list {
		fs, ok := st.(*ast.ForStmt)
		if !ok {
			continue
		}
		if p.loopWithLeadingBreak(fs) {
			n++
		}
		rs := p.indexLoopAsRange(fs, list[:i])
		if rs == nil {
			continue
		}
		// a snapshot taken by the immediately preceding statement
		if i > 0 {
			if as, ok := list[i-1].(*ast.AssignStmt); ok && as.Tok == token.DEFINE && len(as.Lhs) == 1 && len(as.Rhs) == 1 {
				if id, ok := as.Lhs[0].(*ast.Ident); ok && p.Info.Defs[id] != nil {
					if xid, ok := rs.X.(*ast.Ident); ok && p.ObjOf(xid) == p.Info.Defs[id] && pureTag(as.Rhs[0]) {
						rs.X = as.Rhs[0]
					}
				}
			}
		}
		list[i] = rs
		if p.synthRange == nil {
			p.synthRange = map[*ast.RangeStmt]bool{}
		}
		p.synthRange[rs] = true
		n++
	}
	return n
}

func (p *Prog) indexLoopAsRange(fs *ast.ForStmt, before []ast.Stmt) *ast.RangeStmt {
	init, ok := fs.Init.(*ast.AssignStmt)
	if !ok || init.Tok != token.DEFINE || len(init.Lhs) != 1 || len(init.Rhs) != 1 {
		return nil
	}
	iID, ok := init.Lhs[0].(*ast.Ident)
	if !ok {
		return nil
	}
	if bl, ok := init.Rhs[0].(*ast.BasicLit); !ok || bl.Value != "0" {
		return nil
	}
	iObj := p.Info.Defs[iID]
	if iObj == nil {
		return nil
	}
	cond, ok := fs.Cond.(*ast.BinaryExpr)
	if !ok || cond.Op != token.LSS {
		return nil
	}
	if c, ok := cond.X.(*ast.Ident); !ok || p.ObjOf(c) != iObj {
		return nil
	}
	// the bound: len(X), or a local set to len(X) by an earlier statement of the same list and not touched since
	lenArg := func(e ast.Expr) ast.Expr {
		call, ok := unparen(e).(*ast.CallExpr)
		if !ok || len(call.Args) != 1 || p.CalleeName(call) != "builtin.len" {
			return nil
		}
		return unparen(call.Args[0])
	}
	xExpr := lenArg(cond.Y)
	var boundObj types.Object
	if xExpr == nil {
		nID, ok := unparen(cond.Y).(*ast.Ident)
		if !ok {
			return nil
		}
		boundObj = p.ObjOf(nID)
		for j := len(before) - 1; j >= 0 && xExpr == nil; j-- {
			as, ok := before[j].(*ast.AssignStmt)
			if ok && as.Tok == token.DEFINE && len(as.Lhs) == 1 && len(as.Rhs) == 1 {
				if id, ok := as.Lhs[0].(*ast.Ident); ok && p.Info.Defs[id] == boundObj {
					xExpr = lenArg(as.Rhs[0])
					before = before[j+1:]
					break
				}
			}
		}
		if xExpr == nil {
			return nil
		}
	} else {
		before = nil
	}
	if !pureTag(xExpr) {
		return nil
	}
	if _, isSlice := p.TypeOf(xExpr).Underlying().(*types.Slice); !isSlice {
		return nil
	}
	var xObj types.Object // the slice variable when it is a plain local
	localX := false
	if xID, ok := xExpr.(*ast.Ident); ok {
		if v, ok := p.ObjOf(xID).(*types.Var); ok && !v.IsField() && v.Pkg() != nil && v.Parent() != v.Pkg().Scope() {
			xObj, localX = v, true
		}
	}
	xField := p.FieldOf(xExpr)
	if !localX && xField != nil {
		// a field chain of a local struct *value* (not reached through a pointer): only code that names the
		// local can change it, which the body scan below sees
		root := xExpr
		viaPointer := false
		for {
			sel, ok := unparen(root).(*ast.SelectorExpr)
			if !ok {
				break
			}
			if _, isPtr := p.TypeOf(sel.X).Underlying().(*types.Pointer); isPtr {
				viaPointer = true
			}
			root = sel.X
		}
		if rid, ok := unparen(root).(*ast.Ident); ok && !viaPointer {
			if v, ok := p.ObjOf(rid).(*types.Var); ok && !v.IsField() && v.Pkg() != nil && v.Parent() != v.Pkg().Scope() {
				xObj, localX = v, true
			}
		}
	}
	if !localX && xField == nil {
		return nil
	}
	post, ok := fs.Post.(*ast.IncDecStmt)
	if !ok || post.Tok != token.INC {
		return nil
	}
	if c, ok := post.X.(*ast.Ident); !ok || p.ObjOf(c) != iObj {
		return nil
	}
	// neither the index, the bound nor the slice is modified (in the body, or between the bound's definition and the loop)
	modified := false
	isVar := func(e ast.Expr) bool {
		e = unparen(e)
		if id, ok := e.(*ast.Ident); ok {
			o := p.ObjOf(id)
			return o == iObj || (xObj != nil && o == xObj) || (boundObj != nil && o == boundObj)
		}
		if xField != nil && p.FieldOf(e) == xField {
			return true
		}
		return false
	}
	check := func(n ast.Node) {
		ast.Inspect(n, func(y ast.Node) bool {
			switch z := y.(type) {
			case *ast.AssignStmt:
				for _, l := range z.Lhs {
					if isVar(l) {
						modified = true
					}
				}
			case *ast.IncDecStmt:
				if isVar(z.X) {
					modified = true
				}
			case *ast.UnaryExpr:
				if z.Op == token.AND && isVar(z.X) {
					modified = true
				}
			case *ast.RangeStmt:
				if (z.Key != nil && isVar(z.Key)) || (z.Value != nil && isVar(z.Value)) {
					modified = true
				}
			case *ast.CallExpr:
				if !localX {
					// a slice held in a field: a call into the analysed packages (or a dynamic call) could replace it
					o := p.Callee(z)
					if o == nil {
						if _, isConv := p.Info.Types[z.Fun]; !(isConv && p.Info.Types[z.Fun].IsType()) {
							if _, isBuiltin := typeutilCalleeBuiltin(p, z); !isBuiltin {
								modified = true
							}
						}
					} else if o.Pkg() != nil && strings.HasPrefix(o.Pkg().Path(), icePath) {
						modified = true
					} else if sig, ok := o.Type().(*types.Signature); ok && sig.Recv() != nil {
						if _, isIface := sig.Recv().Type().Underlying().(*types.Interface); isIface {
							modified = true
						}
					}
				}
			case *ast.GoStmt, *ast.DeferStmt:
				if !localX {
					modified = true
				}
			}
			return !modified
		})
	}
	check(fs.Body)
	for _, st := range before {
		check(st)
	}
	if modified {
		return nil
	}
	rs := &ast.RangeStmt{For: fs.For, Key: iID, Tok: token.DEFINE, TokPos: iID.End(), X: xExpr, Body: fs.Body}
	// x := xs[i] as the first statement is the range value
	if len(fs.Body.List) > 0 {
		if as, ok := fs.Body.List[0].(*ast.AssignStmt); ok && as.Tok == token.DEFINE && len(as.Lhs) == 1 && len(as.Rhs) == 1 {
			if v, ok := as.Lhs[0].(*ast.Ident); ok && v.Name != "_" {
				if ix, ok := as.Rhs[0].(*ast.IndexExpr); ok {
					bi, ok2 := ix.Index.(*ast.Ident)
					sameX := p.Canon(ix.X) == p.Canon(xExpr)
					if ok2 && sameX && p.ObjOf(bi) == iObj {
						rs.Value = v
						rs.Body = &ast.BlockStmt{Lbrace: fs.Body.Lbrace, List: fs.Body.List[1:], Rbrace: fs.Body.Rbrace}
					}
				}
			}
		}
	}
	return rs
}
