package main

// AST normalisation applied once after loading, before any rule runs. It maps
// spellings of one construct to the form the engines are written for, so that
// a behaviour-preserving change of spelling does not change a verdict:
//
//   * "for { if C { break }; rest }" becomes "for !C { rest }";
//   * the index-loop idiom over an unmodified slice (a local, or a field that nothing in the body can replace),
//       for i := 0; i < len(xs); i++ { x := xs[i]; ... }
//     becomes  for i, x := range xs { ... }  (in memory only); when xs is a
//     snapshot taken by the immediately preceding statement (xs := E with E a
//     side-effect-free expression) the loop ranges over E itself.
//
// The rewrite is applied only where the two forms are equivalent: the index
// and the slice variable are not assigned, incremented or address-taken in the
// body, and the slice variable is a local.

import (
	"go/ast"
	"go/token"
	"go/types"
	"strings"
)

func (p *Prog) normalizeAST() int {
	n := 0
	for f := range p.Files {
		n += p.keyStructLits(f)
		ast.Inspect(f, func(x ast.Node) bool {
			switch b := x.(type) {
			case *ast.BlockStmt:
				var k int
				b.List, k = p.foldFieldRuns(b.List)
				n += k + p.normalizeList(b.List)
			case *ast.CaseClause:
				var k int
				b.Body, k = p.foldFieldRuns(b.Body)
				n += k + p.normalizeList(b.Body)
			case *ast.CommClause:
				var k int
				b.Body, k = p.foldFieldRuns(b.Body)
				n += k + p.normalizeList(b.Body)
			}
			return true
		})
	}
	return n
}

// loopWithLeadingBreak: "for { if C { break }; rest }" is "for !C { rest }".
func (p *Prog) loopWithLeadingBreak(fs *ast.ForStmt) bool {
	if fs.Init != nil || fs.Cond != nil || fs.Post != nil || len(fs.Body.List) == 0 {
		return false
	}
	is, ok := fs.Body.List[0].(*ast.IfStmt)
	if !ok || is.Init != nil || is.Else != nil || len(is.Body.List) != 1 {
		return false
	}
	br, ok := is.Body.List[0].(*ast.BranchStmt)
	if !ok || br.Tok != token.BREAK || br.Label != nil {
		return false
	}
	boolT := types.TypeAndValue{Type: types.Typ[types.Bool]}
	var cond ast.Expr
	switch c := unparen(is.Cond).(type) {
	case *ast.UnaryExpr:
		if c.Op == token.NOT {
			cond = c.X
		}
	case *ast.BinaryExpr:
		flip := map[token.Token]token.Token{token.LSS: token.GEQ, token.GEQ: token.LSS, token.GTR: token.LEQ, token.LEQ: token.GTR, token.EQL: token.NEQ, token.NEQ: token.EQL}
		if op, ok := flip[c.Op]; ok {
			nb := &ast.BinaryExpr{X: c.X, OpPos: c.OpPos, Op: op, Y: c.Y}
			p.Info.Types[nb] = boolT
			cond = nb
		}
	}
	if cond == nil {
		nu := &ast.UnaryExpr{OpPos: is.Cond.Pos(), Op: token.NOT, X: is.Cond}
		p.Info.Types[nu] = boolT
		cond = nu
	}
	fs.Cond = cond
	fs.Body = &ast.BlockStmt{Lbrace: fs.Body.Lbrace, List: fs.Body.List[1:], Rbrace: fs.Body.Rbrace}
	return true
}

func (p *Prog) normalizeList(list []ast.Stmt) int {
	n := 0
	for i, st := range list {
		fs, ok := st.(*ast.ForStmt)
		if !ok {
			continue
		}
		if p.loopWithLeadingBreak(fs) {
			n++
		}
		rs := p.indexLoopAsRange(fs, list[:i])
		if rs == nil {
			continue
		}
		// a snapshot taken by the immediately preceding statement
		if i > 0 {
			if as, ok := list[i-1].(*ast.AssignStmt); ok && as.Tok == token.DEFINE && len(as.Lhs) == 1 && len(as.Rhs) == 1 {
				if id, ok := as.Lhs[0].(*ast.Ident); ok && p.Info.Defs[id] != nil {
					if xid, ok := rs.X.(*ast.Ident); ok && p.ObjOf(xid) == p.Info.Defs[id] && pureTag(as.Rhs[0]) {
						rs.X = as.Rhs[0]
					}
				}
			}
		}
		list[i] = rs
		if p.synthRange == nil {
			p.synthRange = map[*ast.RangeStmt]bool{}
		}
		p.synthRange[rs] = true
		n++
	}
	return n
}

func (p *Prog) indexLoopAsRange(fs *ast.ForStmt, before []ast.Stmt) *ast.RangeStmt {
	init, ok := fs.Init.(*ast.AssignStmt)
	if !ok || init.Tok != token.DEFINE || len(init.Lhs) != 1 || len(init.Rhs) != 1 {
		return nil
	}
	iID, ok := init.Lhs[0].(*ast.Ident)
	if !ok {
		return nil
	}
	if bl, ok := init.Rhs[0].(*ast.BasicLit); !ok || bl.Value != "0" {
		return nil
	}
	iObj := p.Info.Defs[iID]
	if iObj == nil {
		return nil
	}
	cond, ok := fs.Cond.(*ast.BinaryExpr)
	if !ok || cond.Op != token.LSS {
		return nil
	}
	if c, ok := cond.X.(*ast.Ident); !ok || p.ObjOf(c) != iObj {
		return nil
	}
	// the bound: len(X), or a local set to len(X) by an earlier statement of the same list and not touched since
	lenArg := func(e ast.Expr) ast.Expr {
		call, ok := unparen(e).(*ast.CallExpr)
		if !ok || len(call.Args) != 1 || p.CalleeName(call) != "builtin.len" {
			return nil
		}
		return unparen(call.Args[0])
	}
	xExpr := lenArg(cond.Y)
	var boundObj types.Object
	if xExpr == nil {
		nID, ok := unparen(cond.Y).(*ast.Ident)
		if !ok {
			return nil
		}
		boundObj = p.ObjOf(nID)
		for j := len(before) - 1; j >= 0 && xExpr == nil; j-- {
			as, ok := before[j].(*ast.AssignStmt)
			if ok && as.Tok == token.DEFINE && len(as.Lhs) == 1 && len(as.Rhs) == 1 {
				if id, ok := as.Lhs[0].(*ast.Ident); ok && p.Info.Defs[id] == boundObj {
					xExpr = lenArg(as.Rhs[0])
					before = before[j+1:]
					break
				}
			}
		}
		if xExpr == nil {
			return nil
		}
	} else {
		before = nil
	}
	if !pureTag(xExpr) {
		return nil
	}
	if _, isSlice := p.TypeOf(xExpr).Underlying().(*types.Slice); !isSlice {
		return nil
	}
	var xObj types.Object // the slice variable when it is a plain local
	localX := false
	if xID, ok := xExpr.(*ast.Ident); ok {
		if v, ok := p.ObjOf(xID).(*types.Var); ok && !v.IsField() && v.Pkg() != nil && v.Parent() != v.Pkg().Scope() {
			xObj, localX = v, true
		}
	}
	xField := p.FieldOf(xExpr)
	if !localX && xField != nil {
		// a field chain of a local struct *value* (not reached through a pointer): only code that names the
		// local can change it, which the body scan below sees
		root := xExpr
		viaPointer := false
		for {
			sel, ok := unparen(root).(*ast.SelectorExpr)
			if !ok {
				break
			}
			if _, isPtr := p.TypeOf(sel.X).Underlying().(*types.Pointer); isPtr {
				viaPointer = true
			}
			root = sel.X
		}
		if rid, ok := unparen(root).(*ast.Ident); ok && !viaPointer {
			if v, ok := p.ObjOf(rid).(*types.Var); ok && !v.IsField() && v.Pkg() != nil && v.Parent() != v.Pkg().Scope() {
				xObj, localX = v, true
			}
		}
	}
	if !localX && xField == nil {
		return nil
	}
	post, ok := fs.Post.(*ast.IncDecStmt)
	if !ok || post.Tok != token.INC {
		return nil
	}
	if c, ok := post.X.(*ast.Ident); !ok || p.ObjOf(c) != iObj {
		return nil
	}
	// neither the index, the bound nor the slice is modified (in the body, or between the bound's definition and the loop)
	modified := false
	isVar := func(e ast.Expr) bool {
		e = unparen(e)
		if id, ok := e.(*ast.Ident); ok {
			o := p.ObjOf(id)
			return o == iObj || (xObj != nil && o == xObj) || (boundObj != nil && o == boundObj)
		}
		if xField != nil && p.FieldOf(e) == xField {
			return true
		}
		return false
	}
	check := func(n ast.Node) {
		ast.Inspect(n, func(y ast.Node) bool {
			switch z := y.(type) {
			case *ast.AssignStmt:
				for _, l := range z.Lhs {
					if isVar(l) {
						modified = true
					}
				}
			case *ast.IncDecStmt:
				if isVar(z.X) {
					modified = true
				}
			case *ast.UnaryExpr:
				if z.Op == token.AND && isVar(z.X) {
					modified = true
				}
			case *ast.RangeStmt:
				if (z.Key != nil && isVar(z.Key)) || (z.Value != nil && isVar(z.Value)) {
					modified = true
				}
			case *ast.CallExpr:
				if !localX {
					// a slice held in a field: a call into the analysed packages (or a dynamic call) could replace it
					o := p.Callee(z)
					if o == nil {
						if _, isConv := p.Info.Types[z.Fun]; !(isConv && p.Info.Types[z.Fun].IsType()) {
							if _, isBuiltin := typeutilCalleeBuiltin(p, z); !isBuiltin {
								modified = true
							}
						}
					} else if o.Pkg() != nil && strings.HasPrefix(o.Pkg().Path(), icePath) {
						modified = true
					} else if sig, ok := o.Type().(*types.Signature); ok && sig.Recv() != nil {
						if _, isIface := sig.Recv().Type().Underlying().(*types.Interface); isIface {
							modified = true
						}
					}
				}
			case *ast.GoStmt, *ast.DeferStmt:
				if !localX {
					modified = true
				}
			}
			return !modified
		})
	}
	check(fs.Body)
	for _, st := range before {
		check(st)
	}
	if modified {
		return nil
	}
	rs := &ast.RangeStmt{For: fs.For, Key: iID, Tok: token.DEFINE, TokPos: iID.End(), X: xExpr, Body: fs.Body}
	// x := xs[i] as the first statement is the range value
	if len(fs.Body.List) > 0 {
		if as, ok := fs.Body.List[0].(*ast.AssignStmt); ok && as.Tok == token.DEFINE && len(as.Lhs) == 1 && len(as.Rhs) == 1 {
			if v, ok := as.Lhs[0].(*ast.Ident); ok && v.Name != "_" {
				if ix, ok := as.Rhs[0].(*ast.IndexExpr); ok {
					bi, ok2 := ix.Index.(*ast.Ident)
					sameX := p.Canon(ix.X) == p.Canon(xExpr)
					if ok2 && sameX && p.ObjOf(bi) == iObj {
						rs.Value = v
						rs.Body = &ast.BlockStmt{Lbrace: fs.Body.Lbrace, List: fs.Body.List[1:], Rbrace: fs.Body.Rbrace}
					}
				}
			}
		}
	}
	return rs
}

// foldFieldRuns: a local struct declared empty and then filled field by field
// by the immediately following statements,
//
//	var x T            x := T{}          x := &T{}         x := new(T)
//	x.f = e1 ; x.g = e2 ; ...
//
// is the composite literal T{f: e1, g: e2} (evaluation order is the same, nothing can
// observe x between the statements because none of the e's mentions x).
func (p *Prog) foldFieldRuns(list []ast.Stmt) ([]ast.Stmt, int) {
	n := 0
	for i := 0; i < len(list); i++ {
		var xObj types.Object
		var lit *ast.CompositeLit
		var install func()
		switch st := list[i].(type) {
		case *ast.AssignStmt:
			if st.Tok != token.DEFINE || len(st.Lhs) != 1 || len(st.Rhs) != 1 {
				continue
			}
			id, ok := st.Lhs[0].(*ast.Ident)
			if !ok || p.Info.Defs[id] == nil {
				continue
			}
			xObj = p.Info.Defs[id]
			rhs := unparen(st.Rhs[0])
			if u, ok := rhs.(*ast.UnaryExpr); ok && u.Op == token.AND {
				rhs = unparen(u.X)
			}
			switch r := rhs.(type) {
			case *ast.CompositeLit:
				lit = r
			case *ast.CallExpr:
				if fid, ok := r.Fun.(*ast.Ident); ok && fid.Name == "new" && len(r.Args) == 1 {
					if _, isB := p.ObjOf(fid).(*types.Builtin); isB {
						nl := &ast.CompositeLit{Type: r.Args[0], Lbrace: r.Lparen, Rbrace: r.Rparen}
						un := &ast.UnaryExpr{OpPos: r.Pos(), Op: token.AND, X: nl}
						lit = nl
						stc := st
						ptrT := p.Info.Types[r]
						install = func() {
							p.Info.Types[nl] = types.TypeAndValue{Type: p.TypeOf(r.Args[0])}
							p.Info.Types[un] = types.TypeAndValue{Type: ptrT.Type}
							stc.Rhs[0] = un
						}
					}
				}
			}
		case *ast.DeclStmt:
			gd, ok := st.Decl.(*ast.GenDecl)
			if !ok || gd.Tok != token.VAR || len(gd.Specs) != 1 {
				continue
			}
			vs := gd.Specs[0].(*ast.ValueSpec)
			if len(vs.Names) != 1 || len(vs.Values) != 0 || vs.Type == nil || p.Info.Defs[vs.Names[0]] == nil {
				continue
			}
			xObj = p.Info.Defs[vs.Names[0]]
			nl := &ast.CompositeLit{Type: vs.Type, Lbrace: vs.Type.End(), Rbrace: vs.Type.End()}
			lit = nl
			idx := i
			install = func() {
				p.Info.Types[nl] = types.TypeAndValue{Type: xObj.Type()}
				list[idx] = &ast.AssignStmt{Lhs: []ast.Expr{vs.Names[0]}, TokPos: vs.Names[0].End(), Tok: token.DEFINE, Rhs: []ast.Expr{nl}}
			}
		}
		if lit == nil || xObj == nil {
			continue
		}
		st, ok := Deref0(xObj.Type()).Underlying().(*types.Struct)
		if !ok {
			continue
		}
		set := map[string]bool{}
		keyed := true
		for _, e := range lit.Elts {
			kv, ok := e.(*ast.KeyValueExpr)
			if !ok {
				keyed = false
				break
			}
			if k, ok := kv.Key.(*ast.Ident); ok {
				set[k.Name] = true
			}
		}
		if !keyed {
			continue
		}
		var elts []ast.Expr
		j := i + 1
		for ; j < len(list); j++ {
			as, ok := list[j].(*ast.AssignStmt)
			if !ok || as.Tok != token.ASSIGN || len(as.Lhs) != 1 || len(as.Rhs) != 1 {
				break
			}
			sel, ok := as.Lhs[0].(*ast.SelectorExpr)
			if !ok {
				break
			}
			xid, ok := sel.X.(*ast.Ident)
			if !ok || p.ObjOf(xid) != xObj {
				break
			}
			s := p.Info.Selections[sel]
			if s == nil || s.Kind() != types.FieldVal || len(s.Index()) != 1 || set[sel.Sel.Name] {
				break
			}
			if s.Index()[0] >= st.NumFields() {
				break
			}
			mentions := false
			ast.Inspect(as.Rhs[0], func(x ast.Node) bool {
				if id, ok := x.(*ast.Ident); ok && p.ObjOf(id) == xObj {
					mentions = true
				}
				return !mentions
			})
			if mentions {
				break
			}
			set[sel.Sel.Name] = true
			elts = append(elts, &ast.KeyValueExpr{Key: sel.Sel, Colon: as.TokPos, Value: as.Rhs[0]})
		}
		if len(elts) == 0 {
			continue
		}
		if install != nil {
			install()
		}
		lit.Elts = append(lit.Elts, elts...)
		if end := elts[len(elts)-1].End(); end > lit.Rbrace {
			lit.Rbrace = end
		}
		list = append(list[:i+1], list[j:]...)
		n++
	}
	return list, n
}

// Deref0 strips one pointer level.
func Deref0(t types.Type) types.Type {
	if pt, ok := t.Underlying().(*types.Pointer); ok {
		return pt.Elem()
	}
	return t
}

// keyStructLits: an unkeyed struct literal T{a, b} is T{f0: a, f1: b}.
func (p *Prog) keyStructLits(f *ast.File) int {
	n := 0
	ast.Inspect(f, func(x ast.Node) bool {
		cl, ok := x.(*ast.CompositeLit)
		if !ok || len(cl.Elts) == 0 {
			return true
		}
		t := p.TypeOf(cl)
		if t == nil {
			return true
		}
		st, ok := Deref0(t).Underlying().(*types.Struct)
		if !ok || len(cl.Elts) != st.NumFields() {
			return true
		}
		if _, keyed := cl.Elts[0].(*ast.KeyValueExpr); keyed {
			return true
		}
		for i, e := range cl.Elts {
			k := &ast.Ident{NamePos: e.Pos(), Name: st.Field(i).Name()}
			p.Info.Uses[k] = st.Field(i)
			cl.Elts[i] = &ast.KeyValueExpr{Key: k, Colon: e.Pos(), Value: e}
		}
		n++
		return true
	})
	return n
}

// LitField: the value given to the named field in a struct literal (after
// normalisation all struct literals are keyed); nil when the field is left zero.
func (p *Prog) LitField(cl *ast.CompositeLit, field string) ast.Expr {
	for _, e := range cl.Elts {
		if kv, ok := e.(*ast.KeyValueExpr); ok {
			if k, ok := kv.Key.(*ast.Ident); ok && k.Name == field {
				return kv.Value
			}
		}
	}
	return nil
}

// LitOf: e, possibly through once-defined locals and a leading &, as a composite literal.
func (p *Prog) LitOf(f *Func, e ast.Expr) *ast.CompositeLit {
	e = unparen(p.Deref(f, e))
	if u, ok := e.(*ast.UnaryExpr); ok && u.Op == token.AND {
		e = unparen(u.X)
	}
	cl, _ := e.(*ast.CompositeLit)
	return cl
}
