package main

// AST normalisation applied once after loading, before any rule runs. It maps
// spellings of one construct to the form the engines are written for, so that
// a behaviour-preserving change of spelling does not change a verdict:
//
//   * the index-loop idiom over an unmodified local slice,
//       for i := 0; i < len(xs); i++ { x := xs[i]; ... }
//     becomes  for i, x := range xs { ... }  (in memory only); when xs is a
//     snapshot taken by the immediately preceding statement (xs := E with E a
//     side-effect-free expression) the loop ranges over E itself.
//
// The rewrite is applied only where the two forms are equivalent: the index
// and the slice variable are not assigned, incremented or address-taken in the
// body, and the slice variable is a local.

import (
	"go/ast"
	"go/token"
	"go/types"
)

func (p *Prog) normalizeAST() int {
	n := 0
	for f := range p.Files {
		ast.Inspect(f, func(x ast.Node) bool {
			switch b := x.(type) {
			case *ast.BlockStmt:
				n += p.normalizeList(b.List)
			case *ast.CaseClause:
				n += p.normalizeList(b.Body)
			case *ast.CommClause:
				n += p.normalizeList(b.Body)
			}
			return true
		})
	}
	return n
}

func (p *Prog) normalizeList(list []ast.Stmt) int {
	n := 0
	for i, st := range list {
		fs, ok := st.(*ast.ForStmt)
		if !ok {
			continue
		}
		rs := p.indexLoopAsRange(fs)
		if rs == nil {
			continue
		}
		// a snapshot taken by the immediately preceding statement
		if i > 0 {
			if as, ok := list[i-1].(*ast.AssignStmt); ok && as.Tok == token.DEFINE && len(as.Lhs) == 1 && len(as.Rhs) == 1 {
				if id, ok := as.Lhs[0].(*ast.Ident); ok && p.Info.Defs[id] != nil {
					if xid, ok := rs.X.(*ast.Ident); ok && p.ObjOf(xid) == p.Info.Defs[id] && pureTag(as.Rhs[0]) {
						rs.X = as.Rhs[0]
					}
				}
			}
		}
		list[i] = rs
		if p.synthRange == nil {
			p.synthRange = map[*ast.RangeStmt]bool{}
		}
		p.synthRange[rs] = true
		n++
	}
	return n
}

func (p *Prog) indexLoopAsRange(fs *ast.ForStmt) *ast.RangeStmt {
	init, ok := fs.Init.(*ast.AssignStmt)
	if !ok || init.Tok != token.DEFINE || len(init.Lhs) != 1 || len(init.Rhs) != 1 {
		return nil
	}
	iID, ok := init.Lhs[0].(*ast.Ident)
	if !ok {
		return nil
	}
	if bl, ok := init.Rhs[0].(*ast.BasicLit); !ok || bl.Value != "0" {
		return nil
	}
	iObj := p.Info.Defs[iID]
	if iObj == nil {
		return nil
	}
	cond, ok := fs.Cond.(*ast.BinaryExpr)
	if !ok || cond.Op != token.LSS {
		return nil
	}
	if c, ok := cond.X.(*ast.Ident); !ok || p.ObjOf(c) != iObj {
		return nil
	}
	call, ok := cond.Y.(*ast.CallExpr)
	if !ok || len(call.Args) != 1 || p.CalleeName(call) != "builtin.len" {
		return nil
	}
	xID, ok := call.Args[0].(*ast.Ident)
	if !ok {
		return nil
	}
	xObj, ok := p.ObjOf(xID).(*types.Var)
	if !ok || xObj.IsField() || xObj.Pkg() == nil || xObj.Parent() == xObj.Pkg().Scope() {
		return nil
	}
	if _, isSlice := xObj.Type().Underlying().(*types.Slice); !isSlice {
		return nil
	}
	post, ok := fs.Post.(*ast.IncDecStmt)
	if !ok || post.Tok != token.INC {
		return nil
	}
	if c, ok := post.X.(*ast.Ident); !ok || p.ObjOf(c) != iObj {
		return nil
	}
	// neither the index nor the slice variable is modified in the body
	modified := false
	ast.Inspect(fs.Body, func(y ast.Node) bool {
		isVar := func(e ast.Expr) bool {
			id, ok := unparen(e).(*ast.Ident)
			return ok && (p.ObjOf(id) == iObj || p.ObjOf(id) == types.Object(xObj))
		}
		switch z := y.(type) {
		case *ast.AssignStmt:
			for _, l := range z.Lhs {
				if isVar(l) {
					modified = true
				}
			}
		case *ast.IncDecStmt:
			if isVar(z.X) {
				modified = true
			}
		case *ast.UnaryExpr:
			if z.Op == token.AND && isVar(z.X) {
				modified = true
			}
		case *ast.RangeStmt:
			if (z.Key != nil && isVar(z.Key)) || (z.Value != nil && isVar(z.Value)) {
				modified = true
			}
		}
		return !modified
	})
	if modified {
		return nil
	}
	rs := &ast.RangeStmt{For: fs.For, Key: iID, Tok: token.DEFINE, TokPos: iID.End(), X: xID, Body: fs.Body}
	// x := xs[i] as the first statement is the range value
	if len(fs.Body.List) > 0 {
		if as, ok := fs.Body.List[0].(*ast.AssignStmt); ok && as.Tok == token.DEFINE && len(as.Lhs) == 1 && len(as.Rhs) == 1 {
			if v, ok := as.Lhs[0].(*ast.Ident); ok && v.Name != "_" {
				if ix, ok := as.Rhs[0].(*ast.IndexExpr); ok {
					bx, ok1 := ix.X.(*ast.Ident)
					bi, ok2 := ix.Index.(*ast.Ident)
					if ok1 && ok2 && p.ObjOf(bx) == types.Object(xObj) && p.ObjOf(bi) == iObj {
						rs.Value = v
						rs.Body = &ast.BlockStmt{Lbrace: fs.Body.Lbrace, List: fs.Body.List[1:], Rbrace: fs.Body.Rbrace}
					}
				}
			}
		}
	}
	return rs
}
