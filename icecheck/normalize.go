package main

// AST normalisation applied once after loading, before any rule runs. It maps
// spellings of one construct to the form the engines are written for, so that
// a behaviour-preserving change of spelling does not change a verdict:
//
//   * "for { if C { break }; rest }" becomes "for !C { rest }";
//   * the index-loop idiom over an unmodified slice (a local, or a field that nothing in the body can replace),
//       for i := 0; i < len(xs); i++ { x := xs[i]; ... }
//     becomes  for i, x := range xs { ... }  (in memory only); when xs is a
//     snapshot taken by the immediately preceding statement (xs := E with E a
//     side-effect-free expression) the loop ranges over E itself.
//
// The rewrite is applied only where the two forms are equivalent: the index
// and the slice variable are not assigned, incremented or address-taken in the
// body, and the slice variable is a local.

import (
	"go/ast"
	"go/constant"
	"go/token"
	"go/types"
	"strings"
)

func (p *Prog) normalizeAST() int {
	n := p.referenceParamOrder()
	for f := range p.Files {
		n += p.keyStructLits(f)
		n += p.explicitReturns(f)
		ast.Inspect(f, func(x ast.Node) bool {
			switch b := x.(type) {
			case *ast.BlockStmt:
				var k, k2 int
				b.List, k2 = p.spliceClosures(b.List, b)
				b.List, k = p.foldFieldRuns(b.List)
				n += k + k2 + p.normalizeList(b.List)
			case *ast.CaseClause:
				var k, k2 int
				b.Body, k2 = p.spliceClosures(b.Body, b)
				b.Body, k = p.foldFieldRuns(b.Body)
				n += k + k2 + p.normalizeList(b.Body)
			case *ast.CommClause:
				var k, k2 int
				b.Body, k2 = p.spliceClosures(b.Body, b)
				b.Body, k = p.foldFieldRuns(b.Body)
				n += k + k2 + p.normalizeList(b.Body)
			}
			return true
		})
	}
	return n
}

// loopWithLeadingBreak: "for { if C { break }; rest }" is "for !C { rest }".
func (p *Prog) loopWithLeadingBreak(fs *ast.ForStmt) bool {
	if fs.Init != nil || fs.Cond != nil || fs.Post != nil || len(fs.Body.List) == 0 {
		return false
	}
	is, ok := fs.Body.List[0].(*ast.IfStmt)
	if !ok || is.Init != nil || is.Else != nil || len(is.Body.List) != 1 {
		return false
	}
	br, ok := is.Body.List[0].(*ast.BranchStmt)
	if !ok || br.Tok != token.BREAK || br.Label != nil {
		return false
	}
	boolT := types.TypeAndValue{Type: types.Typ[types.Bool]}
	var cond ast.Expr
	switch c := unparen(is.Cond).(type) {
	case *ast.UnaryExpr:
		if c.Op == token.NOT {
			cond = c.X
		}
	case *ast.BinaryExpr:
		flip := map[token.Token]token.Token{token.LSS: token.GEQ, token.GEQ: token.LSS, token.GTR: token.LEQ, token.LEQ: token.GTR, token.EQL: token.NEQ, token.NEQ: token.EQL}
		if op, ok := flip[c.Op]; ok {
			nb := &ast.BinaryExpr{X: c.X, OpPos: c.OpPos, Op: op, Y: c.Y}
			p.Info.Types[nb] = boolT
			cond = nb
		}
	}
	if cond == nil {
		nu := &ast.UnaryExpr{OpPos: is.Cond.Pos(), Op: token.NOT, X: is.Cond}
		p.Info.Types[nu] = boolT
		cond = nu
	}
	fs.Cond = cond
	fs.Body = &ast.BlockStmt{Lbrace: fs.Body.Lbrace, List: fs.Body.List[1:], Rbrace: fs.Body.Rbrace}
	return true
}

func (p *Prog) normalizeList(list []ast.Stmt) int {
	n := 0
	for i, st := range list {
		fs, ok := st.(*ast.ForStmt)
		if !ok {
			continue
		}
		if p.loopWithLeadingBreak(fs) {
			n++
		}
		rs := p.indexLoopAsRange(fs, list[:i])
		if rs == nil {
			continue
		}
		// a snapshot taken by the immediately preceding statement
		if i > 0 {
			if as, ok := list[i-1].(*ast.AssignStmt); ok && as.Tok == token.DEFINE && len(as.Lhs) == 1 && len(as.Rhs) == 1 {
				if id, ok := as.Lhs[0].(*ast.Ident); ok && p.Info.Defs[id] != nil {
					if xid, ok := rs.X.(*ast.Ident); ok && p.ObjOf(xid) == p.Info.Defs[id] && pureTag(as.Rhs[0]) {
						rs.X = as.Rhs[0]
					}
				}
			}
		}
		list[i] = rs
		if p.synthRange == nil {
			p.synthRange = map[*ast.RangeStmt]bool{}
		}
		p.synthRange[rs] = true
		n++
	}
	return n
}

func (p *Prog) indexLoopAsRange(fs *ast.ForStmt, before []ast.Stmt) *ast.RangeStmt {
	init, ok := fs.Init.(*ast.AssignStmt)
	if !ok || init.Tok != token.DEFINE || len(init.Lhs) != 1 || len(init.Rhs) != 1 {
		return nil
	}
	iID, ok := init.Lhs[0].(*ast.Ident)
	if !ok {
		return nil
	}
	if bl, ok := init.Rhs[0].(*ast.BasicLit); !ok || bl.Value != "0" {
		return nil
	}
	iObj := p.Info.Defs[iID]
	if iObj == nil {
		return nil
	}
	cond, ok := fs.Cond.(*ast.BinaryExpr)
	if !ok || cond.Op != token.LSS {
		return nil
	}
	if c, ok := cond.X.(*ast.Ident); !ok || p.ObjOf(c) != iObj {
		return nil
	}
	// the bound: len(X), or a local set to len(X) by an earlier statement of the same list and not touched since
	lenArg := func(e ast.Expr) ast.Expr {
		call, ok := unparen(e).(*ast.CallExpr)
		if !ok || len(call.Args) != 1 || p.CalleeName(call) != "builtin.len" {
			return nil
		}
		return unparen(call.Args[0])
	}
	xExpr := lenArg(cond.Y)
	var boundObj types.Object
	if xExpr == nil {
		nID, ok := unparen(cond.Y).(*ast.Ident)
		if !ok {
			return nil
		}
		boundObj = p.ObjOf(nID)
		for j := len(before) - 1; j >= 0 && xExpr == nil; j-- {
			as, ok := before[j].(*ast.AssignStmt)
			if ok && as.Tok == token.DEFINE && len(as.Lhs) == 1 && len(as.Rhs) == 1 {
				if id, ok := as.Lhs[0].(*ast.Ident); ok && p.Info.Defs[id] == boundObj {
					xExpr = lenArg(as.Rhs[0])
					before = before[j+1:]
					break
				}
			}
		}
		if xExpr == nil {
			return nil
		}
	} else {
		before = nil
	}
	if !pureTag(xExpr) {
		return nil
	}
	if _, isSlice := p.TypeOf(xExpr).Underlying().(*types.Slice); !isSlice {
		return nil
	}
	var xObj types.Object // the slice variable when it is a plain local
	localX := false
	if xID, ok := xExpr.(*ast.Ident); ok {
		if v, ok := p.ObjOf(xID).(*types.Var); ok && !v.IsField() && v.Pkg() != nil && v.Parent() != v.Pkg().Scope() {
			xObj, localX = v, true
		}
	}
	xField := p.FieldOf(xExpr)
	if !localX && xField != nil {
		// a field chain of a local struct *value* (not reached through a pointer): only code that names the
		// local can change it, which the body scan below sees
		root := xExpr
		viaPointer := false
		for {
			sel, ok := unparen(root).(*ast.SelectorExpr)
			if !ok {
				break
			}
			if _, isPtr := p.TypeOf(sel.X).Underlying().(*types.Pointer); isPtr {
				viaPointer = true
			}
			root = sel.X
		}
		if rid, ok := unparen(root).(*ast.Ident); ok && !viaPointer {
			if v, ok := p.ObjOf(rid).(*types.Var); ok && !v.IsField() && v.Pkg() != nil && v.Parent() != v.Pkg().Scope() {
				xObj, localX = v, true
			}
		}
	}
	if !localX && xField == nil {
		return nil
	}
	post, ok := fs.Post.(*ast.IncDecStmt)
	if !ok || post.Tok != token.INC {
		return nil
	}
	if c, ok := post.X.(*ast.Ident); !ok || p.ObjOf(c) != iObj {
		return nil
	}
	// neither the index, the bound nor the slice is modified (in the body, or between the bound's definition and the loop)
	modified := false
	isVar := func(e ast.Expr) bool {
		e = unparen(e)
		if id, ok := e.(*ast.Ident); ok {
			o := p.ObjOf(id)
			return o == iObj || (xObj != nil && o == xObj) || (boundObj != nil && o == boundObj)
		}
		if xField != nil && p.FieldOf(e) == xField {
			return true
		}
		return false
	}
	check := func(n ast.Node) {
		ast.Inspect(n, func(y ast.Node) bool {
			switch z := y.(type) {
			case *ast.AssignStmt:
				for _, l := range z.Lhs {
					if isVar(l) {
						modified = true
					}
				}
			case *ast.IncDecStmt:
				if isVar(z.X) {
					modified = true
				}
			case *ast.UnaryExpr:
				if z.Op == token.AND && isVar(z.X) {
					modified = true
				}
			case *ast.RangeStmt:
				if (z.Key != nil && isVar(z.Key)) || (z.Value != nil && isVar(z.Value)) {
					modified = true
				}
			case *ast.CallExpr:
				if !localX {
					// a slice held in a field: a call into the analysed packages (or a dynamic call) could replace it
					o := p.Callee(z)
					if o == nil {
						if _, isConv := p.Info.Types[z.Fun]; !(isConv && p.Info.Types[z.Fun].IsType()) {
							if _, isBuiltin := typeutilCalleeBuiltin(p, z); !isBuiltin {
								modified = true
							}
						}
					} else if o.Pkg() != nil && strings.HasPrefix(o.Pkg().Path(), icePath) {
						modified = true
					} else if sig, ok := o.Type().(*types.Signature); ok && sig.Recv() != nil {
						if _, isIface := sig.Recv().Type().Underlying().(*types.Interface); isIface {
							modified = true
						}
					}
				}
			case *ast.GoStmt, *ast.DeferStmt:
				if !localX {
					modified = true
				}
			}
			return !modified
		})
	}
	check(fs.Body)
	for _, st := range before {
		check(st)
	}
	if modified {
		return nil
	}
	rs := &ast.RangeStmt{For: fs.For, Key: iID, Tok: token.DEFINE, TokPos: iID.End(), X: xExpr, Body: fs.Body}
	// x := xs[i] as the first statement is the range value
	if len(fs.Body.List) > 0 {
		if as, ok := fs.Body.List[0].(*ast.AssignStmt); ok && as.Tok == token.DEFINE && len(as.Lhs) == 1 && len(as.Rhs) == 1 {
			if v, ok := as.Lhs[0].(*ast.Ident); ok && v.Name != "_" {
				if ix, ok := as.Rhs[0].(*ast.IndexExpr); ok {
					bi, ok2 := ix.Index.(*ast.Ident)
					sameX := p.Canon(ix.X) == p.Canon(xExpr)
					if ok2 && sameX && p.ObjOf(bi) == iObj {
						rs.Value = v
						rs.Body = &ast.BlockStmt{Lbrace: fs.Body.Lbrace, List: fs.Body.List[1:], Rbrace: fs.Body.Rbrace}
					}
				}
			}
		}
	}
	return rs
}

// foldFieldRuns: a local struct declared empty and then filled field by field
// by the immediately following statements,
//
//	var x T            x := T{}          x := &T{}         x := new(T)
//	x.f = e1 ; x.g = e2 ; ...
//
// is the composite literal T{f: e1, g: e2} (evaluation order is the same, nothing can
// observe x between the statements because none of the e's mentions x).
func (p *Prog) foldFieldRuns(list []ast.Stmt) ([]ast.Stmt, int) {
	n := 0
	for i := 0; i < len(list); i++ {
		var xObj types.Object
		var lit *ast.CompositeLit
		var install func()
		switch st := list[i].(type) {
		case *ast.AssignStmt:
			if st.Tok != token.DEFINE || len(st.Lhs) != 1 || len(st.Rhs) != 1 {
				continue
			}
			id, ok := st.Lhs[0].(*ast.Ident)
			if !ok || p.Info.Defs[id] == nil {
				continue
			}
			xObj = p.Info.Defs[id]
			rhs := unparen(st.Rhs[0])
			if u, ok := rhs.(*ast.UnaryExpr); ok && u.Op == token.AND {
				rhs = unparen(u.X)
			}
			switch r := rhs.(type) {
			case *ast.CompositeLit:
				lit = r
			case *ast.CallExpr:
				if fid, ok := r.Fun.(*ast.Ident); ok && fid.Name == "new" && len(r.Args) == 1 {
					if _, isB := p.ObjOf(fid).(*types.Builtin); isB {
						nl := &ast.CompositeLit{Type: r.Args[0], Lbrace: r.Lparen, Rbrace: r.Rparen}
						un := &ast.UnaryExpr{OpPos: r.Pos(), Op: token.AND, X: nl}
						lit = nl
						stc := st
						ptrT := p.Info.Types[r]
						install = func() {
							p.Info.Types[nl] = types.TypeAndValue{Type: p.TypeOf(r.Args[0])}
							p.Info.Types[un] = types.TypeAndValue{Type: ptrT.Type}
							stc.Rhs[0] = un
						}
					}
				}
			}
		case *ast.DeclStmt:
			gd, ok := st.Decl.(*ast.GenDecl)
			if !ok || gd.Tok != token.VAR || len(gd.Specs) != 1 {
				continue
			}
			vs := gd.Specs[0].(*ast.ValueSpec)
			if len(vs.Names) != 1 || len(vs.Values) != 0 || vs.Type == nil || p.Info.Defs[vs.Names[0]] == nil {
				continue
			}
			xObj = p.Info.Defs[vs.Names[0]]
			nl := &ast.CompositeLit{Type: vs.Type, Lbrace: vs.Type.End(), Rbrace: vs.Type.End()}
			lit = nl
			idx := i
			install = func() {
				p.Info.Types[nl] = types.TypeAndValue{Type: xObj.Type()}
				list[idx] = &ast.AssignStmt{Lhs: []ast.Expr{vs.Names[0]}, TokPos: vs.Names[0].End(), Tok: token.DEFINE, Rhs: []ast.Expr{nl}}
			}
		}
		if lit == nil || xObj == nil {
			continue
		}
		st, ok := Deref0(xObj.Type()).Underlying().(*types.Struct)
		if !ok {
			continue
		}
		set := map[string]bool{}
		keyed := true
		for _, e := range lit.Elts {
			kv, ok := e.(*ast.KeyValueExpr)
			if !ok {
				keyed = false
				break
			}
			if k, ok := kv.Key.(*ast.Ident); ok {
				set[k.Name] = true
			}
		}
		if !keyed {
			continue
		}
		var elts []ast.Expr
		j := i + 1
		for ; j < len(list); j++ {
			as, ok := list[j].(*ast.AssignStmt)
			if !ok || as.Tok != token.ASSIGN || len(as.Lhs) != 1 || len(as.Rhs) != 1 {
				break
			}
			sel, ok := as.Lhs[0].(*ast.SelectorExpr)
			if !ok {
				break
			}
			xid, ok := sel.X.(*ast.Ident)
			if !ok || p.ObjOf(xid) != xObj {
				break
			}
			s := p.Info.Selections[sel]
			if s == nil || s.Kind() != types.FieldVal || len(s.Index()) != 1 || set[sel.Sel.Name] {
				break
			}
			if s.Index()[0] >= st.NumFields() {
				break
			}
			mentions := false
			ast.Inspect(as.Rhs[0], func(x ast.Node) bool {
				if id, ok := x.(*ast.Ident); ok && p.ObjOf(id) == xObj {
					mentions = true
				}
				return !mentions
			})
			if mentions {
				break
			}
			set[sel.Sel.Name] = true
			elts = append(elts, &ast.KeyValueExpr{Key: sel.Sel, Colon: as.TokPos, Value: as.Rhs[0]})
		}
		if len(elts) == 0 {
			continue
		}
		if install != nil {
			install()
		}
		lit.Elts = append(lit.Elts, elts...)
		if end := elts[len(elts)-1].End(); end > lit.Rbrace {
			lit.Rbrace = end
		}
		list = append(list[:i+1], list[j:]...)
		n++
	}
	return list, n
}

// Deref0 strips one pointer level.
func Deref0(t types.Type) types.Type {
	if pt, ok := t.Underlying().(*types.Pointer); ok {
		return pt.Elem()
	}
	return t
}

// keyStructLits: an unkeyed struct literal T{a, b} is T{f0: a, f1: b}.
func (p *Prog) keyStructLits(f *ast.File) int {
	n := 0
	ast.Inspect(f, func(x ast.Node) bool {
		cl, ok := x.(*ast.CompositeLit)
		if !ok || len(cl.Elts) == 0 {
			return true
		}
		t := p.TypeOf(cl)
		if t == nil {
			return true
		}
		st, ok := Deref0(t).Underlying().(*types.Struct)
		if !ok || len(cl.Elts) != st.NumFields() {
			return true
		}
		if _, keyed := cl.Elts[0].(*ast.KeyValueExpr); keyed {
			return true
		}
		for i, e := range cl.Elts {
			k := &ast.Ident{NamePos: e.Pos(), Name: st.Field(i).Name()}
			p.Info.Uses[k] = st.Field(i)
			cl.Elts[i] = &ast.KeyValueExpr{Key: k, Colon: e.Pos(), Value: e}
		}
		n++
		return true
	})
	return n
}

// LitField: the value given to the named field in a struct literal (after
// normalisation all struct literals are keyed); nil when the field is left zero.
func (p *Prog) LitField(cl *ast.CompositeLit, field string) ast.Expr {
	for _, e := range cl.Elts {
		if kv, ok := e.(*ast.KeyValueExpr); ok {
			if k, ok := kv.Key.(*ast.Ident); ok && k.Name == field {
				return kv.Value
			}
		}
	}
	return nil
}

// LitOf: e, possibly through once-defined locals and a leading &, as a composite literal.
func (p *Prog) LitOf(f *Func, e ast.Expr) *ast.CompositeLit {
	e = unparen(p.Deref(f, e))
	if u, ok := e.(*ast.UnaryExpr); ok && u.Op == token.AND {
		e = unparen(u.X)
	}
	cl, _ := e.(*ast.CompositeLit)
	return cl
}

// explicitReturns: in a function whose results are all named, a bare "return" is
// "return r1, r2, ..."; when the statements right before it only assign results
// ("ok = true; p = &v; return") the assigned values are what is returned ("return
// true, &v"), and a result that nothing assigns any more is its zero value. The
// folding is skipped in functions with a defer (which could observe the results).
func (p *Prog) explicitReturns(f *ast.File) int {
	n := 0
	fix := func(ft *ast.FuncType, body *ast.BlockStmt) {
		if ft == nil || body == nil || ft.Results == nil || len(ft.Results.List) == 0 {
			return
		}
		var objs []types.Object
		for _, fl := range ft.Results.List {
			if len(fl.Names) == 0 {
				return
			}
			for _, nm := range fl.Names {
				if nm.Name == "_" || p.Info.Defs[nm] == nil {
					return
				}
				objs = append(objs, p.Info.Defs[nm])
			}
		}
		idx := map[types.Object]int{}
		for i, o := range objs {
			idx[o] = i
		}
		hasDefer, bare := false, 0
		ast.Inspect(body, func(x ast.Node) bool {
			switch y := x.(type) {
			case *ast.FuncLit:
				return false
			case *ast.DeferStmt:
				hasDefer = true
			case *ast.ReturnStmt:
				if len(y.Results) == 0 {
					bare++
				}
			}
			return true
		})
		if bare == 0 {
			return
		}
		mentions := func(e ast.Expr, set map[types.Object]bool) bool {
			found := false
			ast.Inspect(e, func(x ast.Node) bool {
				if id, ok := x.(*ast.Ident); ok && set[p.ObjOf(id)] {
					found = true
				}
				return !found
			})
			return found
		}
		var doList func(list []ast.Stmt) []ast.Stmt
		var doStmt func(st ast.Stmt)
		doList = func(list []ast.Stmt) []ast.Stmt {
			for i := 0; i < len(list); i++ {
				rs, ok := list[i].(*ast.ReturnStmt)
				if !ok || len(rs.Results) != 0 {
					doStmt(list[i])
					continue
				}
				vals := make([]ast.Expr, len(objs))
				assigned := map[types.Object]bool{}
				j := i
				if !hasDefer {
					for j > 0 {
						as, ok := list[j-1].(*ast.AssignStmt)
						if !ok || as.Tok != token.ASSIGN || len(as.Lhs) != len(as.Rhs) {
							break
						}
						if len(as.Lhs) > 1 {
							// a parallel assignment of results only: r1, r2 = e1, e2 (no e mentions a result)
							okPar := true
							resSet := map[types.Object]bool{}
							for _, o := range objs {
								resSet[o] = true
							}
							seen := map[types.Object]bool{}
							for k, l := range as.Lhs {
								lid, isID := l.(*ast.Ident)
								if !isID {
									okPar = false
									break
								}
								o := p.ObjOf(lid)
								if _, isRes := idx[o]; !isRes || assigned[o] || seen[o] || mentions(as.Rhs[k], resSet) {
									okPar = false
									break
								}
								seen[o] = true
							}
							if !okPar {
								break
							}
							for k, l := range as.Lhs {
								o := p.ObjOf(l.(*ast.Ident))
								assigned[o] = true
								vals[idx[o]] = as.Rhs[k]
							}
							j--
							continue
						}
						lid, ok := as.Lhs[0].(*ast.Ident)
						if !ok {
							break
						}
						o := p.ObjOf(lid)
						k, isRes := idx[o]
						if !isRes || assigned[o] || mentions(as.Rhs[0], assigned) {
							break
						}
						// a later value of the run must not depend on this result either
						dep := false
						for _, v := range vals {
							if v != nil && mentions(v, map[types.Object]bool{o: true}) {
								dep = true
							}
						}
						if dep {
							break
						}
						assigned[o] = true
						vals[k] = as.Rhs[0]
						j--
					}
				}
				for k, o := range objs {
					if vals[k] == nil {
						id := &ast.Ident{NamePos: rs.Return, Name: o.Name()}
						p.Info.Uses[id] = o
						p.Info.Types[id] = types.TypeAndValue{Type: o.Type()}
						if p.synthIdent == nil {
							p.synthIdent = map[*ast.Ident]bool{}
						}
						p.synthIdent[id] = true
						vals[k] = id
					}
				}
				rs.Results = vals
				n++
				if j < i {
					// the statement now starts where the folded assignments started, so that positions inside
					// the moved expressions still lie within it
					rs.Return = list[j].Pos()
					list = append(list[:j], list[i:]...)
					i = j
				}
			}
			return list
		}
		doStmt = func(st ast.Stmt) {
			switch y := st.(type) {
			case *ast.BlockStmt:
				y.List = doList(y.List)
			case *ast.IfStmt:
				doStmt(y.Body)
				if y.Else != nil {
					doStmt(y.Else)
				}
			case *ast.ForStmt:
				doStmt(y.Body)
			case *ast.RangeStmt:
				doStmt(y.Body)
			case *ast.SwitchStmt:
				doStmt(y.Body)
			case *ast.TypeSwitchStmt:
				doStmt(y.Body)
			case *ast.SelectStmt:
				doStmt(y.Body)
			case *ast.CaseClause:
				y.Body = doList(y.Body)
			case *ast.CommClause:
				y.Body = doList(y.Body)
			case *ast.LabeledStmt:
				doStmt(y.Stmt)
			}
		}
		body.List = doList(body.List)
		// results that nothing assigns (any more): their zero value
		for _, o := range objs {
			touched := false
			ast.Inspect(body, func(x ast.Node) bool {
				switch y := x.(type) {
				case *ast.AssignStmt:
					for _, l := range y.Lhs {
						if id, ok := unparen(l).(*ast.Ident); ok && p.ObjOf(id) == o {
							touched = true
						}
					}
				case *ast.IncDecStmt:
					if id, ok := unparen(y.X).(*ast.Ident); ok && p.ObjOf(id) == o {
						touched = true
					}
				case *ast.UnaryExpr:
					if id, ok := unparen(y.X).(*ast.Ident); ok && y.Op == token.AND && p.ObjOf(id) == o {
						touched = true
					}
				case *ast.RangeStmt:
					for _, e := range []ast.Expr{y.Key, y.Value} {
						if id, ok := e.(*ast.Ident); ok && p.ObjOf(id) == o {
							touched = true
						}
					}
				}
				return true
			})
			if touched {
				continue
			}
			zero := p.zeroExpr(o.Type())
			if zero == nil {
				continue
			}
			ast.Inspect(body, func(x ast.Node) bool {
				if _, isLit := x.(*ast.FuncLit); isLit {
					return false
				}
				if rs, ok := x.(*ast.ReturnStmt); ok {
					for k, e := range rs.Results {
						if id, ok := e.(*ast.Ident); ok && p.ObjOf(id) == o {
							rs.Results[k] = p.zeroExpr(o.Type())
						}
					}
				}
				return true
			})
		}
	}
	ast.Inspect(f, func(x ast.Node) bool {
		switch y := x.(type) {
		case *ast.FuncDecl:
			fix(y.Type, y.Body)
		case *ast.FuncLit:
			fix(y.Type, y.Body)
		}
		return true
	})
	return n
}

// zeroExpr: the zero value of t as an expression (false, nil, 0, ""), nil for types without a literal zero.
func (p *Prog) zeroExpr(t types.Type) ast.Expr {
	switch u := t.Underlying().(type) {
	case *types.Basic:
		switch {
		case u.Info()&types.IsBoolean != 0:
			id := &ast.Ident{Name: "false"}
			p.Info.Uses[id] = types.Universe.Lookup("false")
			p.Info.Types[id] = types.TypeAndValue{Type: t, Value: constant.MakeBool(false)}
			return id
		case u.Info()&types.IsNumeric != 0:
			bl := &ast.BasicLit{Kind: token.INT, Value: "0"}
			p.Info.Types[bl] = types.TypeAndValue{Type: t, Value: constant.MakeInt64(0)}
			return bl
		case u.Info()&types.IsString != 0:
			bl := &ast.BasicLit{Kind: token.STRING, Value: `""`}
			p.Info.Types[bl] = types.TypeAndValue{Type: t, Value: constant.MakeString("")}
			return bl
		}
	case *types.Pointer, *types.Interface, *types.Slice, *types.Map, *types.Chan, *types.Signature:
		id := &ast.Ident{Name: "nil"}
		p.Info.Uses[id] = types.Universe.Lookup("nil")
		p.Info.Types[id] = types.TypeAndValue{Type: types.Typ[types.UntypedNil]}
		return id
	}
	return nil
}

// spliceClosures: a parameterless, resultless function literal that is called exactly
// once, synchronously, where the statement stands — "func() { S }()", or "f := func() {
// S }" / "var f = func() { S }" with the single use "f()" later in the same list — is the
// block { S }. Deferred calls of the literal's top level run at the end of the block
// (in reverse order), which is the same as long as S has no return (such literals are
// left alone). This is the shape of "withLock(func() { ... })" helpers after inlining
// and of critical sections wrapped in a local closure.
func (p *Prog) spliceClosures(list []ast.Stmt, scope ast.Node) ([]ast.Stmt, int) {
	n := 0
	asBlock := func(lit *ast.FuncLit) *ast.BlockStmt {
		if lit.Type.Params != nil && len(lit.Type.Params.List) > 0 {
			return nil
		}
		if lit.Type.Results != nil && len(lit.Type.Results.List) > 0 {
			return nil
		}
		ok := true
		ast.Inspect(lit.Body, func(x ast.Node) bool {
			switch y := x.(type) {
			case *ast.FuncLit:
				return false
			case *ast.ReturnStmt:
				ok = false
			case *ast.CallExpr:
				if id, isID := y.Fun.(*ast.Ident); isID && id.Name == "recover" {
					ok = false
				}
			case *ast.DeferStmt:
				top := false
				for _, st := range lit.Body.List {
					if st == ast.Stmt(y) {
						top = true
					}
				}
				if !top {
					ok = false
				}
			}
			return ok
		})
		if !ok {
			return nil
		}
		var body, tail []ast.Stmt
		for _, st := range lit.Body.List {
			if d, isD := st.(*ast.DeferStmt); isD {
				tail = append([]ast.Stmt{&ast.ExprStmt{X: d.Call}}, tail...)
				continue
			}
			body = append(body, st)
		}
		return &ast.BlockStmt{Lbrace: lit.Body.Lbrace, List: append(body, tail...), Rbrace: lit.Body.Rbrace}
	}
	uses := func(o types.Object) int {
		k := 0
		ast.Inspect(scope, func(x ast.Node) bool {
			if id, ok := x.(*ast.Ident); ok && p.Info.Uses[id] == o {
				k++
			}
			return true
		})
		return k
	}
	for i := 0; i < len(list); i++ {
		// func() { S }()
		if es, ok := list[i].(*ast.ExprStmt); ok {
			if c, ok := es.X.(*ast.CallExpr); ok && len(c.Args) == 0 {
				if lit, ok := unparen(c.Fun).(*ast.FuncLit); ok {
					if b := asBlock(lit); b != nil {
						list[i] = b
						n++
					}
				}
			}
			continue
		}
		// f := func() { S } ... f()
		var fobj types.Object
		var lit *ast.FuncLit
		switch st := list[i].(type) {
		case *ast.AssignStmt:
			if st.Tok == token.DEFINE && len(st.Lhs) == 1 && len(st.Rhs) == 1 {
				if id, ok := st.Lhs[0].(*ast.Ident); ok {
					if l, ok := unparen(st.Rhs[0]).(*ast.FuncLit); ok {
						fobj, lit = p.Info.Defs[id], l
					}
				}
			}
		case *ast.DeclStmt:
			if gd, ok := st.Decl.(*ast.GenDecl); ok && gd.Tok == token.VAR && len(gd.Specs) == 1 {
				if vs := gd.Specs[0].(*ast.ValueSpec); len(vs.Names) == 1 && len(vs.Values) == 1 {
					if l, ok := unparen(vs.Values[0]).(*ast.FuncLit); ok {
						fobj, lit = p.Info.Defs[vs.Names[0]], l
					}
				}
			}
		}
		if fobj == nil || lit == nil {
			continue
		}
		// the uses: one call statement in this list, plus "_ = f"
		callAt, blanks := -1, []int{}
		for j := i + 1; j < len(list); j++ {
			switch st := list[j].(type) {
			case *ast.ExprStmt:
				if c, ok := st.X.(*ast.CallExpr); ok && len(c.Args) == 0 {
					if id, ok := unparen(c.Fun).(*ast.Ident); ok && p.Info.Uses[id] == fobj && callAt < 0 {
						callAt = j
					}
				}
			case *ast.AssignStmt:
				if st.Tok == token.ASSIGN && len(st.Lhs) == 1 && len(st.Rhs) == 1 {
					if l, ok := st.Lhs[0].(*ast.Ident); ok && l.Name == "_" {
						if r, ok := unparen(st.Rhs[0]).(*ast.Ident); ok && p.Info.Uses[r] == fobj {
							blanks = append(blanks, j)
						}
					}
				}
			}
		}
		if callAt < 0 || uses(fobj) != 1+len(blanks) {
			continue
		}
		b := asBlock(lit)
		if b == nil {
			continue
		}
		list[callAt] = b
		drop := map[int]bool{i: true}
		for _, j := range blanks {
			drop[j] = true
		}
		var out []ast.Stmt
		for j, st := range list {
			if !drop[j] {
				out = append(out, st)
			}
		}
		list = out
		i--
		n++
	}
	// a list that consists of one such block is the block's statements
	if n > 0 && len(list) == 1 {
		if b, ok := list[0].(*ast.BlockStmt); ok {
			return b.List, n
		}
	}
	return list, n
}

// referenceParamOrder: a function of the reference tree whose parameters were reordered
// (and possibly renamed) is read with its parameters — and the arguments of every static
// call — in the reference order, so that rules which address a parameter or an argument
// by its position keep meaning the same value. A parameter is matched to its reference
// position by name and type, else by a type that only one unmatched parameter has;
// functions for which that does not give a permutation (parameters added, removed,
// merged into a struct, retyped) are left as they are.
func (p *Prog) referenceParamOrder() int {
	if len(refFuncParams) == 0 {
		return 0
	}
	n := 0
	perms := map[types.Object][]int{} // function object -> for each reference position, the current position
	for f, pk := range p.Files {
		for _, d := range f.Decls {
			fd, ok := d.(*ast.FuncDecl)
			if !ok || fd.Type.Params == nil {
				continue
			}
			name := p.pkgPrefix(pk)
			if fd.Recv != nil && len(fd.Recv.List) > 0 {
				name += recvTypeName(fd.Recv.List[0].Type) + "."
			}
			name += fd.Name.Name
			ref, ok := refFuncParams[name]
			if !ok {
				continue
			}
			cur := p.paramSpecs(fd)
			if len(cur) != len(ref) {
				continue
			}
			same := true
			for i := range cur {
				if cur[i] != ref[i] {
					same = false
				}
			}
			if same {
				continue
			}
			split := func(s string) (string, string) {
				i := strings.Index(s, " ")
				return s[:i], s[i+1:]
			}
			perm := make([]int, len(ref))
			used := make([]bool, len(cur))
			okAll := true
			for i := range perm {
				perm[i] = -1
			}
			// by name and type
			for i, r := range ref {
				rn, rt := split(r)
				for j, c := range cur {
					cn, ct := split(c)
					if !used[j] && cn == rn && ct == rt && rn != "_" {
						perm[i], used[j] = j, true
						break
					}
				}
			}
			// by a type that identifies one unmatched parameter
			for i, r := range ref {
				if perm[i] >= 0 {
					continue
				}
				_, rt := split(r)
				cand, cnt := -1, 0
				for j, c := range cur {
					if _, ct := split(c); !used[j] && ct == rt {
						cand = j
						cnt++
					}
				}
				refCnt := 0
				for i2, r2 := range ref {
					if _, rt2 := split(r2); perm[i2] < 0 && rt2 == rt {
						refCnt++
					}
				}
				if cnt != 1 || refCnt != 1 {
					okAll = false
					break
				}
				perm[i], used[cand] = cand, true
			}
			if !okAll {
				continue
			}
			identity := true
			for i, j := range perm {
				if i != j {
					identity = false
				}
			}
			if identity {
				continue // renamed only
			}
			// one field per parameter, in reference order
			var fields []*ast.Field
			for _, fl := range fd.Type.Params.List {
				if len(fl.Names) == 0 {
					fields = append(fields, fl)
				}
				for _, nm := range fl.Names {
					fields = append(fields, &ast.Field{Names: []*ast.Ident{nm}, Type: fl.Type})
				}
			}
			out := make([]*ast.Field, len(fields))
			for i, j := range perm {
				out[i] = fields[j]
			}
			fd.Type.Params.List = out
			if obj := p.Info.Defs[fd.Name]; obj != nil {
				perms[obj] = perm
			}
			n++
		}
	}
	if len(perms) == 0 {
		return 0
	}
	for f := range p.Files {
		ast.Inspect(f, func(x ast.Node) bool {
			c, ok := x.(*ast.CallExpr)
			if !ok {
				return true
			}
			var id *ast.Ident
			switch fn := unparen(c.Fun).(type) {
			case *ast.Ident:
				id = fn
			case *ast.SelectorExpr:
				id = fn.Sel
			}
			if id == nil {
				return true
			}
			perm, ok := perms[p.Info.Uses[id]]
			if !ok || len(c.Args) != len(perm) || c.Ellipsis.IsValid() {
				return true
			}
			args := make([]ast.Expr, len(perm))
			for i, j := range perm {
				args[i] = c.Args[j]
			}
			c.Args = args
			return true
		})
	}
	return n
}
