package main

// Small helpers shared by the per-property rule files.

import (
	"fmt"
	"go/ast"
	"go/token"
	"go/types"
	"sort"
	"strings"
)

// NodeCalls lists the calls evaluated by a CFG node (not inside closures).
func (p *Prog) NodeCalls(n ast.Node) []*ast.CallExpr {
	var out []*ast.CallExpr
	if n == nil {
		return nil
	}
	if ra, ok := n.(*RangeAssign); ok {
		_ = ra
		return nil
	}
	ast.Inspect(n, func(x ast.Node) bool {
		switch x := x.(type) {
		case *ast.FuncLit:
			return false
		case *ast.CallExpr:
			out = append(out, x)
		}
		return true
	})
	return out
}

// ConvTarget returns the qualified type name when call is a conversion T(x).
func (p *Prog) ConvTarget(call *ast.CallExpr) string {
	if tv, ok := p.Info.Types[call.Fun]; ok && tv.IsType() {
		if n := namedOf(tv.Type); n != nil && n.Obj().Pkg() != nil {
			return shortPkg(n.Obj().Pkg().Path()) + "." + n.Obj().Name()
		}
		return typeStr(tv.Type)
	}
	return ""
}

// MentionsConst reports whether n mentions the package-level object pkg.Name.
func (p *Prog) MentionsObj(n ast.Node, qual string) bool {
	found := false
	ast.Inspect(n, func(x ast.Node) bool {
		if id, ok := x.(*ast.Ident); ok {
			if o := p.ObjOf(id); o != nil && objQualName(o) == qual {
				found = true
			}
		}
		return !found
	})
	return found
}

// MentionsField reports whether n mentions the field "Struct.field".
func (p *Prog) MentionsField(n ast.Node, name string) bool {
	found := false
	ast.Inspect(n, func(x ast.Node) bool {
		if sel, ok := x.(*ast.SelectorExpr); ok && p.IsField(sel, name) {
			found = true
		}
		return !found
	})
	return found
}

// callEvents builds a TableEngine event function from callee name -> label.
func (p *Prog) callEvents(labels map[string]string) func(n ast.Node, env *TEnv) []string {
	return func(n ast.Node, _ *TEnv) []string {
		var out []string
		for _, c := range p.NodeCalls(n) {
			if l, ok := labels[p.CalleeName(c)]; ok {
				out = append(out, l)
			}
		}
		return out
	}
}

// ReachableNodesFrom lists the CFG nodes that may execute after loc
// (exclusive of loc itself).
func (g *CFG) NodesAfter(loc Loc) []ast.Node {
	var out []ast.Node
	for i := loc.I + 1; i < len(loc.B.Nodes); i++ {
		out = append(out, loc.B.Nodes[i])
	}
	var start []*Block
	for _, e := range loc.B.Succs {
		start = append(start, e.To)
	}
	reach := g.Reach(start, nil)
	for _, b := range g.Blocks {
		if reach[b] {
			// when the start block is in a loop it is reachable again
			out = append(out, b.Nodes...)
		}
	}
	return out
}

// Callers returns the call edges into f (synchronous or not).
func (p *Prog) Callers(f *Func) []*CallEdge {
	es := append([]*CallEdge{}, p.CG().In[f]...)
	sort.Slice(es, func(i, j int) bool {
		if es[i].Caller.Name != es[j].Caller.Name {
			return es[i].Caller.Name < es[j].Caller.Name
		}
		return es[i].Site.Pos() < es[j].Site.Pos()
	})
	return es
}

// FactsAtCall returns the must-facts before a call inside fn.
func (p *Prog) FactsAtCall(fn *Func, call ast.Node) (FactSet, bool) {
	return p.Facts(fn).AtNode(call)
}

// hasFieldEq: facts contain (field == const) with the given polarity, where
// the constant's identifier name is constName ("nil" for nil).
func (p *Prog) hasFieldEq(s FactSet, field, constName string, val bool) bool {
	return s.Has(func(f Fact) bool {
		if f.Op != "==" || f.Val != val {
			return false
		}
		return p.IsField(f.X, field) && p.constName(f.Y) == constName
	})
}

func (p *Prog) constName(e ast.Expr) string {
	e = unparen(e)
	if p.isNilExpr(e) {
		return "nil"
	}
	switch x := e.(type) {
	case *ast.Ident:
		if _, ok := p.ObjOf(x).(*types.Const); ok {
			return x.Name
		}
	case *ast.SelectorExpr:
		if _, ok := p.ObjOf(x.Sel).(*types.Const); ok {
			return x.Sel.Name
		}
	}
	if cv, ok := p.ConstVal(e); ok {
		return cv
	}
	return ""
}

// atomIsCall: the atom's expression is (a local defined by) a call to callee.
func (p *Prog) atomIsCall(f *Func, e ast.Expr, callee string) bool {
	c, _, ok := p.ResolveCall(f, e)
	return ok && p.CalleeName(c) == callee
}

// methodOnField: e is a call recv.f.M() where f is "Struct.field" and M the
// method name (e.g. Agent.isControlling, "Load").
func (p *Prog) isMethodOnField(e ast.Expr, field, method string) bool {
	c, ok := unparen(e).(*ast.CallExpr)
	if !ok {
		return false
	}
	sel, ok := unparen(c.Fun).(*ast.SelectorExpr)
	if !ok || sel.Sel.Name != method {
		return false
	}
	return p.IsField(sel.X, field)
}

func isNot(e ast.Expr) (ast.Expr, bool) {
	if u, ok := unparen(e).(*ast.UnaryExpr); ok && u.Op == token.NOT {
		return u.X, true
	}
	return nil, false
}

func short(s string, n int) string {
	s = strings.Join(strings.Fields(s), " ")
	if len(s) > n {
		return s[:n] + "…"
	}
	return s
}

// stores lists assignments in f (own body) whose LHS selects "Struct.field".
func (p *Prog) StoresTo(f *Func, field string) []ast.Node {
	var out []ast.Node
	walkBody(f, func(n ast.Node) bool {
		switch x := n.(type) {
		case *ast.AssignStmt:
			for _, l := range x.Lhs {
				for _, fv := range p.lhsFields(l) {
					if p.FieldName(fv) == field {
						out = append(out, x)
					}
				}
			}
		case *ast.IncDecStmt:
			for _, fv := range p.lhsFields(x.X) {
				if p.FieldName(fv) == field {
					out = append(out, x)
				}
			}
		case *ast.CallExpr:
			if m := p.Callee(x); m != nil && m.Pkg() != nil && isSyncPkg(m.Pkg().Path()) && syncWriteMethods[m.Name()] {
				if sel, ok := unparen(x.Fun).(*ast.SelectorExpr); ok && p.IsField(sel.X, field) {
					out = append(out, x)
				}
			}
			switch p.CalleeName(x) {
			case "builtin.delete", "builtin.clear":
				if len(x.Args) > 0 {
					for _, fv := range p.lhsFields(x.Args[0]) {
						if p.FieldName(fv) == field {
							out = append(out, x)
						}
					}
				}
			}
		}
		return true
	})
	return out
}

// WritersOf lists every function (incl. closures) that directly stores to field.
func (p *Prog) WritersOf(field string) map[*Func][]ast.Node {
	out := map[*Func][]ast.Node{}
	for _, f := range p.AllFuncs {
		if s := p.StoresTo(f, field); len(s) > 0 {
			out[f] = s
		}
	}
	return out
}

func funcNames(m map[*Func][]ast.Node) []string {
	var out []string
	for f := range m {
		out = append(out, f.Name)
	}
	sort.Strings(out)
	return out
}

func (p *Prog) atomIsCallAny(f *Func, e ast.Expr, callees ...string) bool {
	c, _, ok := p.ResolveCall(f, e)
	if !ok {
		return false
	}
	n := p.CalleeName(c)
	for _, x := range callees {
		if n == x {
			return true
		}
	}
	return false
}

// DominatingFacts: facts of the conditional edges structurally dominating n.
func (p *Prog) DominatingFacts(f *Func, n ast.Node) FactSet {
	g := p.CFG(f)
	loc, ok := g.Locate(n)
	if !ok {
		return nil
	}
	s := FactSet{}
	for _, e := range g.DominatingEdges(loc) {
		for _, ft := range p.FactsOfCond(e.Cond, e.Val) {
			s[ft.Key] = ft
		}
		for _, ft := range p.flagFacts(f, e.Cond, e.Val, 0, true) {
			if _, dup := s[ft.Key]; !dup {
				s[ft.Key] = ft
			}
		}
	}
	return s
}

// MustPrecede: every path from f's entry to target executes a node accepted
// by barrier first (must-pass-through on the CFG).
func (p *Prog) MustPrecede(f *Func, target ast.Node, barrier func(n ast.Node) bool) bool {
	g := p.CFG(f)
	loc, ok := g.Locate(target)
	if !ok {
		return false
	}
	for i := 0; i < loc.I; i++ {
		if barrier(loc.B.Nodes[i]) {
			return true
		}
	}
	if loc.B == g.Entry {
		return false
	}
	_, found := g.PathAvoiding(Loc{g.Entry, 0}, barrier, func(b *Block) bool { return b == loc.B }, nil)
	return !found
}

// nodeHasCall: n contains (outside nested literals) a call accepted by pred.
func (p *Prog) nodeHasCall(n ast.Node, pred func(c *ast.CallExpr) bool) bool {
	for _, c := range p.NodeCalls(n) {
		if pred(c) {
			return true
		}
	}
	return false
}

// DominatingFactList: like DominatingFacts but keeps one fact per dominating
// edge (re-used variables such as err yield several facts with the same text).
func (p *Prog) DominatingFactList(f *Func, n ast.Node) []Fact {
	return p.dominatingFactListDepth(f, n, 0)
}

func factListHas(fs []Fact, pred func(Fact) bool) bool {
	for _, f := range fs {
		if pred(f) {
			return true
		}
	}
	return false
}

// rereadWithoutSuccess: in f, a call accepted by isRead can be reached again
// (itself or another such call) from a read call over a route that never
// established "err == nil" for an error variable assigned by one of the read
// calls. Returns the offending first read, or nil.
func (p *Prog) rereadWithoutSuccess(f *Func, isRead func(c *ast.CallExpr) bool) *ast.CallExpr {
	g := p.CFG(f)
	var reads []*ast.CallExpr
	errObjs := map[types.Object]bool{}
	walkBody(f, func(n ast.Node) bool {
		if c, ok := n.(*ast.CallExpr); ok && isRead(c) {
			reads = append(reads, c)
		}
		if as, ok := n.(*ast.AssignStmt); ok && len(as.Rhs) == 1 {
			if c, ok := unparen(as.Rhs[0]).(*ast.CallExpr); ok && isRead(c) {
				for _, l := range as.Lhs {
					if id, ok := unparen(l).(*ast.Ident); ok && id.Name != "_" && isErrType(p.TypeOf(id)) {
						errObjs[p.ObjOf(id)] = true
					}
				}
			}
		}
		return true
	})
	okEdge := func(e *Edge) bool {
		for _, ft := range p.FactsOfCond(e.Cond, e.Val) {
			if ft.Op == "==" && ft.Val && p.isNilExpr(ft.Y) {
				if id, ok := unparen(ft.X).(*ast.Ident); ok && errObjs[p.ObjOf(id)] {
					return false
				}
			}
		}
		return true
	}
	readBlocks := map[*Block]bool{}
	locs := map[*ast.CallExpr]Loc{}
	for _, c := range reads {
		if loc, ok := g.Locate(c); ok {
			readBlocks[loc.B] = true
			locs[c] = loc
		}
	}
	for _, c := range reads {
		loc, ok := locs[c]
		if !ok {
			continue
		}
		// a second read later in the same block, before any test
		for i := loc.I + 1; i < len(loc.B.Nodes); i++ {
			if p.nodeHasCall(loc.B.Nodes[i], func(x *ast.CallExpr) bool { return isRead(x) && x != c }) {
				return c
			}
		}
		var starts []*Block
		for _, e := range loc.B.Succs {
			if okEdge(e) {
				starts = append(starts, e.To)
			}
		}
		reach := g.Reach(starts, okEdge)
		for b := range readBlocks {
			if reach[b] {
				return c
			}
		}
	}
	return nil
}

func isErrType(t types.Type) bool {
	return t != nil && types.Identical(t, types.Universe.Lookup("error").Type())
}

// cacheIncoherence: fields read by reader other than inputs (and other than
// sync-typed fields) that some function writing an input field does not write
// too: a memo of a value derived from inputs must be reset wherever an input
// changes. skip names constructors.
func (p *Prog) cacheIncoherence(reader *Func, inputs []string, skip func(f *Func) bool) []string {
	in := map[string]bool{}
	for _, n := range inputs {
		in[n] = true
	}
	var extra []*types.Var
	for fv := range p.Effects(reader).Reads {
		if in[p.FieldName(fv)] || p.isSyncType(fv.Type()) && !strings.Contains(typeStr(fv.Type()), "atomic.") {
			continue // mutexes, channels, wait groups are not cached values; atomics can be
		}
		if !in[p.FieldName(fv)] {
			extra = append(extra, fv)
		}
	}
	var out []string
	for _, x := range extra {
		for _, f := range p.AllFuncs {
			if f.Body == nil || (skip != nil && skip(f)) || f == reader {
				continue
			}
			eff := p.Effects(f)
			writesInput := false
			for fv := range eff.Writes {
				if in[p.FieldName(fv)] {
					writesInput = true
				}
			}
			if writesInput && !eff.Writes[x] {
				out = append(out, p.FieldName(x)+" (read by "+reader.Name+") is not reset by "+f.Name)
			}
		}
	}
	sort.Strings(out)
	return out
}

// iterationSkips: in f's range loop rs, some path through one iteration returns
// to the loop head (or leaves the function) without executing a node accepted
// by mustDo, other than over an edge accepted by allowedSkip.
func (p *Prog) iterationSkips(f *Func, rs *ast.RangeStmt, mustDo func(n ast.Node) bool, allowedSkip func(e *Edge) bool) bool {
	g := p.CFG(f)
	var ra ast.Node
	for _, b := range g.Blocks {
		for _, nd := range b.Nodes {
			if x, ok := nd.(*RangeAssign); ok && x.Stmt == rs {
				ra = x
			}
		}
	}
	if ra == nil {
		return true
	}
	loc, _ := g.Locate(ra)
	if len(loc.B.Preds) == 0 {
		return true
	}
	head := loc.B.Preds[0].From
	_, escapes := g.PathAvoiding(Loc{loc.B, loc.I + 1}, mustDo, func(b *Block) bool { return b == head || b == g.Exit }, func(e *Edge) bool {
		return allowedSkip == nil || !allowedSkip(e)
	})
	return escapes
}

// isFreshValue: make(T), make(T, 0), nil or an empty composite literal.
func (p *Prog) isFreshValue(e ast.Expr) bool {
	switch x := unparen(e).(type) {
	case *ast.CallExpr:
		if p.CalleeName(x) != "builtin.make" {
			return false
		}
		if len(x.Args) == 1 {
			return true
		}
		if len(x.Args) == 2 {
			c, _ := p.ConstVal(x.Args[1])
			return c == "0"
		}
	case *ast.CompositeLit:
		return len(x.Elts) == 0
	case *ast.Ident:
		return p.isNilExpr(x)
	}
	return false
}

// resetNode: n sets Struct.field to a fresh empty value, directly or by calling
// a function of the analysed packages all of whose normal paths do (helpers
// are followed to the given depth, so extracting the resets into a helper does
// not change the verdict).
func (p *Prog) resetNode(n ast.Node, fld string, depth int) bool {
	if as, ok := n.(*ast.AssignStmt); ok && len(as.Lhs) == len(as.Rhs) {
		for i, l := range as.Lhs {
			if p.IsField(l, fld) && p.isFreshValue(as.Rhs[i]) {
				return true
			}
		}
	}
	for _, c := range p.NodeCalls(n) {
		if p.CalleeName(c) == "builtin.clear" && len(c.Args) == 1 && p.IsField(c.Args[0], fld) {
			return true
		}
	}
	if depth <= 0 {
		return false
	}
	for _, c := range p.NodeCalls(n) {
		o := p.Callee(c)
		if o == nil {
			continue
		}
		if g := p.ByObj[o]; g != nil && g.Body != nil && p.resetsOnAllPaths(g, Loc{p.CFG(g).Entry, 0}, fld, depth-1) {
			return true
		}
	}
	return false
}

// resetsOnAllPaths: every path from loc to f's normal exit executes a resetNode for fld.
func (p *Prog) resetsOnAllPaths(f *Func, loc Loc, fld string, depth int) bool {
	g := p.CFG(f)
	if loc.B == g.Exit {
		return false
	}
	_, escapes := g.PathAvoiding(loc, func(n ast.Node) bool { return p.resetNode(n, fld, depth) }, func(b *Block) bool { return b == g.Exit }, nil)
	if escapes {
		return false
	}
	// PathAvoiding reports no path both when every path is blocked and when the start itself is blocked
	return true
}

// callOnAllPaths: every path from loc to f's normal exit calls a function accepted by pred,
// directly or through a callee all of whose paths do.
func (p *Prog) callOnAllPaths(f *Func, loc Loc, pred func(c *ast.CallExpr) bool, depth int) bool {
	g := p.CFG(f)
	if loc.B == g.Exit {
		return false
	}
	var hit func(n ast.Node, d int) bool
	hit = func(n ast.Node, d int) bool {
		for _, c := range p.NodeCalls(n) {
			if pred(c) {
				return true
			}
			if d <= 0 {
				continue
			}
			if o := p.Callee(c); o != nil {
				if h := p.ByObj[o]; h != nil && h.Body != nil && p.callOnAllPaths(h, Loc{p.CFG(h).Entry, 0}, pred, d-1) {
					return true
				}
			}
		}
		return false
	}
	_, escapes := g.PathAvoiding(loc, func(n ast.Node) bool { return hit(n, depth) }, func(b *Block) bool { return b == g.Exit }, nil)
	return !escapes
}

// branchStarts: the blocks entered by the conditional edges of f on which the fact accepted by pred holds.
func (p *Prog) branchStarts(f *Func, pred func(Fact) bool) []*Block {
	var out []*Block
	for _, b := range p.CFG(f).Blocks {
		for _, e := range b.Succs {
			if e.Cond == nil {
				continue
			}
			for _, ft := range p.FactsOfCond(e.Cond, e.Val) {
				if pred(ft) {
					out = append(out, e.To)
				}
			}
		}
	}
	return out
}

// TypeOfFunc: the signature of a declared function or literal.
func (p *Prog) TypeOfFunc(f *Func) (*types.Signature, bool) {
	if f.Obj != nil {
		sig, ok := f.Obj.Type().(*types.Signature)
		return sig, ok
	}
	if f.Lit != nil {
		sig, ok := p.TypeOf(f.Lit).(*types.Signature)
		return sig, ok
	}
	return nil, false
}

// enclosingIfFacts: the facts established by the if statements of root that
// enclose n (then-branch: the condition holds; else-branch: it does not). A
// condition that is a boolean local defined by a side-effect-free expression
// stands for that expression. Used for statements that are not CFG nodes
// themselves (break, continue).
func (p *Prog) enclosingIfFacts(f *Func, root ast.Node, n ast.Node) []Fact {
	var out []Fact
	var stack []ast.Node
	ast.Inspect(root, func(x ast.Node) bool {
		if x == nil {
			stack = stack[:len(stack)-1]
			return true
		}
		if _, isLit := x.(*ast.FuncLit); isLit {
			return false
		}
		stack = append(stack, x)
		if x == n {
			for i := len(stack) - 2; i >= 0; i-- {
				is, ok := stack[i].(*ast.IfStmt)
				if !ok {
					continue
				}
				cond := is.Cond
				if id, isID := unparen(cond).(*ast.Ident); isID {
					if o := p.ObjOf(id); o != nil {
						if d, okD := p.SingleDef(f, o); okD && d.Rhs != nil && pureBoolExpr(d.Rhs) {
							cond = d.Rhs
						}
					}
				}
				switch {
				case is.Body.Pos() <= n.Pos() && n.End() <= is.Body.End():
					out = append(out, p.factsOfExpr(cond, true)...)
				case is.Else != nil && is.Else.Pos() <= n.Pos() && n.End() <= is.Else.End():
					out = append(out, p.factsOfExpr(cond, false)...)
				}
			}
		}
		return true
	})
	return out
}

// flagFacts: a test of a flag variable carries the facts under which the flag
// was given that value.
//
//   - boolean flags: every assignment to the local is the constant true or
//     false; where the flag is known to be v, the facts common to all "flag = v"
//     sites hold;
//   - nil flags (error, pointer, interface, slice, map locals): every
//     assignment is either nil or an expression known to be non-nil at the
//     site (a dominating "expr != nil" fact, or an address / composite
//     literal); where the local is known to be (non-)nil, the facts common to
//     the sites of that class hold;
//   - a local defined once as a copy of another local stands for that local.
//
// Only facts that cannot have changed since are carried: facts over
// single-assignment locals, without fields or calls. This makes
// "ok := check(); if !ok { return }", "if err := step(); err != nil { return }"
// over an inlined helper, and the conditions tested in place equivalent.
func (p *Prog) flagFacts(f *Func, c *Cond, val bool, depth int, historical bool) []Fact {
	if c == nil || depth > 3 {
		return nil
	}
	var id *ast.Ident
	class := ""
	switch c.Op {
	case "truth":
		e := unparen(c.X)
		for {
			if u, ok := e.(*ast.UnaryExpr); ok && u.Op == token.NOT {
				e, val = unparen(u.X), !val
				continue
			}
			break
		}
		if be, ok := e.(*ast.BinaryExpr); ok && (be.Op == token.EQL || be.Op == token.NEQ) {
			// x == nil / x != nil written as a truth condition
			x, y := unparen(be.X), unparen(be.Y)
			if p.isNilExpr(x) {
				x, y = y, x
			}
			if xi, ok := x.(*ast.Ident); ok && p.isNilExpr(y) {
				id = xi
				if (be.Op == token.EQL) == val {
					class = "nil"
				} else {
					class = "nonnil"
				}
			}
			break
		}
		xi, ok := e.(*ast.Ident)
		if !ok {
			return nil
		}
		id = xi
		class = "false"
		if val {
			class = "true"
		}
	case "==":
		x, y := unparen(c.X), unparen(c.Y)
		if y == nil {
			return nil
		}
		if p.isNilExpr(x) {
			x, y = y, x
		}
		xi, ok := x.(*ast.Ident)
		if !ok || !p.isNilExpr(y) {
			return nil
		}
		id = xi
		class = "nonnil"
		if val {
			class = "nil"
		}
	default:
		return nil
	}
	if id == nil {
		return nil
	}
	v, ok := p.ObjOf(id).(*types.Var)
	if !ok {
		return nil
	}
	// the value tested is the one that reaches the test: a copy of another local stands for that local
	use := id
	var sibs []flagSibling
	for i := 0; i < 3; i++ {
		d, okD := p.reachingDef(f, use, v)
		if !okD || d.Rhs == nil {
			break
		}
		// "value, err = tmp0, tmp1": what is learnt about err's temporary says something about value's
		if as, isAs := d.Node.(*ast.AssignStmt); isAs && i == 0 && len(as.Lhs) == len(as.Rhs) && len(as.Lhs) > 1 {
			for j, l := range as.Lhs {
				lid, okL := unparen(l).(*ast.Ident)
				rid, okR := unparen(as.Rhs[j]).(*ast.Ident)
				if okL && okR && p.ObjOf(lid) != types.Object(v) && lid.Name != "_" {
					if w, isVar := p.ObjOf(rid).(*types.Var); isVar && !w.IsField() {
						sibs = append(sibs, flagSibling{lid, w})
					}
				}
			}
		}
		rid, isID := unparen(d.Rhs).(*ast.Ident)
		if !isID {
			break
		}
		w, isVar := p.ObjOf(rid).(*types.Var)
		if !isVar || w.IsField() || w.Pkg() == nil || w.Parent() == w.Pkg().Scope() {
			break
		}
		v, use = w, rid
	}
	return p.flagClassFacts(f, v, class, depth, map[types.Object]bool{}, historical, sibs)
}

// historical: the facts are reported as "this test was passed on the way here" (what the structural
// dominance queries mean); otherwise only facts that still hold (over single-assignment locals) are carried.
func (p *Prog) flagClassFacts(f *Func, v *types.Var, class string, depth int, seen map[types.Object]bool, historical bool, sibs []flagSibling) []Fact {
	if v == nil || seen[v] || v.IsField() || v.Pkg() == nil || v.Parent() == v.Pkg().Scope() || depth > 3 {
		return nil
	}
	seen[v] = true
	isBool := false
	if b, isB := v.Type().Underlying().(*types.Basic); isB && b.Kind() == types.Bool {
		isBool = true
	}
	if isBool != (class == "true" || class == "false") {
		return nil
	}
	if !isBool {
		switch v.Type().Underlying().(type) {
		case *types.Pointer, *types.Interface, *types.Slice, *types.Map, *types.Chan, *types.Signature:
		default:
			return nil
		}
	}
	root := f
	for root.Parent != nil {
		root = root.Parent
	}
	if root.Body == nil || v.Pos() < root.Body.Pos() {
		return nil // parameters and results are set by the caller
	}
	inlinerTemp := strings.HasPrefix(v.Name(), "inl") && strings.Contains(v.Name(), "_r")
	type site struct {
		n  ast.Node
		fn *Func
	}
	var sites []site
	var copies []*types.Var // the flag is a plain copy of these locals at its (single) definition
	nDefs := 0
	okAll := true
	classify := func(fn *Func, n ast.Node, rhs ast.Expr) {
		nDefs++
		rhs = unparen(rhs)
		got := ""
		if isBool {
			if cv, isC := p.ConstVal(rhs); isC {
				got = "false"
				if cv == "true" {
					got = "true"
				}
			}
		} else {
			switch x := rhs.(type) {
			case *ast.UnaryExpr:
				if x.Op == token.AND {
					got = "nonnil"
				}
			case *ast.CompositeLit:
				got = "nonnil"
			case *ast.CallExpr:
				if n := p.CalleeName(x); n == "fmt.Errorf" || n == "errors.New" {
					got = "nonnil"
				}
			}
			if p.isNilExpr(rhs) {
				got = "nil"
			}
			if got == "" && p.isSentinelError(rhs) {
				got = "nonnil"
			}
			if got == "" {
				// an expression known to be non-nil (or nil) where it is assigned
				for _, d := range p.dominatingFactListDepth(fn, n, depth+1) {
					if d.Op == "==" && d.Y != nil && p.isNilExpr(d.Y) && p.Canon(d.X) == p.Canon(rhs) {
						got = "nonnil"
						if d.Val {
							got = "nil"
						}
					}
				}
			}
		}
		if got == "" {
			if rid, isID := rhs.(*ast.Ident); isID {
				if w, isVar := p.ObjOf(rid).(*types.Var); isVar && !w.IsField() {
					copies = append(copies, w)
					return
				}
			}
			okAll = false
			return
		}
		if got == class {
			sites = append(sites, site{n, fn})
		}
	}
	var scan func(fn *Func)
	scan = func(fn *Func) {
		walkBody(fn, func(n ast.Node) bool {
			switch x := n.(type) {
			case *ast.AssignStmt:
				for i, l := range x.Lhs {
					lid, isID := unparen(l).(*ast.Ident)
					if !isID || p.ObjOf(lid) != types.Object(v) {
						continue
					}
					if len(x.Lhs) != len(x.Rhs) {
						okAll = false
						continue
					}
					classify(fn, x, x.Rhs[i])
				}
			case *ast.ValueSpec:
				for i, nm := range x.Names {
					if p.ObjOf(nm) != types.Object(v) {
						continue
					}
					if i < len(x.Values) {
						classify(fn, x, x.Values[i])
					} else if !inlinerTemp {
						// the zero value: false / nil, with no facts (it never reaches a test for an inliner temporary)
						nDefs++
						if class == "false" || class == "nil" {
							sites = append(sites, site{nil, fn})
						}
					}
				}
			case *ast.UnaryExpr:
				if x.Op == token.AND {
					if lid, isID := unparen(x.X).(*ast.Ident); isID && p.ObjOf(lid) == types.Object(v) {
						okAll = false
					}
				}
			case *ast.RangeStmt:
				for _, e := range []ast.Expr{x.Key, x.Value} {
					if e != nil {
						if lid, isID := unparen(e).(*ast.Ident); isID && p.ObjOf(lid) == types.Object(v) {
							okAll = false
						}
					}
				}
			}
			return true
		})
		for _, l := range fn.Lits {
			scan(l)
		}
	}
	scan(root)
	if !okAll {
		return nil
	}
	if len(copies) > 0 {
		// a plain copy: only if it is the flag's single definition
		if nDefs != 1 || len(copies) != 1 || len(sites) != 0 {
			return nil
		}
		return p.flagClassFacts(f, copies[0], class, depth+1, seen, historical, sibs)
	}
	if len(sites) == 0 {
		return nil
	}
	stable := func(ft Fact) bool {
		m := p.MentionsOf(ft.X, ft.Y)
		if len(m.Fields) > 0 || len(m.Calls) > 0 {
			return false
		}
		for o := range m.Vars {
			if o == types.Object(v) {
				return false
			}
			n := 0
			var cnt func(fn *Func)
			cnt = func(fn *Func) {
				n += len(p.DefsOf(fn, o))
				for _, l := range fn.Lits {
					cnt(l)
				}
			}
			cnt(root)
			isParam := o.Pos() < root.Body.Pos()
			if (isParam && n != 0) || (!isParam && n != 1) {
				return false
			}
		}
		return true
	}
	// variables set together with the flag ("tmp0, tmp1 = v, nil"): if they are nil / non-nil at every site of
	// this class, the variable that receives their value is, too
	var sibFacts []Fact
	for _, sb := range sibs {
		cls := ""
		okS := true
		for _, st := range sites {
			as, isAs := st.n.(*ast.AssignStmt)
			if !isAs || len(as.Lhs) != len(as.Rhs) {
				okS = false
				break
			}
			var rhs ast.Expr
			for k, l := range as.Lhs {
				if lid, okL := unparen(l).(*ast.Ident); okL && p.ObjOf(lid) == types.Object(sb.tmp) {
					rhs = unparen(as.Rhs[k])
				}
			}
			if rhs == nil {
				okS = false
				break
			}
			c := ""
			switch x := rhs.(type) {
			case *ast.UnaryExpr:
				if x.Op == token.AND {
					c = "nonnil"
				}
			case *ast.CompositeLit:
				c = "nonnil"
			}
			if p.isNilExpr(rhs) {
				c = "nil"
			}
			if c == "" && p.isSentinelError(rhs) {
				c = "nonnil"
			}
			if c == "" {
				for _, d := range p.dominatingFactListDepth(st.fn, st.n, depth+1) {
					if d.Op == "==" && d.Y != nil && p.isNilExpr(d.Y) && p.Canon(d.X) == p.Canon(rhs) {
						c = "nonnil"
						if d.Val {
							c = "nil"
						}
					}
				}
			}
			if c == "" || (cls != "" && cls != c) {
				okS = false
				break
			}
			cls = c
		}
		if okS && cls != "" {
			switch sb.lhs.Name {
			case "_":
			default:
				if _, isPtrLike := p.TypeOf(sb.lhs).Underlying().(*types.Basic); !isPtrLike {
					sibFacts = append(sibFacts, p.eqFact(sb.lhs, p.nilIdent(), cls == "nil"))
				}
			}
		}
	}
	var common map[string]Fact
	for _, s := range sites {
		cur := map[string]Fact{}
		if s.n != nil {
			for _, ft := range p.dominatingFactListDepth(s.fn, s.n, depth+1) {
				if (ft.Op == "==" || ft.Op == "truth" || ft.Op == "<") && (historical || stable(ft)) {
					cur[ft.Key+fmt.Sprint(ft.Val)] = ft
				}
			}
		}
		if common == nil {
			common = cur
			continue
		}
		for k := range common {
			if _, ok := cur[k]; !ok {
				delete(common, k)
			}
		}
	}
	var out []Fact
	var keys []string
	for k := range common {
		keys = append(keys, k)
	}
	sort.Strings(keys)
	for _, k := range keys {
		out = append(out, common[k])
	}
	out = append(out, sibFacts...)
	return out
}

// flagSibling: lhs receives the value of tmp in the parallel assignment that also defines the tested flag.
type flagSibling struct {
	lhs *ast.Ident
	tmp *types.Var
}

// nilIdent: a synthetic identifier denoting nil (for facts that are derived, not read from a condition).
func (p *Prog) nilIdent() *ast.Ident {
	if p.synthNil == nil {
		p.synthNil = &ast.Ident{Name: "nil"}
		p.Info.Uses[p.synthNil] = types.Universe.Lookup("nil")
	}
	return p.synthNil
}

func (p *Prog) dominatingFactListDepth(f *Func, n ast.Node, depth int) []Fact {
	g := p.CFG(f)
	loc, ok := g.Locate(n)
	if !ok {
		return nil
	}
	var out []Fact
	for _, e := range g.DominatingEdges(loc) {
		out = append(out, p.FactsOfCond(e.Cond, e.Val)...)
		out = append(out, p.flagFacts(f, e.Cond, e.Val, depth, true)...)
	}
	return out
}

// flagIsExactly: the boolean local tested by fact ft is true exactly when the
// facts flagFacts reports for it hold: every site that sets it to the other
// value is dominated by the negation of one of those facts. The zero value of
// a result temporary introduced by the helper inliner never reaches a test
// (every return of the inlined helper assigns it), so its declaration is not
// counted as a site.
func (p *Prog) flagIsExactly(f *Func, ft Fact) bool {
	if ft.Op != "truth" {
		return false
	}
	id, ok := unparen(ft.X).(*ast.Ident)
	if !ok {
		return false
	}
	v, ok := p.ObjOf(id).(*types.Var)
	if !ok {
		return false
	}
	implied := p.flagFacts(f, &Cond{Op: "truth", X: id}, ft.Val, 0, true)
	if len(implied) == 0 {
		return false
	}
	inlinerTemp := strings.HasPrefix(v.Name(), "inl") && strings.Contains(v.Name(), "_r")
	root := f
	for root.Parent != nil {
		root = root.Parent
	}
	okAll := true
	var scan func(fn *Func)
	scan = func(fn *Func) {
		walkBody(fn, func(n ast.Node) bool {
			var rhs ast.Expr
			switch x := n.(type) {
			case *ast.AssignStmt:
				for i, l := range x.Lhs {
					if lid, isID := unparen(l).(*ast.Ident); isID && p.ObjOf(lid) == types.Object(v) && len(x.Lhs) == len(x.Rhs) {
						rhs = x.Rhs[i]
					}
				}
			case *ast.ValueSpec:
				for i, nm := range x.Names {
					if p.ObjOf(nm) == types.Object(v) {
						if i < len(x.Values) {
							rhs = x.Values[i]
						} else if !inlinerTemp && ft.Val {
							okAll = false // the zero value (false) may reach the test
						}
					}
				}
			}
			if rhs == nil {
				return true
			}
			cv, isC := p.ConstVal(rhs)
			if !isC {
				okAll = false
				return true
			}
			if (cv == "true") == ft.Val {
				return true
			}
			// a site of the other value: must contradict one implied fact
			contradicts := false
			for _, d := range p.dominatingFactListDepth(fn, n, 1) {
				for _, im := range implied {
					if d.Key == im.Key && d.Val != im.Val {
						contradicts = true
					}
				}
			}
			if !contradicts {
				okAll = false
			}
			return true
		})
		for _, l := range fn.Lits {
			scan(l)
		}
	}
	scan(root)
	return okAll
}

// inspectThroughLocals: ast.Inspect over e in which a local variable defined
// exactly once stands for its defining expression (named intermediates are
// looked through, to a fixed depth).
func (p *Prog) inspectThroughLocals(f *Func, e ast.Node, visit func(n ast.Node) bool) {
	seen := map[types.Object]bool{}
	var rec func(n ast.Node, depth int)
	rec = func(n ast.Node, depth int) {
		ast.Inspect(n, func(x ast.Node) bool {
			if x == nil {
				return true
			}
			if !visit(x) {
				return false
			}
			if id, ok := x.(*ast.Ident); ok && depth < 6 {
				if v, isVar := p.ObjOf(id).(*types.Var); isVar && !v.IsField() && v.Pkg() != nil && v.Parent() != v.Pkg().Scope() && !seen[v] && f.Root().Body != nil && v.Pos() >= f.Root().Body.Pos() {
					if d, okD := p.SingleDef(f, v); okD && d.Rhs != nil {
						seen[v] = true
						rec(d.Rhs, depth+1)
					}
				}
			}
			return true
		})
	}
	rec(e, 0)
}

// Deref: e with local variables that are defined exactly once replaced, at the
// top, by their defining expression ("local, remote := pair.Local, pair.Remote";
// named intermediates do not hide what a value is).
func (p *Prog) Deref(f *Func, e ast.Expr) ast.Expr {
	for i := 0; i < 5; i++ {
		id, ok := unparen(e).(*ast.Ident)
		if !ok {
			break
		}
		v, isVar := p.ObjOf(id).(*types.Var)
		if !isVar || v.IsField() || v.Pkg() == nil || v.Parent() == v.Pkg().Scope() {
			break
		}
		if root := f.Root(); root.Body == nil || v.Pos() < root.Body.Pos() {
			break // a parameter: its first value comes from the caller
		}
		d, okD := p.SingleDef(f, v)
		if !okD || d.Rhs == nil || d.Index != 0 {
			break
		}
		if _, isCall := unparen(d.Rhs).(*ast.CallExpr); isCall && !isConversion(p, d.Rhs) {
			break
		}
		e = d.Rhs
	}
	return e
}

// isSentinelError: e names a package-level error variable (ErrClosed, io.EOF, ...). Such variables are
// initialised with errors.New / fmt.Errorf and never nil; assigning one makes an error local non-nil.
func (p *Prog) isSentinelError(e ast.Expr) bool {
	e = unparen(e)
	var id *ast.Ident
	switch x := e.(type) {
	case *ast.Ident:
		id = x
	case *ast.SelectorExpr:
		id = x.Sel
	default:
		return false
	}
	v, ok := p.ObjOf(id).(*types.Var)
	if !ok || v.IsField() || v.Pkg() == nil || v.Parent() != v.Pkg().Scope() {
		return false
	}
	return isErrType(v.Type())
}

// FieldValues: the values f gives to "Struct.field", whether as a keyed element of a
// composite literal or by assigning to a selector of that field (x.field = v,
// including through an alias such as b := &x.embedded; b.field = v).
func (p *Prog) FieldValues(f *Func, field string) []ast.Expr {
	var out []ast.Expr
	walkBody(f, func(n ast.Node) bool {
		switch x := n.(type) {
		case *ast.KeyValueExpr:
			if p.keyIsField(x.Key, field) {
				out = append(out, x.Value)
			}
		case *ast.AssignStmt:
			if len(x.Lhs) == len(x.Rhs) {
				for i, l := range x.Lhs {
					if sel, ok := unparen(l).(*ast.SelectorExpr); ok && p.IsField(sel, field) {
						out = append(out, x.Rhs[i])
					}
				}
			}
		}
		return true
	})
	return out
}

// isCloseOf: c closes a value, either by calling its Close method directly or through one of the
// logging wrappers (closeAndLogError(x)); returns the value closed.
func (p *Prog) isCloseOf(c *ast.CallExpr) (ast.Expr, bool) {
	nm := p.CalleeName(c)
	if strings.HasSuffix(nm, ".closeAndLogError") && len(c.Args) == 1 {
		return c.Args[0], true
	}
	if sel, ok := unparen(c.Fun).(*ast.SelectorExpr); ok && sel.Sel.Name == "Close" && len(c.Args) == 0 && strings.HasSuffix(nm, ".Close") {
		return sel.X, true
	}
	return nil, false
}

// calleeHasSuffix: the callee's name ends in one of the "|"-separated alternatives.
func calleeHasSuffix(name, alts string) bool {
	for _, a := range strings.Split(alts, "|") {
		if strings.HasSuffix(name, a) {
			return true
		}
	}
	return false
}

// argOfType: the argument of call that has the given type — passed directly, or as a field of a
// parameter struct built at (or before) the call site. nil when there is none or more than one.
func (p *Prog) argOfType(f *Func, call *ast.CallExpr, typ string) ast.Expr {
	var out []ast.Expr
	for _, a := range call.Args {
		if typeStr(p.TypeOf(a)) == typ {
			out = append(out, a)
			continue
		}
		if cl := p.LitOf(f, a); cl != nil {
			for _, e := range cl.Elts {
				if kv, ok := e.(*ast.KeyValueExpr); ok && typeStr(p.TypeOf(kv.Value)) == typ {
					out = append(out, kv.Value)
				}
			}
		}
	}
	if len(out) != 1 {
		return nil
	}
	return out[0]
}
